(* C14 — a resource is usable only by its single owner and is closed exactly once.
   Property theorems (statements pinned here; model in res/Own.v, proofs in res/OwnProofs.v).

   `run h` is the state of the environment's ownership automaton after handling the events h
   (one `Environment::handle_event` each; `ETerminate p` marks the moment p really terminates on its
   worker); `new_calls s e` are the EffectBackend calls made while handling e in state s.
   Every theorem quantifies over EVERY event sequence (every interleaving of every program).
   The classes KnownF10 / KnownF47 / KnownF49 are the confirmed defects of the code as it
   is (known_findings.json); each excluded statement comes with its `_refuted` witness, which is the
   trace of a real run. *)
From Coq Require Import List NArith Bool.
From Quiver Require Import res.Own res.OwnProofs.
Import ListNotations.
Open Scope N_scope.

(* ---- single owner ---- *)

Theorem C14_owner_map_is_function : forall h r p q,
  In (r, p) (owner (run h)) -> In (r, q) (owner (run h)) -> p = q.
Proof. exact owner_map_is_function. Qed.
Print Assumptions C14_owner_map_is_function.

(* after a send carrying r — at any depth below tuples and closures — the owner of an open
   (registered) resource is the recipient; an id that is not registered stays unregistered; nothing
   else changes *)
Theorem C14_single_owner_after_send : forall h sender target v r,
  (carries r v -> lookup r (owner (run h)) <> None ->
     lookup r (owner (run (h ++ [ESend sender target v]))) = Some target) /\
  (carries r v -> lookup r (owner (run h)) = None ->
     lookup r (owner (run (h ++ [ESend sender target v]))) = None) /\
  (~ carries r v -> lookup r (owner (run (h ++ [ESend sender target v]))) = lookup r (owner (run h))).
Proof. exact owner_after_send. Qed.
Print Assumptions C14_single_owner_after_send.

Theorem C14_single_owner_after_spawn : forall h caller vals r,
  ((exists v, In v vals /\ carries r v) -> lookup r (owner (run h)) <> None ->
     lookup r (owner (run (h ++ [ESpawn caller vals]))) = Some (next_pid (run h))) /\
  ((exists v, In v vals /\ carries r v) -> lookup r (owner (run h)) = None ->
     lookup r (owner (run (h ++ [ESpawn caller vals]))) = None) /\
  ((forall v, In v vals -> ~ carries r v) ->
     lookup r (owner (run (h ++ [ESpawn caller vals]))) = lookup r (owner (run h))).
Proof. exact owner_after_spawn. Qed.
Print Assumptions C14_single_owner_after_spawn.

Theorem C14_creator_is_first_owner : forall h p n r,
  lookup r (owner (run (h ++ [EEffect p (Open n) (ANow (Some (VRes r)))]))) = Some p /\
  lookup r (owner (run (h ++ [EComplete p (Some (VRes r))]))) = Some p.
Proof. exact creator_is_first_owner. Qed.
Print Assumptions C14_creator_is_first_owner.

(* the owner of r changes only by a transfer carrying r, by the backend creating r, or — to no
   owner — by the cleanup of a reported owner *)
Theorem C14_ownership_changes_only_by_transfer_creation_cleanup : forall h e r,
  lookup r (owner (run (h ++ [e]))) <> lookup r (owner (run h)) ->
  match lookup r (owner (run (h ++ [e]))) with
  | Some p => match e with
              | ESend _ t v => t = p /\ carries r v
              | ESpawn _ vals => next_pid (run h) = p /\ exists v, In v vals /\ carries r v
              | EEffect q _ _ | EComplete q _ => q = p /\ In r (issued_by e)
              | _ => False
              end
  | None => exists done o, e = EResults done /\ lookup r (owner (run h)) = Some o /\ In o done
  end.
Proof. exact ownership_changes_only_by. Qed.
Print Assumptions C14_ownership_changes_only_by_transfer_creation_cleanup.

(* ---- only the owner reaches the backend ---- *)

Theorem C14_non_owner_never_reaches_backend : forall h e p eff r o,
  In (CExec p eff) (new_calls (run h) e) -> resource_id eff = Some r ->
  lookup r (owner (run h)) = Some o -> o = p.
Proof. exact non_owner_never_reaches_backend. Qed.
Print Assumptions C14_non_owner_never_reaches_backend.

(* a request by a non-owner changes nothing and makes no backend call (the process gets an error
   completion: environment.rs report_effect_error) *)
Theorem C14_denied_request_is_inert : forall h p r n a o,
  lookup r (owner (run h)) = Some o -> o <> p ->
  run (h ++ [EEffect p (Op r n) a]) = run h /\ new_calls (run h) (EEffect p (Op r n) a) = [].
Proof. exact denied_request_is_inert. Qed.
Print Assumptions C14_denied_request_is_inert.

(* the statement without the `r in dom owner` side condition, outside F47 *)
Theorem C14_non_owner_never_reaches_backend_strong : forall h e p eff r,
  ~ KnownF47 (h ++ [e]) ->
  In (CExec p eff) (new_calls (run h) e) -> resource_id eff = Some r ->
  lookup r (owner (run h)) = Some p.
Proof. exact non_owner_never_reaches_backend_strong. Qed.
Print Assumptions C14_non_owner_never_reaches_backend_strong.

Theorem C14_non_owner_never_reaches_backend_unconditional_refuted :
  exists h e p eff r, reports_only_terminated (h ++ [e]) /\
    In (CExec p eff) (new_calls (run h) e) /\ resource_id eff = Some r /\
    lookup r (owner (run h)) <> Some p /\ KnownF47 (h ++ [e]).
Proof. exact non_owner_never_reaches_backend_unconditional_refuted. Qed.
Print Assumptions C14_non_owner_never_reaches_backend_unconditional_refuted.

(* ---- close_resource ---- *)

Theorem C14_close_only_in_cleanup_of_owner : forall h e r,
  In (CClose r) (new_calls (run h) e) ->
  exists done p, e = EResults done /\ In p done /\ lookup r (owner (run h)) = Some p.
Proof. exact close_only_in_cleanup_of_owner. Qed.
Print Assumptions C14_close_only_in_cleanup_of_owner.

Theorem C14_not_closed_while_owner_alive : forall h e r,
  reports_only_terminated (h ++ [e]) -> In (CClose r) (new_calls (run h) e) ->
  exists p, lookup r (owner (run h)) = Some p /\ In p (dead (run h)).
Proof. exact not_closed_while_owner_alive. Qed.
Print Assumptions C14_not_closed_while_owner_alive.

(* unconditional since the repair of F48 (a stale handle is not registered again); the only
   hypothesis is the backend's: it never hands out the same id twice *)
Theorem C14_closed_at_most_once : forall h,
  backend_fresh h -> NoDup (closes (log (run h))).
Proof. exact closed_at_most_once. Qed.
Print Assumptions C14_closed_at_most_once.

(* when the environment learns that p terminated, everything p owns is closed, and p owns nothing *)
Theorem C14_cleanup_closes_everything : forall h done p r,
  In p done -> lookup r (owner (run h)) = Some p ->
  In (CClose r) (new_calls (run h) (EResults done)) /\
  forall r', lookup r' (owner (run (h ++ [EResults done]))) <> Some p.
Proof. exact cleanup_closes_everything. Qed.
Print Assumptions C14_cleanup_closes_everything.

(* safety form of "every resource owned at termination is eventually closed": in ANY reachable
   state a terminated process owns nothing, outside F10 (never reported, or given the handle after
   a report) *)
Theorem C14_closed_after_termination : forall h p r,
  ~ KnownF10 h p r -> In p (dead (run h)) -> lookup r (owner (run h)) <> Some p.
Proof. exact closed_after_termination. Qed.
Print Assumptions C14_closed_after_termination.

Theorem C14_closed_after_termination_unconditional_refuted :
  exists h p r, reports_only_terminated h /\ backend_fresh h /\ quiescent (run h) /\
                In p (dead (run h)) /\ lookup r (owner (run h)) = Some p /\ KnownF10 h p r.
Proof. exact closed_after_termination_refuted. Qed.
Print Assumptions C14_closed_after_termination_unconditional_refuted.

(* ---- who may transfer (F49) ---- *)

Theorem C14_transfer_only_by_owner_refuted :
  exists h e q r o, initiates e q r /\ lookup r (owner (run h)) = Some o /\ o <> q /\
                    ~ In o (dead (run h)) /\ lookup r (owner (run (h ++ [e]))) <> Some o /\
                    KnownF49 (h ++ [e]).
Proof. exact transfer_only_by_owner_refuted. Qed.
Print Assumptions C14_transfer_only_by_owner_refuted.

(* outside F49 a resource leaves its owner only by the owner's own send/spawn, by the owner's
   cleanup, or by the backend issuing the same id again *)
Theorem C14_ownership_leaves_only_by_owner_action : forall h e r o,
  ~ KnownF49 (h ++ [e]) ->
  lookup r (owner (run h)) = Some o -> lookup r (owner (run (h ++ [e]))) <> Some o ->
  initiates e o r \/ (exists done, e = EResults done /\ In o done) \/ In r (issued_by e).
Proof. exact ownership_leaves_only_by_owner_action. Qed.
Print Assumptions C14_ownership_leaves_only_by_owner_action.

(* ---- the model's log is append-only (gives `new_calls` its meaning) ---- *)

Theorem C14_log_extends : forall h e, log (run (h ++ [e])) = log (run h) ++ new_calls (run h) e.
Proof. exact run_log_extends. Qed.
Print Assumptions C14_log_extends.

(* ---- non-vacuity: one history meets every hypothesis used above and exercises every handler ---- *)

Theorem C14_nonvacuity :
  reports_only_terminated good_history /\ backend_fresh good_history /\
  ~ KnownF47 good_history /\ ~ KnownF49 good_history /\
  ~ KnownF10 good_history 2 1 /\ In 2 (dead (run good_history)) /\
  closes (log (run good_history)) = [1] /\
  log (run good_history) = [CExec 0 (Open 1); CExec 1 (Op 1 0); CExec 2 (Op 1 0); CClose 1].
Proof. exact good_history_meets_all_hypotheses. Qed.
Print Assumptions C14_nonvacuity.
