(* C14 — a resource is usable only by its single owner and is closed exactly once.
   Property theorems (statements pinned here; model in res/Own.v, proofs in res/OwnProofs.v).

   `run h` is the state of the environment's ownership automaton after handling the events h
   (one `Environment::handle_event` each; `ETerminate p` marks the moment p really terminates on its
   worker; `EWatchReport p` is Event::ProcessTerminated, `EResults` Event::ProcessResults);
   `new_calls s e` are the EffectBackend calls made while handling e in state s.
   Every theorem quantifies over EVERY event sequence (every interleaving of every program).
   Since the repairs of F10 (every owner is watched), F48 (a stale handle is not registered again) and
   F49 (only the owner can give a resource away) the only excluded class is KnownF47 (an effect on an
   id absent from the map reaches the backend: known_findings.json), with its `_refuted` witness, the
   trace of a real run. *)
From Coq Require Import List NArith Bool.
From Quiver Require Import res.Own res.OwnProofs.
Import ListNotations.
Open Scope N_scope.

(* ---- single owner ---- *)

Theorem C14_owner_map_is_function : forall h r p q,
  In (r, p) (owner (run h)) -> In (r, q) (owner (run h)) -> p = q.
Proof. exact owner_map_is_function. Qed.
Print Assumptions C14_owner_map_is_function.

(* a send moves exactly the resources it carries — at any depth below tuples and closures — that the
   SENDER owns, to the recipient; a handle of somebody else's resource, or of an id that is not
   registered, moves nothing *)
Theorem C14_single_owner_after_send : forall h sender target v r,
  (carries r v -> lookup r (owner (run h)) = Some sender ->
     lookup r (owner (run (h ++ [ESend sender target v]))) = Some target) /\
  (lookup r (owner (run h)) <> Some sender ->
     lookup r (owner (run (h ++ [ESend sender target v]))) = lookup r (owner (run h))) /\
  (~ carries r v -> lookup r (owner (run (h ++ [ESend sender target v]))) = lookup r (owner (run h))).
Proof. exact owner_after_send. Qed.
Print Assumptions C14_single_owner_after_send.

Theorem C14_single_owner_after_spawn : forall h caller vals r,
  ((exists v, In v vals /\ carries r v) -> lookup r (owner (run h)) = Some caller ->
     lookup r (owner (run (h ++ [ESpawn caller vals]))) = Some (next_pid (run h))) /\
  (lookup r (owner (run h)) <> Some caller ->
     lookup r (owner (run (h ++ [ESpawn caller vals]))) = lookup r (owner (run h))) /\
  ((forall v, In v vals -> ~ carries r v) ->
     lookup r (owner (run (h ++ [ESpawn caller vals]))) = lookup r (owner (run h))).
Proof. exact owner_after_spawn. Qed.
Print Assumptions C14_single_owner_after_spawn.

Theorem C14_creator_is_first_owner : forall h p n r,
  lookup r (owner (run (h ++ [EEffect p (Open n) (ANow (Some (VRes r)))]))) = Some p /\
  lookup r (owner (run (h ++ [EComplete p (Some (VRes r))]))) = Some p.
Proof. exact creator_is_first_owner. Qed.
Print Assumptions C14_creator_is_first_owner.

(* the owner of r changes only by a transfer carrying r made by its owner, by the backend creating
   r, or — to no owner — by the cleanup of a reported owner *)
Theorem C14_ownership_changes_only_by_transfer_creation_cleanup : forall h e r,
  lookup r (owner (run (h ++ [e]))) <> lookup r (owner (run h)) ->
  match lookup r (owner (run (h ++ [e]))) with
  | Some p => match e with
              | ESend q t v => t = p /\ carries r v /\ lookup r (owner (run h)) = Some q
              | ESpawn q vals => next_pid (run h) = p /\ (exists v, In v vals /\ carries r v) /\
                                 lookup r (owner (run h)) = Some q
              | EEffect q _ _ | EComplete q _ => q = p /\ In r (issued_by e)
              | _ => False
              end
  | None => exists o, lookup r (owner (run h)) = Some o /\ In o (reported e)
  end.
Proof. exact ownership_changes_only_by. Qed.
Print Assumptions C14_ownership_changes_only_by_transfer_creation_cleanup.

(* F49 repaired: a resource leaves its owner only by the owner's own send/spawn, by the owner's
   cleanup, or by the backend issuing the same id again *)
Theorem C14_transfer_only_by_owner : forall h e r o,
  lookup r (owner (run h)) = Some o -> lookup r (owner (run (h ++ [e]))) <> Some o ->
  initiates e o r \/ In o (reported e) \/ In r (issued_by e).
Proof. exact transfer_only_by_owner. Qed.
Print Assumptions C14_transfer_only_by_owner.

(* ---- only the owner reaches the backend ---- *)

Theorem C14_non_owner_never_reaches_backend : forall h e p eff r o,
  In (CExec p eff) (new_calls (run h) e) -> resource_id eff = Some r ->
  lookup r (owner (run h)) = Some o -> o = p.
Proof. exact non_owner_never_reaches_backend. Qed.
Print Assumptions C14_non_owner_never_reaches_backend.

(* a request by a non-owner changes nothing and makes no backend call (the process gets an error
   completion: environment.rs report_effect_error) *)
Theorem C14_denied_request_is_inert : forall h p r n a o,
  lookup r (owner (run h)) = Some o -> o <> p ->
  run (h ++ [EEffect p (Op r n) a]) = run h /\ new_calls (run h) (EEffect p (Op r n) a) = [].
Proof. exact denied_request_is_inert. Qed.
Print Assumptions C14_denied_request_is_inert.

(* the statement without the `r in dom owner` side condition, outside F47 *)
Theorem C14_non_owner_never_reaches_backend_strong : forall h e p eff r,
  ~ KnownF47 (h ++ [e]) ->
  In (CExec p eff) (new_calls (run h) e) -> resource_id eff = Some r ->
  lookup r (owner (run h)) = Some p.
Proof. exact non_owner_never_reaches_backend_strong. Qed.
Print Assumptions C14_non_owner_never_reaches_backend_strong.

Theorem C14_non_owner_never_reaches_backend_unconditional_refuted :
  exists h e p eff r, reports_only_terminated (h ++ [e]) /\
    In (CExec p eff) (new_calls (run h) e) /\ resource_id eff = Some r /\
    lookup r (owner (run h)) <> Some p /\ KnownF47 (h ++ [e]).
Proof. exact non_owner_never_reaches_backend_unconditional_refuted. Qed.
Print Assumptions C14_non_owner_never_reaches_backend_unconditional_refuted.

(* ---- close_resource ---- *)

Theorem C14_close_only_in_cleanup_of_owner : forall h e r,
  In (CClose r) (new_calls (run h) e) ->
  exists p, In p (reported e) /\ lookup r (owner (run h)) = Some p.
Proof. exact close_only_in_cleanup_of_owner. Qed.
Print Assumptions C14_close_only_in_cleanup_of_owner.

Theorem C14_not_closed_while_owner_alive : forall h e r,
  reports_only_terminated (h ++ [e]) -> In (CClose r) (new_calls (run h) e) ->
  exists p, lookup r (owner (run h)) = Some p /\ In p (dead (run h)).
Proof. exact not_closed_while_owner_alive. Qed.
Print Assumptions C14_not_closed_while_owner_alive.

(* the only hypothesis is the backend's: it never hands out the same id twice *)
Theorem C14_closed_at_most_once : forall h,
  backend_fresh h -> NoDup (closes (log (run h))).
Proof. exact closed_at_most_once. Qed.
Print Assumptions C14_closed_at_most_once.

(* when the environment learns that p terminated (ProcessResults or ProcessTerminated), everything p
   owns is closed, and p owns nothing *)
Theorem C14_cleanup_closes_everything : forall h e p r,
  In p (reported e) -> lookup r (owner (run h)) = Some p ->
  In (CClose r) (new_calls (run h) e) /\
  forall r', lookup r' (owner (run (h ++ [e]))) <> Some p.
Proof. exact cleanup_closes_everything. Qed.
Print Assumptions C14_cleanup_closes_everything.

(* F10 repaired: whoever owns a resource has a WatchProcess outstanding, so its worker will report
   its termination *)
Theorem C14_owners_are_watched : forall h r p,
  lookup r (owner (run h)) = Some p -> In p (watched (run h)).
Proof. exact owners_are_watched. Qed.
Print Assumptions C14_owners_are_watched.

(* safety form of "every resource owned at termination is eventually closed": in a quiescent state
   (no completion outstanding; no watched process that has terminated and is not yet reported) a
   terminated process owns nothing — unconditionally, awaited or not *)
Theorem C14_closed_after_termination : forall h p r,
  quiescent (run h) -> In p (dead (run h)) -> lookup r (owner (run h)) <> Some p.
Proof. exact closed_after_termination. Qed.
Print Assumptions C14_closed_after_termination.

(* ---- the model's log is append-only (gives `new_calls` its meaning) ---- *)

Theorem C14_log_extends : forall h e, log (run (h ++ [e])) = log (run h) ++ new_calls (run h) e.
Proof. exact run_log_extends. Qed.
Print Assumptions C14_log_extends.

(* ---- non-vacuity: one history meets every hypothesis used above and exercises every handler ---- *)

Theorem C14_nonvacuity :
  reports_only_terminated good_history /\ backend_fresh good_history /\
  ~ KnownF47 good_history /\ quiescent (run good_history) /\ In 2 (dead (run good_history)) /\
  closes (log (run good_history)) = [1] /\
  log (run good_history) = [CExec 0 (Open 1); CExec 1 (Op 1 0); CExec 2 (Op 1 0); CClose 1].
Proof. exact good_history_meets_all_hypotheses. Qed.
Print Assumptions C14_nonvacuity.

(* the repaired defects as must-hold instances (traces of real runs of their reproducers) *)
Theorem C14_unawaited_owner_is_cleaned_up :
  reports_only_terminated probe_F10 /\ backend_fresh probe_F10 /\ quiescent (run probe_F10) /\
  In 1 (dead (run probe_F10)) /\ owner (run probe_F10) = [] /\ closes (log (run probe_F10)) = [1] /\
  ~ quiescent (run (firstn 5 probe_F10)).
Proof. exact unawaited_owner_is_cleaned_up. Qed.
Print Assumptions C14_unawaited_owner_is_cleaned_up.
