(* C17 — Formatting is a fixpoint and preserves the program and its comments.
   Level: proof, PARTIAL. The Doc construction of format.rs (1.8 kLoC), trivia attachment and the nom
   parser are not modelled; what is proved are the three places where the formatter changes or
   re-encodes the program: block normalisation (Simplify.v ~ simplify.rs), string escaping
   (Escape.v ~ format.rs escapers / parser.rs string processing) and layout (Pretty.v ~ pretty.rs).
   The user-visible property is decided by the end-to-end real-vs-real search of vplib/props/c17.py.
   This file contains ONLY the property theorems, each closed by `exact <lemma>`. *)
From Quiver Require Import Base Ast Simplify SimplifyProofs.

(* ---- normalize_blocks ---------------------------------------------------------------------- *)
(* compiler.rs:548: keep = |_| false, lift = true, group_consequences = false *)
Theorem C17_normalize_idempotent_compiler : forall p,
  normalize_blocks (normalize_blocks p compiler_options) compiler_options = normalize_blocks p compiler_options.
Proof. exact normalize_idempotent_compiler. Qed.
Print Assumptions C17_normalize_idempotent_compiler.

(* format.rs:42: lift = false, group_consequences = true, keep = |chain| trivia.has_trivia(chain.span).
   No stability hypothesis on `keep` is needed in the model: `keep` is only ever consulted on the
   already-normalised body chain of a redundant block, which the second pass meets again unchanged
   (the real closure is a function of the chain's span offset only, see `keep_by_span`; spans of
   surviving chains are preserved by the rewrite). *)
Theorem C17_normalize_idempotent_formatter : forall (k : chain -> bool) p,
  normalize_blocks (normalize_blocks p (formatter_options k)) (formatter_options k)
  = normalize_blocks p (formatter_options k).
Proof. exact normalize_idempotent_formatter. Qed.
Print Assumptions C17_normalize_idempotent_formatter.

(* any option set in which grouping is not combined with lifting *)
Theorem C17_normalize_idempotent : forall o p,
  (group_consequences o = true -> lift o = false) ->
  normalize_blocks (normalize_blocks p o) o = normalize_blocks p o.
Proof. intros o p H. exact (normalize_idempotent_gen o p H). Qed.
Print Assumptions C17_normalize_idempotent.

(* format_then_compile_same ("identical after removing no-op blocks"), full statement:
     forall k p, normalize_blocks (normalize_blocks p (formatter_options k)) compiler_options
                 = normalize_blocks p compiler_options.
   It is FALSE for the code as it is (finding F19): a block kept because of trivia hides that its body ends
   in a tail call, so the enclosing redundant block is spliced by the formatter in a non-final position
   while the compiler keeps it. Witness: `$ { 1 { /* comment */ 2 ^ } } 3`.
   NOT PROVED (partial): the conditional statement
     (forall c, ends_in_tail_call c = true -> k c = false) -> [the equation above]
   is only validated: the harness evaluates the equation on the real normalize_blocks for every generated
   source and every keep predicate of the correspondence (c17.py, `cf`). *)
Theorem C17_format_then_compile_same_refuted :
  exists p k, normalize_blocks (normalize_blocks p (formatter_options k)) compiler_options
              <> normalize_blocks p compiler_options.
Proof. exact format_then_compile_same_refuted. Qed.
Print Assumptions C17_format_then_compile_same_refuted.

(* normalize_preserves_eval (stripping / lifting / grouping a no-op block preserves the reference meaning)
   needs the reference evaluator Lang.eval of C02 and is left to C02 (DESIGN.md §5 C02). *)
