(* C17 — Formatting is a fixpoint and preserves the program and its comments.
   Level: proof, PARTIAL. The Doc construction of format.rs (1.8 kLoC), trivia attachment and the nom
   parser are not modelled; what is proved are the three places where the formatter changes or
   re-encodes the program: block normalisation (Simplify.v ~ simplify.rs), string escaping
   (Escape.v ~ format.rs escapers / parser.rs string processing) and layout (Pretty.v ~ pretty.rs).
   The user-visible property is decided by the end-to-end real-vs-real search of vplib/props/c17.py.
   This file contains ONLY the property theorems, each closed by `exact <lemma>`. *)
From Quiver Require Import Base Ast Simplify SimplifyProofs SimplifyCompose Escape EscapeProofs Pretty PrettyProofs EscapePretty FormatFrag FormatFragProofs FormatFrag2 FormatFrag2Proofs.

(* ---- normalize_blocks ---------------------------------------------------------------------- *)
(* compiler.rs:548: keep = |_| false, lift = true, group_consequences = false *)
Theorem C17_normalize_idempotent_compiler : forall p,
  normalize_blocks (normalize_blocks p compiler_options) compiler_options = normalize_blocks p compiler_options.
Proof. exact normalize_idempotent_compiler. Qed.
Print Assumptions C17_normalize_idempotent_compiler.

(* format.rs:42: lift = false, group_consequences = true, keep = |chain| trivia.has_trivia(chain.span).
   No stability hypothesis on `keep` is needed in the model: `keep` is only ever consulted on the
   already-normalised body chain of a redundant block, which the second pass meets again unchanged
   (the real closure is a function of the chain's span offset only, see `keep_by_span`; spans of
   surviving chains are preserved by the rewrite). *)
Theorem C17_normalize_idempotent_formatter : forall (k : chain -> bool) p,
  normalize_blocks (normalize_blocks p (formatter_options k)) (formatter_options k)
  = normalize_blocks p (formatter_options k).
Proof. exact normalize_idempotent_formatter. Qed.
Print Assumptions C17_normalize_idempotent_formatter.

(* any option set in which grouping is not combined with lifting *)
Theorem C17_normalize_idempotent : forall o p,
  (group_consequences o = true -> lift o = false) ->
  normalize_blocks (normalize_blocks p o) o = normalize_blocks p o.
Proof. intros o p H. exact (normalize_idempotent_gen o p H). Qed.
Print Assumptions C17_normalize_idempotent.

(* format_then_compile_same ("identical after removing no-op blocks"): normalising with the formatter's options and then
   with the compiler's gives what the compiler's options give alone, for EVERY keep predicate (so in particular for the real
   closure `|chain| trivia.has_trivia(chain.span)`, `keep_by_span`). Holds for simplify.rs as repaired by /repo commit
   e176e48 (finding F19: the "body ends in a tail call" test now looks through a kept trailing redundant block); on the
   pre-repair model it was false — SimplifyProofs.v keeps the old witness as the Example `f19_pre_repair_test_missed_it`. *)
Theorem C17_format_then_compile_same : forall (k : chain -> bool) (p : program),
  normalize_blocks (normalize_blocks p (formatter_options k)) compiler_options = normalize_blocks p compiler_options.
Proof. exact format_then_compile_same. Qed.
Print Assumptions C17_format_then_compile_same.

(* normalize_preserves_eval (stripping / lifting / grouping a no-op block preserves the reference meaning)
   needs the reference evaluator Lang.eval of C02 and is left to C02 (DESIGN.md §5 C02). *)

(* ---- string escaping (Escape.v ~ format.rs:476/568/585/521, parser.rs:685/499/794/826/864/914) ---------- *)
(* single-line: the parser's unescaping inverts the formatter's escaping, for every string *)
Theorem C17_escape_roundtrip_single : forall s : list Z, unescape (escape_single s) = Some s.
Proof. exact escape_single_roundtrip. Qed.
Print Assumptions C17_escape_roundtrip_single.

(* term position: after the escaped text the closing quote (34) is found where expected and no hole opens *)
Theorem C17_escape_roundtrip_single_scan : forall (s rest : list Z),
  scan_single (escape_single s ++ 34 :: rest) = ScanText s rest.
Proof. exact escape_single_scan. Qed.
Print Assumptions C17_escape_roundtrip_single_scan.

(* multi-line: raw text between the delimiters as rendered at any margin (incl. \s protection of trailing spaces,
   CR/TAB/backslash/quote/brace escapes, empty lines) is de-indented and decoded back to the string.
   `render_multiline` assumes that the printer leaves a rendered line alone and drops the indentation of an empty one:
   that assumption is the theorem C17_rendered_line_survives_strip below (pretty.rs strips only ' ' and TAB since the
   F18 repair). Not modelled: format.rs collapse_blanks (string-aware since the F15 repair; validated end-to-end). *)
Theorem C17_escape_roundtrip_multiline : forall (s : list Z) (margin : nat),
  process_multiline (render_multiline s margin) = Some s.
Proof. exact multiline_roundtrip. Qed.
Print Assumptions C17_escape_roundtrip_multiline.

(* term position (holes recognised): the rendered text opens no hole *)
Theorem C17_escape_roundtrip_multiline_term : forall (s : list Z) (margin : nat),
  process_multiline_term (render_multiline s margin) = MText s.
Proof. exact multiline_term_roundtrip. Qed.
Print Assumptions C17_escape_roundtrip_multiline_term.

(* the escape-aware scan for the closing delimiter stops exactly after the rendered text (every quote is escaped) *)
Theorem C17_escape_multiline_raw_scan : forall (s : list Z) (margin : nat) (rest : list Z),
  scan_multiline_raw (render_multiline s margin ++ [34; 34; 34] ++ rest) = Some (render_multiline s margin, rest).
Proof. exact multiline_raw_scan. Qed.
Print Assumptions C17_escape_multiline_raw_scan.

(* the printer's trailing-whitespace stripping (Pretty.trim_end = `trim_end_matches([' ', '\t'])`) applied to a rendered
   line printed at any indentation gives exactly what `render_multiline` assumes (`indent_line`): the whole line, or
   nothing for an empty line — for every string, also when a line ends in U+00A0 or another non-ASCII space *)
Theorem C17_rendered_line_survives_strip : forall (margin : nat) (l : list Z),
  Pretty.trim_end (repeat 32 margin ++ render_line l) = indent_line margin (render_line l).
Proof. exact rendered_line_survives_strip. Qed.
Print Assumptions C17_rendered_line_survives_strip.

(* ---- layout (Pretty.v ~ pretty.rs) -------------------------------------------------------------------- *)
(* print is total: the explicit fuel `enough_fuel d` suffices for every doc and width *)
Theorem C17_print_total : forall (d : doc) (width : nat), exists out, Pretty.print d width = Some out.
Proof. exact print_total. Qed.
Print Assumptions C17_print_total.

(* layout_content_invariant: for every width the printer emits exactly the Text atoms of the doc, in order,
   each IfBreak resolved by the mode of its enclosing group (`content`, PrettyProofs.v: a group with
   should_break = true is Break, any other group may be Flat or Break) - so width can only change
   line breaks, indentation and IfBreak decorations. Docs without LineSuffix (whose content is deferred to the
   end of the line, which does depend on where lines break): *)
Theorem C17_layout_content_invariant : forall (d : doc) (width : nat) (ts : list token),
  suffix_free d = true -> layout d width = Some ts -> content Break d (texts ts).
Proof. exact layout_content_invariant. Qed.
Print Assumptions C17_layout_content_invariant.

(* all docs (LineSuffix = trailing comments included): the same atoms, up to the deferral of suffix content *)
Theorem C17_layout_content_perm : forall (d : doc) (width : nat) (ts : list token),
  layout d width = Some ts -> exists l, content_all Break d l /\ Permutation.Permutation (texts ts) l.
Proof. exact layout_content_perm. Qed.
Print Assumptions C17_layout_content_perm.

(* ---- parse o print = id on the data-literal fragment (FormatFrag.v) ----------------------------------------- *)
(* FormatFrag.v models BOTH the formatter's Doc construction (term_doc / tuple_doc / field_doc / chain_doc with its
   head-flat-plus-container and `~>`-continuation layouts and the 50-column soft width / bracketed with its trailing
   comma / break_if_wider_than / flatten / flat_width / sequence_doc + format_program for one statement) AND the
   parser (program / chain / chain_inner / primary / tuple_term / tuple_field(_list) / identifier / tuple_name /
   integer_literal / string_segments) on the fragment: integers, identifiers, single-line strings, nested anonymous
   and named tuples with optional labels, chains. Both are compared with the real functions on generated inputs
   at every run (exact output text; parsed ASTs). *)

(* for EVERY width the formatter's output parses back to the same chain *)
Theorem C17_frag_roundtrip : forall (c : fchain) (w : nat),
  wf_chain c = true -> exists out, format_frag c w = Some out /\ parse_frag out = Some c.
Proof. exact frag_roundtrip. Qed.
Print Assumptions C17_frag_roundtrip.

(* formatting the re-parsed output gives the same text again (print o parse o print = print) *)
Theorem C17_frag_format_fixpoint : forall (c : fchain) (w : nat) (out : list Z),
  wf_chain c = true -> format_frag c w = Some out ->
  exists c', parse_frag out = Some c' /\ format_frag c' w = Some out.
Proof. exact frag_format_fixpoint. Qed.
Print Assumptions C17_frag_format_fixpoint.

(* the parser only produces well-formed chains, hence: formatting ANY source text the (fragment) parser accepts is a
   fixpoint of parse-then-format *)
Theorem C17_parse_frag_wf : forall (s : list Z) (c : fchain), parse_frag s = Some c -> wf_chain c = true.
Proof. exact parse_frag_wf. Qed.
Print Assumptions C17_parse_frag_wf.

Theorem C17_frag_source_fixpoint : forall (s : list Z) (c : fchain) (w : nat) (out : list Z),
  parse_frag s = Some c -> format_frag c w = Some out ->
  exists c', parse_frag out = Some c' /\ format_frag c' w = Some out.
Proof. exact frag_source_fixpoint. Qed.
Print Assumptions C17_frag_source_fixpoint.

(* ---- the fragment with BLOCKS (FormatFrag2.v) ------------------------------------------------------------------ *)
(* adds `{ .. }` blocks with `|` branches, guards `cond => consequence`, multi-step sequences; on the formatter side
   format_program's normalize_blocks step (redundant single-chain blocks spliced away, compound consequences wrapped in
   grouping braces), sequence_doc with several steps (`,`/newline, tall steps set off by blank lines), is_tall_step,
   block_doc, leading_bar, branch_doc (flattened or breaking guard), wrap_breaking_body (the print-time `{ chain }` wrap)
   and collapse_blanks; on the parser side block / expression / branch / sequence / seq_sep. Compared with the real
   functions at every run. *)

(* for EVERY width the output parses, to the input up to the no-op blocks the formatter removes or adds *)
Theorem C17_frag2_roundtrip : forall (s : gseq) (w : nat), g_wf_seq s = true ->
  exists out c', format_frag2 s w = Some out /\ parse_frag2 out = Some c' /\ g_normalize c' = g_normalize s.
Proof. exact frag2_roundtrip. Qed.
Print Assumptions C17_frag2_roundtrip.

(* formatting the re-parsed output reproduces it (print o parse o print = print) *)
Theorem C17_frag2_format_fixpoint : forall (s : gseq) (w : nat) (out : list Z),
  g_wf_seq s = true -> format_frag2 s w = Some out ->
  exists c', parse_frag2 out = Some c' /\ format_frag2 c' w = Some out.
Proof. exact frag2_format_fixpoint. Qed.
Print Assumptions C17_frag2_format_fixpoint.

(* the fragment's block normalisation is idempotent (the model of simplify.rs on this AST) *)
Theorem C17_g_normalize_idempotent : forall s : gseq, g_normalize (g_normalize s) = g_normalize s.
Proof. exact g_normalize_idempotent. Qed.
Print Assumptions C17_g_normalize_idempotent.

(* the parser yields well-formed sequences, so formatting ANY accepted source text is a fixpoint of parse-then-format *)
Theorem C17_parse_frag2_wf : forall (t : list Z) (c : gseq), parse_frag2 t = Some c -> g_wf_seq c = true.
Proof. exact parse_frag2_wf. Qed.
Print Assumptions C17_parse_frag2_wf.

Theorem C17_frag2_source_fixpoint : forall (t : list Z) (c : gseq) (w : nat) (out : list Z),
  parse_frag2 t = Some c -> format_frag2 c w = Some out ->
  exists c', parse_frag2 out = Some c' /\ format_frag2 c' w = Some out.
Proof. exact frag2_source_fixpoint. Qed.
Print Assumptions C17_frag2_source_fixpoint.
