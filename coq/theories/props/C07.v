(* C07 — Every function the compiler emits is well-formed bytecode.
   ONLY property theorems: statement, `exact <lemma>`, Print Assumptions.
   Models: vm/Bytecode.v, vm/Vm.v (the per-process machine of executor.rs), vm/Wf.v (verifier).
   The theorems say: whatever program the verifier accepts is safe on EVERY execution; the check
   then runs the extracted verifier on every function the real compiler emits (as compiled,
   tree-shaken, merged into an environment) — translation validation. *)
From Quiver Require Import vm.Wf vm.WfProofs vm.WfRun vm.WfExamples vm.Tables.

(* the extracted verifier's answer is a certificate the proved checker accepts *)
Theorem C07_verifier_output_checked : forall P As, verify_program P = Some As -> check_program P As = true.
Proof. exact verify_program_checked. Qed.
Print Assumptions C07_verifier_output_checked.

(* one step preserves the frame/stack/locals invariant and never faults structurally *)
Theorem C07_step_sound : forall P As, check_program P As = true ->
  forall s x, Inv P As s -> ext_ok P x -> good P As (step P s x).
Proof. exact step_sound. Qed.
Print Assumptions C07_step_sound.

(* every execution of every function, on every argument, with every outside input: no stack
   underflow, frame underflow, undefined local/constant/function/builtin/tuple, no jump out of
   the function; and a finished process leaves exactly its one result *)
Theorem C07_wf_sound : forall P As, check_program P As = true ->
  forall fn fd caps arg pers xs,
  nth_error (p_funcs P) fn = Some fd -> length caps = f_caps fd ->
  Forall (wfv P) caps -> wfv P arg -> Forall (ext_ok P) xs ->
  match run P (init_state fn caps arg pers) xs with
  | Fault f => structural f = false
  | Finished v s' => stack s' = []
  | Next _ => True
  end.
Proof. exact wf_sound. Qed.
Print Assumptions C07_wf_sound.

(* non-vacuity: a program the verifier accepts, meeting the hypotheses above *)
Theorem C07_nonvacuous : exists As, check_program good_prog As = true /\
  Inv good_prog As (init_state 1 [VFun 0 []] (VInt 5%Z) false).
Proof. exact wf_sound_applies. Qed.
Print Assumptions C07_nonvacuous.

(* indices that occur INSIDE the tables (a type mentioning a type or tuple id, a tuple field type,
   a builtin signature, a function's callable type) are in range whenever the table check passes *)
Theorem C07_tables_ok_spec : forall t, tables_ok t = true ->
  (forall tys tups, In (tys, tups) (tb_types t) ->
     (forall x, In x tys -> x < length (tb_types t)) /\ (forall x, In x tups -> x < length (tb_tuples t))) /\
  (forall fs, In fs (tb_tuples t) -> forall x, In x fs -> x < length (tb_types t)) /\
  (forall p r, In (p, r) (tb_builtins t) -> p < length (tb_types t) /\ r < length (tb_types t)) /\
  (forall x, In x (tb_fn_types t) -> x < length (tb_types t)).
Proof. exact tables_ok_spec. Qed.
Print Assumptions C07_tables_ok_spec.
