(* C11 — REPL evaluation is equivalent to evaluating the lines as one program.
   Theorems about the bookkeeping model repl/Repl.v (statements written out in full; proofs in
   repl/ReplProofs.v).  What is proved is the bookkeeping; the end-to-end equivalence (parser,
   compiler, VM) is validated by the real-vs-real search of vplib/props/c11.py.

   F51 (repaired by fd5925d, modelled as repaired): a line that short-circuits binds variables it
   never stores.  The worker reports the process's locals count with the result and the REPL forgets
   the variables at or beyond it before it compacts or looks a variable up (`forget`).  The
   invariant is therefore stated on `forget s`, the session as the REPL sees it at those points;
   C11_session_survives is the repair in general, C11_shortcircuit_line_survives the reproducer. *)
From Coq Require Import List Arith Bool PeanoNat.
From Quiver Require Import Base repl.Repl repl.ReplProofs.
Import ListNotations.
Local Open Scope nat_scope.

(* repl_alignment, part 1: compaction (repl.rs compact + worker compact_locals/replace_locals) *)
Theorem C11_compact_preserves_alignment :
  forall (V : Type) (val : name -> V) (s : @session V),
    aligned val (forget s) ->
    exists s1, compact s = COk s1 /\ aligned val s1 /\
               s_result s1 = s_result s /\ s_lrt_nil s1 = s_lrt_nil s /\
               local_count (s_bindings s1) = length (s_locals s1) /\ s_pending s1 = None.
Proof. exact @compact_aligned. Qed.
Print Assumptions C11_compact_preserves_alignment.

(* repl_alignment, part 2: orphan release (executor release_orphan_locals with the keep-set) *)
Theorem C11_release_preserves_alignment :
  forall (V : Type) (vnil : V) (val : name -> V) (s : @session V),
    aligned val s ->
    aligned val (mkSession (s_bindings s)
                           (release_orphan_locals vnil (s_locals s) (keep_indices (s_bindings s)))
                           (s_result s) (s_lrt_nil s) (s_pending s)).
Proof. exact @release_aligned. Qed.
Print Assumptions C11_release_preserves_alignment.

(* repl_alignment: through a whole `evaluate`.  For an accepted line the invariant holds for the
   new valuation whenever the compiled binding map and the run satisfy `line_wf`: every variable
   is an old one at its compacted slot, or sits in a slot >= n and, if the line stored that slot,
   the slot holds its value (n = local_count = the physical length after compaction = the slot of
   the parameter, which holds the previous result).  Variables whose slot was never stored are
   forgotten by the REPL, so nothing is asked of them. *)
Theorem C11_repl_alignment :
  forall (V : Type) (vnil : V) (val : name -> V) (s : @session V) (l : line),
    aligned val (forget s) ->
    match l with
    | LParseError => evaluate vnil s l = EParseError s
    | LCompileError => exists s1, evaluate vnil s l = ECompileError s1 /\ aligned val (forget s1)
    | LOk c r =>
        exists s1, compact s = COk s1 /\ aligned val s1 /\
                   local_count (s_bindings s1) = length (s_locals s1) /\
        forall val',
          (forall x i, In (x, BVar i) (c_bindings c) ->
             (i < length (s_locals s1) /\ In (x, BVar i) (s_bindings s1) /\ val' x = val x) \/
             (c_has_expr c = true /\ length (s_locals s1) <= i /\
              (i < length (s_locals s1 ++ s_result s1 :: r_stored r) ->
               nth_error (s_result s1 :: r_stored r) (i - length (s_locals s1)) = Some (val' x)))) ->
          if c_has_expr c
          then exists s', evaluate vnil s l = EValue (r_value r) s' /\ aligned val' (forget s') /\ s_result s' = r_value r
          else exists s', evaluate vnil s l = ENone s' /\ aligned val' (forget s') /\ s_result s' = s_result s
    end.
Proof. exact @repl_alignment_thm. Qed.
Print Assumptions C11_repl_alignment.

(* result threading: the slot the line's first Store fills holds the previous line's result *)
Theorem C11_line_parameter_is_previous_result :
  forall (V : Type) (s1 : @session V) (c : compiled) (r : ran),
    nth_error (s_locals (run_line_unreleased s1 c r)) (length (s_locals s1)) = Some (s_result s1).
Proof. exact @line_parameter_is_previous_result. Qed.
Print Assumptions C11_line_parameter_is_previous_result.

(* rejected_line_inert, parser: the session is identical *)
Theorem C11_rejected_by_parser_inert :
  forall (V : Type) (vnil : V) (s : @session V), evaluate vnil s LParseError = EParseError s.
Proof. exact @rejected_by_parser_inert. Qed.
Print Assumptions C11_rejected_by_parser_inert.

(* rejected_line_inert, compiler: the code compacts BEFORE compiling, so the session is the
   compacted one — identical up to the renumbering `index_mapping (keep_indices ..)`, and
   observationally identical: same names and aliases, same stored result and result type, every
   `request_variable` answers the same, `get_variables` lists the same names in the same order *)
Theorem C11_rejected_by_compiler_inert :
  forall (V : Type) (vnil : V) (val : name -> V) (s : @session V),
    aligned val (forget s) ->
    exists s1,
      evaluate vnil s LCompileError = ECompileError s1 /\
      renumber (keep_indices (s_bindings (forget s))) (s_bindings (forget s)) = Val (s_bindings s1) /\
      map fst (s_bindings s1) = map fst (s_bindings (forget s)) /\
      s_result s1 = s_result s /\ s_lrt_nil s1 = s_lrt_nil s /\
      (forall x, request_variable s1 x = request_variable s x) /\
      get_variables s1 = get_variables (forget s) /\
      (forall x, lookup x (s_bindings s1) = Some BAlias <-> lookup x (s_bindings (forget s)) = Some BAlias) /\
      aligned val (forget s1).
Proof. exact @rejected_by_compiler_inert. Qed.
Print Assumptions C11_rejected_by_compiler_inert.

(* split_equivalence on an abstract step semantics: cutting a sequence of steps into lines, each
   line fed the stored result of the previous one, gives the same environment and value as the one
   sequence, provided no line that is followed by further steps evaluated to nil *)
Theorem C11_split_equivalence :
  forall (V env step : Type) (exec : step -> env -> V -> env * V) (isnil : V -> bool)
         (ls : list (list step)) (e : env) (v : V),
    lines_nil_free exec isnil ls e v ->
    run_lines exec isnil ls e v = run_seq exec isnil (concat ls) e v.
Proof. exact @split_equivalence_thm. Qed.
Print Assumptions C11_split_equivalence.

(* ... and line by line: the value of line k is the value of the program made of lines 0..k *)
Theorem C11_split_equivalence_per_line :
  forall (V env step : Type) (exec : step -> env -> V -> env * V) (isnil : V -> bool)
         (ls : list (list step)) (e : env) (v : V) (k : nat),
    lines_nil_free exec isnil ls e v -> k < length ls ->
    nth_error (line_values exec isnil ls e v) k
    = Some (snd (run_seq exec isnil (concat (firstn (S k) ls)) e v)).
Proof. exact @split_equivalence_per_line. Qed.
Print Assumptions C11_split_equivalence_per_line.

(* non-vacuity: a concrete aligned session whose compaction renumbers, a line satisfying the
   hypothesis of C11_repl_alignment on it, and a splitting satisfying lines_nil_free *)
Theorem C11_nonvacuity :
  aligned Examples.val_ex (forget Examples.s_ex) /\
  compact Examples.s_ex = COk (mkSession [(0, BVar 1); (1, BAlias); (2, BVar 0)] [20; 10] 77 false None) /\
  line_wf (mkSession [(0, BVar 1); (1, BAlias); (2, BVar 0)] [20; 10] 77 false None)
          Examples.c_ex Examples.r_ex Examples.val_ex Examples.val_ex' /\
  evaluate 0 Examples.s_ex (LOk Examples.c_ex Examples.r_ex) =
    EValue 1 (mkSession [(0, BVar 5); (1, BAlias); (2, BVar 0); (3, BVar 3)] [20; 0; 0; 99; 0; 55] 1 false (Some 6)) /\
  lines_nil_free Examples.exec_ex (Nat.eqb 0) [[1; 2]; []; [3]; [4; 5]] [] 0 /\
  line_values Examples.exec_ex (Nat.eqb 0) [[1; 2]; []; [3]; [4; 5]] [] 0 = [3; 3; 6; 15].
Proof.
  exact (conj Examples.s_ex_aligned (conj Examples.compact_ex (conj Examples.line_wf_ex
        (conj Examples.evaluate_ex (conj (proj1 Examples.split_ex) (proj2 (proj2 Examples.split_ex))))))).
Qed.
Print Assumptions C11_nonvacuity.

(* the repair of F51 in general: whatever a line with expressions binds and stores, the session it
   leaves can be compacted (no LocalNotFound out of Worker::step): the next line runs *)
Theorem C11_session_survives :
  forall (V : Type) (vnil : V) (s : @session V) (c : compiled) (r : ran),
    in_range (forget s) -> c_has_expr c = true ->
    exists s', evaluate vnil s (LOk c r) = EValue (r_value r) s' /\ in_range (forget s') /\
               exists s1', compact s' = COk s1'.
Proof. exact @session_survives_thm. Qed.
Print Assumptions C11_session_survives.

(* F51's reproducer `5 =6, x = 7` on the repaired code: x is bound at slot 1, only the parameter is
   stored, the worker reports 1 local.  The raw binding map violates the invariant, the session as
   the REPL sees it after forgetting satisfies it, request_variable x answers VariableNotFound
   (get_variables, which does not forget, still lists x until then), and the next lines run. *)
Theorem C11_shortcircuit_line_survives :
  evaluate 0 (initial 0) (LOk Examples.c_f51 Examples.r_f51) = EValue 0 Examples.s_f51 /\
  (forall val, ~ aligned val Examples.s_f51) /\
  (forall val, aligned val (forget Examples.s_f51)) /\
  request_variable Examples.s_f51 0 = WErr VariableNotFound /\
  get_variables Examples.s_f51 = [0] /\
  evaluate 0 Examples.s_f51 LCompileError = ECompileError (mkSession [] [] 0 false None) /\
  evaluate 0 Examples.s_f51 (LOk (mkCompiled [(1, BVar 1)] true false) (mkRan [9] 1))
    = EValue 1 (mkSession [(1, BVar 1)] [0; 9] 1 false (Some 2)).
Proof. exact Examples.shortcircuit_survives. Qed.
Print Assumptions C11_shortcircuit_line_survives.
