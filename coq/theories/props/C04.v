(* C04 — Messages: exactly-once, per-sender FIFO, no lost wake-ups.
   ONLY property theorems: statement, `exact <lemma>`, Print Assumptions.
   Model: sys/Proto.v (M-Sys: Executor scheduling state, Worker, Environment, transports; process
   behaviour and HashMap iteration orders are inputs, universally quantified here; ghost stamps
   (sender, worker, sequence number) on messages). Tied to the code by replaying `qv_sim --trace`
   runs of the real Environment/Workers through the extracted model, state compared after every
   action (vplib/props/c04.py).

   PROVED for every schedule and every oracle: message_conservation, stamps_unique (together:
   every sent message is in exactly one of event queue / command queue / arrival log),
   per_link_fifo / per_sender_fifo (the send sequence of a worker to a target IS arrival log ++
   command queue ++ event queue, as lists), no_message_dropped (a DeliverMessage is never handled
   for a process that does not exist).
   NOT PROVED (partial; full statements kept here):
     arrival = mailbox    : that p_arrived of process t IS the arrival log of its worker restricted
                            to t (needs "a process record is never replaced"). Proved: no message is
                            ever dropped (no_message_dropped) and the CDeliver handler appends to the
                            mailbox of an existing process (wakeup_on_message).
     spawner_gets_pid     : the GLOBAL invariant form (c in `spawning` iff exactly one of {SpawnAction
                            queued, NotifySpawn queued}) over whole schedules. Proved instead, for
                            every handler and every oracle: a process leaves `spawning` only through
                            its NotifySpawn (F71 — a result-less UpdateAwaitResults also did — is
                            repaired; its schedule is a regression witness below), the executor step
                            never removes it, and the environment answers every SpawnAction with
                            exactly one NotifySpawn carrying a fresh pid.
     no_lost_wakeup       : the GLOBAL invariant Inv_parked (DESIGN.md §5 C04) and its corollary
                            quiescent_no_ready. Proved instead: every wake-up source re-queues a
                            parked select (message, awaited result, elapsed timeout); the
                            implementation-level quiescence oracle + wake-up probe of qv_sim check the
                            global statement on every explored run. *)
From Quiver Require Import sys.Proto sys.ProtoMsg sys.ProtoFifo sys.ProtoDeliver sys.ProtoFail sys.ProtoWake sys.ProtoExamples.

(* every stamped message that was sent is — counted with multiplicity — in exactly one of: the
   arrival log of a worker (its DeliverMessage was handled), a command queue (DeliverMessage in
   flight), an event queue (DeliverAction in flight): nothing duplicated, nothing dropped *)
Theorem C04_message_conservation : forall nw sigma s,
  0 < nw -> run (init nw) sigma = Good s ->
  forall t m,
    total (g_sent (t, m)) (s_nodes s)
    = total (g_arr (t, m)) (s_nodes s) + total (g_cmd (t, m)) (s_nodes s) + total (g_evt (t, m)) (s_nodes s).
Proof. exact message_conservation. Qed.
Print Assumptions C04_message_conservation.

(* no stamp is issued twice: a worker's sequence numbers are pairwise distinct and below its
   counter, and every stamp carries its worker's index *)
Theorem C04_stamps_unique : forall nw sigma s,
  run (init nw) sigma = Good s ->
  forall i nd, nth_error (s_nodes s) i = Some nd ->
    NoDup (map (fun e => m_seq (snd e)) (w_sentlog (n_w nd))) /\
    Forall (fun e => m_w (snd e) = i /\ m_seq (snd e) < w_nsent (n_w nd)) (w_sentlog (n_w nd)).
Proof. exact stamps_unique. Qed.
Print Assumptions C04_stamps_unique.

(* exactly-once AND in order on every link: for source worker i and target t routed to worker j, the
   messages i sent to t (in sending order) are those that arrived at j, then those in j's command
   queue, then those in i's event queue *)
Theorem C04_per_link_fifo : forall nw sigma s,
  0 < nw -> run (init nw) sigma = Good s ->
  forall i ndi t j ndj,
    nth_error (s_nodes s) i = Some ndi -> alookup t (e_router (s_env s)) = Some j -> nth_error (s_nodes s) j = Some ndj ->
    ft t (w_sentlog (n_w ndi)) =
    link i t (w_arrlog (n_w ndj)) ++ link i t (delivs (n_cmd ndj)) ++ ft t (edelivs (n_evt ndi)).
Proof. exact per_link_fifo. Qed.
Print Assumptions C04_per_link_fifo.

(* per sender process p: what has arrived from p is a prefix of what p sent, in p's order *)
Theorem C04_per_sender_fifo : forall nw sigma s,
  0 < nw -> run (init nw) sigma = Good s ->
  forall i ndi t j ndj p,
    nth_error (s_nodes s) i = Some ndi -> alookup t (e_router (s_env s)) = Some j -> nth_error (s_nodes s) j = Some ndj ->
    exists in_flight,
      from p (ft t (w_sentlog (n_w ndi))) = from p (link i t (w_arrlog (n_w ndj))) ++ in_flight.
Proof. exact per_sender_fifo. Qed.
Print Assumptions C04_per_sender_fifo.

(* nothing is dropped at the mailbox: no DeliverMessage is handled for a process that does not exist;
   a routed process is on its worker, or its spawn command is queued there ahead of every
   DeliverMessage addressed to it *)
Theorem C04_no_message_dropped : forall nw sigma s,
  0 < nw -> run (init nw) sigma = Good s ->
  (forall n nd, nth_error (s_nodes s) n = Some nd -> w_dropped (n_w nd) = []) /\
  (forall t n nd, alookup t (e_router (s_env s)) = Some n -> nth_error (s_nodes s) n = Some nd -> ready t (n_w nd) (n_cmd nd)).
Proof. exact no_message_dropped. Qed.
Print Assumptions C04_no_message_dropped.

(* one Worker::step, for every oracle: the commands it handles are a prefix of its queue, their
   DeliverMessage's extend the arrival log IN ORDER, and what it emits extends its send log and its
   event queue IN ORDER (the per-hop ingredient of per_sender_fifo) *)
Theorem C04_worker_step_fifo : forall i now k o nd nd',
  node_step i now k o nd = Good nd' ->
  exists pre new,
    n_cmd nd = pre ++ n_cmd nd' /\
    w_arrlog (n_w nd') = w_arrlog (n_w nd) ++ delivs pre /\
    edelivs (n_evt nd') = edelivs (n_evt nd) ++ new /\
    w_sentlog (n_w nd') = w_sentlog (n_w nd) ++ new /\
    ((new = [] /\ w_nsent (n_w nd') = w_nsent (n_w nd)) \/
     (exists t p, new = [(t, mkMsg p i (w_nsent (n_w nd)))] /\ w_nsent (n_w nd') = S (w_nsent (n_w nd)))).
Proof. exact node_step_ghost. Qed.
Print Assumptions C04_worker_step_fifo.

(* spawner_gets_pid, handler form: Worker::handle_command takes c out of `spawning` only for c's
   NotifySpawn (since the repair of F71 a result-less UpdateAwaitResults no longer does) *)
Theorem C04_spawning_left_only_by_notify : forall cmd w w' ev c,
  handle_cmd cmd w = Good (w', ev) ->
  mem c (w_spawning w) = true -> mem c (w_spawning w') = false ->
  exists sp, cmd = CNotifySpawn c sp.
Proof. exact spawning_left_only_by_notify. Qed.
Print Assumptions C04_spawning_left_only_by_notify.

Theorem C04_exec_step_keeps_spawning : forall i now o w w' ev,
  exec_step i now o w = Good (w', ev) -> forall c, mem c (w_spawning w) = true -> mem c (w_spawning w') = true.
Proof. exact exec_step_keeps_spawning. Qed.
Print Assumptions C04_exec_step_keeps_spawning.

Theorem C04_spawn_answered_once : forall nw caller e ns e' ns',
  handle_event nw (ESpawnA caller) (e, ns) = Good (e', ns') ->
  exists cw, alookup caller (e_router e') = Some cw /\
    ns' = push_cmd cw (CNotifySpawn caller (e_next e)) (push_cmd (e_next e mod nw) (CSpawn (e_next e)) ns) /\
    e_next e' = S (e_next e) /\ alookup (e_next e) (e_router e') = Some (e_next e mod nw).
Proof. exact spawn_answered_once. Qed.
Print Assumptions C04_spawn_answered_once.

(* the F71 step itself, repaired: a stale result-less answer leaves a waiting spawner alone *)
Theorem C04_stale_update_leaves_spawner : forall c t w,
  mem c (w_spawning w) = true -> mem c (w_selecting w) = false ->
  update_await c [(t, None)] w = w.
Proof. exact stale_update_leaves_spawner. Qed.
Print Assumptions C04_stale_update_leaves_spawner.

(* regression witness of F71 (corpus/sim_c03.txt): after its schedule the spawner is still parked,
   its SpawnAction still queued, the run queue empty *)
Theorem C04_f71_schedule_repaired :
  exists s, run (init 1) f71_schedule = Good s /\ spawner_ok 0 s = true /\
            w_queue (n_w (nth 0 (s_nodes s) {| n_w := new_worker; n_cmd := []; n_evt := [] |})) = [].
Proof. exact f71_schedule_repaired. Qed.
Print Assumptions C04_f71_schedule_repaired.

(* every wake-up source re-queues a parked select *)
Theorem C04_wakeup_on_message : forall t m w w' ev pr,
  alookup t (w_procs w) = Some pr -> mem t (w_selecting w) = true ->
  handle_cmd (CDeliver t m) w = Good (w', ev) ->
  w_queue w' = w_queue w ++ [t] /\ mem t (w_selecting w') = false /\
  exists pr', alookup t (w_procs w') = Some pr' /\ p_mail pr' = p_mail pr ++ [m].
Proof. exact wakeup_on_message. Qed.
Print Assumptions C04_wakeup_on_message.

Theorem C04_wakeup_on_result : forall awaiter t v w pr,
  alookup awaiter (w_procs w) = Some pr -> alookup t (p_awaiting pr) <> None -> mem awaiter (w_selecting w) = true ->
  let w' := update_await awaiter [(t, Some (ROk v))] w in
  w_queue w' = w_queue w ++ [awaiter] /\ mem awaiter (w_selecting w') = false /\
  exists pr', alookup awaiter (w_procs w') = Some pr' /\ alookup t (p_awaiting pr') = Some (Some (ROk v)).
Proof. exact wakeup_on_result. Qed.
Print Assumptions C04_wakeup_on_result.

Theorem C04_wakeup_on_timeout : forall now hint w w' p,
  expire now hint w = Good w' -> mem p (w_selecting w) = true -> timed_out now w p = true ->
  In p (w_queue w') /\ mem p (w_selecting w') = false.
Proof. exact wakeup_on_timeout. Qed.
Print Assumptions C04_wakeup_on_timeout.

(* non-vacuity: a 3-process fan-in mid-flight — one message arrived, one in a command queue, one in
   an event queue *)
Theorem C04_nonvacuous :
  exists s, run (init 2) fanin_schedule = Good s /\
    let x1 := (1, mkMsg 2 0 0) in let x2 := (1, mkMsg 0 0 1) in let x3 := (1, mkMsg 2 0 2) in
    total (g_arr x1) (s_nodes s) = 1 /\ total (g_cmd x2) (s_nodes s) = 1 /\ total (g_evt x3) (s_nodes s) = 1 /\
    total (g_sent x1) (s_nodes s) = 1 /\ total (g_sent x2) (s_nodes s) = 1 /\ total (g_sent x3) (s_nodes s) = 1.
Proof. exact fanin_midflight. Qed.
Print Assumptions C04_nonvacuous.
