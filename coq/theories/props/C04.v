(* C04 — Messages: exactly-once, per-sender FIFO, no lost wake-ups.
   ONLY property theorems: statement, `exact <lemma>`, Print Assumptions.
   Model: sys/Proto.v (M-Sys: Executor scheduling state, Worker, Environment, transports; process
   behaviour and HashMap iteration orders are inputs, universally quantified here; ghost stamps
   (sender, worker, sequence number) on messages). Tied to the code by replaying `qv_sim --trace`
   runs of the real Environment/Workers through the extracted model, state compared after every
   action (vplib/props/c04.py).

   PROVED for every schedule and every oracle: message_conservation, stamps_unique (together:
   every sent message is in exactly one of event queue / command queue / arrival log),
   per_link_fifo / per_sender_fifo (the send sequence of a worker to a target IS arrival log ++
   command queue ++ event queue, as lists), no_message_dropped (a DeliverMessage is never handled
   for a process that does not exist).
   Also PROVED for every schedule and every oracle (phase 3):
     scheduler_well_formed : in every reachable state the executor sets of every worker are well
                            formed (run queue duplicate-free, `spawning` / `selecting` / queue pairwise
                            disjoint and naming existing unfinished processes) and every process lives
                            on the worker the router names.
     spawner_gets_pid     : the GLOBAL invariant: for every process c,
                            #workers with c in `spawning` = #SpawnAction(c) queued + #NotifySpawn(c,_)
                            queued <= 1, and a queued NotifySpawn sits in the queue of the worker
                            that holds the spawner (the Spawn instruction adds c to `spawning` and
                            emits the SpawnAction in one atomic slice, so "Spawn action pending" is
                            not a separate state of the model).
     arrival_log_is_mailbox_history : on every worker the DeliverMessages handled for target t (the
                            ghost arrival log restricted to t) ARE, as a list, p_arrived of t —
                            everything ever appended to t's mailbox; with per_link_fifo this makes
                            the FIFO theorems statements about mailboxes.
     no_lost_wakeup, three of the four clauses of Inv_parked (DESIGN.md §5 C04), each as an invariant
     over all schedules:
       awaited_completion_never_unseen : no process in `awaited` has a result between steps;
       no_timeout_due_at_last_check    : after every Worker::step at clock `now` no parked process
                                         has a timeout elapsed at `now` (for slices that do not
                                         park with a timeout already due: `time_honest`, C05 — a premise
                                         on PARKING slices only: a slice that ends runnable may end inside a
                                         select whose timeout is due, `! [0]` at quantum 1);
       parked_has_no_unseen_message    : a process parked in an evaluated select has every receive
                                         cursor at the end of its mailbox (for slices that park
                                         honestly: `honest_run`, the select machine of C05; a select
                                         that re-parks before all its awaited targets are reported —
                                         repair of F72 — has its start unset and is not constrained).
   FORMERLY NOT PROVED (the old text is kept):
     no_lost_wakeup_partial : the fourth clause of Inv_parked — "p in selecting, p awaits t, t has
                            a result  ->  the answer is in flight (ProcessResults event, pending_awaits
                            entry or UpdateAwaitResults command)" — and with it the corollary
                            quiescent_no_ready (all queues empty -> no parked process has a ready
                            source). The await handshake goes through five hops with stale and
                            overwritten pending_awaits entries (F8/F72 live there).
   NOW DECIDED (phase 4; sys/ProtoAwait*.v, ProtoQuiesce.v over the micro-step decomposition
   sys/ProtoMicro.v):
     REFUTED for arbitrary oracles (parked_await_refuted_for_dishonest_oracle, kernel-computed,
       17 actions on 2 workers): a slice that issues Await [2] while keeping the stale key 1 of its
       previous select lets the new AwaitAction overwrite the pending_awaits entry that stores
       {1: Ok 11}; the run ends quiescent with process 0 parked, awaiting 1 (None), 1 finished,
       nothing in flight. No slice of the real VM does this (complete_select, executor.rs:2671,
       removes the process sources of a completed select; a process blocks in one select at a
       time): a property of the select machine, not a defect of the protocol.
     PROVED for every schedule and every oracle that is `await_honest` (a Prop/boolean on the
       schedule, evaluated on the worker state each executor step starts from):
         (a) a slice is executed only for a process that has no result yet (needed:
             parked_await_refuted_for_resurrecting_oracle), and
         (b) a slice that ends with the Await action for ts leaves no key outside ts in `awaiting`:
       await_backed : every None entry of an unfailed process is backed — the awaiter is registered in
         awaiters_for_target ON THE TARGET'S OWN WORKER (and the target is in its `awaited` set),
         or the answer is in flight: AwaitAction event | QueryAndAwait command | ProcessResults
         event carrying the result | result stored in the pending_awaits entry | UpdateAwaitResults
         command carrying the result;
       parked_await_answer_in_flight : the fourth clause of Inv_parked as stated above (with "or the
         awaiter has been completed by a failure": Worker::notify_result completes it in place);
       quiescent_no_unseen_result / quiescent_no_ready : all command and event queues empty -> no
         unfailed process has a None entry for a finished process (a pending_awaits entry is live:
         every worker it still expects has the query or an answer in its queues), and with
         parked_has_no_unseen_message: no parked process has an unseen ready source.
     F72 (repaired by 8388832) was NOT a counterexample to this clause: the overtaken awaiter is
     runnable, not parked; since the repair it parks again until the answer arrives, which is the
     case this clause covers (the answer is in flight). *)
From Quiver Require Import sys.Proto sys.ProtoMsg sys.ProtoFifo sys.ProtoDeliver sys.ProtoFail sys.ProtoWake sys.ProtoExamples
  sys.ProtoWf sys.ProtoParked sys.ProtoSpawnInv sys.ProtoArrive sys.ProtoMicro sys.ProtoOps sys.ProtoAwait sys.ProtoAwaitInv sys.ProtoAwaitThm sys.ProtoQuiesce.

(* every stamped message that was sent is — counted with multiplicity — in exactly one of: the
   arrival log of a worker (its DeliverMessage was handled), a command queue (DeliverMessage in
   flight), an event queue (DeliverAction in flight): nothing duplicated, nothing dropped *)
Theorem C04_message_conservation : forall nw sigma s,
  0 < nw -> run (init nw) sigma = Good s ->
  forall t m,
    total (g_sent (t, m)) (s_nodes s)
    = total (g_arr (t, m)) (s_nodes s) + total (g_cmd (t, m)) (s_nodes s) + total (g_evt (t, m)) (s_nodes s).
Proof. exact message_conservation. Qed.
Print Assumptions C04_message_conservation.

(* no stamp is issued twice: a worker's sequence numbers are pairwise distinct and below its
   counter, and every stamp carries its worker's index *)
Theorem C04_stamps_unique : forall nw sigma s,
  run (init nw) sigma = Good s ->
  forall i nd, nth_error (s_nodes s) i = Some nd ->
    NoDup (map (fun e => m_seq (snd e)) (w_sentlog (n_w nd))) /\
    Forall (fun e => m_w (snd e) = i /\ m_seq (snd e) < w_nsent (n_w nd)) (w_sentlog (n_w nd)).
Proof. exact stamps_unique. Qed.
Print Assumptions C04_stamps_unique.

(* exactly-once AND in order on every link: for source worker i and target t routed to worker j, the
   messages i sent to t (in sending order) are those that arrived at j, then those in j's command
   queue, then those in i's event queue *)
Theorem C04_per_link_fifo : forall nw sigma s,
  0 < nw -> run (init nw) sigma = Good s ->
  forall i ndi t j ndj,
    nth_error (s_nodes s) i = Some ndi -> alookup t (e_router (s_env s)) = Some j -> nth_error (s_nodes s) j = Some ndj ->
    ft t (w_sentlog (n_w ndi)) =
    link i t (w_arrlog (n_w ndj)) ++ link i t (delivs (n_cmd ndj)) ++ ft t (edelivs (n_evt ndi)).
Proof. exact per_link_fifo. Qed.
Print Assumptions C04_per_link_fifo.

(* per sender process p: what has arrived from p is a prefix of what p sent, in p's order *)
Theorem C04_per_sender_fifo : forall nw sigma s,
  0 < nw -> run (init nw) sigma = Good s ->
  forall i ndi t j ndj p,
    nth_error (s_nodes s) i = Some ndi -> alookup t (e_router (s_env s)) = Some j -> nth_error (s_nodes s) j = Some ndj ->
    exists in_flight,
      from p (ft t (w_sentlog (n_w ndi))) = from p (link i t (w_arrlog (n_w ndj))) ++ in_flight.
Proof. exact per_sender_fifo. Qed.
Print Assumptions C04_per_sender_fifo.

(* nothing is dropped at the mailbox: no DeliverMessage is handled for a process that does not exist;
   a routed process is on its worker, or its spawn command is queued there ahead of every
   DeliverMessage addressed to it *)
Theorem C04_no_message_dropped : forall nw sigma s,
  0 < nw -> run (init nw) sigma = Good s ->
  (forall n nd, nth_error (s_nodes s) n = Some nd -> w_dropped (n_w nd) = []) /\
  (forall t n nd, alookup t (e_router (s_env s)) = Some n -> nth_error (s_nodes s) n = Some nd -> ready t (n_w nd) (n_cmd nd)).
Proof. exact no_message_dropped. Qed.
Print Assumptions C04_no_message_dropped.

(* one Worker::step, for every oracle: the commands it handles are a prefix of its queue, their
   DeliverMessage's extend the arrival log IN ORDER, and what it emits extends its send log and its
   event queue IN ORDER (the per-hop ingredient of per_sender_fifo) *)
Theorem C04_worker_step_fifo : forall i now k o nd nd',
  node_step i now k o nd = Good nd' ->
  exists pre new,
    n_cmd nd = pre ++ n_cmd nd' /\
    w_arrlog (n_w nd') = w_arrlog (n_w nd) ++ delivs pre /\
    edelivs (n_evt nd') = edelivs (n_evt nd) ++ new /\
    w_sentlog (n_w nd') = w_sentlog (n_w nd) ++ new /\
    ((new = [] /\ w_nsent (n_w nd') = w_nsent (n_w nd)) \/
     (exists t p, new = [(t, mkMsg p i (w_nsent (n_w nd)))] /\ w_nsent (n_w nd') = S (w_nsent (n_w nd)))).
Proof. exact node_step_ghost. Qed.
Print Assumptions C04_worker_step_fifo.

(* spawner_gets_pid, handler form: Worker::handle_command takes c out of `spawning` only for c's
   NotifySpawn (since the repair of F71 a result-less UpdateAwaitResults no longer does) *)
Theorem C04_spawning_left_only_by_notify : forall cmd w w' ev c,
  handle_cmd cmd w = Good (w', ev) ->
  mem c (w_spawning w) = true -> mem c (w_spawning w') = false ->
  exists sp, cmd = CNotifySpawn c sp.
Proof. exact spawning_left_only_by_notify. Qed.
Print Assumptions C04_spawning_left_only_by_notify.

Theorem C04_exec_step_keeps_spawning : forall i now o w w' ev,
  exec_step i now o w = Good (w', ev) -> forall c, mem c (w_spawning w) = true -> mem c (w_spawning w') = true.
Proof. exact exec_step_keeps_spawning. Qed.
Print Assumptions C04_exec_step_keeps_spawning.

Theorem C04_spawn_answered_once : forall nw caller e ns e' ns',
  handle_event nw (ESpawnA caller) (e, ns) = Good (e', ns') ->
  exists cw, alookup caller (e_router e') = Some cw /\
    ns' = push_cmd cw (CNotifySpawn caller (e_next e)) (push_cmd (e_next e mod nw) (CSpawn (e_next e)) ns) /\
    e_next e' = S (e_next e) /\ alookup (e_next e) (e_router e') = Some (e_next e mod nw).
Proof. exact spawn_answered_once. Qed.
Print Assumptions C04_spawn_answered_once.

(* the F71 step itself, repaired: a stale result-less answer leaves a waiting spawner alone *)
Theorem C04_stale_update_leaves_spawner : forall c t w,
  mem c (w_spawning w) = true -> mem c (w_selecting w) = false ->
  update_await c [(t, None)] w = w.
Proof. exact stale_update_leaves_spawner. Qed.
Print Assumptions C04_stale_update_leaves_spawner.

(* regression witness of F71 (corpus/sim_c03.txt): after its schedule the spawner is still parked,
   its SpawnAction still queued, the run queue empty *)
Theorem C04_f71_schedule_repaired :
  exists s, run (init 1) f71_schedule = Good s /\ spawner_ok 0 s = true /\
            w_queue (n_w (nth 0 (s_nodes s) {| n_w := new_worker; n_cmd := []; n_evt := [] |})) = [].
Proof. exact f71_schedule_repaired. Qed.
Print Assumptions C04_f71_schedule_repaired.

(* every wake-up source re-queues a parked select *)
Theorem C04_wakeup_on_message : forall t m w w' ev pr,
  alookup t (w_procs w) = Some pr -> mem t (w_selecting w) = true ->
  handle_cmd (CDeliver t m) w = Good (w', ev) ->
  w_queue w' = w_queue w ++ [t] /\ mem t (w_selecting w') = false /\
  exists pr', alookup t (w_procs w') = Some pr' /\ p_mail pr' = p_mail pr ++ [m].
Proof. exact wakeup_on_message. Qed.
Print Assumptions C04_wakeup_on_message.

Theorem C04_wakeup_on_result : forall awaiter t v w pr,
  alookup awaiter (w_procs w) = Some pr -> alookup t (p_awaiting pr) <> None -> mem awaiter (w_selecting w) = true ->
  let w' := update_await awaiter [(t, Some (ROk v))] w in
  w_queue w' = w_queue w ++ [awaiter] /\ mem awaiter (w_selecting w') = false /\
  exists pr', alookup awaiter (w_procs w') = Some pr' /\ alookup t (p_awaiting pr') = Some (Some (ROk v)).
Proof. exact wakeup_on_result. Qed.
Print Assumptions C04_wakeup_on_result.

Theorem C04_wakeup_on_timeout : forall now hint w w' p,
  expire now hint w = Good w' -> mem p (w_selecting w) = true -> timed_out now w p = true ->
  In p (w_queue w') /\ mem p (w_selecting w') = false.
Proof. exact wakeup_on_timeout. Qed.
Print Assumptions C04_wakeup_on_timeout.

(* non-vacuity: a 3-process fan-in mid-flight — one message arrived, one in a command queue, one in
   an event queue *)
Theorem C04_nonvacuous :
  exists s, run (init 2) fanin_schedule = Good s /\
    let x1 := (1, mkMsg 2 0 0) in let x2 := (1, mkMsg 0 0 1) in let x3 := (1, mkMsg 2 0 2) in
    total (g_arr x1) (s_nodes s) = 1 /\ total (g_cmd x2) (s_nodes s) = 1 /\ total (g_evt x3) (s_nodes s) = 1 /\
    total (g_sent x1) (s_nodes s) = 1 /\ total (g_sent x2) (s_nodes s) = 1 /\ total (g_sent x3) (s_nodes s) = 1.
Proof. exact fanin_midflight. Qed.
Print Assumptions C04_nonvacuous.

(* ---- phase 3: global invariants over every schedule and every oracle *)
Theorem C04_scheduler_well_formed : forall nw sigma s,
  run (init nw) sigma = Good s ->
  forall i nd, nth_error (s_nodes s) i = Some nd ->
    SW (n_w nd) /\ (forall p, has p (n_w nd) -> alookup p (e_router (s_env s)) = Some i).
Proof. exact scheduler_well_formed. Qed.
Print Assumptions C04_scheduler_well_formed.

Theorem C04_spawner_gets_pid : forall nw sigma s,
  run (init nw) sigma = Good s ->
  forall c,
    spawn_pending s c <= 1 /\
    (in_spawning s c <-> spawn_pending s c = 1) /\
    (forall i nd, nth_error (s_nodes s) i = Some nd -> 1 <= nnc c (n_cmd nd) -> mem c (w_spawning (n_w nd)) = true).
Proof. exact spawner_gets_pid_global. Qed.
Print Assumptions C04_spawner_gets_pid.

Theorem C04_spawner_states_reachable :
  (exists s, run (init 2) [X (XStart false); W 0 None (orc (Some 0) (d_act_ ASpawn))] = Good s /\
     in_spawning s 0 /\ total (g_se 0) (s_nodes s) = 1 /\ total (g_nc 0) (s_nodes s) = 0) /\
  (exists s, run (init 2) [X (XStart false); W 0 None (orc (Some 0) (d_act_ ASpawn)); E []] = Good s /\
     in_spawning s 0 /\ total (g_se 0) (s_nodes s) = 0 /\ total (g_nc 0) (s_nodes s) = 1).
Proof. exact (conj spawn_evt_pending spawn_notif_pending). Qed.
Print Assumptions C04_spawner_states_reachable.

Theorem C04_awaited_completion_never_unseen : forall nw sigma s,
  run (init nw) sigma = Good s ->
  forall i nd t, nth_error (s_nodes s) i = Some nd -> In t (w_awaited (n_w nd)) -> result_of (n_w nd) t = None.
Proof. exact awaited_completion_never_unseen. Qed.
Print Assumptions C04_awaited_completion_never_unseen.

Theorem C04_no_timeout_due_at_last_check : forall nw sigma s i k o s',
  run (init nw) sigma = Good s -> sys_step s (W i k o) = Good s' -> time_honest (s_clock s) (o_did o) ->
  forall nd' p, nth_error (s_nodes s') i = Some nd' -> mem p (w_selecting (n_w nd')) = true ->
    timed_out (s_clock s) (n_w nd') p = false.
Proof. exact no_timeout_due_at_last_check. Qed.
Print Assumptions C04_no_timeout_due_at_last_check.

Theorem C04_parked_has_no_unseen_message : forall sigma nw s,
  honest_run (init nw) sigma -> run (init nw) sigma = Good s ->
  forall i nd p pr sl, nth_error (s_nodes s) i = Some nd ->
    mem p (w_selecting (n_w nd)) = true -> alookup p (w_procs (n_w nd)) = Some pr ->
    p_sel pr = Some sl -> sl_start sl <> None ->
    Forall (fun c => c = length (p_mail pr)) (sl_cursors sl).
Proof. exact parked_has_no_unseen_message. Qed.
Print Assumptions C04_parked_has_no_unseen_message.

Theorem C04_parked_premises_nonvacuous : exists s nd pr,
  honest_run (init 1) park_schedule /\ run (init 1) park_schedule = Good s /\
  nth_error (s_nodes s) 0 = Some nd /\ mem 0 (w_selecting (n_w nd)) = true /\
  alookup 0 (w_procs (n_w nd)) = Some pr /\ p_sel pr = Some parked_sel /\ sl_start parked_sel <> None /\
  time_honest 0 {| d_taken := []; d_sel := Some parked_sel; d_forget := []; d_act := None; d_park := true; d_fin := None; d_heapy := false |}.
Proof. exact parked_premises_hold. Qed.
Print Assumptions C04_parked_premises_nonvacuous.

Theorem C04_arrival_log_is_mailbox_history : forall nw sigma s,
  0 < nw -> run (init nw) sigma = Good s ->
  forall i nd t, nth_error (s_nodes s) i = Some nd ->
    tgt t (w_arrlog (n_w nd)) = arr t (n_w nd).
Proof. exact arrival_log_is_mailbox_history. Qed.
Print Assumptions C04_arrival_log_is_mailbox_history.

Theorem C04_arrival_history_nonvacuous : exists s nd,
  run (init 2) fanin_schedule = Good s /\ nth_error (s_nodes s) 1 = Some nd /\
  tgt 1 (w_arrlog (n_w nd)) = [mkMsg 2 0 0] /\ arr 1 (n_w nd) = [mkMsg 2 0 0].
Proof. exact arrival_history_nonempty. Qed.
Print Assumptions C04_arrival_history_nonvacuous.

(* ---- phase 4: the await handshake (fourth clause of Inv_parked) and quiescent_no_ready *)
Theorem C04_await_backed : forall nw sigma s,
  0 < nw -> await_honest_run (init nw) sigma -> run (init nw) sigma = Good s ->
  forall i nd p pr t, nth_error (s_nodes s) i = Some nd ->
    alookup p (w_procs (n_w nd)) = Some pr -> alookup t (p_awaiting pr) = Some None ->
    failed pr \/
    (exists j ndj, alookup t (e_router (s_env s)) = Some j /\ nth_error (s_nodes s) j = Some ndj /\
                   registered p t (n_w ndj) /\ In t (w_awaited (n_w ndj))) \/
    answer_in_flight s p t.
Proof. exact await_backed. Qed.
Print Assumptions C04_await_backed.

Theorem C04_parked_await_answer_in_flight : forall nw sigma s,
  0 < nw -> await_honest_run (init nw) sigma -> run (init nw) sigma = Good s ->
  forall i nd p pr t j ndj r,
    nth_error (s_nodes s) i = Some nd -> mem p (w_selecting (n_w nd)) = true ->
    alookup p (w_procs (n_w nd)) = Some pr -> alookup t (p_awaiting pr) = Some None ->
    nth_error (s_nodes s) j = Some ndj -> result_of (n_w ndj) t = Some r ->
    failed pr \/ answer_in_flight s p t.
Proof. exact parked_await_answer_in_flight. Qed.
Print Assumptions C04_parked_await_answer_in_flight.

Theorem C04_parked_await_refuted_for_dishonest_oracle :
  exists s nd pr nd1,
    run (init 2) stale_key_schedule = Good s /\ await_honest_runb (init 2) stale_key_schedule = false /\
    nth_error (s_nodes s) 0 = Some nd /\ mem 0 (w_selecting (n_w nd)) = true /\
    alookup 0 (w_procs (n_w nd)) = Some pr /\ p_res pr = None /\ alookup 1 (p_awaiting pr) = Some None /\
    nth_error (s_nodes s) 1 = Some nd1 /\ result_of (n_w nd1) 1 = Some (ROk 11) /\
    quiescent s /\ ~ answer_in_flight s 0 1.
Proof. exact parked_await_refuted_for_dishonest_oracle. Qed.
Print Assumptions C04_parked_await_refuted_for_dishonest_oracle.

(* the other half of the premise is needed too: a slice run for a process that a failure notification
   has completed in place, finishing Ok, followed by a client resume *)
Theorem C04_parked_await_refuted_for_resurrecting_oracle :
  exists s nd pr nd1,
    run (init 2) resurrect_schedule = Good s /\
    await_honest_runb (init 2) resurrect_schedule = false /\ await_honest_runb (init 2) (firstn 7 resurrect_schedule) = true /\
    nth_error (s_nodes s) 0 = Some nd /\ mem 0 (w_selecting (n_w nd)) = true /\
    alookup 0 (w_procs (n_w nd)) = Some pr /\ p_res pr = None /\ alookup 1 (p_awaiting pr) = Some None /\
    nth_error (s_nodes s) 1 = Some nd1 /\ result_of (n_w nd1) 1 = Some (RErr 7) /\
    quiescent s /\ ~ answer_in_flight s 0 1.
Proof. exact parked_await_refuted_for_resurrecting_oracle. Qed.
Print Assumptions C04_parked_await_refuted_for_resurrecting_oracle.

Theorem C04_await_premise_decidable : forall sigma s, await_honest_runb s sigma = true -> await_honest_run s sigma.
Proof. exact await_honest_runb_sound. Qed.
Print Assumptions C04_await_premise_decidable.

Theorem C04_parked_await_nonvacuous :
  await_honest_runb (init 2) await_schedule = true /\
  exists s nd pr nd1,
    run (init 2) await_schedule = Good s /\
    nth_error (s_nodes s) 0 = Some nd /\ mem 0 (w_selecting (n_w nd)) = true /\
    alookup 0 (w_procs (n_w nd)) = Some pr /\ p_res pr = None /\ alookup 1 (p_awaiting pr) = Some None /\
    nth_error (s_nodes s) 1 = Some nd1 /\ result_of (n_w nd1) 1 = Some (ROk 5) /\
    In (CUpdate 0 [(1, Some (ROk 5))]) (n_cmd nd).
Proof. exact parked_await_applies. Qed.
Print Assumptions C04_parked_await_nonvacuous.

Theorem C04_quiescent_no_unseen_result : forall nw sigma s,
  0 < nw -> await_honest_run (init nw) sigma -> run (init nw) sigma = Good s ->
  (forall i nd, nth_error (s_nodes s) i = Some nd -> n_cmd nd = [] /\ n_evt nd = []) ->
  forall i nd p pr t j ndj, nth_error (s_nodes s) i = Some nd ->
    alookup p (w_procs (n_w nd)) = Some pr -> alookup t (p_awaiting pr) = Some None -> ~ failed pr ->
    nth_error (s_nodes s) j = Some ndj -> result_of (n_w ndj) t = None.
Proof. exact quiescent_no_unseen_result. Qed.
Print Assumptions C04_quiescent_no_unseen_result.

Theorem C04_quiescent_no_ready : forall nw sigma s,
  0 < nw -> honest_run (init nw) sigma -> await_honest_run (init nw) sigma -> run (init nw) sigma = Good s ->
  (forall i nd, nth_error (s_nodes s) i = Some nd -> n_cmd nd = [] /\ n_evt nd = []) ->
  forall i nd p pr, nth_error (s_nodes s) i = Some nd ->
    mem p (w_selecting (n_w nd)) = true -> alookup p (w_procs (n_w nd)) = Some pr ->
    (forall sl, p_sel pr = Some sl -> sl_start sl <> None -> Forall (fun c => c = length (p_mail pr)) (sl_cursors sl)) /\
    (~ failed pr -> forall t j ndj, alookup t (p_awaiting pr) = Some None ->
       nth_error (s_nodes s) j = Some ndj -> result_of (n_w ndj) t = None).
Proof. exact quiescent_no_ready. Qed.
Print Assumptions C04_quiescent_no_ready.
