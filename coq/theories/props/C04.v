(* C04 — Messages: exactly-once, per-sender FIFO, no lost wake-ups.
   ONLY property theorems: statement, `exact <lemma>`, Print Assumptions.
   Model: sys/Proto.v (M-Sys: Executor scheduling state, Worker, Environment, transports; process
   behaviour and HashMap iteration orders are inputs, universally quantified here; ghost stamps
   (sender, worker, sequence number) on messages). Tied to the code by replaying `qv_sim --trace`
   runs of the real Environment/Workers through the extracted model, state compared after every
   action (vplib/props/c04.py).

   PROVED for every schedule and every oracle: message_conservation, stamps_unique (together:
   every sent message is in exactly one of event queue / command queue / arrival log),
   and the refutation of spawner_gets_pid by the F71 schedule.
   NOT PROVED (partial; full statements kept here):
     per_sender_fifo      : forall nw sigma s, run (init nw) sigma = Good s -> forall i t,
                            (messages stamped by worker i for target t) as logged by the sender =
                            arrival log of t's worker ++ its command queue ++ worker i's event queue,
                            each restricted to (i, t), as LISTS (order preserved on every hop).
     spawner_gets_pid     : forall sigma, ~ StaleWake sigma -> run (init nw) sigma = Good s ->
                            forall c, spawner_ok c s = true
                            (StaleWake: some UpdateAwaitResults without results is handled while its
                             awaiter is in `spawning` — the known class F71; refuted without it below).
     no_lost_wakeup       : Inv_parked (DESIGN.md §5 C04) and its corollary quiescent_no_ready; the
                            implementation-level quiescence oracle + wake-up probe of qv_sim check it
                            on every explored run instead. *)
From Quiver Require Import sys.Proto sys.ProtoMsg sys.ProtoFail sys.ProtoExamples.

(* every stamped message that was sent is — counted with multiplicity — in exactly one of: the
   arrival log of a worker (its DeliverMessage was handled), a command queue (DeliverMessage in
   flight), an event queue (DeliverAction in flight): nothing duplicated, nothing dropped *)
Theorem C04_message_conservation : forall nw sigma s,
  0 < nw -> run (init nw) sigma = Good s ->
  forall t m,
    total (g_sent (t, m)) (s_nodes s)
    = total (g_arr (t, m)) (s_nodes s) + total (g_cmd (t, m)) (s_nodes s) + total (g_evt (t, m)) (s_nodes s).
Proof. exact message_conservation. Qed.
Print Assumptions C04_message_conservation.

(* no stamp is issued twice: a worker's sequence numbers are pairwise distinct and below its
   counter, and every stamp carries its worker's index *)
Theorem C04_stamps_unique : forall nw sigma s,
  run (init nw) sigma = Good s ->
  forall i nd, nth_error (s_nodes s) i = Some nd ->
    NoDup (map (fun e => m_seq (snd e)) (w_sentlog (n_w nd))) /\
    Forall (fun e => m_w (snd e) = i /\ m_seq (snd e) < w_nsent (n_w nd)) (w_sentlog (n_w nd)).
Proof. exact stamps_unique. Qed.
Print Assumptions C04_stamps_unique.

(* one Worker::step, for every oracle: the commands it handles are a prefix of its queue, their
   DeliverMessage's extend the arrival log IN ORDER, and what it emits extends its send log and its
   event queue IN ORDER (the per-hop ingredient of per_sender_fifo) *)
Theorem C04_worker_step_fifo : forall i now k o nd nd',
  node_step i now k o nd = Good nd' ->
  exists pre new,
    n_cmd nd = pre ++ n_cmd nd' /\
    w_arrlog (n_w nd') = w_arrlog (n_w nd) ++ delivs pre /\
    edelivs (n_evt nd') = edelivs (n_evt nd) ++ new /\
    w_sentlog (n_w nd') = w_sentlog (n_w nd) ++ new /\
    ((new = [] /\ w_nsent (n_w nd') = w_nsent (n_w nd)) \/
     (exists t p, new = [(t, mkMsg p i (w_nsent (n_w nd)))] /\ w_nsent (n_w nd') = S (w_nsent (n_w nd)))).
Proof. exact node_step_ghost. Qed.
Print Assumptions C04_worker_step_fifo.

(* spawner_gets_pid is REFUTED for the code as it is (known finding F71): after the schedule of
   corpus/sim_c03.txt a process is no longer in `spawning` although its SpawnAction is still queued,
   it has re-executed Spawn and failed *)
Theorem C04_spawner_gets_pid_refuted :
  exists s, run (init 1) f71_schedule = Good s /\ spawner_ok 0 s = false /\
            (exists pr, alookup 0 (w_procs (n_w (nth 0 (s_nodes s) {| n_w := new_worker; n_cmd := []; n_evt := [] |}))) = Some pr
                        /\ p_res pr = Some (RErr 7)).
Proof. exact spawner_gets_pid_refuted. Qed.
Print Assumptions C04_spawner_gets_pid_refuted.

(* non-vacuity: a 3-process fan-in mid-flight — one message arrived, one in a command queue, one in
   an event queue *)
Theorem C04_nonvacuous :
  exists s, run (init 2) fanin_schedule = Good s /\
    let x1 := (1, mkMsg 2 0 0) in let x2 := (1, mkMsg 0 0 1) in let x3 := (1, mkMsg 2 0 2) in
    total (g_arr x1) (s_nodes s) = 1 /\ total (g_cmd x2) (s_nodes s) = 1 /\ total (g_evt x3) (s_nodes s) = 1 /\
    total (g_sent x1) (s_nodes s) = 1 /\ total (g_sent x2) (s_nodes s) = 1 /\ total (g_sent x3) (s_nodes s) = 1.
Proof. exact fanin_midflight. Qed.
Print Assumptions C04_nonvacuous.
