(* C09 — Assignability implies containment; overlap detection is complete.
   ONLY the property theorems, each closed by `exact <lemma>` and followed by Print Assumptions.
   Models: Types.v (registry), Rel.v (check_type_relation, `current_cfg` = /repo after the fix:
   commits 5207502 (F7), 2246a47 (F12), 2932723 (F29), 7ba69a0 (F25p), e7dcc7d (F55), dea0269 (F25)), Narrow.v (incl.
   f9e893e = F26, 2bb39f1 = F56, d6406e8 = F87, 79f9965 = F25b).  Specification: Sem.v (`inhab`).

   What is PROVED (for every registry, unbounded):
     compat_sound_partial      is_compatible => containment, on the cycle-free fragment
                               (`cf_domain`: ids topologically ordered, no Cycle/Variable reachable,
                               processes with both directions; named partial types only for
                               variants with the F29 repair), for every model variant that
                               retracts failed assumptions (fix F7)
     compat_refl               outright, every registry and id
     compat_trans_partial      is_compatible is transitive on the cycle-free fragment (`trans_domain`:
                               ids topologically ordered, no duplicate type entry, no Cycle/Variable
                               reachable), for every variant with the F7 and F29 repairs and fuel
                               above the id sums: check_rel computes exactly a reference relation
                               (TransCheck.check_exact) that is transitive (TransProofs.R_trans)
     overlap_complete_partial  a `false` of types_overlap proves disjointness on the first-order
                               cycle-free fragment (ints, bins, refs, resources, tuples, unions);
     overlap_complete_callable_partial  the same with callable and process types in the fragment,
                               for the variants with the F25 repair
     overlap_complete_partial_arms  the same with PARTIAL types in the fragment too (all three partial arms of
                               check_type_relation), for the variants with the F25 and F25p repairs, over values
                               whose tuples carry each label at most once (`wfv`); without that premise on
                               the values: refuted (overlap_partial_arms_refuted_dup_labels)
     intersect_keeps_partial   a value of both a and b is a value of intersect_types a b (in the registry
                               after the call, which extends the one before), a b first-order cycle-free
     intersect_keeps_callable_partial / intersect_keeps_process_partial   the same for two callable / two process
                               operands with first-order cycle-free components (the exact meet of fix_F25b),
                               memberships read in the registry after the call
     intersect_keeps_partial_pattern / complement_keeps_partial_pattern   narrowing a first-order cycle-free type by
                               a PARTIAL pattern type (first-order field types): both branches keep their values
                               (the intersect side over values with distinct labels)
     complement_keeps_partial  a value of o that is not a value of nr is a value of compute_complement o nr,
                               o nr first-order cycle-free, registry well formed (`wfregb`), F7 repair
     filter_keeps_partial      filter_variants_by_field with the overlap test (as in /repo since the F87 repair) keeps every tuple
                               value of the parent whose tested field is a value of the tested type (first-order
                               cycle-free parent with non-union variants); as found: refuted (filter_refuted_F87_as_found)
     register_type/tuple_monotone, inhab_monotone   registry monotonicity
   What is REFUTED on the real code (witnesses, vm_compute; replayed by ./check):
     F7, F12, F25, F25p, F29, F87 (as found; repaired since, repaired answers pinned), F23 (a, c), F24.
   What is NOT proved (kept here in full; judged on every run by the semantic oracle on the REAL
   functions' answers, exhaustive value enumeration to depth 3):

     compat_sound : forall P a b, closedb P a = true -> closedb P b = true -> ~ KnownF23 P a b ->
        is_compatible P a b = true -> forall n v, inhab P n [] v a -> inhab P n [] v b
        (KnownF23 = a Cycle of depth >= 2 or an open subterm shared by two binders is reachable;
         proved only where no Cycle is reachable at all — the recursive fragment is missing)
     compat_trans (general) : is_compatible P a b = true -> is_compatible P b c = true ->
        is_compatible P a c = true        (proved on the cycle-free fragment: compat_trans_partial
        below; on the recursive fragment it is checked on every generated triple, ~31 k per quick
        run, 0 failures since the F29 repair)
     overlap_complete : forall P a b, closedb P a = true -> closedb P b = true ->
        (exists n v, inhab P n [] v a /\ inhab P n [] v b) -> types_overlap P a b = true
        (recursive fragment unproved; on the cycle-free fragment all arms are proved, the partial
         arms over values with distinct labels: overlap_complete_partial_arms below)
     intersect_keeps / complement_keeps (general) : false on recursive unions (F24, witness
        C09_complement_refuted_F24); PROVED on the first-order cycle-free fragment (and for two callable /
        two process operands, and against a partial pattern type):
        intersect_keeps_partial, complement_keeps_partial below (NarrowProofs.v: every narrowing
        function only extends the registry; union_type_ids keeps every value of every piece; a
        `never` answer of intersect_pair's default arm is justified by overlap_complete_partial,
        the is_compatible shortcut of subtract_one by compat_sound_partial; membership in a
        first-order type is decidable, which locates the field where the value leaves b). *)
From Quiver Require Import Base Types Rel Sem SemProofs RelProofs OverlapProofs OverlapCallable OverlapPartial OverlapPartialEx TypesProofs Narrow NarrowProofs NarrowCallable NarrowCallableEx NarrowPartial NarrowPartialEx Witness TransCheck TransThm.
From Coq Require Import Arith.
Close Scope Z_scope.
Open Scope nat_scope.

Theorem C09_compat_sound_partial : forall cfg P fuel a b,
  cfg_retract cfg = true ->
  cf_domain cfg P a = true -> cf_domain cfg P b = true ->
  is_compatible_with cfg fuel P a b = Some true ->
  forall n v, inhab P n [] v a -> inhab P n [] v b.
Proof. exact compat_sound_cf. Qed.
Print Assumptions C09_compat_sound_partial.

(* the instance for the code as it is in /repo *)
Theorem C09_compat_sound_partial_current : forall P fuel a b,
  cf_domain current_cfg P a = true -> cf_domain current_cfg P b = true ->
  is_compatible_with current_cfg fuel P a b = Some true ->
  forall n v, inhab P n [] v a -> inhab P n [] v b.
Proof. exact (fun P fuel a b => compat_sound_cf current_cfg P fuel a b eq_refl). Qed.
Print Assumptions C09_compat_sound_partial_current.

(* non-vacuity: Wrap[Wrap[A]] is assignable to Wrap[Wrap[A]] | Wrap[Wrap[A]|O] in the F7 graph, both
   ids are in the proved domain, and the type is inhabited *)
Example C09_compat_sound_nonvacuous :
  cf_domain current_cfg reg_F7 7 = true /\ cf_domain current_cfg reg_F7 10 = true /\
  is_compatible_with current_cfg 1000 reg_F7 7 10 = Some true /\
  memb reg_F7 (tup 3 [tup 3 [tup 0 []]]) 7 = true.
Proof. vm_compute. repeat split; reflexivity. Qed.

Theorem C09_compat_refl : forall cfg P fuel a, is_compatible_with cfg (S fuel) P a a = Some true.
Proof. exact compat_refl_all. Qed.
Print Assumptions C09_compat_refl.

Theorem C09_compat_trans_partial : forall cfg P fuel a b c,
  cfg_retract cfg = true -> cfg_partial_name cfg = true ->
  trans_domain P a = true -> trans_domain P b = true -> trans_domain P c = true ->
  a + b < fuel -> b + c < fuel -> a + c < fuel ->
  is_compatible_with cfg fuel P a b = Some true ->
  is_compatible_with cfg fuel P b c = Some true ->
  is_compatible_with cfg fuel P a c = Some true.
Proof. exact compat_trans_cf. Qed.
Print Assumptions C09_compat_trans_partial.

Definition reg_chain : registry :=
  mk_reg [mk_tuple None []; mk_tuple (Some name_ok) []] [TInteger; TBinary; TUnion [0; 1]; TReference; TUnion [0; 1; 3]].
Example C09_compat_trans_nonvacuous :
  trans_domain reg_chain 0 = true /\ trans_domain reg_chain 2 = true /\ trans_domain reg_chain 4 = true /\
  is_compatible_with current_cfg 100 reg_chain 0 2 = Some true /\
  is_compatible_with current_cfg 100 reg_chain 2 4 = Some true /\
  cfg_retract current_cfg = true /\ cfg_partial_name current_cfg = true.
Proof. vm_compute. repeat split; reflexivity. Qed.

Theorem C09_overlap_complete_partial : forall cfg P fuel a b r,
  fo_domain P a = true -> fo_domain P b = true ->
  types_overlap_with cfg fuel P a b = Some r ->
  (exists n v, inhab P n [] v a /\ inhab P n [] v b) -> r = true.
Proof. exact overlap_complete_fo. Qed.
Print Assumptions C09_overlap_complete_partial.

(* with the F25 repair (now in /repo) the same holds with callable and process types in the fragment *)
Theorem C09_overlap_complete_callable_partial : forall cfg P fuel a b r,
  cfg_any_callable cfg = true ->
  foc_domain P a = true -> foc_domain P b = true ->
  types_overlap_with cfg fuel P a b = Some r ->
  (exists n v, inhab P n [] v a /\ inhab P n [] v b) -> r = true.
Proof. exact overlap_complete_foc. Qed.
Print Assumptions C09_overlap_complete_callable_partial.

(* with the F25p repair too, the same holds with PARTIAL types in the fragment, over values whose
   tuples carry each label at most once *)
Theorem C09_overlap_complete_partial_arms : forall cfg P fuel a b r,
  cfg_any_callable cfg = true -> cfg_partial_any cfg = true ->
  fop_domain P a = true -> fop_domain P b = true ->
  types_overlap_with cfg fuel P a b = Some r ->
  (exists n v, wfv v /\ inhab P n [] v a /\ inhab P n [] v b) -> r = true.
Proof. exact overlap_complete_fop. Qed.
Print Assumptions C09_overlap_complete_partial_arms.

(* the premise on the values is necessary: (x: int, ..) and (x: bin, ..) share [x: 0, x: ''] *)
Theorem C09_overlap_partial_arms_refuted_dup_labels :
  cfg_any_callable current_cfg = true /\ cfg_partial_any current_cfg = true /\
  fop_domain reg_dup 2 = true /\ fop_domain reg_dup 3 = true /\
  types_overlap_with current_cfg 1000 reg_dup 2 3 = Some false /\
  memb reg_dup v_dup 2 = true /\ memb reg_dup v_dup 3 = true /\ ~ wfv v_dup.
Proof. exact overlap_partial_needs_distinct_labels. Qed.
Print Assumptions C09_overlap_partial_arms_refuted_dup_labels.

Theorem C09_overlap_partial_arms_nonvacuous :
  fop_domain reg_dup 2 = true /\ fop_domain reg_dup 4 = true /\
  types_overlap_with current_cfg 1000 reg_dup 2 4 = Some true /\
  memb reg_dup v_xy 2 = true /\ memb reg_dup v_xy 4 = true /\ wfv v_xy.
Proof. exact overlap_partial_nonvacuous. Qed.
Print Assumptions C09_overlap_partial_arms_nonvacuous.

Example C09_overlap_callable_nonvacuous :
  cfg_any_callable current_cfg = true /\ foc_domain reg_F25fn 3 = true /\ foc_domain reg_F25fn 4 = true /\
  types_overlap_with current_cfg 1000 reg_F25fn 3 4 = Some true /\
  types_overlap_with current_cfg 1000 reg_F25fn 3 0 = Some false /\
  memb reg_F25fn (VFun 6) 3 = true /\ memb reg_F25fn (VFun 6) 4 = true.
Proof. vm_compute. repeat split; reflexivity. Qed.

Example C09_overlap_nonvacuous :
  fo_domain reg_F7 5 = true /\ fo_domain reg_F7 10 = true /\
  types_overlap_with current_cfg 1000 reg_F7 5 10 = Some true /\
  types_overlap_with current_cfg 1000 reg_F7 0 1 = Some false.
Proof. vm_compute. repeat split; reflexivity. Qed.

Theorem C09_intersect_keeps_partial : forall cfg rel_fuel fuel P a b P' r,
  intersect_types cfg rel_fuel fuel P a b = Some (P', r) ->
  fo_domain P a = true -> fo_domain P b = true ->
  extends P P' /\ forall n v, inhab P n [] v a -> inhab P n [] v b -> inhab P' n [] v r.
Proof. exact intersect_keeps_fo. Qed.
Print Assumptions C09_intersect_keeps_partial.

(* two CALLABLE operands (components first-order cycle-free), model with the F25 / F25b repairs: a function
   value of both operands is a value of the result; memberships in the registry after the call *)
Theorem C09_intersect_keeps_callable_partial : forall cfg rel_fuel fuel P a b P' r p1 r1 c1 p2 r2 c2,
  cfg_any_callable cfg = true ->
  lookup_type P a = Some (TCallable p1 r1 c1) -> lookup_type P b = Some (TCallable p2 r2 c2) ->
  fo_domain P p1 = true -> fo_domain P r1 = true -> fo_domain P c1 = true ->
  fo_domain P p2 = true -> fo_domain P r2 = true -> fo_domain P c2 = true ->
  intersect_types cfg rel_fuel fuel P a b = Some (P', r) ->
  extends P P' /\ forall n v, inhab P' n [] v a -> inhab P' n [] v b -> inhab P' n [] v r.
Proof. exact intersect_keeps_callable. Qed.
Print Assumptions C09_intersect_keeps_callable_partial.

(* two PROCESS operands (known directions first-order cycle-free) *)
Theorem C09_intersect_keeps_process_partial : forall cfg rel_fuel fuel P a b P' r s1 r1 s2 r2,
  cfg_any_callable cfg = true ->
  lookup_type P a = Some (TProcess s1 r1) -> lookup_type P b = Some (TProcess s2 r2) ->
  (forall x, s1 = Some x -> fo_domain P x = true) -> (forall x, r1 = Some x -> fo_domain P x = true) ->
  (forall x, s2 = Some x -> fo_domain P x = true) -> (forall x, r2 = Some x -> fo_domain P x = true) ->
  intersect_types cfg rel_fuel fuel P a b = Some (P', r) ->
  extends P P' /\ forall n v, inhab P' n [] v a -> inhab P' n [] v b -> inhab P' n [] v r.
Proof. exact intersect_keeps_process. Qed.
Print Assumptions C09_intersect_keeps_process_partial.

Theorem C09_intersect_callable_nonvacuous :
  cfg_any_callable current_cfg = true /\
  fo_domain reg_F25fn 0 = true /\ fo_domain reg_F25fn 1 = true /\ fo_domain reg_F25fn 2 = true /\
  match intersect_types current_cfg 1000 1000 reg_F25fn 3 4 with
  | Some (P', r) => memb P' (VFun 6) 3 && memb P' (VFun 6) 4 && memb P' (VFun 6) r && negb (memb P' (VFun 3) r)
                    && negb (Nat.eqb r 3) && negb (Nat.eqb r 4)
  | None => false
  end = true.
Proof. exact intersect_callable_nonvacuous. Qed.
Print Assumptions C09_intersect_callable_nonvacuous.

Theorem C09_intersect_process_nonvacuous :
  fo_domain reg_proc 0 = true /\ fo_domain reg_proc 2 = true /\
  match intersect_types current_cfg 1000 1000 reg_proc 3 4 with
  | Some (P', r) => memb P' (VProc 5) 3 && memb P' (VProc 5) 4 && memb P' (VProc 5) r && negb (memb P' (VProc 6) r)
                    && negb (Nat.eqb r 3) && negb (Nat.eqb r 4)
  | None => false
  end = true.
Proof. exact intersect_process_nonvacuous. Qed.
Print Assumptions C09_intersect_process_nonvacuous.

Theorem C09_complement_keeps_partial : forall cfg rel_fuel fuel P o nr P' r,
  cfg_retract cfg = true -> wfregb P = true ->
  compute_complement cfg rel_fuel fuel P o nr = Some (P', r) ->
  fo_domain P o = true -> fo_domain P nr = true ->
  extends P P' /\ forall n v, inhab P n [] v o -> ~ inhab P n [] v nr -> inhab P' n [] v r.
Proof. exact complement_keeps_fo. Qed.
Print Assumptions C09_complement_keeps_partial.

(* narrowing by a PARTIAL pattern type (field types first-order cycle-free): intersect keeps every value of
   both (values with distinct labels; needs the F25 / F25p repairs), complement keeps every value of o
   that does not match the pattern (needs the F7 / F29 repairs) *)
Theorem C09_intersect_keeps_partial_pattern : forall cfg rel_fuel fuel P a b P' r pn pfs,
  cfg_any_callable cfg = true -> cfg_partial_any cfg = true ->
  fo_domain P a = true ->
  lookup_type P b = Some (TPartial pn pfs) -> (forall f, In f pfs -> fo_domain P (snd f) = true) ->
  intersect_types cfg rel_fuel fuel P a b = Some (P', r) ->
  extends P P' /\ forall n v, wfv v -> inhab P n [] v a -> inhab P n [] v b -> inhab P' n [] v r.
Proof. exact intersect_keeps_partial_pattern. Qed.
Print Assumptions C09_intersect_keeps_partial_pattern.

Theorem C09_complement_keeps_partial_pattern : forall cfg rel_fuel fuel P o b P' r pn pfs,
  cfg_retract cfg = true -> cfg_partial_name cfg = true -> wfregb P = true ->
  fo_domain P o = true ->
  lookup_type P b = Some (TPartial pn pfs) -> (forall f, In f pfs -> fo_domain P (snd f) = true) ->
  compute_complement cfg rel_fuel fuel P o b = Some (P', r) ->
  extends P P' /\ forall n v, inhab P n [] v o -> ~ inhab P n [] v b -> inhab P' n [] v r.
Proof. exact complement_keeps_partial_pattern. Qed.
Print Assumptions C09_complement_keeps_partial_pattern.

Theorem C09_intersect_partial_pattern_nonvacuous :
  cfg_any_callable current_cfg = true /\ cfg_partial_any current_cfg = true /\
  fo_domain reg_pp 4 = true /\ fo_domain reg_pp 0 = true /\
  match intersect_types current_cfg 1000 1000 reg_pp 4 5 with
  | Some (P', r) => memb reg_pp v_A0 4 && memb reg_pp v_A0 5 && memb P' v_A0 r
                    && memb reg_pp v_Bb 4 && negb (memb P' v_Bb r)
  | None => false
  end = true /\ wfv v_A0.
Proof. exact intersect_partial_pattern_nonvacuous. Qed.
Print Assumptions C09_intersect_partial_pattern_nonvacuous.

Theorem C09_complement_partial_pattern_nonvacuous :
  cfg_retract current_cfg = true /\ cfg_partial_name current_cfg = true /\ wfregb reg_pp = true /\
  fo_domain reg_pp 4 = true /\ fo_domain reg_pp 0 = true /\
  match compute_complement current_cfg 1000 1000 reg_pp 4 5 with
  | Some (P', r) => memb reg_pp v_Bb 4 && negb (memb reg_pp v_Bb 5) && memb P' v_Bb r && negb (memb P' v_A0 r)
  | None => false
  end = true.
Proof. exact complement_partial_pattern_nonvacuous. Qed.
Print Assumptions C09_complement_partial_pattern_nonvacuous.

(* non-vacuity on the F7 graph: Wrap[Wrap[A|B]] /\ (Wrap[Wrap[A]] | Wrap[Wrap[A]|O]) keeps Wrap[Wrap[A]];
   (A|B) \ A keeps B; the registry is well formed and all operands are in the fragment *)
Example C09_narrowing_nonvacuous :
  wfregb reg_F7 = true /\ fo_domain reg_F7 5 = true /\ fo_domain reg_F7 10 = true /\
  fo_domain reg_F7 3 = true /\ fo_domain reg_F7 0 = true /\
  match intersect_types current_cfg 1000 1000 reg_F7 5 10 with
  | Some (P', r) => memb reg_F7 (tup 3 [tup 3 [tup 0 []]]) 5 && memb reg_F7 (tup 3 [tup 3 [tup 0 []]]) 10
                    && memb P' (tup 3 [tup 3 [tup 0 []]]) r
  | None => false
  end = true /\
  match compute_complement current_cfg 1000 1000 reg_F7 3 0 with
  | Some (P', r) => memb reg_F7 (tup 1 []) 3 && negb (memb reg_F7 (tup 1 []) 0) && memb P' (tup 1 []) r
  | None => false
  end = true.
Proof. vm_compute. repeat split; reflexivity. Qed.

Theorem C09_complement_refuted_F24 : complement_violation current_cfg reg_F24 4 0 v_F24 = true.
Proof. exact F24_current. Qed.
Print Assumptions C09_complement_refuted_F24.



(* filter_variants_by_field (narrowing a parent after a runtime test of one field succeeded): as it is in
   /repo it drops values (refuted); with the overlap test (hooks/fix_filter_variants.patch) it keeps every
   tuple value of the parent whose tested field is a value of the tested type *)
Theorem C09_filter_refuted_F87_as_found : filter_violation current_cfg false reg_filter 5 0 0 v_filter (VInt 0%Z) = true.
Proof. exact F87_as_found. Qed.
Print Assumptions C09_filter_refuted_F87_as_found.

Theorem C09_F87_repaired :
  current_filter_by_overlap = true /\
  filter_violation current_cfg current_filter_by_overlap reg_filter 5 0 0 v_filter (VInt 0%Z) = false.
Proof. exact (conj eq_refl (proj1 F87_repaired)). Qed.
Print Assumptions C09_F87_repaired.

Theorem C09_filter_keeps_partial : forall cfg rel_fuel P parent idx must P' r,
  filter_variants_by_field cfg rel_fuel true P parent idx must = Some (P', r) ->
  FO P parent -> FO P must ->
  (forall x, In x (get_type_variants P parent) -> non_union P x) ->
  extends P P' /\
  forall n name fs f, inhab P (S n) [] (VTup name fs) parent -> nth_error fs idx = Some f ->
                      inhab P n [] (snd f) must -> inhab P' (S n) [] (VTup name fs) r.
Proof. exact filter_keeps_fo. Qed.
Print Assumptions C09_filter_keeps_partial.

Example C09_filter_nonvacuous :
  fo_domain reg_filter 5 = true /\ fo_domain reg_filter 0 = true /\
  match filter_variants_by_field current_cfg 1000 true reg_filter 5 0 0 with
  | Some (P', r) => memb reg_filter v_filter 5 && memb P' v_filter r | None => false end = true.
Proof. vm_compute. repeat split; reflexivity. Qed.

Theorem C09_register_type_monotone : forall P t P' id,
  register_type P t = (P', id) -> extends P P' /\ lookup_type P' id = Some t.
Proof. exact register_type_spec. Qed.
Print Assumptions C09_register_type_monotone.

Theorem C09_register_tuple_monotone : forall P name fields P' id,
  register_tuple P name fields = (P', id) ->
  extends P P' /\ lookup_tuple P' id = Some (mk_tuple name fields).
Proof. exact register_tuple_spec. Qed.
Print Assumptions C09_register_tuple_monotone.

Theorem C09_inhab_monotone : forall P P', extends P P' ->
  forall n E v t, fov v = true -> inhab P n E v t -> inhab P' n E v t.
Proof. exact inhab_extends. Qed.
Print Assumptions C09_inhab_monotone.

(* ---- refuted as found (repaired since by fix: commits; the repaired answers are pinned too) ---- *)
Theorem C09_compat_refuted_F7_legacy :
  exists P a b v, compat_violation legacy_cfg P a b v = true.
Proof. exact (ex_intro _ reg_F7 (ex_intro _ 5 (ex_intro _ 10 (ex_intro _ v_F7 F7_legacy)))). Qed.
Print Assumptions C09_compat_refuted_F7_legacy.

Theorem C09_F7_repaired : is_compatible_with current_cfg 1000 reg_F7 5 10 = Some false.
Proof. exact F7_repaired. Qed.
Print Assumptions C09_F7_repaired.

Theorem C09_overlap_refuted_F12_legacy :
  exists P a b v, overlap_violation legacy_cfg P a b v = true.
Proof. exact (ex_intro _ reg_F12 (ex_intro _ 4 (ex_intro _ 6 (ex_intro _ v_F12 F12_legacy)))). Qed.
Print Assumptions C09_overlap_refuted_F12_legacy.

Theorem C09_F12_repaired :
  types_overlap_with current_cfg 1000 reg_F12 4 6 = Some true /\
  types_overlap_with current_cfg 1000 reg_F12 6 4 = Some true.
Proof. exact F12_repaired. Qed.
Print Assumptions C09_F12_repaired.

(* ---- refuted on the code as it is: known findings F23, F25 and the partial-name defect ---- *)
Theorem C09_compat_refuted_F23 :
  (exists P a b v, compat_violation current_cfg P a b v = true) /\
  compat_violation current_cfg reg_F23a 9 10 v_F23a = true /\
  compat_violation current_cfg reg_F23c 11 8 v_F23c = true.
Proof.
  exact (conj (ex_intro _ reg_F23a (ex_intro _ 9 (ex_intro _ 10 (ex_intro _ v_F23a F23a_current))))
              (conj F23a_current F23c_current)).
Qed.
Print Assumptions C09_compat_refuted_F23.

Theorem C09_overlap_refuted_F25_as_found :
  overlap_violation f55_cfg reg_F25fn 3 4 (VFun 6) = true.
Proof. exact F25_callable_as_found. Qed.
Print Assumptions C09_overlap_refuted_F25_as_found.

Theorem C09_F25_repaired :
  types_overlap_with current_cfg 1000 reg_F25fn 3 4 = Some true /\
  intersect_violation current_cfg reg_F25fn 3 4 (VFun 6) = false.
Proof. exact (conj F25_callable_repaired F25_intersect_repaired). Qed.
Print Assumptions C09_F25_repaired.

(* ---- refuted as found, repaired since: F25p (7ba69a0), F29 (2932723) ---- *)
Theorem C09_overlap_refuted_F25p_as_found :
  overlap_violation fixed_cfg reg_F25partial 1 2 v_F25p = true.
Proof. exact F25p_as_found. Qed.
Print Assumptions C09_overlap_refuted_F25p_as_found.

Theorem C09_F25p_repaired :
  types_overlap_with current_cfg 1000 reg_F25partial 1 2 = Some true /\
  types_overlap_with current_cfg 1000 reg_F25partial 2 1 = Some true.
Proof. exact F25p_repaired. Qed.
Print Assumptions C09_F25p_repaired.

Theorem C09_compat_refuted_F29_as_found :
  compat_violation fixed_cfg reg_Pname 1 2 v_Pname = true.
Proof. exact F29_as_found. Qed.
Print Assumptions C09_compat_refuted_F29_as_found.

Theorem C09_F29_repaired : is_compatible_with current_cfg 1000 reg_Pname 1 2 = Some false.
Proof. exact F29_repaired. Qed.
Print Assumptions C09_F29_repaired.
