(* C19 — The dict module (std/dict.qv) behaves as a finite map.
   This file contains ONLY the property theorems, each closed by `exact <lemma>` and followed by
   Print Assumptions. Model: Hamt.v (function by function after std/dict.qv). Proofs:
   HamtBits.v, HamtProofs.v, HamtInstance.v.

   Every theorem quantifies over an arbitrary key type with a decidable equality `key_eqb`
   (Quiver's `=&` on 'key = Str['bin] | 'bin), an arbitrary value type, and an ARBITRARY hash
   function `hash : key -> Z` with range [0, 2^32): so the statements cover key sets whose hashes
   collide in any number of 5-bit fragments or in all 32 bits. C19_instance_fnv shows that the
   instance executed by the correspondence check (Quiver keys, FNV-1a 32) meets the hypotheses.

   Vocabulary (HamtProofs.v):
     bindings d : the [key, value] pairs stored in the tree, in storage order
     abs d k    : the finite map denoted by d  (first pair of `bindings d` with key k)
     Inv d      : d = Empty, or `inv 7 0 d`: leaf hashes are the keys' hashes; collision buckets
                  have >= 2 entries, pairwise distinct keys, all with the bucket's hash; a Node has
                  0 <= bitmap < 2^32, its children pair up in order with the set bits of the bitmap
                  (#children = popcount bitmap), the child at slot f is well formed one level down
                  and holds only keys whose 5-bit fragment at this level is f; no Node is empty and
                  a lone child is itself a Node (collapse_node's canonical form); depth <= 7.
   `Some` results say that the model's constant fuel FUEL (resp. S (dsize d) for the worklist walk)
   is never exhausted: the recursion of dict.qv terminates on every well-formed dict. *)
From Coq Require Import List ZArith Bool Permutation.
From Quiver Require Import Hamt HamtBits HamtProofs HamtInstance.
Import ListNotations.
Open Scope Z_scope.

Theorem C19_inv_empty : forall (key val : Type) (hash : key -> Z), Inv key val hash (d_new key val).
Proof. exact Inv_empty. Qed.
Print Assumptions C19_inv_empty.

(* put: defined, preserves the invariant, updates exactly the key k *)
Theorem C19_put : forall (key val : Type) (key_eqb : key -> key -> bool) (hash : key -> Z),
  (forall a b : key, key_eqb a b = true <-> a = b) -> (forall k : key, 0 <= hash k < 2 ^ 32) ->
  forall (d : dict key val) (k : key) (v : val), Inv key val hash d ->
  exists d', d_put key val key_eqb hash d k v = Some d' /\ Inv key val hash d' /\
    forall k', abs key val key_eqb d' k' = if key_eqb k' k then Some v else abs key val key_eqb d k'.
Proof. exact put_correct. Qed.
Print Assumptions C19_put.

(* remove: defined, preserves the invariant, deletes exactly the key k *)
Theorem C19_remove : forall (key val : Type) (key_eqb : key -> key -> bool) (hash : key -> Z),
  (forall a b : key, key_eqb a b = true <-> a = b) ->
  forall (d : dict key val) (k : key), Inv key val hash d ->
  exists d', d_remove key val key_eqb hash d k = Some d' /\ Inv key val hash d' /\
    forall k', abs key val key_eqb d' k' = if key_eqb k' k then None else abs key val key_eqb d k'.
Proof. exact remove_correct. Qed.
Print Assumptions C19_remove.

(* dict.qv: "A dict with `key` removed (unchanged if absent)": structurally unchanged *)
Theorem C19_remove_absent : forall (key val : Type) (key_eqb : key -> key -> bool) (hash : key -> Z),
  (forall a b : key, key_eqb a b = true <-> a = b) ->
  forall (d : dict key val) (k : key), Inv key val hash d -> abs key val key_eqb d k = None ->
  d_remove key val key_eqb hash d k = Some d.
Proof. exact remove_absent_unchanged. Qed.
Print Assumptions C19_remove_absent.

(* get returns the binding of the abstraction (None = nil) *)
Theorem C19_get : forall (key val : Type) (key_eqb : key -> key -> bool) (hash : key -> Z),
  (forall a b : key, key_eqb a b = true <-> a = b) ->
  forall (d : dict key val) (k : key), Inv key val hash d ->
  d_get key val key_eqb hash d k = Some (abs key val key_eqb d k).
Proof. exact get_correct. Qed.
Print Assumptions C19_get.

Theorem C19_has : forall (key val : Type) (key_eqb : key -> key -> bool) (hash : key -> Z),
  (forall a b : key, key_eqb a b = true <-> a = b) ->
  forall (d : dict key val) (k : key), Inv key val hash d ->
  d_has key val key_eqb hash d k = Some (match abs key val key_eqb d k with Some _ => true | None => false end).
Proof. exact has_correct. Qed.
Print Assumptions C19_has.

(* the stored pairs have pairwise distinct keys and are exactly the bindings of the abstraction *)
Theorem C19_bindings : forall (key val : Type) (key_eqb : key -> key -> bool) (hash : key -> Z),
  (forall a b : key, key_eqb a b = true <-> a = b) ->
  forall d : dict key val, Inv key val hash d ->
  NoDup (map fst (bindings key val d)) /\
  forall k v, In (k, v) (bindings key val d) <-> abs key val key_eqb d k = Some v.
Proof. exact bindings_are_the_map. Qed.
Print Assumptions C19_bindings.

(* entries (and iter, which yields the same list): a permutation of the stored pairs, no duplicate
   key, exactly the bindings *)
Theorem C19_entries : forall (key val : Type) (key_eqb : key -> key -> bool) (hash : key -> Z),
  (forall a b : key, key_eqb a b = true <-> a = b) ->
  forall d : dict key val, Inv key val hash d ->
  exists es, d_entries key val d = Some es /\ Permutation es (bindings key val d) /\
    NoDup (map fst es) /\ forall k v, In (k, v) es <-> abs key val key_eqb d k = Some v.
Proof. exact entries_correct. Qed.
Print Assumptions C19_entries.

(* count = number of stored pairs = number of bound keys (by C19_bindings) *)
Theorem C19_count : forall (key val : Type) (key_eqb : key -> key -> bool) (hash : key -> Z),
  (forall a b : key, key_eqb a b = true <-> a = b) ->
  forall d : dict key val, Inv key val hash d ->
  d_count key val d = Some (Z.of_nat (length (bindings key val d))).
Proof. exact count_correct. Qed.
Print Assumptions C19_count.

Theorem C19_keys : forall (key val : Type) (key_eqb : key -> key -> bool) (hash : key -> Z),
  (forall a b : key, key_eqb a b = true <-> a = b) ->
  forall d : dict key val, Inv key val hash d ->
  exists ks, d_keys key val d = Some ks /\ Permutation ks (map fst (bindings key val d)) /\ NoDup ks.
Proof. exact keys_correct. Qed.
Print Assumptions C19_keys.

Theorem C19_values : forall (key val : Type) (key_eqb : key -> key -> bool) (hash : key -> Z),
  (forall a b : key, key_eqb a b = true <-> a = b) ->
  forall d : dict key val, Inv key val hash d ->
  exists vs, d_values key val d = Some vs /\ Permutation vs (map snd (bindings key val d)).
Proof. exact values_correct. Qed.
Print Assumptions C19_values.

(* from: folds put over the pairs, later pairs win *)
Theorem C19_from : forall (key val : Type) (key_eqb : key -> key -> bool) (hash : key -> Z),
  (forall a b : key, key_eqb a b = true <-> a = b) -> (forall k : key, 0 <= hash k < 2 ^ 32) ->
  forall ps : list (key * val),
  exists d', d_from key val key_eqb hash ps = Some d' /\ Inv key val hash d' /\
    forall k, abs key val key_eqb d' k =
      fold_left (fun (m : key -> option val) (p : key * val) =>
                   fun k' => if key_eqb k' (fst p) then Some (snd p) else m k') ps (fun _ => None) k.
Proof. exact from_correct. Qed.
Print Assumptions C19_from.

(* merge: b's values win on conflict *)
Theorem C19_merge : forall (key val : Type) (key_eqb : key -> key -> bool) (hash : key -> Z),
  (forall a b : key, key_eqb a b = true <-> a = b) -> (forall k : key, 0 <= hash k < 2 ^ 32) ->
  forall a b : dict key val, Inv key val hash a -> Inv key val hash b ->
  exists d', d_merge key val key_eqb hash a b = Some d' /\ Inv key val hash d' /\
    forall k, abs key val key_eqb d' k =
      match abs key val key_eqb b k with Some v => Some v | None => abs key val key_eqb a k end.
Proof. exact merge_correct. Qed.
Print Assumptions C19_merge.

(* earlier versions are unaffected by later operations (the operations are pure functions): once
   put / remove have produced d1 / d2 from d, d still answers every get as before *)
Theorem C19_persistence : forall (key val : Type) (key_eqb : key -> key -> bool) (hash : key -> Z),
  (forall a b : key, key_eqb a b = true <-> a = b) -> (forall k : key, 0 <= hash k < 2 ^ 32) ->
  forall (d : dict key val) (k : key) (v : val) (k2 : key) (d1 d2 : dict key val),
  Inv key val hash d -> d_put key val key_eqb hash d k v = Some d1 -> d_remove key val key_eqb hash d k2 = Some d2 ->
  forall k', d_get key val key_eqb hash d k' = Some (abs key val key_eqb d k') /\
             d_get key val key_eqb hash d1 k' = Some (if key_eqb k' k then Some v else abs key val key_eqb d k') /\
             d_get key val key_eqb hash d2 k' = Some (if key_eqb k' k2 then None else abs key val key_eqb d k').
Proof. exact persistence. Qed.
Print Assumptions C19_persistence.

(* the headline: after ANY sequence of insertions, replacements and removals (run) starting from the
   empty dict, the dict is defined and well formed, get returns for every key the value most recently
   stored and not since removed (ref_run: the same sequence on plain functions key -> option val),
   entries lists exactly those bindings once each, and count is their number *)
Theorem C19_history : forall (key val : Type) (key_eqb : key -> key -> bool) (hash : key -> Z),
  (forall a b : key, key_eqb a b = true <-> a = b) -> (forall k : key, 0 <= hash k < 2 ^ 32) ->
  forall ops : list (op key val),
  exists d, run key val key_eqb hash ops (d_new key val) = Some d /\ Inv key val hash d /\
    (forall k, d_get key val key_eqb hash d k = Some (ref_run key val key_eqb ops (fun _ => None) k)) /\
    (exists es, d_entries key val d = Some es /\ NoDup (map fst es) /\
                (forall k v, In (k, v) es <-> ref_run key val key_eqb ops (fun _ => None) k = Some v) /\
                d_count key val d = Some (Z.of_nat (length es))).
Proof. exact history_correct. Qed.
Print Assumptions C19_history.

(* shape of every Node of a well-formed dict: children count = popcount of the bitmap *)
Theorem C19_node_shape : forall (key val : Type) (hash : key -> Z) (n lvl : nat) (bm : Z) (cs : list (dict key val)),
  inv key val hash n lvl (Node bm cs) ->
  0 <= bm < 2 ^ 32 /\ Z.of_nat (length cs) = popcount bm /\ cs <> [].
Proof. exact node_shape. Qed.
Print Assumptions C19_node_shape.

(* the trie depth is bounded: two 32-bit hashes that agree on all 7 fragments are equal, which is
   why split_pair / split_node terminate for distinct hashes *)
Theorem C19_depth_bound : forall h1 h2 : Z, 0 <= h1 < 2 ^ 32 -> 0 <= h2 < 2 ^ 32 ->
  (forall j : nat, (j < 7)%nat -> frag h1 j = frag h2 j) -> h1 = h2.
Proof. exact frag_inj. Qed.
Print Assumptions C19_depth_bound.

(* the instance run by the correspondence check meets the hypotheses of the theorems above *)
Theorem C19_instance_fnv :
  (forall a b : qkey, qkey_eqb a b = true <-> a = b) /\ (forall k : qkey, 0 <= qhash k < 2 ^ 32).
Proof. exact (conj qkey_eqb_spec qhash_range). Qed.
Print Assumptions C19_instance_fnv.

(* non-vacuity: a concrete 5-level tree with a 3-entry collision bucket (two binaries with equal
   FNV-1a hash and the Str twin of one of them) next to a leaf sharing four fragments, built by the
   model's own put, satisfies the invariant *)
Theorem C19_nonvacuous :
  Inv qkey Z qhash
    (Node 16384 [Node 64 [Node 32 [Node 67108864 [Node 536871936
      [Leaf 413996238 (KBin [75; 110; 142; 148; 44]) 4;
       Collision 1742542030 [(KBin [31; 99; 46; 225], 1); (KBin [51; 242; 70; 216], 2); (KStr [31; 99; 46; 225], 3)]]]]]]).
Proof. exact ex_tree_inv. Qed.
Print Assumptions C19_nonvacuous.
