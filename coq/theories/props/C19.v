(* C19 — the dict module behaves as a finite map. (stub while the proofs are being built) *)
From Coq Require Import List ZArith.
From Quiver Require Import Hamt.

Theorem C19_get_empty : forall (key val : Type) (key_eqb : key -> key -> bool) (hash : key -> Z) (k : key),
  d_get key val key_eqb hash (d_new key val) k = Some None.
Proof. reflexivity. Qed.
Print Assumptions C19_get_empty.
