(* C20 — the num module computes exactly and propagates absence.
   ONLY the property theorems: each `Theorem` states the full property on the model Num.v
   (std/num.qv clause by clause), is closed by `exact <lemma>` and followed by Print Assumptions.
   Vocabulary (NumProofs.v / NumSurd.v):
     canon (Rat n d)   := 0 < d /\ gcd n d = 1             qval (Rat n d) := n # d  (in Coq's Q)
     wfc c / cq c      := canonical coefficient (int or Rational) / its value in Q
     wf_num            := canonical coefficient, or Surd[a,b,n] with canonical a b, b <> 0, n > 1 non-square
     denotes x n (a,b) := x is the element a + b sqrt n of Q(sqrt n);  padd/psub/pmul/pdiv: the ring ops
                          on pairs, (a,b)(c,d) = (ac + bdn, ad + bc)
     built r           := the canonical form `build` produces (lowered coefficients)
     outcome           := Val v | Err e | Panic site   (Base.v); "never a runtime error" = always Val.
   Non-vacuity examples with operands beyond 2^64: NumExamples.v (part of this cone).
   F14: `min/max/clamp` on incompatible radicals are REFUTED for the code as written
   (C20_minmax_mixed_radicals_refuted); the intended behaviour is proved for the `_fixed` variants. *)
From Coq Require Import QArith Qabs Reals Qreals.
From Quiver Require Import Base Num NumProofs NumSurd NumReal NumExamples.
Open Scope Z_scope.

(* ---- canonical form *)
Theorem C20_reduce_canonical_and_exact : forall n d, d <> 0 ->
  exists n' d', reduce (Rat n d) = Val (Rat n' d') /\ canon (Rat n' d') /\ n' * d = n * d'.
Proof. exact reduce_spec. Qed.
Print Assumptions C20_reduce_canonical_and_exact.

Theorem C20_reduce_value_in_Q : forall n d r, d <> 0 -> reduce (Rat n d) = Val r ->
  canon r /\ qval r == inject_Z n / inject_Z d.
Proof. exact reduce_value. Qed.
Print Assumptions C20_reduce_value_in_Q.

Theorem C20_canonical_form_unique : forall x y, canon x -> canon y -> qval x == qval y -> x = y.
Proof. exact canon_qval_unique. Qed.
Print Assumptions C20_canonical_form_unique.

Theorem C20_literal_desugaring : forall n d, 0 < d ->
  reduce (Rat n d) = Val (lit_reduce n d) /\ canon (lit_reduce n d) /\
  qval (lit_reduce n d) == inject_Z n / inject_Z d.
Proof. exact lit_reduce_spec. Qed.
Print Assumptions C20_literal_desugaring.

(* ---- exact arithmetic on integers and rationals; kind rules *)
Theorem C20_add_exact : forall x y, wfc x -> wfc y ->
  exists r, add (Some (NC x)) (Some (NC y)) = Val (Some (NC r)) /\ wfc r /\
            cq r == cq x + cq y /\ (is_int r <-> is_int x /\ is_int y).
Proof. exact add_coeff. Qed.
Print Assumptions C20_add_exact.

Theorem C20_sub_exact : forall x y, wfc x -> wfc y ->
  exists r, sub (Some (NC x)) (Some (NC y)) = Val (Some (NC r)) /\ wfc r /\
            cq r == cq x - cq y /\ (is_int r <-> is_int x /\ is_int y).
Proof. exact sub_coeff. Qed.
Print Assumptions C20_sub_exact.

Theorem C20_mul_exact : forall x y, wfc x -> wfc y ->
  exists r, mul (Some (NC x)) (Some (NC y)) = Val (Some (NC r)) /\ wfc r /\
            cq r == cq x * cq y /\ (is_int r <-> is_int x /\ is_int y).
Proof. exact mul_coeff. Qed.
Print Assumptions C20_mul_exact.

Theorem C20_div_exact_or_nil : forall x y, wfc x -> wfc y ->
  (cq y == 0 -> div (Some (NC x)) (Some (NC y)) = Val None) /\
  (~ cq y == 0 -> exists n d, div (Some (NC x)) (Some (NC y)) = Val (Some (NRat n d)) /\
                             canon (Rat n d) /\ qval (Rat n d) == cq x / cq y).
Proof. exact div_coeff. Qed.
Print Assumptions C20_div_exact_or_nil.

Theorem C20_neg_exact : forall x, wfc x ->
  exists r, neg (Some (NC x)) = Val (Some (NC r)) /\ wfc r /\ cq r == - cq x /\ (is_int r <-> is_int x).
Proof. exact neg_coeff. Qed.
Print Assumptions C20_neg_exact.

Theorem C20_abs_exact : forall x, wfc x ->
  exists r, abs (Some (NC x)) = Val (Some (NC r)) /\ wfc r /\ cq r == Qabs (cq x) /\ (is_int r <-> is_int x).
Proof. exact abs_coeff. Qed.
Print Assumptions C20_abs_exact.

Theorem C20_numer_denom : forall x, wfc x ->
  exists n d, numer (Some (NC x)) = Val (Some n) /\ denom (Some (NC x)) = Val (Some d) /\
              0 < d /\ Z.gcd n d = 1 /\ cq x == inject_Z n / inject_Z d.
Proof. exact numer_denom_coeff. Qed.
Print Assumptions C20_numer_denom.

(* ---- order *)
Theorem C20_compare_is_Qcompare : forall x y, wfc x -> wfc y ->
  compare (Some (NC x)) (Some (NC y)) = Val (Some (zcmp (cq x ?= cq y)%Q)).
Proof. exact compare_coeff. Qed.
Print Assumptions C20_compare_is_Qcompare.

Theorem C20_sign_exact : forall x, wfc x -> sign (Some (NC x)) = Val (Some (zcmp (cq x ?= 0)%Q)).
Proof. exact sign_coeff. Qed.
Print Assumptions C20_sign_exact.

Theorem C20_predicates_exact : forall x y, wfc x -> wfc y ->
  let X := Some (NC x) in let Y := Some (NC y) in
  (exists b, eqp X Y = Val b /\ (b = true <-> cq x == cq y)) /\
  (exists b, ltp X Y = Val b /\ (b = true <-> (cq x < cq y)%Q)) /\
  (exists b, lep X Y = Val b /\ (b = true <-> (cq x <= cq y)%Q)) /\
  (exists b, gtp X Y = Val b /\ (b = true <-> (cq y < cq x)%Q)) /\
  (exists b, gep X Y = Val b /\ (b = true <-> (cq y <= cq x)%Q)).
Proof. exact preds_coeff. Qed.
Print Assumptions C20_predicates_exact.

Theorem C20_order_total_antisymmetric : forall x y, wfc x -> wfc y ->
  exists c, (c = -1 \/ c = 0 \/ c = 1) /\
            compare (Some (NC x)) (Some (NC y)) = Val (Some c) /\
            compare (Some (NC y)) (Some (NC x)) = Val (Some (- c)) /\
            (c = 0 <-> cq x == cq y) /\ (c = -1 <-> (cq x < cq y)%Q) /\ (c = 1 <-> (cq y < cq x)%Q).
Proof. exact compare_total_antisym_coeff. Qed.
Print Assumptions C20_order_total_antisymmetric.

Theorem C20_order_transitive : forall x y z, wfc x -> wfc y -> wfc z ->
  lep (Some (NC x)) (Some (NC y)) = Val true -> lep (Some (NC y)) (Some (NC z)) = Val true ->
  lep (Some (NC x)) (Some (NC z)) = Val true.
Proof. exact le_trans_coeff. Qed.
Print Assumptions C20_order_transitive.

Theorem C20_min : forall x y, wfc x -> wfc y ->
  exists r, min (Some (NC x)) (Some (NC y)) = Val (Some (NC r)) /\ (r = x \/ r = y) /\
            (cq r <= cq x)%Q /\ (cq r <= cq y)%Q.
Proof. exact min_coeff. Qed.
Print Assumptions C20_min.

Theorem C20_max : forall x y, wfc x -> wfc y ->
  exists r, max (Some (NC x)) (Some (NC y)) = Val (Some (NC r)) /\ (r = x \/ r = y) /\
            (cq x <= cq r)%Q /\ (cq y <= cq r)%Q.
Proof. exact max_coeff. Qed.
Print Assumptions C20_max.

Theorem C20_clamp : forall x lo hi, wfc x -> wfc lo -> wfc hi -> (cq lo <= cq hi)%Q ->
  exists r, clamp (Some (NC x)) (Some (NC lo)) (Some (NC hi)) = Val (Some (NC r)) /\
            (r = x \/ r = lo \/ r = hi) /\ (cq lo <= cq r)%Q /\ (cq r <= cq hi)%Q /\
            ((cq lo <= cq x)%Q -> (cq x <= cq hi)%Q -> r = x).
Proof. exact clamp_coeff. Qed.
Print Assumptions C20_clamp.

(* ---- rounding of m/d (canonical): truncation, floor, ceiling, nearest with ties away from zero *)
Theorem C20_to_int : forall x m d, wfc x -> to_rational x = Rat m d ->
  to_int (Some (NC x)) = Val (Some (Z.quot m d)).
Proof. exact to_int_coeff. Qed.
Print Assumptions C20_to_int.

Theorem C20_floor : forall x m d, wfc x -> to_rational x = Rat m d ->
  floor (Some (NC x)) = Val (Some (m / d)).
Proof. exact floor_coeff. Qed.
Print Assumptions C20_floor.

Theorem C20_ceil : forall x m d, wfc x -> to_rational x = Rat m d ->
  ceil (Some (NC x)) = Val (Some (- ((- m) / d))).
Proof. exact ceil_coeff. Qed.
Print Assumptions C20_ceil.

Theorem C20_floor_ceil_bracket : forall m d, 0 < d ->
  (m / d) * d <= m < (m / d + 1) * d /\ (- ((- m) / d) - 1) * d < m <= - ((- m) / d) * d.
Proof. exact floor_ceil_bounds. Qed.
Print Assumptions C20_floor_ceil_bracket.

Theorem C20_round : forall x m d, wfc x -> to_rational x = Rat m d ->
  exists r, round (Some (NC x)) = Val (Some r) /\
            2 * Z.abs (m - r * d) <= d /\ (2 * Z.abs (m - r * d) = d -> Z.abs m < Z.abs (r * d)).
Proof. exact round_coeff. Qed.
Print Assumptions C20_round.

(* ---- field laws, through the value map and uniqueness of canonical forms *)
Theorem C20_add_commutative : forall x y, wfc x -> wfc y ->
  add (Some (NC x)) (Some (NC y)) = add (Some (NC y)) (Some (NC x)).
Proof. exact add_comm_coeff. Qed.
Print Assumptions C20_add_commutative.

Theorem C20_mul_commutative : forall x y, wfc x -> wfc y ->
  mul (Some (NC x)) (Some (NC y)) = mul (Some (NC y)) (Some (NC x)).
Proof. exact mul_comm_coeff. Qed.
Print Assumptions C20_mul_commutative.

Theorem C20_add_associative : forall x y z, wfc x -> wfc y -> wfc z ->
  andthen (add (Some (NC x)) (Some (NC y))) (fun xy => add xy (Some (NC z))) =
  andthen (add (Some (NC y)) (Some (NC z))) (fun yz => add (Some (NC x)) yz).
Proof. exact add_assoc_coeff. Qed.
Print Assumptions C20_add_associative.

Theorem C20_mul_associative : forall x y z, wfc x -> wfc y -> wfc z ->
  andthen (mul (Some (NC x)) (Some (NC y))) (fun xy => mul xy (Some (NC z))) =
  andthen (mul (Some (NC y)) (Some (NC z))) (fun yz => mul (Some (NC x)) yz).
Proof. exact mul_assoc_coeff. Qed.
Print Assumptions C20_mul_associative.

Theorem C20_distributive : forall x y z, wfc x -> wfc y -> wfc z ->
  andthen (add (Some (NC y)) (Some (NC z))) (fun s => mul (Some (NC x)) s) =
  andthen (mul (Some (NC x)) (Some (NC y))) (fun p => andthen (mul (Some (NC x)) (Some (NC z))) (fun q => add p q)).
Proof. exact distrib_coeff. Qed.
Print Assumptions C20_distributive.

Theorem C20_div_self_is_one : forall x, wfc x -> ~ cq x == 0 ->
  div (Some (NC x)) (Some (NC x)) = Val (Some (NRat 1 1)).
Proof. exact div_self_coeff. Qed.
Print Assumptions C20_div_self_is_one.

Theorem C20_sub_add_inverse : forall x y, wfc x -> wfc y ->
  exists d r, sub (Some (NC x)) (Some (NC y)) = Val (Some (NC d)) /\
              add (Some (NC d)) (Some (NC y)) = Val (Some (NC r)) /\ cq r == cq x.
Proof. exact sub_add_inverse_coeff. Qed.
Print Assumptions C20_sub_add_inverse.

Theorem C20_div_mul_inverse : forall x y, wfc x -> wfc y -> ~ cq y == 0 ->
  exists q r, div (Some (NC x)) (Some (NC y)) = Val (Some (NC q)) /\
              mul (Some (NC q)) (Some (NC y)) = Val (Some (NC r)) /\ cq r == cq x.
Proof. exact div_mul_inverse_coeff. Qed.
Print Assumptions C20_div_mul_inverse.

(* ---- absence propagates; never a runtime error *)
Theorem C20_nil_propagates_unary :
  neg None = Val None /\ abs None = Val None /\ sign None = Val None /\ sqrt None = Val None /\
  numer None = Val None /\ denom None = Val None /\ to_int None = Val None /\ floor None = Val None /\
  ceil None = Val None /\ round None = Val None.
Proof. exact nil_propagates_unary. Qed.
Print Assumptions C20_nil_propagates_unary.

Theorem C20_nil_propagates_left :
  forall y z, add None y = Val None /\ sub None y = Val None /\ mul None y = Val None /\ div None y = Val None /\
    min None y = Val None /\ max None y = Val None /\ clamp None y z = Val None /\
    eqp None y = Val false /\ ltp None y = Val false /\ lep None y = Val false /\
    gtp None y = Val false /\ gep None y = Val false.
Proof. exact nil_propagates_left. Qed.
Print Assumptions C20_nil_propagates_left.

Theorem C20_nil_propagates_right :
  forall x z, add x None = Val None /\ sub x None = Val None /\ mul x None = Val None /\ div x None = Val None /\
    min x None = Val None /\ max x None = Val None /\ clamp x None z = Val None /\ clamp x z None = Val None /\
    eqp x None = Val false /\ ltp x None = Val false /\ lep x None = Val false /\
    gtp x None = Val false /\ gep x None = Val false.
Proof. exact nil_propagates_right. Qed.
Print Assumptions C20_nil_propagates_right.

(* every exported operation (run_op covers the whole record, plus the *_fixed variants), on nil or
   well-formed integer / rational / surd operands, returns a value: no integer_divide/modulo by zero,
   no integer_sqrt of a negative, no builtin applied to nil, no fuel exhaustion is reachable *)
Theorem C20_never_errs : forall op x y z, wf_opt x -> wf_opt y -> wf_opt z ->
  exists v, run_op op [x; y; z] = Val v.
Proof. exact never_errs. Qed.
Print Assumptions C20_never_errs.

(* ---- square-free search and sqrt *)
Theorem C20_sqfree_terminates_and_factors : forall N, 0 < N ->
  exists k m, sqfree 1 N 2 = Val (k, m) /\ 0 < k /\ 0 < m /\ k * k * m = N /\
              (forall e, 1 < e -> ~ (e * e | m)).
Proof. exact sqfree_spec. Qed.
Print Assumptions C20_sqfree_terminates_and_factors.

Theorem C20_sqrt_exact : forall c p q, wfc c -> to_rational c = Rat p q ->
  (p < 0 -> sqrt (Some (NC c)) = Val None) /\
  (p = 0 -> sqrt (Some (NC c)) = Val (Some (NInt 0))) /\
  (0 < p -> exists r, sqrt (Some (NC c)) = Val (Some r) /\ built r /\
      ((exists c', r = NC c' /\ wfc c' /\ (0 < cq c')%Q /\ cq c' * cq c' == cq c) \/
       (exists b m, r = NSurd (CInt 0) b m /\ wfc b /\ (0 < cq b)%Q /\ 1 < m /\ squarefree m /\
                    cq b * cq b * inject_Z m == cq c))).
Proof. exact sqrt_coeff. Qed.
Print Assumptions C20_sqrt_exact.

(* ---- surds: exact members of Q(sqrt n) *)
Theorem C20_surd_arith_exact : forall x y n px py,
  wf_num x -> wf_num y -> is_surd x \/ is_surd y -> 1 < n -> denotes x n px -> denotes y n py ->
  (exists r, add (Some x) (Some y) = Val (Some r) /\ denotes r n (padd px py) /\ wf_num r /\ built r) /\
  (exists r, sub (Some x) (Some y) = Val (Some r) /\ denotes r n (psub px py) /\ wf_num r /\ built r) /\
  (exists r, mul (Some x) (Some y) = Val (Some r) /\ denotes r n (pmul n px py) /\ wf_num r /\ built r) /\
  (~ pzero py -> exists r, div (Some x) (Some y) = Val (Some r) /\ denotes r n (pdiv n px py) /\ wf_num r /\ built r).
Proof. exact surd_arith_exact. Qed.
Print Assumptions C20_surd_arith_exact.

Theorem C20_pdiv_is_ring_division : forall n p q, ~ pnorm n q == 0 -> peq (pmul n (pdiv n p q) q) p.
Proof. exact pdiv_pmul. Qed.
Print Assumptions C20_pdiv_is_ring_division.

Theorem C20_norm_nonzero : forall n a b, nonsquare n -> canon a -> canon b ->
  ~ (qval a == 0 /\ qval b == 0) -> ~ (qval a * qval a - qval b * qval b * inject_Z n == 0)%Q.
Proof. exact norm_nonzero. Qed.
Print Assumptions C20_norm_nonzero.

Theorem C20_mixed_radicals_nil : forall a b n c d m,
  let x := NSurd a b n in let y := NSurd c d m in
  wf_num x -> wf_num y -> n <> m ->
  add (Some x) (Some y) = Val None /\ sub (Some x) (Some y) = Val None /\
  mul (Some x) (Some y) = Val None /\ div (Some x) (Some y) = Val None /\
  compare (Some x) (Some y) = Val None /\
  eqp (Some x) (Some y) = Val false /\ ltp (Some x) (Some y) = Val false /\ lep (Some x) (Some y) = Val false /\
  gtp (Some x) (Some y) = Val false /\ gep (Some x) (Some y) = Val false /\
  min_fixed (Some x) (Some y) = Val None /\ max_fixed (Some x) (Some y) = Val None /\
  (forall z, clamp_fixed (Some x) (Some y) z = Val None \/ z = None).
Proof. exact mixed_radicals_nil. Qed.
Print Assumptions C20_mixed_radicals_nil.

(* F14 (known finding): the property "mixing incompatible radicals yields nil" FAILS for min/max/clamp
   as coded in std/num.qv:285-304; witness sqrt2, sqrt3, sqrt5.  The un-negated statement is the
   min_fixed/max_fixed/clamp_fixed part of C20_mixed_radicals_nil. *)
Theorem C20_minmax_mixed_radicals_refuted :
  exists x y z, wf_num x /\ wf_num y /\ wf_num z /\
    (exists a b n c d m, x = NSurd a b n /\ y = NSurd c d m /\ n <> m) /\
    min (Some x) (Some y) = Val (Some x) /\ max (Some x) (Some y) = Val (Some x) /\
    clamp (Some x) (Some y) (Some z) = Val (Some x).
Proof. exact minmax_mixed_radicals_refuted. Qed.
Print Assumptions C20_minmax_mixed_radicals_refuted.

(* ---- sign and order of surds *)
(* axiom-free: the kernel's sign is the squares-comparison function surd_sign of the values, and
   compare on one field is surd_sign of the difference.  With Coq's classical Reals (standard-library
   axioms, the only two theorems of this file that use any): surd_sign is the sign of a + b sqrt n
   in R, so compare decides the real order of two members of one field.
   (The Reals theorems are interleaved with axiom-free ones so that every `Print Assumptions` block
   with axioms is followed by a "Closed under the global context" block.) *)
Theorem C20_surd_sign_real : forall qa qb n, (0 < n)%Z ->
  rsgn (Q2R qa + Q2R qb * R_sqrt.sqrt (IZR n)) (surd_sign qa qb n).
Proof. exact surd_sign_real. Qed.
Print Assumptions C20_surd_sign_real.

Theorem C20_surd_sign_squares : forall a b n, canon a -> canon b ->
  ssign a b n = Val (surd_sign (qval a) (qval b) n).
Proof. exact ssign_spec. Qed.
Print Assumptions C20_surd_sign_squares.

Theorem C20_surd_order_real : forall x y, wf_num x -> wf_num y -> is_surd x \/ is_surd y ->
  (exists a b n c d m, x = NSurd a b n /\ y = NSurd c d m /\ n <> m /\ compare (Some x) (Some y) = Val None) \/
  (exists n px py s, (1 < n)%Z /\ denotes x n px /\ denotes y n py /\ compare (Some x) (Some y) = Val (Some s) /\
     rsgn ((Q2R (fst px) + Q2R (snd px) * R_sqrt.sqrt (IZR n)) - (Q2R (fst py) + Q2R (snd py) * R_sqrt.sqrt (IZR n))) s).
Proof. exact compare_surd_real. Qed.
Print Assumptions C20_surd_order_real.

Theorem C20_surd_compare : forall x y, wf_num x -> wf_num y -> is_surd x \/ is_surd y ->
  (exists a b n c d m, x = NSurd a b n /\ y = NSurd c d m /\ n <> m /\ compare (Some x) (Some y) = Val None) \/
  (exists n px py, 1 < n /\ nonsquare n /\ denotes x n px /\ denotes y n py /\
     compare (Some x) (Some y) = Val (Some (surd_sign (fst (psub px py)) (snd (psub px py)) n))).
Proof. exact compare_surd. Qed.
Print Assumptions C20_surd_compare.
