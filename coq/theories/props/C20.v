(* C20 — the num module computes exactly and propagates absence. ONLY property theorems. *)
From Coq Require Import QArith.
From Quiver Require Import Base Num NumProofs.
Open Scope Z_scope.

Theorem C20_nil_propagates_unary :
  neg None = Val None /\ abs None = Val None /\ sign None = Val None /\ sqrt None = Val None /\
  numer None = Val None /\ denom None = Val None /\ to_int None = Val None /\ floor None = Val None /\
  ceil None = Val None /\ round None = Val None.
Proof. exact nil_propagates_unary. Qed.
Print Assumptions C20_nil_propagates_unary.
