(* C10 — Packaging steps preserve behaviour: tree-shake, serialise, merge, import.
   ONLY property theorems: statement, `exact <lemma>`, Print Assumptions.

   Models: vm/Bytecode.v + vm/Vm.v (the per-process machine of executor.rs, shared with C07),
   vm/Remap.v (`xprogram` = a Bytecode with everything a renaming must preserve and the two
   run-time tables type_compatibility / canonical_tuples; the validator `is_renaming`; the models
   of value_to_instructions_from_cache and of value_to_instructions / inject_function_captures).
   tree_shake (optimisation.rs) and merge_bytecode (environment.rs) are NOT modelled: each of their
   outputs is checked by the extracted `is_renaming`, and the theorems below say what an accepted
   pair guarantees. serde_json is not modelled: the JSON leg is validated field-wise only. *)
From Quiver Require Import vm.Wf vm.Remap vm.RemapProofs vm.RemapWf vm.RemapInject.

(* Lock-step simulation. For every function the renaming maps — every function reachable from the
   entry is (next theorem) — every argument, every captured environment and every sequence of outside
   inputs (builtin results, pids, select results, binary handles), related through rho where they
   carry ids: the renamed program, started on the renamed state and fed the renamed inputs,
   produces step for step the renaming of what the original produces: the same fault, or a related
   next state, or a related final value. IsType and Equal verdicts are COMPUTED here from each
   program's own type_compatibility rows and canonical_tuples (xrun), not assumed equal.
   Hypothesis `typed_run`: along the ORIGINAL execution, every tuple value tested by an IsType carries
   a tuple id that has a `Type::Tuple` entry in the original program (C08's has_type_entry obligation:
   the compiler registers the static type of every value it lets reach a run-time test). Without an
   entry the original answers "no" to every pattern, while a program merged earlier may have
   registered the entry (typically Type::Tuple(OK)) and the merged table may answer "yes": see
   the C10 report; the validator compares rows on tuple tags that have an entry. *)
Theorem C10_renaming_simulation : forall rho X X', is_renaming rho X X' = true ->
  forall bin_eq f f' caps caps' arg arg' pers xs xs',
  app (r_f rho) f = Some f' -> Forall2 (vrel rho) caps caps' -> vrel rho arg arg' ->
  Forall2 (xvrel rho) xs xs' ->
  typed_run X bin_eq (init_state f caps arg pers) xs ->
  rrel rho (xrun X bin_eq (init_state f caps arg pers) xs)
           (xrun X' bin_eq (init_state f' caps' arg' pers) xs').
Proof. exact renaming_simulation. Qed.
Print Assumptions C10_renaming_simulation.

(* the entry is mapped to the entry, and the mapped functions are closed under Function / Process
   references: everything reachable from the entry is covered by the simulation *)
Theorem C10_renaming_covers_reachable : forall rho X X', is_renaming rho X X' = true ->
  app (r_f rho) (x_entry X) = Some (x_entry X') /\
  forall f, reachable X (x_entry X) f -> exists f', app (r_f rho) f = Some f'.
Proof. exact renaming_covers_reachable. Qed.
Print Assumptions C10_renaming_covers_reachable.

(* the side condition on the run-time tables, on its own: an accepted pair gives the same IsType
   verdict (row of the renamed type, read at the renamed tag) and the same Equal verdict
   (values_equal with each side's canonical tuple ids) on related values *)
Theorem C10_verdicts_commute : forall rho X X', is_renaming rho X X' = true ->
  (forall v v' y y' w, vrel rho v v' -> app (r_y rho) y = Some y' -> row_of X y = Some w -> tag_typed X v ->
     istype_verdict X v y = istype_verdict X' v' y') /\
  (forall bin_eq vs vs', Forall2 (vrel rho) vs vs' -> equal_verdict X bin_eq vs = equal_verdict X' bin_eq vs').
Proof. exact verdicts_commute. Qed.
Print Assumptions C10_verdicts_commute.

(* the same simulation on vm/Vm.v exactly as C07 uses it (every verdict an outside input) *)
Theorem C10_renaming_simulation_ext : forall rho X X', is_renaming rho X X' = true ->
  forall s s' xs xs', srel rho s s' -> Forall2 (xrel rho) xs xs' ->
  rrel rho (run (project X) s xs) (run (project X') s' xs').
Proof. exact renaming_simulation_ext. Qed.
Print Assumptions C10_renaming_simulation_ext.

(* non-vacuity: a program with a dead function, its image with every table renumbered and shared
   with foreign entries; the validator accepts it, rejects two corruptions of it, both run to
   related results, and the simulation theorem applies to it *)
Theorem C10_nonvacuous :
  is_renaming Examples.ex_rho Examples.exX Examples.exX' = true /\
  is_renaming Examples.ex_rho Examples.exX (with_consts Examples.exX' [XInt 6]) = false /\
  rrel Examples.ex_rho
    (xrun Examples.exX (fun _ _ => false) (init_state 2 [] vnil false) (repeat Examples.quiet 16))
    (xrun Examples.exX' (fun _ _ => false) (init_state 1 [] vnil false) (repeat Examples.quiet 16)).
Proof. exact (conj Examples.ex_accepts (conj Examples.ex_rejects_constant Examples.ex_simulation_applies)). Qed.
Print Assumptions C10_nonvacuous.

(* C07's verifier verdict carries over, certificate for certificate, to every function the
   renaming maps (tree-shaken and merged programs need no new proof of well-formedness; the merged
   program may also hold other programs' functions, about which nothing is claimed) *)
Theorem C10_wf_stable_under_renaming : forall rho X X' As, is_renaming rho X X' = true ->
  check_program (project X) As = true ->
  forall f f', app (r_f rho) f = Some f' ->
  exists A fd', nth_error As f = Some A /\ nth_error (p_funcs (project X')) f' = Some fd' /\
                check_function (project X') fd' A = true.
Proof. exact wf_stable_under_renaming. Qed.
Print Assumptions C10_wf_stable_under_renaming.

(* value_reemit (imports): `emit_cached` models compiler.rs value_to_instructions_from_cache, what
   `%m` / `%m.f` compile to. For every value it accepts (it refuses exactly process / resource / ref
   and dangling ids) that is well-formed for the program (tuples of their arity, closures of their
   capture count), the program only grows (prefix-wise) and, in ANY later growth Y of it, the emitted
   code — wherever it is spliced into a function, on any stack, locals and frames — pushes exactly
   that value and changes nothing else. Binary constants: the pushed handle is the one allocation
   returns (`emit_inputs`), their bytes are the registered constant (binaries are opaque in vm/Vm.v). *)
Theorem C10_value_reemit : forall bytes_of v X X1 code,
  emit_cached bytes_of v X = Some (X1, code) -> wfx X v ->
  extends X X1 /\
  forall Y, extends X1 Y ->
  forall fn fd pre post st lo base caps rest pers,
    nth_error (x_funcs Y) fn = Some fd -> xf_code fd = pre ++ code ++ post ->
    run (project Y) (at_pc st lo fn base caps (length pre) rest pers) (emit_inputs v) =
    Next (at_pc (v :: st) lo fn base caps (length pre + length code) rest pers).
Proof. exact value_reemit. Qed.
Print Assumptions C10_value_reemit.

(* non-vacuity of value_reemit: a named tuple holding a closure over an integer and a binary, a
   nested tuple and a builtin; the emitted code (one constant is shared with the program) rebuilds it *)
Theorem C10_value_reemit_nonvacuous :
  option_map snd (emit_cached Examples.ex_bytes Examples.ex_value Examples.exM) =
    Some [IConstant 0; IConstant 1; IFunction 0; IConstant 2; IBuiltin 0; ITuple 2; ITuple 2] /\
  wfx Examples.exM Examples.ex_value.
Proof. exact (conj Examples.ex_emit Examples.ex_emit_wf). Qed.
Print Assumptions C10_value_reemit_nonvacuous.

(* inject_function_captures (program.rs:228, model `emit_injected`): what `quiv compile` does to an
   entry function that captured values. The closure is re-emitted as Function(f') of a capture-free
   function whose body is a prefix followed by the original body; entering f' on any argument and
   running the prefix yields exactly the captures as the frame's locals, the argument still on the
   stack, pc at the start of the original body (captures without nested capturing closures). *)
Theorem C10_inject_rebuilds_captures : forall bytes_of f c cs X X2 code,
  Forall flat (c :: cs) -> Forall (wfx X) (c :: cs) ->
  emit_injected bytes_of (VFun f (c :: cs)) X = Some (X2, code) ->
  exists f' fd fd' pre,
    code = [IFunction f'] /\ nth_error (x_funcs X2) f' = Some fd' /\ nth_error (x_funcs X2) f = Some fd /\
    xf_code fd' = pre ++ xf_code fd /\ xf_caps fd' = 0 /\ xf_type fd' = xf_type fd /\
    forall Y, extends X2 Y -> forall arg st lo base rest pers,
      run (project Y) (at_pc (arg :: st) lo f' base 0 0 rest pers) (caps_inputs (c :: cs)) =
      Next (at_pc (arg :: st) (lo ++ c :: cs) f' base 0 (length pre) rest pers).
Proof. exact inject_rebuilds_captures. Qed.
Print Assumptions C10_inject_rebuilds_captures.
