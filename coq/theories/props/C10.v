(* C10 — Packaging steps preserve behaviour: tree-shake, serialise, merge, import.
   ONLY property theorems: statement, `exact <lemma>`, Print Assumptions.

   Models: vm/Bytecode.v + vm/Vm.v (the per-process machine of executor.rs, shared with C07),
   vm/Remap.v (`xprogram` = a Bytecode with everything a renaming must preserve and the two
   run-time tables type_compatibility / canonical_tuples; the validator `is_renaming`; the models
   of value_to_instructions_from_cache and of value_to_instructions / inject_function_captures).
   tree_shake (optimisation.rs) and merge_bytecode (environment.rs) ARE modelled (vm/RemapShake.v,
   vm/RemapMerge.v; every run compares the models' output with the real functions' output, exact
   equality of the dumped Bytecode) and proved to produce renamings (second half of this file); in
   addition each real output is still checked by the extracted `is_renaming`.
   `is_renaming = struct_ok && rows_ok && canon_ok X && canon_ok X'`: the STRUCTURAL part is what a
   packaging step produces and is what the model theorems establish; `rows_ok` concerns the
   type_compatibility table every loader recomputes through is_compatible (C08/C09) and stays a
   per-run validated premise. serde_json is not modelled: the JSON leg is validated field-wise only. *)
From Quiver Require Import vm.Wf vm.Remap vm.RemapProofs vm.RemapWf vm.RemapInject
  vm.RemapShake vm.RemapShakeProofs vm.RemapMerge vm.RemapMergeProofs.

(* Lock-step simulation. For every function the renaming maps — every function reachable from the
   entry is (next theorem) — every argument, every captured environment and every sequence of outside
   inputs (builtin results, pids, select results, binary handles), related through rho where they
   carry ids: the renamed program, started on the renamed state and fed the renamed inputs,
   produces step for step the renaming of what the original produces: the same fault, or a related
   next state, or a related final value. IsType and Equal verdicts are COMPUTED here from each
   program's own type_compatibility rows and canonical_tuples (xrun), not assumed equal.
   Hypothesis `typed_run`: along the ORIGINAL execution, every tuple value tested by an IsType carries
   a tuple id that has a `Type::Tuple` entry in the original program (C08's has_type_entry obligation:
   the compiler registers the static type of every value it lets reach a run-time test). Without an
   entry the original answers "no" to every pattern, while a program merged earlier may have
   registered the entry (typically Type::Tuple(OK)) and the merged table may answer "yes": see
   the C10 report; the validator compares rows on tuple tags that have an entry. *)
Theorem C10_renaming_simulation : forall rho X X', is_renaming rho X X' = true ->
  forall bin_eq f f' caps caps' arg arg' pers xs xs',
  app (r_f rho) f = Some f' -> Forall2 (vrel rho) caps caps' -> vrel rho arg arg' ->
  Forall2 (xvrel rho) xs xs' ->
  typed_run X bin_eq (init_state f caps arg pers) xs ->
  rrel rho (xrun X bin_eq (init_state f caps arg pers) xs)
           (xrun X' bin_eq (init_state f' caps' arg' pers) xs').
Proof. exact renaming_simulation. Qed.
Print Assumptions C10_renaming_simulation.

(* the entry is mapped to the entry, and the mapped functions are closed under Function / Process
   references: everything reachable from the entry is covered by the simulation *)
Theorem C10_renaming_covers_reachable : forall rho X X', is_renaming rho X X' = true ->
  app (r_f rho) (x_entry X) = Some (x_entry X') /\
  forall f, reachable X (x_entry X) f -> exists f', app (r_f rho) f = Some f'.
Proof. exact renaming_covers_reachable. Qed.
Print Assumptions C10_renaming_covers_reachable.

(* the side condition on the run-time tables, on its own: an accepted pair gives the same IsType
   verdict (row of the renamed type, read at the renamed tag) and the same Equal verdict
   (values_equal with each side's canonical tuple ids) on related values *)
Theorem C10_verdicts_commute : forall rho X X', is_renaming rho X X' = true ->
  (forall v v' y y' w, vrel rho v v' -> app (r_y rho) y = Some y' -> row_of X y = Some w -> tag_typed X v ->
     istype_verdict X v y = istype_verdict X' v' y') /\
  (forall bin_eq vs vs', Forall2 (vrel rho) vs vs' -> equal_verdict X bin_eq vs = equal_verdict X' bin_eq vs').
Proof. exact verdicts_commute. Qed.
Print Assumptions C10_verdicts_commute.

(* the same simulation on vm/Vm.v exactly as C07 uses it (every verdict an outside input) *)
Theorem C10_renaming_simulation_ext : forall rho X X', is_renaming rho X X' = true ->
  forall s s' xs xs', srel rho s s' -> Forall2 (xrel rho) xs xs' ->
  rrel rho (run (project X) s xs) (run (project X') s' xs').
Proof. exact renaming_simulation_ext. Qed.
Print Assumptions C10_renaming_simulation_ext.

(* non-vacuity: a program with a dead function, its image with every table renumbered and shared
   with foreign entries; the validator accepts it, rejects two corruptions of it, both run to
   related results, and the simulation theorem applies to it *)
Theorem C10_nonvacuous :
  is_renaming Examples.ex_rho Examples.exX Examples.exX' = true /\
  is_renaming Examples.ex_rho Examples.exX (with_consts Examples.exX' [XInt 6]) = false /\
  rrel Examples.ex_rho
    (xrun Examples.exX (fun _ _ => false) (init_state 2 [] vnil false) (repeat Examples.quiet 16))
    (xrun Examples.exX' (fun _ _ => false) (init_state 1 [] vnil false) (repeat Examples.quiet 16)).
Proof. exact (conj Examples.ex_accepts (conj Examples.ex_rejects_constant Examples.ex_simulation_applies)). Qed.
Print Assumptions C10_nonvacuous.

(* C07's verifier verdict carries over, certificate for certificate, to every function the
   renaming maps (tree-shaken and merged programs need no new proof of well-formedness; the merged
   program may also hold other programs' functions, about which nothing is claimed) *)
Theorem C10_wf_stable_under_renaming : forall rho X X' As, is_renaming rho X X' = true ->
  check_program (project X) As = true ->
  forall f f', app (r_f rho) f = Some f' ->
  exists A fd', nth_error As f = Some A /\ nth_error (p_funcs (project X')) f' = Some fd' /\
                check_function (project X') fd' A = true.
Proof. exact wf_stable_under_renaming. Qed.
Print Assumptions C10_wf_stable_under_renaming.

(* value_reemit (imports): `emit_cached` models compiler.rs value_to_instructions_from_cache, what
   `%m` / `%m.f` compile to. For every value it accepts (it refuses exactly process / resource / ref
   and dangling ids) that is well-formed for the program (tuples of their arity, closures of their
   capture count), the program only grows (prefix-wise) and, in ANY later growth Y of it, the emitted
   code — wherever it is spliced into a function, on any stack, locals and frames — pushes exactly
   that value and changes nothing else. Binary constants: the pushed handle is the one allocation
   returns (`emit_inputs`), their bytes are the registered constant (binaries are opaque in vm/Vm.v). *)
Theorem C10_value_reemit : forall bytes_of v X X1 code,
  emit_cached bytes_of v X = Some (X1, code) -> wfx X v ->
  extends X X1 /\
  forall Y, extends X1 Y ->
  forall fn fd pre post st lo base caps rest pers,
    nth_error (x_funcs Y) fn = Some fd -> xf_code fd = pre ++ code ++ post ->
    run (project Y) (at_pc st lo fn base caps (length pre) rest pers) (emit_inputs v) =
    Next (at_pc (v :: st) lo fn base caps (length pre + length code) rest pers).
Proof. exact value_reemit. Qed.
Print Assumptions C10_value_reemit.

(* non-vacuity of value_reemit: a named tuple holding a closure over an integer and a binary, a
   nested tuple and a builtin; the emitted code (one constant is shared with the program) rebuilds it *)
Theorem C10_value_reemit_nonvacuous :
  option_map snd (emit_cached Examples.ex_bytes Examples.ex_value Examples.exM) =
    Some [IConstant 0; IConstant 1; IFunction 0; IConstant 2; IBuiltin 0; ITuple 2; ITuple 2] /\
  wfx Examples.exM Examples.ex_value.
Proof. exact (conj Examples.ex_emit Examples.ex_emit_wf). Qed.
Print Assumptions C10_value_reemit_nonvacuous.

(* inject_function_captures (program.rs:228, model `emit_injected`): what `quiv compile` does to an
   entry function that captured values. The closure is re-emitted as Function(f') of a capture-free
   function whose body is a prefix followed by the original body; entering f' on any argument and
   running the prefix yields exactly the captures as the frame's locals, the argument still on the
   stack, pc at the start of the original body (captures without nested capturing closures). *)
Theorem C10_inject_rebuilds_captures : forall bytes_of f c cs X X2 code,
  Forall flat (c :: cs) -> Forall (wfx X) (c :: cs) ->
  emit_injected bytes_of (VFun f (c :: cs)) X = Some (X2, code) ->
  exists f' fd fd' pre,
    code = [IFunction f'] /\ nth_error (x_funcs X2) f' = Some fd' /\ nth_error (x_funcs X2) f = Some fd /\
    xf_code fd' = pre ++ xf_code fd /\ xf_caps fd' = 0 /\ xf_type fd' = xf_type fd /\
    forall Y, extends X2 Y -> forall arg st lo base rest pers,
      run (project Y) (at_pc (arg :: st) lo f' base 0 0 rest pers) (caps_inputs (c :: cs)) =
      Next (at_pc (arg :: st) (lo ++ c :: cs) f' base 0 (length pre) rest pers).
Proof. exact inject_rebuilds_captures. Qed.
Print Assumptions C10_inject_rebuilds_captures.

(* ====================================================================================================
   tree_shake and merge_bytecode, modelled and proved
   ==================================================================================================== *)

(* the validator splits into the structural part and the run-time tables *)
Theorem C10_is_renaming_split : forall rho X X', is_renaming rho X X' = true <->
  struct_ok rho X X' = true /\ rows_ok rho X X' = true /\ canon_ok X = true /\ canon_ok X' = true.
Proof. exact is_renaming_split. Qed.
Print Assumptions C10_is_renaming_split.

(* the structural part alone gives the lock-step simulation on vm/Vm.v (verdicts as outside inputs)
   and covers everything reachable from the entry *)
Theorem C10_struct_simulation_ext : forall rho X X', struct_ok rho X X' = true ->
  (app (r_f rho) (x_entry X) = Some (x_entry X') /\
   forall f, reachable X (x_entry X) f -> exists f', app (r_f rho) f = Some f') /\
  forall s s' xs xs', srel rho s s' -> Forall2 (xrel rho) xs xs' ->
    rrel rho (run (project X) s xs) (run (project X') s' xs').
Proof. intros rho X X' H. split; [apply struct_covers_reachable; exact H | apply struct_simulation_ext; exact H]. Qed.
Print Assumptions C10_struct_simulation_ext.

(* TREE-SHAKE. For EVERY well-formed program (every id it mentions is in range, NIL and OK exist, the
   entry exists) the model of optimisation.rs tree_shake does not panic, and its output is a
   structural renaming of the input under the remap tables it computed. No validation involved. *)
Theorem C10_tree_shake_struct : forall X, wf_program X = true ->
  exists X', tree_shake X = Some X' /\ struct_ok (shake_rho X) X X' = true.
Proof. exact tree_shake_struct. Qed.
Print Assumptions C10_tree_shake_struct.

(* ... hence every tree-shake preserves behaviour step for step (verdicts as outside inputs) *)
Theorem C10_tree_shake_simulation : forall X, wf_program X = true ->
  exists X', tree_shake X = Some X' /\
  app (r_f (shake_rho X)) (x_entry X) = Some (x_entry X') /\
  (forall f, reachable X (x_entry X) f -> exists f', app (r_f (shake_rho X)) f = Some f') /\
  forall s s' xs xs', srel (shake_rho X) s s' -> Forall2 (xrel (shake_rho X)) xs xs' ->
    rrel (shake_rho X) (run (project X) s xs) (run (project X') s' xs').
Proof. exact tree_shake_simulation. Qed.
Print Assumptions C10_tree_shake_simulation.

(* ... and is a full renaming (so C10_renaming_simulation applies, verdicts computed from the
   tables) as soon as the loader's type_compatibility rows commute — premise `rows_ok`, checked on
   the real tables each run *)
Theorem C10_tree_shake_is_renaming : forall X, wf_program X = true -> canon_ok X = true ->
  exists X', tree_shake X = Some X' /\
  forall R, rows_ok (shake_rho X) X (loaded X' R) = true ->
            is_renaming (shake_rho X) X (loaded X' R) = true.
Proof. exact tree_shake_is_renaming. Qed.
Print Assumptions C10_tree_shake_is_renaming.

(* MERGE. For ANY accumulated environment program E and any well-formed B: whenever the model of
   merge_bytecode returns (None = a Rust panic or an id cycle between types and tuples), and under
   the decidable premises `merge_premises` — Function operands point backwards, no Process
   instruction, NIL/OK head the tuple tables, a builtin already known by name has the imported
   signature, dedup identifies no two functions/builtins of B — the grown program is a structural
   renaming of B under the remap tables merge computed. The premises are evaluated on every real
   merge of every run; each is necessary (C10_merge_premises_needed). *)
Theorem C10_merge_struct : forall E B E' rho, merge E B = Some (E', rho) -> wf_program B = true ->
  merge_premises rho B E' = true -> struct_ok rho B E' = true.
Proof. exact merge_struct. Qed.
Print Assumptions C10_merge_struct.

Theorem C10_merge_simulation : forall E B E' rho, merge E B = Some (E', rho) -> wf_program B = true ->
  merge_premises rho B E' = true ->
  app (r_f rho) (x_entry B) = Some (x_entry E') /\
  (forall f, reachable B (x_entry B) f -> exists f', app (r_f rho) f = Some f') /\
  forall s s' xs xs', srel rho s s' -> Forall2 (xrel rho) xs xs' ->
    rrel rho (run (project B) s xs) (run (project E') s' xs').
Proof. exact merge_simulation. Qed.
Print Assumptions C10_merge_simulation.

Theorem C10_merge_is_renaming : forall E B E' rho, merge E B = Some (E', rho) -> wf_program B = true ->
  merge_premises rho B E' = true -> canon_ok B = true ->
  forall R, rows_ok rho B (loaded E' R) = true -> is_renaming rho B (loaded E' R) = true.
Proof. exact merge_is_renaming. Qed.
Print Assumptions C10_merge_is_renaming.

(* non-vacuity: a program with a dead function is shaken (2 of 3 functions, 1 of 2 constants kept);
   its renaming is merged behind an environment that shares a constant, NIL, OK and a type with it;
   merged behind itself everything deduplicates *)
Theorem C10_models_nonvacuous :
  wf_program Examples.exX = true /\
  option_map (fun Y => (length (x_funcs Y), length (x_consts Y), x_entry Y)) (tree_shake Examples.exX) = Some (2, 1, 1) /\
  match merge Examples.exM Examples.exX' with
  | Some (E', rho) => wf_program Examples.exX' = true /\ merge_premises rho Examples.exX' E' = true /\
                      r_f rho = [Some 2; Some 3] /\ r_t rho = [Some 0; Some 1; Some 4; Some 3]
  | None => False
  end.
Proof. vm_compute. repeat split. Qed.
Print Assumptions C10_models_nonvacuous.

(* the premises of the merge theorem are needed: with a forward Function reference (replayed on the
   real merge_bytecode: corpus/c10_json_witness.txt), with a builtin of a known name but another
   signature, or with a Process instruction, the merge is NOT a renaming *)
Theorem C10_merge_premises_needed :
  (match merge Examples.exM MergeExamples.fwdB with
   | Some (E', rho) => wf_program MergeExamples.fwdB = true /\ backward_refs MergeExamples.fwdB = false /\
                       struct_ok rho MergeExamples.fwdB E' = false
   | None => False end) /\
  (match merge MergeExamples.bE MergeExamples.bB with
   | Some (E', rho) => wf_program MergeExamples.bB = true /\ struct_ok rho MergeExamples.bB E' = false
   | None => False end) /\
  (match merge Examples.exM MergeExamples.pB with
   | Some (E', rho) => wf_program MergeExamples.pB = true /\ no_process MergeExamples.pB = false /\
                       struct_ok rho MergeExamples.pB E' = false
   | None => False end).
Proof. vm_compute. repeat split. Qed.
Print Assumptions C10_merge_premises_needed.
