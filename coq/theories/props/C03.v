(* C03 — Results do not depend on scheduling, worker count or quantum.
   ONLY property theorems: statement, `exact <lemma>`, Print Assumptions.
   Model: sys/Proto.v (see props/C04.v).

   PROVED (the ingredients): worker_steps_commute; worker_env_diamond (phase 3: a Worker::step that
   handles only commands already queued and an Environment::step that collects from that worker
   only events already queued commute — W;E and E;W end in the same state; together with
   worker_steps_commute every pair of independent scheduler actions commutes);
   placement_irrelevant_local (+ the stamp-only difference for a slice that sends);
   single_sender_mailbox_order (from C04's per_link_fifo); message conservation.
   The quantum is not a parameter of the model at all: a time slice is an oracle input, so
   `quantum_additive` (splitting a slice in two) is a statement about the VM (vm/Vm.v), not about
   the protocol.
   REFUTED for the code as it is (known finding F72): the answer to a multi-target await can be
   overtaken by a same-worker completion — the reason `! [p1, p3]` after `!p1` can yield p3's result.
   NOT PROVED (partial): the global statement
     schedule_independence : forall P (confluent) sigma1 sigma2 (fair), the per-process results of
                             run (init nw1) sigma1 and run (init nw2) sigma2 under P's behaviour agree
   (Kahn-network determinism of M-Sys); `schedule_independence_partial` is the conjunction of the
   theorems below, and the schedule exploration of vplib/props/c03.py tests the global statement on
   the real code. *)
From Quiver Require Import sys.Proto sys.ProtoCommute sys.ProtoMsg sys.ProtoFifo sys.ProtoFail sys.ProtoDiamond.

Theorem C03_worker_steps_commute : forall s i j ki kj oi oj s1 s2,
  i <> j ->
  sys_step s (W i ki oi) = Good s1 -> sys_step s1 (W j kj oj) = Good s2 ->
  exists s1', sys_step s (W j kj oj) = Good s1' /\ sys_step s1' (W i ki oi) = Good s2.
Proof. exact worker_steps_commute. Qed.
Print Assumptions C03_worker_steps_commute.

Theorem C03_placement_irrelevant_local : forall i i' p pr d hint w,
  is_deliver d = false ->
  run_slice i p pr d hint w = run_slice i' p pr d hint w.
Proof. exact placement_irrelevant_local. Qed.
Print Assumptions C03_placement_irrelevant_local.

Theorem C03_placement_only_stamps : forall i i' p pr d hint w w1 ev,
  d_fin d = None ->
  run_slice i p pr d hint w = Good (w1, ev) ->
  exists w2, run_slice i' p pr d hint w = Good (w2, map (restamp_event i') ev)
             /\ forget_log w2 = forget_log w1.
Proof. exact placement_only_stamps. Qed.
Print Assumptions C03_placement_only_stamps.

(* one sender (worker) per mailbox: the arrival sequence is a prefix of the sender's send sequence,
   whatever the schedule *)
Theorem C03_single_sender_mailbox_order : forall nw sigma s,
  0 < nw -> run (init nw) sigma = Good s ->
  forall i ndi t j ndj,
    nth_error (s_nodes s) i = Some ndi -> alookup t (e_router (s_env s)) = Some j -> nth_error (s_nodes s) j = Some ndj ->
    Forall (fun x => m_w (snd x) = i) (ft t (w_arrlog (n_w ndj))) ->
    exists in_flight, ft t (w_sentlog (n_w ndi)) = ft t (w_arrlog (n_w ndj)) ++ in_flight.
Proof. exact single_sender_mailbox_order. Qed.
Print Assumptions C03_single_sender_mailbox_order.

Theorem C03_schedule_independence_partial :
  (forall s i j ki kj oi oj s1 s2, i <> j ->
     sys_step s (W i ki oi) = Good s1 -> sys_step s1 (W j kj oj) = Good s2 ->
     exists s1', sys_step s (W j kj oj) = Good s1' /\ sys_step s1' (W i ki oi) = Good s2) /\
  (forall i i' p pr d hint w, is_deliver d = false -> run_slice i p pr d hint w = run_slice i' p pr d hint w) /\
  (forall nw sigma s, 0 < nw -> run (init nw) sigma = Good s -> forall t m,
     total (g_sent (t, m)) (s_nodes s)
     = total (g_arr (t, m)) (s_nodes s) + total (g_cmd (t, m)) (s_nodes s) + total (g_evt (t, m)) (s_nodes s)).
Proof. exact (conj worker_steps_commute (conj placement_irrelevant_local message_conservation)). Qed.
Print Assumptions C03_schedule_independence_partial.

(* F72 (known): the snapshot answering `! [p1, p3]` is overtaken by the same-worker direct
   notification of p3's completion: the awaiter is runnable knowing only p3's result while p1's is
   still in the event queue (corpus/sim_c03.txt) *)
Theorem C03_snapshot_overtaken_refuted :
  exists s nd pr,
    run (init 1) f72_schedule = Good s /\ nth_error (s_nodes s) 0 = Some nd /\
    w_queue (n_w nd) = [0] /\
    alookup 0 (w_procs (n_w nd)) = Some pr /\
    p_awaiting pr = [(1, None); (2, Some (ROk 33))] /\
    In (EResults 0 [(1, Some (ROk 11)); (2, None)]) (n_evt nd).
Proof. exact snapshot_overtaken_by_local_notification. Qed.
Print Assumptions C03_snapshot_overtaken_refuted.

(* ---- phase 3: the diamond for independent worker / environment actions *)
Theorem C03_worker_env_diamond : forall s i n o ks nd m s1 s2,
  nth_error (s_nodes s) i = Some nd ->
  n <= length (n_cmd nd) ->
  nth_error ks i = Some m -> m <= length (n_evt nd) ->
  sys_step s (W i (Some n) o) = Good s1 -> sys_step s (E ks) = Good s2 ->
  exists s', sys_step s1 (E ks) = Good s' /\ sys_step s2 (W i (Some n) o) = Good s'.
Proof. exact worker_env_diamond. Qed.
Print Assumptions C03_worker_env_diamond.

Theorem C03_diamond_nonvacuous : exists s',
  run (init 2) [X (XStart false); W 0 (Some 1) (orc (Some 0) (d_act_ ASpawn)); E [0]] = Good s' /\
  run (init 2) [X (XStart false); E [0]; W 0 (Some 1) (orc (Some 0) (d_act_ ASpawn))] = Good s' /\
  total (fun nd => length (n_evt nd)) (s_nodes s') = 1.
Proof. exact diamond_instance. Qed.
Print Assumptions C03_diamond_nonvacuous.
