(* C06 — placeholder while the proofs are being assembled (replaced below). *)
From Quiver Require Import heap.HeapVm.
Theorem C06_model_exists : exists h : heap, cells h = [].
Proof. exists empty_heap. reflexivity. Qed.
Print Assumptions C06_model_exists.
