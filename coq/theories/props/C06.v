(* C06 — Binary heap accounting is exact: no leak, no premature free, no aliasing damage.

   Model: theories/heap/Heap.v (heap + choke points), theories/heap/HeapVm.v (every instruction
   handler, the select machine, notify_*, spawn_process, frame auto-pop and completion of
   Executor::step, replace_locals / release_orphan_locals; debug-build semantics: every
   debug_assert and every Vec index is a Panic outcome), theories/heap/HeapVmFix.v (spawn_process
   after fix_F46). The repairs are committed in /repo (fix_F9 = b6882e1, fix_F46 = 9ff9f6e, fix_F45 =
   09625d4): the model of the code AS COMMITTED is `true` as first argument of a handler (the
   displaced awaiting/receiving value is released; complete_select forgets the select's process
   sources and releases their stored results; notify_result stores nothing for a key that is no
   longer awaited; the worker's Err arm fails only an awaiter that still awaits) — together with
   8388832 (a select re-parks, touching nothing, until every awaited process has been reported) — and
   `spawn_process_f46` (one bundled injection); `false` and `spawn_process` model the code before
   the repairs and carry the `_refuted` witnesses.

   Vocabulary (theories/heap/HeapInv.v, HeapExec.v, HeapProofs.v):
     RC x      := forall i, rc_at (x_heap x) i = cnt i (all_refs x)
                  — refcounts[i] = the exact number of occurrences of Heap(i) in ALL roots: every
                  process's stack, locals, mailbox, Ok result, select sources and `receiving`,
                  awaiting values, plus one per constant-cache entry (stronger than the code's own
                  check_refcounts, which only demands  > 0 <=> reachable).
     XInv x    := WFh (x_heap x) /\ RC x /\ NoDup (map fst (x_procs x))
     WFh h     := refcounts/freed parallel to heap, free = {i | freed i} without duplicates,
                  freed i -> refcounts i = 0, pending_free indices in range
     Inv o h p := WFh h /\ forall i, rc_at h i = cnt i o + cnt i (cb_refs h) + cnt i (proc_refs p)
                  — the same exact count for the RUNNING process taken out of the map, `o` = the
                  references held by all other processes
     Good o h p r := the result r of a handler started in (h, p), on its Ok AND its Err path,
                  satisfies Inv o again, keeps the bytes of every non-free slot (`stable`), and
                  leaves the process result untouched (a Panic result claims nothing)
     NoOrphan h := every slot with count 0 is freed or queued in pending_free.

   PARTIAL (what no theorem here covers):
   * `refcount_exact` for the code BEFORE fix_F9 is false: refuted below at initialize_select,
     notify_result and call_receive_function; the un-negated theorems are for the code as
     committed (fx = true). Sites not touched by F9 are proved for both.
   * C06_refcount_exact_step keeps the premise "a process that has an `awaiting` key for the failing
     process holds no Ok result with references": the awaiters loop of Executor::step
     (executor.rs, `awaiter_process.result = Some(Err(..))`) is unchanged by 09625d4 and still
     overwrites unconditionally. What 09625d4 guarantees is that a key exists only between
     initialize_select and complete_select of the select that registered it, i.e. while the awaiter
     is blocked in that select and its `result` is None (resume_process takes it) — a reachability
     fact about programs, not a local invariant of the model (arbitrary bytecode could finish a
     process while its select state is set), so it stays a premise; the stale-key scenario of F45h
     itself is gone (C06_F45h_repaired, C06_F45_complete_select_forgets) and its reproducer is a
     must-pass probe of the check.
   * reclaim_complete needs NoOrphan, which spawn_process broke before fix_F46 (refuted below);
     NoOrphan-preservation is proved for the heap primitives only, not per handler (for the
     repaired spawn_process it is validated on every run: the oracle counts orphan slots).
   * Theorems are conditional on the operation returning `Val`/not panicking: absence of the
     debug-assert panics (release underflow, retain of a freed slot) is validated by the
     correspondence and the oracle on the real code, not proved.
   * Spawn/Send with fewer than two operands, or Send to a non-process target holding a binary,
     leak in the code (raw pops); they are excluded by `instr_pre` (what C07's verifier and typing
     guarantee) — see HeapHandlers.handle_spawn_underflow_leaks / handle_send_badtarget_leaks. *)
From Quiver Require Import heap.HeapAll.
Require Import List.
Import ListNotations.
Local Open Scope nat_scope.

(* ---- refcount_exact: choke points ---- *)
Theorem C06_refcount_exact_chokepoints : forall o v n h p,
  Inv o h p ->
  Good o h p (push_value v h p) /\ Good o h p (pop_value h p) /\
  Good o h p (push_local v h p) /\ Good o h p (truncate_locals n h p).
Proof. exact chokepoints_RC. Qed.
Print Assumptions C06_refcount_exact_chokepoints.

(* ---- refcount_exact: every one of the 24 instruction handlers (repaired code) ---- *)
Theorem C06_refcount_exact_handlers : forall P pid i x o h p,
  instr_pre p i -> Inv o h p -> Good o h p (exec_instr true P pid i x h p).
Proof. exact exec_instr_good_all. Qed.
Print Assumptions C06_refcount_exact_handlers.

(* the handlers F9 does not touch are proved for the code as found as well *)
Theorem C06_refcount_exact_handlers_as_found : forall fx P pid i x o h p,
  i <> ISelect -> instr_pre p i -> Inv o h p -> Good o h p (exec_instr fx P pid i x h p).
Proof. exact exec_instr_good. Qed.
Print Assumptions C06_refcount_exact_handlers_as_found.

(* ---- refcount_exact + bytes_stable BETWEEN TIME SLICES: one Executor::step, any quantum q, any
   process, any outside inputs (ppf, instruction loop, frame auto-pop, completion, notification
   of awaiters) ---- *)
Theorem C06_refcount_exact_step : forall P x pid q xs dflt x',
  XInv x ->
  (forall pid0 p0 h0, pid = Some pid0 -> get_proc x pid0 = Some p0 -> ppf (x_heap x) = Val h0 ->
     result_refs (p_result p0) = [] /\ SlicePre true P instr_pre pid0 q xs dflt h0 p0) ->
  (forall pid0 w pw, pid = Some pid0 -> w <> pid0 -> get_proc x w = Some pw ->
     has_key pid0 (p_await pw) = true -> result_refs (p_result pw) = []) ->
  exec_step true P x pid q xs dflt = Val x' ->
  XInv x' /\
  (forall i, cnt i (all_refs x) > 0 -> cnt i (all_refs x') > 0 ->
     bytes_at (x_heap x') i = bytes_at (x_heap x) i /\ freed_at (x_heap x') i = false).
Proof. exact exec_step_RC. Qed.
Print Assumptions C06_refcount_exact_step.

(* ---- refcount_exact + bytes_stable for the operations that reach an executor between slices ---- *)
Theorem C06_refcount_exact_notify_message : forall x pid v data x',
  XInv x -> notify_message x pid v data = Val x' -> XInv x' /\ xstable x x'.
Proof. exact notify_message_XInv. Qed.
Print Assumptions C06_refcount_exact_notify_message.

Theorem C06_refcount_exact_notify_result : forall x awaiter awaited v data x',
  XInv x -> notify_result true x awaiter awaited v data = Val x' -> XInv x' /\ xstable x x'.
Proof. exact notify_result_XInv. Qed.
Print Assumptions C06_refcount_exact_notify_result.

(* notify_await_report (8388832): reporting the state of awaited processes moves no reference *)
Theorem C06_refcount_exact_await_report : forall x awaiter targets,
  XInv x -> XInv (report_await x awaiter targets) /\ xstable x (report_await x awaiter targets).
Proof. exact report_await_XInv. Qed.
Print Assumptions C06_refcount_exact_await_report.

Theorem C06_refcount_exact_notify_spawn : forall x pid pv x',
  refs_of pv = [] -> XInv x -> notify_spawn x pid pv = Val x' -> XInv x' /\ xstable x x'.
Proof. exact notify_spawn_XInv. Qed.
Print Assumptions C06_refcount_exact_notify_spawn.

Theorem C06_refcount_exact_spawn_process : forall x pid fn caps arg data pers x',
  XInv x -> get_proc x pid = None ->
  spawn_process_f46 x pid fn caps arg data pers = Val x' -> XInv x' /\ xstable x x'.
Proof. exact spawn_process_f46_XInv. Qed.
Print Assumptions C06_refcount_exact_spawn_process.

(* the per-capture injection of the code before fix_F46 kept the exact count too (it only
   stranded slots, see C06_F46_spawn_orphans_refuted) *)
Theorem C06_refcount_exact_spawn_process_before_F46 : forall x pid fn caps arg data pers x',
  XInv x -> get_proc x pid = None ->
  spawn_process x pid fn caps arg data pers = Val x' -> XInv x' /\ xstable x x'.
Proof. exact spawn_process_XInv. Qed.
Print Assumptions C06_refcount_exact_spawn_process_before_F46.

Theorem C06_refcount_exact_replace_locals : forall x pid keep x',
  XInv x -> compact_locals x pid keep = Val x' -> XInv x' /\ xstable x x'.
Proof. exact compact_locals_XInv. Qed.
Print Assumptions C06_refcount_exact_replace_locals.

Theorem C06_refcount_exact_release_orphan_locals : forall x pid keep x',
  XInv x -> release_orphan_locals x pid keep = Val x' -> XInv x' /\ xstable x x'.
Proof. exact release_orphan_locals_XInv. Qed.
Print Assumptions C06_refcount_exact_release_orphan_locals.

Theorem C06_refcount_exact_resume : forall x pid fn, XInv x -> XInv (resume_process x pid fn).
Proof. exact resume_process_XInv. Qed.
Print Assumptions C06_refcount_exact_resume.

(* ---- no_use_after_free ---- *)
Theorem C06_no_use_after_free : forall x,
  XInv x -> forall i, freed_at (x_heap x) i = true -> cnt i (all_refs x) = 0.
Proof. exact no_use_after_free_x. Qed.
Print Assumptions C06_no_use_after_free.

(* ---- reclaim_sound / reclaim_complete (process_pending_free never panics on a well-formed heap) ---- *)
Theorem C06_reclaim_total : forall h, WFh h -> exists h', ppf h = Val h'.
Proof. exact ppf_total. Qed.
Print Assumptions C06_reclaim_total.

Theorem C06_reclaim_sound : forall h h',
  WFh h -> ppf h = Val h' ->
  forall i, freed_at h' i = true -> freed_at h i = false -> rc_at h i = 0 /\ In i (pending h).
Proof. exact reclaim_sound_l. Qed.
Print Assumptions C06_reclaim_sound.

Theorem C06_reclaim_complete : forall h h',
  WFh h -> NoOrphan h -> ppf h = Val h' ->
  forall i, i < length (cells h') -> rc_at h' i = 0 -> freed_at h' i = true.
Proof. exact reclaim_complete_l. Qed.
Print Assumptions C06_reclaim_complete.

(* ---- bytes_stable: materialize flattens in place, denotation unchanged ---- *)
Theorem C06_bytes_stable_materialize : forall h i h' bs,
  materialize h i = Val (h', bs) ->
  rcs h' = rcs h /\ free h' = free h /\ pending h' = pending h /\ freed h' = freed h /\
  cbins h' = cbins h /\ length (cells h') = length (cells h) /\
  (forall j, bytes_at h' j = bytes_at h j) /\ bs = bytes_at h i.
Proof. exact materialize_spec. Qed.
Print Assumptions C06_bytes_stable_materialize.

(* ---- transfer_copies ---- *)
Theorem C06_transfer_copies : forall h h2 v v' data h2' v'',
  WFh h2 -> extract h v = Val (v', data) -> inject h2 v' data = Val (h2', v'') ->
  denote h2' v'' = denote h v.
Proof. exact transfer_copies_l. Qed.
Print Assumptions C06_transfer_copies.

(* ---- refuted, witnesses by computation: the code before fix_F9 / fix_F46 / fix_F45 (kept as the
   record of what the repairs change) ---- *)
Theorem C06_F9_initialize_select_refuted :
  exists o h p pid now,
    Inv o h p /\ p_sel p = None /\
    match initialize_select false pid now h p with
    | MVal _ h' p' => ~ Inv o h' p'
    | _ => False
    end.
Proof. exact initialize_select_refuted. Qed.
Print Assumptions C06_F9_initialize_select_refuted.

Theorem C06_F9_notify_result_refuted :
  exists x v, XInv x /\ exists x', notify_result false x 0 1 v [] = Val x' /\ ~ RC x'.
Proof. exact notify_result_refuted. Qed.
Print Assumptions C06_F9_notify_result_refuted.

Theorem C06_F9_call_receive_refuted : forall P,
  exists o h p ridx midx msg src x,
    Inv o h p /\ p_sel p <> None /\
    match call_receive_function false P ridx midx msg src x h p with
    | MVal _ h' p' | MErr _ h' p' => ~ Inv o h' p'
    | MPanic _ => False
    end.
Proof. exact call_receive_refuted. Qed.
Print Assumptions C06_F9_call_receive_refuted.

Theorem C06_F46_spawn_orphans_refuted :
  exists x x', XInv x /\ NoOrphan (x_heap x) /\
    spawn_process x 1 (Some 0) [VBin 0] (VInt 0%Z) [[1%Z]] false = Val x' /\ ~ NoOrphan (x_heap x').
Proof. exact spawn_orphans_refuted. Qed.
Print Assumptions C06_F46_spawn_orphans_refuted.

(* the same spawn on the code as committed strands nothing *)
Theorem C06_F46_repaired_no_orphan :
  exists x', spawn_process_f46 (mkExec empty_heap []) 1 (Some 0) [VBin 0] (VInt 0%Z) [[1%Z]] false = Val x' /\
             rcs (x_heap x') = [1] /\ freed (x_heap x') = [false] /\ length (cells (x_heap x')) = 1.
Proof. exact spawn_f46_no_orphan. Qed.
Print Assumptions C06_F46_repaired_no_orphan.

Theorem C06_F45h_fail_result_refuted : exists x, XInv x /\ ~ RC (fail_result false x 0 1).
Proof. exact fail_result_refuted. Qed.
Print Assumptions C06_F45h_fail_result_refuted.

(* the code as committed (09625d4): the same stale failure changes nothing *)
Theorem C06_F45h_repaired :
  fail_result true fr_exec 0 1 = fr_exec /\ XInv (fail_result true fr_exec 0 1).
Proof. exact fail_result_repaired. Qed.
Print Assumptions C06_F45h_repaired.

(* 09625d4: completing a select on a process forgets it — the `awaiting` entry disappears and the
   stored result is released; before the repair the entry and its count stayed *)
Theorem C06_F45_complete_select_forgets :
  match complete_select true (VInt 1) wit_heap
          (mkProc [] [] [wit_frame] false [] None (Some (mkSel 0 0 [VProc 7 0] [] None None))
                  [(7, Some (VBin 0))] []) with
  | MVal None h' p' => rc_at h' 0 = 0 /\ p_await p' = [] /\ pending h' = [0]
  | _ => False
  end /\
  match complete_select false (VInt 1) wit_heap
          (mkProc [] [] [wit_frame] false [] None (Some (mkSel 0 0 [VProc 7 0] [] None None))
                  [(7, Some (VBin 0))] []) with
  | MVal None h' p' => rc_at h' 0 = 1 /\ p_await p' = [(7, Some (VBin 0))]
  | _ => False
  end.
Proof. exact complete_select_forgets. Qed.
Print Assumptions C06_F45_complete_select_forgets.

(* a stale failure never touches a process that no longer awaits the failed one *)
Theorem C06_F45_stale_failure_inert : forall x pid awaited p,
  get_proc x pid = Some p -> has_key awaited (p_await p) = false -> fail_result true x pid awaited = x.
Proof. exact fail_result_stale. Qed.
Print Assumptions C06_F45_stale_failure_inert.

(* the worker's Err arm on an awaiter that still awaits (its result carries no reference) *)
Theorem C06_refcount_exact_fail_result : forall fx x pid awaited,
  XInv x -> (forall p, get_proc x pid = Some p -> result_refs (p_result p) = []) ->
  XInv (fail_result fx x pid awaited).
Proof. exact fail_result_XInv. Qed.
Print Assumptions C06_refcount_exact_fail_result.

(* ---- non-vacuity: a heap with a shared, sliced binary in two processes satisfies the invariant ---- *)
Theorem C06_nonvacuous_shared_sliced :
  XInv sh_exec /\
  bytes_at (x_heap sh_exec) 1 = [2; 3]%Z /\ cnt 0 (all_refs sh_exec) = 3 /\ cnt 1 (all_refs sh_exec) = 1.
Proof. exact (conj shared_sliced_RC shared_sliced_bytes). Qed.
Print Assumptions C06_nonvacuous_shared_sliced.
