(* C16 — Tail calls run in constant space.
   ONLY property theorems. The verifier (vm/Wf.v) accepts a tail call only when the operand stack
   above the frame's base holds exactly the call shape (the argument for `^`, argument and
   function for `^f`); the theorems below then give, for every verified program and every
   execution: a tail call never grows the frame stack, re-enters at pc 0 on the same locals
   base and the same stack base with only the new function's captures as locals — so the n-th
   re-entry has the configuration of the first — and each activation stays within the
   per-function bounds the verifier computed. Heap reclamation of dropped binaries is C06's. *)
From Quiver Require Import vm.Wf vm.WfProofs vm.WfRun vm.WfExamples vm.WfSpace.

Theorem C16_tailcall_constant_space : forall P As, check_program P As = true ->
  forall s x r s' fr rest,
  Inv P As s -> frames s = fr :: rest -> top_instr P s = Some (ITailCall r) ->
  step P s x = Next s' ->
  exists fr' a,
    frames s' = fr' :: rest /\
    ann As (fr_fn fr) (fr_pc fr) = Some a /\
    length (frames s') = length (frames s) /\
    fr_pc fr' = 0 /\ fr_base fr' = fr_base fr /\
    length (stack s') = (length (stack s) - a_h a) + 1 /\
    length (locals s') = fr_base fr + fr_caps fr'.
Proof. exact tailcall_constant_space. Qed.
Print Assumptions C16_tailcall_constant_space.

Theorem C16_per_function_bounds : forall P As s fr rest A,
  Inv P As s -> frames s = fr :: rest -> nth_error As (fr_fn fr) = Some A ->
  exists a, ann As (fr_fn fr) (fr_pc fr) = Some a /\
            a_h a <= max_height A /\
            length (locals s) <= fr_base fr + max_locals A.
Proof. exact per_function_bounds. Qed.
Print Assumptions C16_per_function_bounds.

(* the invariant these theorems assume holds along every execution of a verified program *)
Theorem C16_invariant_reachable : forall P As, check_program P As = true ->
  forall s xs, Inv P As s -> Forall (ext_ok P) xs -> good P As (run P s xs).
Proof. exact run_sound. Qed.
Print Assumptions C16_invariant_reachable.

(* non-vacuity: a self tail call not in tail position is rejected, one in tail position accepted *)
Theorem C16_nonvacuous :
  (exists As, verify_program good_prog = Some As) /\
  verify_program (prog [{| f_caps := 0; f_code := [IDuplicate; ITailCall true] |}]) = None.
Proof. split; [exact verifier_accepts | exact reject_tailcall_not_in_tail_position]. Qed.
Print Assumptions C16_nonvacuous.

(* global form: in every state a verified program reaches from a spawn, the operand stack and the
   locals are bounded by (number of frames) x (the verifier's largest per-point height / locals
   count) — and a tail call never adds a frame, so the only factor that can grow counts pending
   NON-tail calls: a loop written with tail calls runs in space independent of its iteration count *)
Theorem C16_run_space_bound : forall P As, check_program P As = true ->
  forall fn fd caps arg pers xs s,
  nth_error (p_funcs P) fn = Some fd -> length caps = f_caps fd ->
  Forall (wfv P) caps -> wfv P arg -> Forall (ext_ok P) xs ->
  run P (init_state fn caps arg pers) xs = Next s -> frames s <> [] ->
  length (stack s) <= length (frames s) * Hmax As /\
  length (locals s) <= length (frames s) * Lmax As.
Proof. exact run_space_bound. Qed.
Print Assumptions C16_run_space_bound.

Theorem C16_tailcall_keeps_frame_count : forall P As, check_program P As = true ->
  forall s x r s',
  Inv P As s -> top_instr P s = Some (ITailCall r) -> step P s x = Next s' ->
  length (frames s') = length (frames s).
Proof. exact tailcall_keeps_frame_count. Qed.
Print Assumptions C16_tailcall_keeps_frame_count.

Theorem C16_loop_space_nonvacuous :
  exists As, verify_program good_prog = Some As /\ Hmax As = 2 /\ Lmax As = 2 /\
  exists s, run good_prog (init_state 2 [] (VInt 5%Z) false)
                (repeat {| x_value := None; x_bool := false |} 60) = Next s /\
            length (frames s) = 1 /\ length (stack s) = 1 /\ length (locals s) = 0.
Proof. exact loop_space_nonvacuous. Qed.
Print Assumptions C16_loop_space_nonvacuous.
