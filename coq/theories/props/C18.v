(* C18 — stub while the cone is being built (replaced below). *)
From Quiver Require Import Base Pretty PrettyProofs.

Theorem C18_print_total : forall (d : doc) (width : nat), exists out, Pretty.print d width = Some out.
Proof. exact print_total. Qed.
Print Assumptions C18_print_total.
