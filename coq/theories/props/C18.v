(* C18 — The front end is total: any text yields a program or a located error.
   Level: proof, PARTIAL.  This file contains ONLY the property theorems, each closed by `exact`.

   The property is about Rust-level partiality (unwrap / expect / unreachable! / slicing / stack
   exhaustion) and non-termination in parser.rs + compiler.rs (~13 kLoC).  No Gallina model covers
   them, and a total Gallina function proves nothing about Rust panics.  The FULL statement

     forall text, nesting text <= 100 ->
       (exists prog, parse text = Ok prog /\ (exists bc, compile prog = Ok bc) \/ (exists e, compile prog = Err e))
       \/ (exists kind span, parse text = Err (kind, span) /\ span.offset <= len text /\ line/column of span agree with text)

   is NOT a theorem here: it is SEARCHED on the real code by vplib/props/c18.py (harness qv_front:
   parse + Compiler::compile in child processes with an 8 MiB stack and a CPU watchdog; oracles: no
   panic / abort / timeout, position in range and consistent, determinism).  Known finding there:
   F77 (parse time exponential in the nesting depth of parentheses; parser.rs has no nesting guard,
   so there is no guard to model).

   What IS proved: the TERMINATION ARGUMENTS of the front end's recursive algorithms, with explicit
   bounds, on the executable models that C09 / C17 tie to the code by differential execution —
   exactly where this code base has failed before (F55: stack overflow of check_type_relation).
     1. check_type_relation (types.rs:245-547; Rel.check_rel): FULL, recursive types included —
        for every registry with topologically ordered ids and n types, both modes, every pair of
        ids, every model variant that records the callable assumption (in particular the code as it
        is): fuel B(n) = n^2 (4n+5) + 4n + 4 suffices, i.e. the recursion depth is at most B(n).
        The two hypotheses are necessary: witnesses exceed the bound without them (F55 as found;
        an id cycle through the tuple table).
     2. narrowing (narrowing.rs:277-479): contains_cycle: depth <= n + 1.  intersect_types / intersect_pair:
        FULL - fuel 2n+2 (and relation fuel B(n)) suffices on every registry with topologically ordered
        ids and in-range tuple ids; the registry grows but the recursion descends base ids only.
        compute_complement / subtract_one: recursion depth <= 2n+2, stated as irrelevance of the
        structural fuel beyond the bound (results are fed back as operands; the measure is the id of
        the NARROWED side, which never is a result).  union_type_ids: not recursive.
        NOT PROVED: sufficiency of a relation fuel given in n alone for the relation checks made
        inside compute_complement (they see ids registered during the run).
     3. string post-processing with the located error (parser.rs:685-754): total; the error span
        lies inside the segment and starts at the offending backslash (a character boundary).
        normalize_blocks and print: total (print re-exported from C17 with attribution). *)
From Quiver Require Import Base Types Rel Narrow RelProofs TypesProofs.
From Quiver Require Import Ast Simplify Escape Pretty PrettyProofs.
From Quiver.front Require Import Totality RelTermProofs RelTermWitness NarrowTermProofs StringLoc StringLocProofs.
From Quiver.front Require Import IntersectTermProofs ComplementTermProofs NarrowBoundProofs.
From Coq Require Import Arith.

(* ---- 1. check_type_relation --------------------------------------------------------------- *)
(* the code as it is in /repo (current_cfg: assumptions recorded for unions AND callables, retracted
   on failure, two stacks), both modes, from the empty state of is_compatible / types_overlap *)
Theorem C18_check_rel_terminates : forall (P : registry) (mode : union_mode) (fuel a b : nat),
  topob P = true -> (rel_bound (ntypes P) <= fuel)%nat ->
  exists r A', check_rel current_cfg P mode fuel [] [] [] a b = Some (r, A').
Proof. exact check_rel_terminates_current. Qed.
Print Assumptions C18_check_rel_terminates.

(* the bound, written out: cubic in the number of registered types *)
Theorem C18_rel_bound_formula : forall n : nat,
  rel_bound n = (n * n * (4 * n + 5) + 4 * n + 4)%nat.
Proof. exact rel_bound_formula. Qed.
Print Assumptions C18_rel_bound_formula.

(* every variant of the model that records the assumption in the Callable arm (whatever the other
   switches: with or without retraction, one or two stacks, ...) *)
Theorem C18_check_rel_terminates_gen : forall (cfg : rel_cfg) (P : registry) (mode : union_mode) (fuel a b : nat),
  cfg_callable_assume cfg = true -> topob P = true -> (rel_bound (ntypes P) <= fuel)%nat ->
  check_rel cfg P mode fuel [] [] [] a b <> None.
Proof. exact check_rel_terminates_gen. Qed.
Print Assumptions C18_check_rel_terminates_gen.

(* the general form: from ANY reachable state (assumption set A, both stacks holding ids of unions /
   callables), with U in-range pairs not yet assumed, at a pair of weight <= m *)
(* ... and WINDOWED: only the ids below K need to be topologically ordered, the bound is in K (K = ntypes P
   is the plain statement; narrowing runs the relation on base ids inside a registry that has grown) *)
Theorem C18_check_rel_fuel_enough : forall (cfg : rel_cfg) (P : registry) (mode : union_mode),
  cfg_callable_assume cfg = true ->
  forall K : nat,
  (forall id t, (id < K)%nat -> lookup_type P id = Some t -> forall c, In c (children P t) -> (c < id)%nat) ->
  forall (U m f : nat) (A : assumptions) (ss ps : list nat) (s p : nat),
  (unassumed K A <= U)%nat -> stack_ok P K ss -> stack_ok P K ps ->
  (s < K)%nat -> (p < K)%nat -> (w P s p <= m)%nat -> (rel_need K U m <= f)%nat ->
  exists r A', check_rel cfg P mode f A ss ps s p = Some (r, A') /\ ext A' A.
Proof. exact check_rel_fuel_enough. Qed.
Print Assumptions C18_check_rel_fuel_enough.

Theorem C18_check_rel_terminates_window : forall (cfg : rel_cfg) (P : registry) (mode : union_mode),
  cfg_callable_assume cfg = true ->
  forall K : nat,
  (forall id t, (id < K)%nat -> lookup_type P id = Some t -> forall c, In c (children P t) -> (c < id)%nat) ->
  forall fuel a b, (a < K)%nat -> (b < K)%nat -> (rel_bound K <= fuel)%nat ->
  exists r A', check_rel cfg P mode fuel [] [] [] a b = Some (r, A').
Proof. exact check_rel_terminates_window. Qed.
Print Assumptions C18_check_rel_terminates_window.

Theorem C18_is_compatible_terminates : forall (P : registry) (fuel a b : nat),
  topob P = true -> (rel_bound (ntypes P) <= fuel)%nat ->
  exists r, is_compatible_with current_cfg fuel P a b = Some r.
Proof. exact is_compatible_terminates. Qed.
Print Assumptions C18_is_compatible_terminates.

Theorem C18_types_overlap_terminates : forall (P : registry) (fuel a b : nat),
  topob P = true -> (rel_bound (ntypes P) <= fuel)%nat ->
  exists r, types_overlap_with current_cfg fuel P a b = Some r.
Proof. exact types_overlap_terminates. Qed.
Print Assumptions C18_types_overlap_terminates.

(* non-vacuity: the minimised F55 shape (recursive function types) and a recursive list type meet the
   hypothesis and are answered far inside the bound *)
Example C18_check_rel_nonvacuous :
  topob reg_F55 = true /\ rel_bound (ntypes reg_F55) = 649%nat /\
  is_compatible_with current_cfg 649 reg_F55 4 3 = Some true /\
  is_compatible_with current_cfg 11 reg_F55 4 3 = Some true /\
  is_compatible_with current_cfg 10 reg_F55 4 3 = None /\
  topob reg_list = true /\ is_compatible_with current_cfg 2404 reg_list 4 7 = Some false /\
  types_overlap_with current_cfg 2404 reg_list 4 7 = Some true.
Proof.
  exact (conj reg_F55_topo
        (conj (proj1 F55_current_terminates)
        (conj (proj1 (proj2 F55_current_terminates))
        (conj (proj1 (proj2 (proj2 F55_current_terminates)))
        (conj (proj2 (proj2 (proj2 F55_current_terminates)))
        (conj (proj1 reg_list_checks)
        (conj (proj1 (proj2 (proj2 reg_list_checks)))
              (proj1 (proj2 (proj2 (proj2 reg_list_checks))))))))))).
Qed.

(* the hypothesis on the Callable arm is necessary: the variant before fix e7dcc7d (finding F55)
   exceeds the bound — and ten times the bound — on a topologically ordered 5-type registry *)
Theorem C18_check_rel_bound_fails_without_callable_assumption :
  topob reg_F55 = true /\
  check_rel partial_cfg reg_F55 All (rel_bound (ntypes reg_F55)) [] [] [] 4 3 = None /\
  check_rel partial_cfg reg_F55 All (10 * rel_bound (ntypes reg_F55)) [] [] [] 4 3 = None.
Proof. exact (conj reg_F55_topo F55_partial_cfg_exceeds_bound). Qed.
Print Assumptions C18_check_rel_bound_fails_without_callable_assumption.

(* ... and in fact no fuel at all is enough: F55 (stack overflow of check_type_relation on recursive
   function types) as a theorem about the pre-fix variant of the model *)
Theorem C18_check_rel_diverges_without_callable_assumption : forall fuel : nat,
  check_rel partial_cfg reg_F55 All fuel [] [] [] 4 3 = None.
Proof. exact F55_partial_cfg_diverges. Qed.
Print Assumptions C18_check_rel_diverges_without_callable_assumption.

(* the hypothesis on the registry is necessary: two tuple types that refer to each other by id *)
Theorem C18_check_rel_bound_fails_on_id_cycle :
  topob reg_idcycle = false /\
  check_rel current_cfg reg_idcycle All (100 * rel_bound (ntypes reg_idcycle)) [] [] [] 0 1 = None.
Proof. exact idcycle_not_topo_and_exceeds. Qed.
Print Assumptions C18_check_rel_bound_fails_on_id_cycle.

(* ---- 2. narrowing helpers ------------------------------------------------------------------- *)
Theorem C18_contains_cycle_terminates : forall (cfg : rel_cfg) (P : registry) (fuel : nat) (seen : list nat) (t : nat),
  topob P = true -> (cc_bound (ntypes P) <= fuel)%nat ->
  exists r, contains_cycle cfg fuel P seen t = Some r.
Proof. exact contains_cycle_terminates. Qed.
Print Assumptions C18_contains_cycle_terminates.

Theorem C18_union_type_ids_total : forall (P : registry) (ids : list nat),
  exists P' id, union_type_ids P ids = (P', id).
Proof. exact union_type_ids_total. Qed.
Print Assumptions C18_union_type_ids_total.

(* intersect_types (narrowing.rs:303-372, incl. the exact-meet arms for callable / process types): FULL.
   For every registry with topologically ordered ids and in-range tuple ids (`closed_tuplesb`: what
   register_tuple / register_type produce) with n types, every pair of ids, every model variant that
   records the callable assumption: structural fuel narrow_bound n = 2n+2 and relation fuel rel_bound n
   suffice; the result extends the registry.  The registry grows during the run, but the recursion only
   descends into ids of the registry it started from (measure: the id of the self side), and the
   relation checks are made on such ids (windowed check_rel / contains_cycle bounds). *)
Theorem C18_intersect_types_terminates : forall (cfg : rel_cfg) (P : registry) (rel_fuel fuel a b : nat),
  cfg_callable_assume cfg = true -> topob P = true -> closed_tuplesb P = true ->
  (rel_bound (ntypes P) <= rel_fuel)%nat -> (narrow_bound (ntypes P) <= fuel)%nat ->
  exists P' r, intersect_types cfg rel_fuel fuel P a b = Some (P', r) /\ extends P P'.
Proof. exact intersect_types_terminates. Qed.
Print Assumptions C18_intersect_types_terminates.

(* the general form: relative to a base registry P0, from ANY registry P that extends it (any state
   reached during a run), for operands that are base ids, given that the relation checks on base ids
   answer in every extension (`rel_answers_on`, discharged above from rel_fuel >= rel_bound n) *)
Theorem C18_intersect_fuel_enough : forall (cfg : rel_cfg) (rel_fuel : nat) (P0 : registry),
  topo P0 -> closed_tuples P0 -> rel_answers_on cfg rel_fuel P0 ->
  forall m : nat,
  (forall fuel P a b, extends P0 P -> (a < ntypes P0)%nat -> (b < ntypes P0)%nat -> (a <= m)%nat -> (2 * m + 2 <= fuel)%nat ->
     exists P' x, intersect_types cfg rel_fuel fuel P a b = Some (P', x) /\ extends P P') /\
  (forall fuel P a b, extends P0 P -> (a < ntypes P0)%nat -> (b < ntypes P0)%nat -> (a <= m)%nat -> (2 * m + 1 <= fuel)%nat ->
     exists P' x, intersect_pair cfg rel_fuel fuel P a b = Some (P', x) /\ extends P P').
Proof. exact intersect_fuel_enough. Qed.
Print Assumptions C18_intersect_fuel_enough.

(* compute_complement / subtract_one (narrowing.rs:403-479): the recursion depth is at most 2n+2.
   compute_complement feeds its results back into subtract_one, so the self side of a call may be an
   id registered during the run; the NARROWED side never is (always a variant, or a field type of a
   variant, of the narrowed operand) and strictly decreases - that is the measure.  The relation checks
   of subtract_one's shortcuts run on (piece, narrowed variant) where the piece may be new, so whether
   THEY answer depends on the relation fuel and on how far the registry has grown; the theorem is
   therefore about the structural fuel: beyond narrow_bound n it is irrelevant, for every relation
   fuel - if any structural fuel >= the bound yields an answer, the bound itself yields the same one,
   and a None at the bound can only come from the relation fuel. *)
Theorem C18_complement_fuel_irrelevant : forall (cfg : rel_cfg) (rel_fuel : nat) (P : registry) (fuel fuel' o nr : nat),
  topob P = true -> closed_tuplesb P = true ->
  (narrow_bound (ntypes P) <= fuel)%nat -> (narrow_bound (ntypes P) <= fuel')%nat ->
  compute_complement cfg rel_fuel fuel P o nr = compute_complement cfg rel_fuel fuel' P o nr.
Proof. exact complement_fuel_irrelevant. Qed.
Print Assumptions C18_complement_fuel_irrelevant.

Theorem C18_complement_bound_suffices : forall (cfg : rel_cfg) (rel_fuel : nat) (P : registry) (fuel o nr : nat) r,
  topob P = true -> closed_tuplesb P = true -> (narrow_bound (ntypes P) <= fuel)%nat ->
  compute_complement cfg rel_fuel fuel P o nr = Some r ->
  compute_complement cfg rel_fuel (narrow_bound (ntypes P)) P o nr = Some r.
Proof. exact complement_bound_suffices. Qed.
Print Assumptions C18_complement_bound_suffices.

(* general form: relative to a base registry, from any extension, for every self side (base id or not) *)
Theorem C18_complement_fuel_stable : forall (cfg : rel_cfg) (rel_fuel : nat) (P0 : registry),
  topo P0 -> closed_tuples P0 -> forall m : nat,
  (forall f f' P o nr, extends P0 P -> (nr < ntypes P0)%nat -> (nr <= m)%nat -> (2 * m + 2 <= f)%nat -> (2 * m + 2 <= f')%nat ->
     compute_complement cfg rel_fuel f P o nr = compute_complement cfg rel_fuel f' P o nr) /\
  (forall f f' P a b, extends P0 P -> (b < ntypes P0)%nat -> (b <= m)%nat -> (2 * m + 1 <= f)%nat -> (2 * m + 1 <= f')%nat ->
     subtract_one cfg rel_fuel f P a b = subtract_one cfg rel_fuel f' P a b).
Proof. exact complement_fuel_stable. Qed.
Print Assumptions C18_complement_fuel_stable.

(* non-vacuity of both: the recursive list registry and the F55 function types meet the hypotheses; the
   meet and the complement are computed at the bounds, not with 3 units of structural fuel *)
Example C18_narrow_nonvacuous :
  topob reg_list = true /\ closed_tuplesb reg_list = true /\ narrow_bound (ntypes reg_list) = 18%nat /\
  (exists P' r, intersect_types current_cfg (rel_bound (ntypes reg_list)) 18 reg_list 4 7 = Some (P', r) /\ r = 3%nat) /\
  intersect_types current_cfg (rel_bound (ntypes reg_list)) 3 reg_list 4 7 = None /\
  (exists P' r, compute_complement current_cfg (rel_bound (ntypes reg_list)) (narrow_bound (ntypes reg_list)) reg_list 4 7 = Some (P', r)) /\
  compute_complement current_cfg (rel_bound (ntypes reg_list)) 3 reg_list 4 7 = None.
Proof.
  exact (conj (proj1 intersect_nonvacuous) (conj (proj1 (proj2 intersect_nonvacuous)) (conj (proj1 (proj2 (proj2 intersect_nonvacuous)))
        (conj (proj1 (proj2 (proj2 (proj2 intersect_nonvacuous)))) (conj (proj1 (proj2 (proj2 (proj2 (proj2 intersect_nonvacuous)))))
        (conj (proj1 complement_nonvacuous) (proj1 (proj2 complement_nonvacuous)))))))).
Qed.

(* NOT proved: that the relation checks made INSIDE compute_complement answer for a relation fuel given
   as a function of the initial n alone (they run on ids registered during the run, in a registry whose
   growth is not polynomially bounded: pieces multiply per field and per narrowed variant).  Measured on
   every run instead: the model's minimal structural fuel against narrow_bound n, with a large relation
   fuel (evidence keys model_layer.narrow_...). *)

(* ---- 3. string post-processing, block normalisation, layout ------------------------------------ *)
(* parse_string_content with its position bookkeeping: a result or a located error, the location
   inside the segment; the erased result is C17's `unescape` *)
Theorem C18_unescape_total : forall s : list Z,
  (exists r, parse_string_content_loc s = PscOk r /\ unescape s = Some r) \/
  (exists off len esc, parse_string_content_loc s = PscErr off len esc /\ unescape s = None /\
                       (off < byte_len s)%nat /\ (off + len <= byte_len s)%nat).
Proof. exact unescape_total_located. Qed.
Print Assumptions C18_unescape_total.

(* with the segment starting at byte `base` of the source (span.location_offset()): the reported
   span [off, off+len) lies in [base, base + len(segment)) and starts after a whole prefix of
   characters (at the backslash) *)
Theorem C18_escape_error_offset_in_range : forall (s : list Z) (base off len : nat) (esc : list Z),
  psc s base = PscErr off len esc ->
  (base <= off)%nat /\ (off < base + byte_len s)%nat /\ (off + len <= base + byte_len s)%nat /\
  exists pre, firstn (length pre) s = pre /\ off = (base + byte_len pre)%nat.
Proof. exact escape_error_offset_in_range. Qed.
Print Assumptions C18_escape_error_offset_in_range.

(* latent (the only caller drops the error value): `length: 2` counts a multi-byte escaped character
   as one byte, so the END of the span can fall inside a character *)
Theorem C18_escape_error_span_end_not_boundary :
  exists s off len esc, parse_string_content_loc s = PscErr off len esc /\
    (off + len < byte_len s)%nat /\
    forall pre, firstn (length pre) s = pre -> byte_len pre <> (off + len)%nat.
Proof. exact escape_error_span_end_not_boundary. Qed.
Print Assumptions C18_escape_error_span_end_not_boundary.

(* normalize_blocks (simplify.rs, run by the compiler at compiler.rs:548) is structurally recursive on
   the AST: in the model that IS the termination argument (Coq's guard checker accepted it without
   fuel); the statement below records only that, it carries no further content *)
Theorem C18_normalize_blocks_total : forall (p : program) (o : options),
  exists q, normalize_blocks p o = q.
Proof. exact (fun p o => ex_intro _ (normalize_blocks p o) eq_refl). Qed.
Print Assumptions C18_normalize_blocks_total.

(* pretty.rs print: total with the explicit fuel `enough_fuel d`.  Proved by C17 (PrettyProofs.print_total,
   props/C17.v C17_print_total); re-exported here, not re-proved. *)
Theorem C18_print_total : forall (d : doc) (width : nat), exists out, Pretty.print d width = Some out.
Proof. exact print_total. Qed.
Print Assumptions C18_print_total.
