(* C18 — The front end is total: any text yields a program or a located error.
   Level: proof, PARTIAL.  This file contains ONLY the property theorems, each closed by `exact`.

   The property is about Rust-level partiality (unwrap / expect / unreachable! / slicing / stack
   exhaustion) and non-termination in parser.rs + compiler.rs (~13 kLoC).  No Gallina model covers
   them, and a total Gallina function proves nothing about Rust panics.  The FULL statement

     forall text, nesting text <= 100 ->
       (exists prog, parse text = Ok prog /\ (exists bc, compile prog = Ok bc) \/ (exists e, compile prog = Err e))
       \/ (exists kind span, parse text = Err (kind, span) /\ span.offset <= len text /\ line/column of span agree with text)

   is NOT a theorem here: it is SEARCHED on the real code by vplib/props/c18.py (harness qv_front:
   parse + Compiler::compile in child processes with an 8 MiB stack and a CPU watchdog; oracles: no
   panic / abort / timeout, position in range and consistent, determinism).  Known finding there:
   F77 (parse time exponential in the nesting depth of parentheses; parser.rs has no nesting guard,
   so there is no guard to model).

   What IS proved: the TERMINATION ARGUMENTS of the front end's recursive algorithms, with explicit
   bounds, on the executable models that C09 / C17 tie to the code by differential execution —
   exactly where this code base has failed before (F55: stack overflow of check_type_relation).
     1. check_type_relation (types.rs:245-547; Rel.check_rel): FULL, recursive types included —
        for every registry with topologically ordered ids and n types, both modes, every pair of
        ids, every model variant that records the callable assumption (in particular the code as it
        is): fuel B(n) = n^2 (4n+5) + 4n + 4 suffices, i.e. the recursion depth is at most B(n).
        The two hypotheses are necessary: witnesses exceed the bound without them (F55 as found;
        an id cycle through the tuple table).
     2. contains_cycle (narrowing.rs:277-295): depth <= n + 1.  union_type_ids: not recursive.
        NOT PROVED: intersect_types / compute_complement / subtract_one.  Missing: an invariant
        that the ids RETURNED by the narrowing functions (newly registered tuple types whose fields
        are themselves results) stay topologically ordered and no deeper than their operands —
        compute_complement feeds its own results back into subtract_one, so descent on the id of
        the operands does not cover them.  Their recursion depth is measured on every run
        (candidate bound 2n+2, evidence keys model_layer.narrow_...), not proved.
     3. string post-processing with the located error (parser.rs:685-754): total; the error span
        lies inside the segment and starts at the offending backslash (a character boundary).
        normalize_blocks and print: total (print re-exported from C17 with attribution). *)
From Quiver Require Import Base Types Rel Narrow RelProofs.
From Quiver Require Import Ast Simplify Escape Pretty PrettyProofs.
From Quiver.front Require Import Totality RelTermProofs RelTermWitness NarrowTermProofs StringLoc StringLocProofs.
From Coq Require Import Arith.

(* ---- 1. check_type_relation --------------------------------------------------------------- *)
(* the code as it is in /repo (current_cfg: assumptions recorded for unions AND callables, retracted
   on failure, two stacks), both modes, from the empty state of is_compatible / types_overlap *)
Theorem C18_check_rel_terminates : forall (P : registry) (mode : union_mode) (fuel a b : nat),
  topob P = true -> (rel_bound (ntypes P) <= fuel)%nat ->
  exists r A', check_rel current_cfg P mode fuel [] [] [] a b = Some (r, A').
Proof. exact check_rel_terminates_current. Qed.
Print Assumptions C18_check_rel_terminates.

(* the bound, written out: cubic in the number of registered types *)
Theorem C18_rel_bound_formula : forall n : nat,
  rel_bound n = (n * n * (4 * n + 5) + 4 * n + 4)%nat.
Proof. exact rel_bound_formula. Qed.
Print Assumptions C18_rel_bound_formula.

(* every variant of the model that records the assumption in the Callable arm (whatever the other
   switches: with or without retraction, one or two stacks, ...) *)
Theorem C18_check_rel_terminates_gen : forall (cfg : rel_cfg) (P : registry) (mode : union_mode) (fuel a b : nat),
  cfg_callable_assume cfg = true -> topob P = true -> (rel_bound (ntypes P) <= fuel)%nat ->
  check_rel cfg P mode fuel [] [] [] a b <> None.
Proof. exact check_rel_terminates_gen. Qed.
Print Assumptions C18_check_rel_terminates_gen.

(* the general form: from ANY reachable state (assumption set A, both stacks holding ids of unions /
   callables), with U in-range pairs not yet assumed, at a pair of weight <= m *)
Theorem C18_check_rel_fuel_enough : forall (cfg : rel_cfg) (P : registry) (mode : union_mode),
  cfg_callable_assume cfg = true -> topo P ->
  forall (U m f : nat) (A : assumptions) (ss ps : list nat) (s p : nat),
  (unassumed (ntypes P) A <= U)%nat -> stack_ok P ss -> stack_ok P ps ->
  (s < ntypes P)%nat -> (p < ntypes P)%nat -> (w P s p <= m)%nat -> (rel_need (ntypes P) U m <= f)%nat ->
  exists r A', check_rel cfg P mode f A ss ps s p = Some (r, A') /\ ext A' A.
Proof. exact check_rel_fuel_enough. Qed.
Print Assumptions C18_check_rel_fuel_enough.

Theorem C18_is_compatible_terminates : forall (P : registry) (fuel a b : nat),
  topob P = true -> (rel_bound (ntypes P) <= fuel)%nat ->
  exists r, is_compatible_with current_cfg fuel P a b = Some r.
Proof. exact is_compatible_terminates. Qed.
Print Assumptions C18_is_compatible_terminates.

Theorem C18_types_overlap_terminates : forall (P : registry) (fuel a b : nat),
  topob P = true -> (rel_bound (ntypes P) <= fuel)%nat ->
  exists r, types_overlap_with current_cfg fuel P a b = Some r.
Proof. exact types_overlap_terminates. Qed.
Print Assumptions C18_types_overlap_terminates.

(* non-vacuity: the minimised F55 shape (recursive function types) and a recursive list type meet the
   hypothesis and are answered far inside the bound *)
Example C18_check_rel_nonvacuous :
  topob reg_F55 = true /\ rel_bound (ntypes reg_F55) = 649%nat /\
  is_compatible_with current_cfg 649 reg_F55 4 3 = Some true /\
  is_compatible_with current_cfg 11 reg_F55 4 3 = Some true /\
  is_compatible_with current_cfg 10 reg_F55 4 3 = None /\
  topob reg_list = true /\ is_compatible_with current_cfg 2404 reg_list 4 7 = Some false /\
  types_overlap_with current_cfg 2404 reg_list 4 7 = Some true.
Proof.
  exact (conj reg_F55_topo
        (conj (proj1 F55_current_terminates)
        (conj (proj1 (proj2 F55_current_terminates))
        (conj (proj1 (proj2 (proj2 F55_current_terminates)))
        (conj (proj2 (proj2 (proj2 F55_current_terminates)))
        (conj (proj1 reg_list_checks)
        (conj (proj1 (proj2 (proj2 reg_list_checks)))
              (proj1 (proj2 (proj2 (proj2 reg_list_checks))))))))))).
Qed.

(* the hypothesis on the Callable arm is necessary: the variant before fix e7dcc7d (finding F55)
   exceeds the bound — and ten times the bound — on a topologically ordered 5-type registry *)
Theorem C18_check_rel_bound_fails_without_callable_assumption :
  topob reg_F55 = true /\
  check_rel partial_cfg reg_F55 All (rel_bound (ntypes reg_F55)) [] [] [] 4 3 = None /\
  check_rel partial_cfg reg_F55 All (10 * rel_bound (ntypes reg_F55)) [] [] [] 4 3 = None.
Proof. exact (conj reg_F55_topo F55_partial_cfg_exceeds_bound). Qed.
Print Assumptions C18_check_rel_bound_fails_without_callable_assumption.

(* ... and in fact no fuel at all is enough: F55 (stack overflow of check_type_relation on recursive
   function types) as a theorem about the pre-fix variant of the model *)
Theorem C18_check_rel_diverges_without_callable_assumption : forall fuel : nat,
  check_rel partial_cfg reg_F55 All fuel [] [] [] 4 3 = None.
Proof. exact F55_partial_cfg_diverges. Qed.
Print Assumptions C18_check_rel_diverges_without_callable_assumption.

(* the hypothesis on the registry is necessary: two tuple types that refer to each other by id *)
Theorem C18_check_rel_bound_fails_on_id_cycle :
  topob reg_idcycle = false /\
  check_rel current_cfg reg_idcycle All (100 * rel_bound (ntypes reg_idcycle)) [] [] [] 0 1 = None.
Proof. exact idcycle_not_topo_and_exceeds. Qed.
Print Assumptions C18_check_rel_bound_fails_on_id_cycle.

(* ---- 2. narrowing helpers ------------------------------------------------------------------- *)
Theorem C18_contains_cycle_terminates : forall (cfg : rel_cfg) (P : registry) (fuel : nat) (seen : list nat) (t : nat),
  topob P = true -> (cc_bound (ntypes P) <= fuel)%nat ->
  exists r, contains_cycle cfg fuel P seen t = Some r.
Proof. exact contains_cycle_terminates. Qed.
Print Assumptions C18_contains_cycle_terminates.

Theorem C18_union_type_ids_total : forall (P : registry) (ids : list nat),
  exists P' id, union_type_ids P ids = (P', id).
Proof. exact union_type_ids_total. Qed.
Print Assumptions C18_union_type_ids_total.

(* narrow_terminates, the statement that is NOT proved (kept in full):
     forall P fuel rel_fuel a b, topob P = true -> tuple ids in range ->
       narrow_bound (ntypes P) <= fuel -> (rel_fuel suffices for every registry met on the way) ->
       intersect_types current_cfg rel_fuel fuel P a b <> None /\
       compute_complement current_cfg rel_fuel fuel P a b <> None *)

(* ---- 3. string post-processing, block normalisation, layout ------------------------------------ *)
(* parse_string_content with its position bookkeeping: a result or a located error, the location
   inside the segment; the erased result is C17's `unescape` *)
Theorem C18_unescape_total : forall s : list Z,
  (exists r, parse_string_content_loc s = PscOk r /\ unescape s = Some r) \/
  (exists off len esc, parse_string_content_loc s = PscErr off len esc /\ unescape s = None /\
                       (off < byte_len s)%nat /\ (off + len <= byte_len s)%nat).
Proof. exact unescape_total_located. Qed.
Print Assumptions C18_unescape_total.

(* with the segment starting at byte `base` of the source (span.location_offset()): the reported
   span [off, off+len) lies in [base, base + len(segment)) and starts after a whole prefix of
   characters (at the backslash) *)
Theorem C18_escape_error_offset_in_range : forall (s : list Z) (base off len : nat) (esc : list Z),
  psc s base = PscErr off len esc ->
  (base <= off)%nat /\ (off < base + byte_len s)%nat /\ (off + len <= base + byte_len s)%nat /\
  exists pre, firstn (length pre) s = pre /\ off = (base + byte_len pre)%nat.
Proof. exact escape_error_offset_in_range. Qed.
Print Assumptions C18_escape_error_offset_in_range.

(* latent (the only caller drops the error value): `length: 2` counts a multi-byte escaped character
   as one byte, so the END of the span can fall inside a character *)
Theorem C18_escape_error_span_end_not_boundary :
  exists s off len esc, parse_string_content_loc s = PscErr off len esc /\
    (off + len < byte_len s)%nat /\
    forall pre, firstn (length pre) s = pre -> byte_len pre <> (off + len)%nat.
Proof. exact escape_error_span_end_not_boundary. Qed.
Print Assumptions C18_escape_error_span_end_not_boundary.

(* normalize_blocks (simplify.rs, run by the compiler at compiler.rs:548) is structurally recursive on
   the AST: in the model that IS the termination argument (Coq's guard checker accepted it without
   fuel); the statement below records only that, it carries no further content *)
Theorem C18_normalize_blocks_total : forall (p : program) (o : options),
  exists q, normalize_blocks p o = q.
Proof. exact (fun p o => ex_intro _ (normalize_blocks p o) eq_refl). Qed.
Print Assumptions C18_normalize_blocks_total.

(* pretty.rs print: total with the explicit fuel `enough_fuel d`.  Proved by C17 (PrettyProofs.print_total,
   props/C17.v C17_print_total); re-exported here, not re-proved. *)
Theorem C18_print_total : forall (d : doc) (width : nat), exists out, Pretty.print d width = Some out.
Proof. exact print_total. Qed.
Print Assumptions C18_print_total.
