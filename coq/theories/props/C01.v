(* C01 — type soundness (PARTIAL).  ONLY property theorems, each closed by `exact <lemma>`. *)
From Quiver Require Import Base Builtins BuiltinWf.
From Quiver Require Import typed.Typed typed.BuiltinTyped.

Theorem C01_builtin_result_typed : Forall result_typed builtin_sigs.
Proof. exact builtin_result_typed_all. Qed.
Print Assumptions C01_builtin_result_typed.

Theorem C01_builtin_only_domain_errors : Forall (only_domain_errors wf_bval) builtin_sigs.
Proof. exact builtin_only_domain_errors_all. Qed.
Print Assumptions C01_builtin_only_domain_errors.
