(* C01 — Type soundness: accepted programs never get stuck on a type error (PARTIAL).
   ONLY property theorems, each closed by `exact <lemma>` and followed by Print Assumptions.
   Definitions: typed/Typed.v (wt_value, vinhab/result_inhabits, obligations O1-O4, the monitor,
   the judgement `judge`/`inhabv` extracted for ./check C01, the mirrored builtin TypeSpec table).
   Meaning of types: Sem.v (`inhab`, C09).  VM: vm/Vm.v (C07).  Builtin models: Builtins.v (C12).

   What is PROVED:
     builtin_result_typed / builtin_only_domain_errors   every modelled pure builtin (43 rows, the
        REGISTERED TypeSpecs of builtins/mod.rs, compared with the real registry on every run):
        on EVERY argument a value outcome inhabits the registered result spec; on a well-typed
        argument with well-formed binaries it never panics and its only error is InvalidArgument
     get_typed                a well-typed tuple's field inhabits its declared field type
     data_moves_origin / data_moves_preserve_wt   instructions other than Tuple/Function only
        move, copy or drop values (any predicate inherited by components is preserved)
     istype_refines           an accepted run-time type test gives membership — RELATIVE to C08's
        statement that the run-time table is the relation is_compatible, on the fragment where
        C09 proves is_compatible sound (cf_domain)
     inhabv_sound_fo          the decision procedure ./check C01 applies to (real result value,
        real inferred type) implies Sem.inhab for every value holding no function/process
     monitor_sound            obligations O1-O4 at every step of a run => the run does not end in a
        VM-level type failure, and a finished run's result inhabits the entry's result type

     core_soundness / core_progress / core_type_safety   for the CORE FRAGMENT of typed/Core.v (an
        AST-level typing judgement `infer` and evaluator `eval`: literals, named / labelled tuples,
        field access by position and by label, the two builtins integer_add / binary_length, bare and type-ascribed
        binders with nil-narrowing, blocks on a variable with forward and complement narrowing
        as compile_block implements them after F13 F53 F54 F59 F66 F74 F80 F86 - dead branches
        contribute nothing, a never complement is not applied -, calls of monomorphic
        non-dispatching functions): an accepted expression never gets stuck, terminates, and its
        value is in [[T]].  subty_sound / disj_sound / split_sound: the type relations and the
        narrowing split the judgement uses are sound for [[.]].  The judgement is tied to the
        compiler on every run: on generated core programs the extracted `infer` must EQUAL the
        real compiler's inferred type and the extracted `eval` the real VM's value.

   What is NOT proved — the full statement, kept here:

     type_soundness : forall (src : source) (P : compiled program) (arg : value),
        compile src = Ok P ->                                  (* the REAL compiler accepts *)
        forall xs, match run_res P.vm (init_state P.entry [] arg false) xs with
                   | Some (Fault f) => type_fault f = false /\ structural f = false
                   | Some (Finished v _) => result_inhabits P.typed v P.result_type
                   | _ => True                                 (* not finished: non-termination *)
                   end

     Missing: a model of the compiler's typing judgement beyond the core fragment (compiler.rs, compiler/{typing,pattern,
     narrowing,spread}.rs — ~10 kLoC of flow-sensitive, provenance-keyed narrowing), i.e. the
     proof that every program it emits satisfies `run_ok` (O1-O4 at every step).  That part is
     DECIDED PER PROGRAM by ./check C01 on the real compiler and VM (vplib/props/c01.py); on the
     tree as it is the statement is FALSE — open findings F27 F67 F68 F80 F81 F83 F84 (repaired since
     they were found: F1 F2 F13c01 F53 F54 F58 F59 F66 F74), each with a reproducer in
     known_findings.json. *)
From Quiver Require Import Base Types Sem Rel RelProofs Builtins BuiltinWf.
From Quiver Require vm.Vm.
From Quiver Require Import typed.Typed typed.BuiltinTyped typed.TypedProofs typed.Core typed.CoreProofs.
From Coq Require Import Arith.
Close Scope Z_scope.
Open Scope nat_scope.

Theorem C01_builtin_result_typed : Forall result_typed builtin_sigs.
Proof. exact builtin_result_typed_all. Qed.
Print Assumptions C01_builtin_result_typed.

Theorem C01_builtin_only_domain_errors : Forall (only_domain_errors wf_bval) builtin_sigs.
Proof. exact builtin_only_domain_errors_all. Qed.
Print Assumptions C01_builtin_only_domain_errors.

(* non-vacuity: the table has the 43 modelled builtins; a well-typed argument on which the
   documented domain error IS reported *)
Example C01_builtin_nonvacuous :
  List.length builtin_sigs = 43 /\
  (let a := BTup [BInt 1; BInt 0] in
   wf_bval a /\ bspec_inhab s_int_int a /\ impl_integer_divide a = Err InvalidArgument).
Proof. exact (conj builtin_sigs_length domain_error_witness). Qed.

Theorem C01_get_typed : forall (P : tprog) t fs i v,
  wt_value P (Bytecode.VTuple t fs) -> nth_error fs i = Some v ->
  wt_value P v /\
  exists info f, lookup_tuple (tp_reg P) t = Some info /\ nth_error (tfields info) i = Some f /\
                 vinhab P v (snd f).
Proof. exact get_typed. Qed.
Print Assumptions C01_get_typed.

Theorem C01_data_moves_origin : forall (Pvm : Bytecode.program) s x s',
  not_constructor Pvm s -> Vm.step Pvm s x = Vm.Next s' ->
  forall v, held s' v -> origin s x v.
Proof. exact data_moves_origin. Qed.
Print Assumptions C01_data_moves_origin.

Theorem C01_data_moves_preserve_wt : forall (Pvm : Bytecode.program) (Qv : Bytecode.value -> Prop),
  (forall v, atom v -> Qv v) ->
  (forall t fs, Qv (Bytecode.VTuple t fs) -> Forall Qv fs) ->
  (forall f caps, Qv (Bytecode.VFun f caps) -> Forall Qv caps) ->
  forall s x s',
    not_constructor Pvm s -> Vm.step Pvm s x = Vm.Next s' ->
    (forall v, held s v -> Qv v) -> (forall v, Vm.x_value x = Some v -> Qv v) ->
    forall v, held s' v -> Qv v.
Proof. exact data_moves_preserve. Qed.
Print Assumptions C01_data_moves_preserve_wt.

(* wt_value is such a predicate: inherited by tuple fields and captures *)
Theorem C01_wt_hereditary : forall (P : tprog),
  (forall t fs, wt_value P (Bytecode.VTuple t fs) -> Forall (wt_value P) fs) /\
  (forall f caps, wt_value P (Bytecode.VFun f caps) -> Forall (wt_value P) caps).
Proof.
  exact (fun P => conj (fun t fs H => proj2 (proj1 (wt_tuple P t fs) H))
                       (fun f caps H => proj2 (proj2 (proj1 (wt_fun P f caps) H)))).
Qed.
Print Assumptions C01_wt_hereditary.

Theorem C01_istype_refines : forall (R : registry) (cfg : rel_cfg) (table : nat -> nat -> bool),
  (forall t tag, table t tag = true -> exists fuel, is_compatible_with cfg fuel R tag t = Some true) ->
  cfg_retract cfg = true ->
  forall t tag n e,
    cf_domain cfg R tag = true -> cf_domain cfg R t = true ->
    table t tag = true -> inhab R n [] e tag -> inhab R n [] e t.
Proof. exact istype_refines. Qed.
Print Assumptions C01_istype_refines.

Theorem C01_inhabv_sound_fo : forall (Q : registry) (k cap nf n : nat) E v t,
  first_orderb v = true -> inhabv k cap nf Q n E v t = true -> inhab Q n E v t.
Proof. exact inhabv_sound_fo. Qed.
Print Assumptions C01_inhabv_sound_fo.

Theorem C01_monitor_sound : forall (Pvm : Bytecode.program) (P : tprog) (r0 entry : nat) arg xs,
  run_ok Pvm P (Vm.init_state entry [] arg false) [r0] xs ->
  match run_res Pvm (Vm.init_state entry [] arg false) xs with
  | Some (Vm.Fault f) => type_fault f = false
  | Some (Vm.Finished v _) => result_inhabits P v r0
  | _ => True
  end.
Proof. exact monitor_sound. Qed.
Print Assumptions C01_monitor_sound.

(* ---- non-vacuity: a concrete typed program, a well-typed value, an accepted judgement, and a
   finished monitored run.  Types: 0 = int, 1 = [int, int] (tuple 2), 2 = nil, 3 = #nil -> int;
   function 0 = `Constant 0` (returns the integer 7). *)
Definition ex_reg : registry :=
  mk_reg [mk_tuple None []; mk_tuple (Some 1) []; mk_tuple None [(None, 0); (None, 0)]]
         [TInteger; TTuple 2; TTuple 0; TCallable 2 0 2].
Definition ex_prog : tprog := mk_tprog ex_reg [3] [3] [0] [] [].
Definition ex_vm : Bytecode.program :=
  {| Bytecode.p_consts := [Bytecode.CInt 7%Z];
     Bytecode.p_funcs := [{| Bytecode.f_code := [Bytecode.IPop; Bytecode.IConstant 0]; Bytecode.f_caps := 0 |}];
     Bytecode.p_tuples := [0; 0; 2]; Bytecode.p_nbuiltins := 0; Bytecode.p_ntypes := 4 |}.
Definition ex_pair : Bytecode.value := Bytecode.VTuple 2 [Bytecode.VInt 1%Z; Bytecode.VInt 2%Z].

Example C01_judge_nonvacuous :
  judge ex_prog 16 4 2 ex_pair 1 = Accept /\ wt_valueb ex_prog 16 4 2 ex_pair = true /\
  judge ex_prog 16 4 2 ex_pair 0 = Reject /\
  judge ex_prog 16 4 2 (Bytecode.VFun 0 []) 3 = Accept.
Proof. vm_compute. repeat split; reflexivity. Qed.

Example C01_run_nonvacuous :
  let x := {| Vm.x_value := None; Vm.x_bool := false |} in
  run_res ex_vm (Vm.init_state 0 [] Bytecode.vnil false) [x; x; x; x] =
    Some (Vm.Finished (Bytecode.VInt 7%Z)
            {| Vm.stack := []; Vm.locals := []; Vm.frames := []; Vm.persistent := false |}) /\
  fn_sig ex_prog 0 = Some (2, 0, 2).
Proof. vm_compute. split; reflexivity. Qed.

(* ================================================================== the core fragment *)
Theorem C01_subty_sound : forall s t v, subty s t = true -> memb v s = true -> memb v t = true.
Proof. exact subty_sound. Qed.
Print Assumptions C01_subty_sound.

Theorem C01_disj_sound : forall s t v, disj s t = true -> memb v s = true -> memb v t = false.
Proof. exact disj_sound. Qed.
Print Assumptions C01_disj_sound.

(* forward narrowing and complement narrowing partition the scrutinee's values as the run-time
   match does *)
Theorem C01_split_sound : forall p us m r v rho,
  split_variants p us = Some (m, r) ->
  (exists u, In u us /\ memb v u = true) ->
  match pmatch p v rho with
  | Some _ => exists u, In u m /\ memb v u = true
  | None => exists u, In u r /\ memb v u = true
  end.
Proof. exact split_sound. Qed.
Print Assumptions C01_split_sound.

Theorem C01_core_soundness : forall (fns : list fdef) n k G e T rho v,
  infer fns k G e = Some T -> env_ok rho G -> eval fns n rho e = Some v -> memb v T = true.
Proof. exact core_soundness. Qed.
Print Assumptions C01_core_soundness.

Theorem C01_core_progress : forall (fns : list fdef) k G e T rho,
  infer fns k G e = Some T -> env_ok rho G -> exists v, eval fns k rho e = Some v.
Proof. exact core_progress. Qed.
Print Assumptions C01_core_progress.

Theorem C01_core_type_safety : forall (fns : list fdef) k e T,
  infer fns k [] e = Some T -> exists v, eval fns k [] e = Some v /\ memb v T = true.
Proof. exact core_type_safety. Qed.
Print Assumptions C01_core_type_safety.

Theorem C01_core_program_safety : forall (fns : list fdef) k e T,
  infer_prog fns k e = Some T -> exists v, eval fns k [] e = Some v /\ memb v T = true.
Proof. exact core_program_safety. Qed.
Print Assumptions C01_core_program_safety.

(* non-vacuity: `f0 = #(A['int] | B) { v1 = $, v1 { | =A[v2] => [v2, 1] __integer_add__ | 7 } }`,
   `[A[4] f0, B f0, 0xababab __binary_length__]` is accepted at ['int, 'int, 'int] and evaluates
   to [5, 7, 3]; with the default reading the narrowed variable's field it is rejected *)
Definition shA : shape := (Some 0, [None]).
Definition shB : shape := (Some 1, []).
Definition ex_core_fns : list fdef :=
  [ (TyUnion [TyTup shA [TyInt]; TyTup shB []],
     ELet 1 (EVar 0) (ECase 1 [(PTup shA [Some 2], EAdd (EVar 2) (EInt 1%Z))] (EInt 7%Z))) ].
Definition ex_core_main : exp :=
  ETup (None, [None; None; Some 5])
       [ECall 0 (ETup shA [EInt 4%Z]); ECall 0 (ETup shB []); ELen (EBinLit 3)].

Example C01_core_nonvacuous :
  infer_prog ex_core_fns 20 ex_core_main = Some (TyTup (None, [None; None; Some 5]) [TyInt; TyInt; TyInt]) /\
  eval ex_core_fns 20 [] (EGetL ex_core_main 5) = Some (CInt 3%Z) /\
  infer [(TyUnion [TyTup shA [TyInt]; TyTup shB []],
          ELet 1 (EVar 0) (ECase 1 [(PTup shA [Some 2], EVar 2)] (EGet (EVar 1) 0)))]
        20 [] (ECall 0 (ETup shB [])) = None.
Proof. vm_compute. repeat split; reflexivity. Qed.
