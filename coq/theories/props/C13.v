(* C13 — Equality is structural, construction-independent, and refs are unique.
   This file contains ONLY the property theorems, each closed by `exact <lemma>` and followed by
   Print Assumptions. Model: Equal.v (values_equal, canonical_tuple, handle_equal / pin_matches,
   compute_canonical, create_ref / run_mints, mirroring executor.rs and compatibility.rs at
   /repo HEAD); proofs and the non-vacuity Examples (ex_structural, ex_update, ex_pin, ex_refs,
   ex_canonical): EqualProofs.v.

   Reading of "functions compare by identity of definition": the code compares the function-table
   index (Program::register_function dedups structurally identical definitions) and the captured
   values; `erase` keeps the index. A process is its pid, a resource its resource id (the second
   component of either handle only types it). *)
From Quiver Require Import Base Equal EqualProofs.

(* compute_canonical_tuples: two tuple ids get the same canonical id exactly when they have the
   same name and field labels *)
Theorem C13_canonical_iff_same_shape : forall ts t1 t2 i1 i2,
  nth_error ts t1 = Some i1 -> nth_error ts t2 = Some i2 ->
  (nth_error (compute_canonical ts) t1 = nth_error (compute_canonical ts) t2 <->
   (t_name i1, t_labels i1) = (t_name i2, t_labels i2)).
Proof. exact canonical_iff_same_shape. Qed.
Print Assumptions C13_canonical_iff_same_shape.

(* ... and that id is the lowest tuple id with that name and those labels *)
Theorem C13_canonical_is_lowest : forall ts t info,
  nth_error ts t = Some info ->
  exists c, nth_error (compute_canonical ts) t = Some c /\ (c <= t)%nat /\
            (exists ic, nth_error ts c = Some ic /\ shape_of ic = shape_of info) /\
            (forall j ij, (j < c)%nat -> nth_error ts j = Some ij -> shape_of ij <> shape_of info).
Proof. exact canonical_is_lowest. Qed.
Print Assumptions C13_canonical_is_lowest.

(* values_equal is true exactly when the two values are structurally the same value *)
Theorem C13_values_equal_structural : forall P,
  wf_tables P ->
  forall v w, wf_value P v -> wf_value P w ->
  (values_equal P v w = true <-> erase P v = erase P w).
Proof. exact values_equal_structural. Qed.
Print Assumptions C13_values_equal_structural.

Theorem C13_values_equal_decides_erased_equality : forall P v w,
  wf_tables P -> wf_value P v -> wf_value P w ->
  values_equal P v w = evalue_eqb (erase P v) (erase P w).
Proof. exact values_equal_is_erase_eqb. Qed.
Print Assumptions C13_values_equal_decides_erased_equality.

Theorem C13_equal_refl : forall P v, wf_tables P -> wf_value P v -> values_equal P v v = true.
Proof. exact equal_refl. Qed.
Print Assumptions C13_equal_refl.

Theorem C13_equal_sym : forall P v w,
  wf_tables P -> wf_value P v -> wf_value P w ->
  values_equal P v w = values_equal P w v.
Proof. exact equal_sym. Qed.
Print Assumptions C13_equal_sym.

Theorem C13_equal_trans : forall P u v w,
  wf_tables P -> wf_value P u -> wf_value P v -> wf_value P w ->
  values_equal P u v = true -> values_equal P v w = true -> values_equal P u w = true.
Proof. exact equal_trans. Qed.
Print Assumptions C13_equal_trans.

(* construction independence, binaries: only the bytes count (constant / heap slot / rope) *)
Theorem C13_equal_construction_independent_binary : forall P a b,
  values_equal P (VBin a) (VBin b) = true <->
  exists bs, bin_bytes P a = Some bs /\ bin_bytes P b = Some bs.
Proof. exact equal_binary_representation_independent. Qed.
Print Assumptions C13_equal_construction_independent_binary.

Theorem C13_equal_constant_vs_heap : forall P k i bs,
  nth_error (constants P) k = Some (CBin bs) -> nth_error (heap P) i = Some bs ->
  values_equal P (VBin (BConst k)) (VBin (BHeap i)) = true /\
  values_equal P (VBin (BHeap i)) (VBin (BConst k)) = true.
Proof. exact equal_constant_vs_heap. Qed.
Print Assumptions C13_equal_constant_vs_heap.

(* construction independence, tuples: ids that differ but share name + labels *)
Theorem C13_equal_construction_independent_tuple : forall P t1 t2 i1 i2 fs1 fs2,
  wf_tables P ->
  nth_error (tuples P) t1 = Some i1 -> nth_error (tuples P) t2 = Some i2 ->
  (t_name i1, t_labels i1) = (t_name i2, t_labels i2) ->
  Forall2 (fun x y => values_equal P x y = true) fs1 fs2 ->
  values_equal P (VTuple t1 fs1) (VTuple t2 fs2) = true.
Proof. exact equal_tuple_id_independent. Qed.
Print Assumptions C13_equal_construction_independent_tuple.

(* update_program appends constants / tuples (the heap grows) and installs the canonical table
   recomputed over the whole tuple list: verdicts on existing values do not change *)
Theorem C13_equal_stable_under_update : forall P cs hs ts v w,
  wf_tables P -> wf_value P v -> wf_value P w ->
  values_equal (update_tables P cs hs ts) v w = values_equal P v w.
Proof. exact equal_stable_under_update. Qed.
Print Assumptions C13_equal_stable_under_update.

Theorem C13_canonical_stable_under_update : forall P cs hs ts t,
  wf_tables P -> (t < length (tuples P))%nat ->
  canonical_tuple (update_tables P cs hs ts) t = canonical_tuple P t.
Proof. exact canonical_stable_under_update. Qed.
Print Assumptions C13_canonical_stable_under_update.

(* pins, literals and repeated binders all compile to `Equal(2); Not; JumpIf fail`: the
   requirement is met exactly when values_equal holds (also when both values are nil) *)
Theorem C13_pin_matches_spec : forall P a b,
  wf_tables P -> wf_value P a ->
  pin_matches P a b = Val (values_equal P a b).
Proof. exact pin_matches_spec. Qed.
Print Assumptions C13_pin_matches_spec.

Theorem C13_handle_equal_verdict : forall P first rest below,
  handle_equal P (S (length rest)) (rev (first :: rest) ++ below) =
  Val ((if forallb (values_equal P first) (first :: rest) then ok_value else nil_value) :: below).
Proof. exact handle_equal_verdict. Qed.
Print Assumptions C13_handle_equal_verdict.

(* create_ref is injective over (worker_id, counter) within the 16/48-bit fields *)
Theorem C13_refs_unique : forall w1 n1 w2 n2,
  0 <= w1 < 2 ^ 16 -> 0 <= w2 < 2 ^ 16 -> 0 <= n1 < 2 ^ 48 -> 0 <= n2 < 2 ^ 48 ->
  ref_value w1 n1 = ref_value w2 n2 -> w1 = w2 /\ n1 = n2.
Proof. exact create_ref_injective. Qed.
Print Assumptions C13_refs_unique.

(* a system of executors with distinct worker ids never mints the same ref twice, under any
   schedule, as long as no counter passes 2^48 (a bound the code does not enforce) *)
Theorem C13_refs_unique_system : forall m sys sched,
  NoDup (map worker_id sys) ->
  Forall (fun e => 0 <= worker_id e < 2 ^ 16 /\ 0 <= next_ref e /\
                   next_ref e + Z.of_nat (length sched) <= 2 ^ 48) sys ->
  exists refs, run_mints m sys sched = Val refs /\ NoDup refs.
Proof. exact refs_unique_system. Qed.
Print Assumptions C13_refs_unique_system.

(* the 2^48 hypothesis is necessary: past it, worker 0's counter runs into worker 1's refs *)
Theorem C13_refs_bound_is_tight : ref_value 0 (2 ^ 48) = ref_value 1 0.
Proof. exact create_ref_collides_beyond_bound. Qed.
Print Assumptions C13_refs_bound_is_tight.
