(* C13 — placeholder while the proofs are being written. *)
From Quiver Require Import Base Equal EqualProofs.

Theorem C13_stub : compute_canonical [] = [].
Proof. exact compute_canonical_nil. Qed.
Print Assumptions C13_stub.
