(* C12 — Builtins are total and agree with simple reference models.
   This file contains ONLY the property theorems, each closed by `exact <lemma>` and followed by
   Print Assumptions. The models are in Builtins.v / Rope.v, the specs in BuiltinSpec.v. *)
From Quiver Require Import BuiltinSpec BuiltinProofs.

Theorem C12_integer_add : forall a b, impl_integer_add (BTup [BInt a; BInt b]) = Val (BInt (a + b)).
Proof. exact integer_add_correct. Qed.
Print Assumptions C12_integer_add.

Theorem C12_integer_subtract : forall a b, impl_integer_subtract (BTup [BInt a; BInt b]) = Val (BInt (a - b)).
Proof. exact integer_subtract_correct. Qed.
Print Assumptions C12_integer_subtract.

Theorem C12_integer_multiply : forall a b, impl_integer_multiply (BTup [BInt a; BInt b]) = Val (BInt (a * b)).
Proof. exact integer_multiply_correct. Qed.
Print Assumptions C12_integer_multiply.

Theorem C12_integer_divide_modulo : forall a b,
  (b = 0 -> impl_integer_divide (BTup [BInt a; BInt b]) = Err InvalidArgument) /\
  (b <> 0 -> exists q r, impl_integer_divide (BTup [BInt a; BInt b]) = Val (BInt q) /\
                         impl_integer_modulo (BTup [BInt a; BInt b]) = Val (BInt r) /\
                         a = b * q + r /\ Z.abs r < Z.abs b /\ 0 <= r * a).
Proof. exact integer_divide_correct. Qed.
Print Assumptions C12_integer_divide_modulo.

Theorem C12_integer_sqrt : forall n,
  (n < 0 -> impl_integer_sqrt (BInt n) = Err InvalidArgument) /\
  (0 <= n -> exists r, impl_integer_sqrt (BInt n) = Val (BInt r) /\ 0 <= r /\ r * r <= n < (r + 1) * (r + 1)).
Proof. exact integer_sqrt_correct. Qed.
Print Assumptions C12_integer_sqrt.

Theorem C12_integer_gcd : forall a b,
  exists g, impl_integer_gcd (BTup [BInt a; BInt b]) = Val (BInt g) /\ 0 <= g /\ (g | a) /\ (g | b) /\
            forall d, (d | a) -> (d | b) -> (d | g).
Proof. exact integer_gcd_correct. Qed.
Print Assumptions C12_integer_gcd.

Theorem C12_integer_compare : forall a b,
  impl_integer_compare (BTup [BInt a; BInt b]) = Val (BInt (if a <? b then -1 else if b <? a then 1 else 0)).
Proof. exact integer_compare_correct. Qed.
Print Assumptions C12_integer_compare.

Theorem C12_integer_abs : forall n, impl_integer_abs (BInt n) = Val (BInt (if n <? 0 then - n else n)).
Proof. exact integer_abs_correct. Qed.
Print Assumptions C12_integer_abs.

Theorem C12_integer_and : forall a b,
  impl_integer_and (BTup [BInt a; BInt b]) =
  if in_i64 a && in_i64 b then Val (BInt (spec_bitop Z.land a b)) else Err InvalidArgument.
Proof. exact integer_and_correct. Qed.
Print Assumptions C12_integer_and.

Theorem C12_integer_or : forall a b,
  impl_integer_or (BTup [BInt a; BInt b]) =
  if in_i64 a && in_i64 b then Val (BInt (spec_bitop Z.lor a b)) else Err InvalidArgument.
Proof. exact integer_or_correct. Qed.
Print Assumptions C12_integer_or.

Theorem C12_integer_xor : forall a b,
  impl_integer_xor (BTup [BInt a; BInt b]) =
  if in_i64 a && in_i64 b then Val (BInt (spec_bitop Z.lxor a b)) else Err InvalidArgument.
Proof. exact integer_xor_correct. Qed.
Print Assumptions C12_integer_xor.

Theorem C12_integer_builtins_never_panic : forall a : bval,
  not_panic (impl_integer_abs a) /\ not_panic (impl_integer_sqrt a) /\ not_panic (impl_integer_add a) /\
  not_panic (impl_integer_subtract a) /\ not_panic (impl_integer_multiply a) /\ not_panic (impl_integer_gcd a) /\
  not_panic (impl_integer_divide a) /\ not_panic (impl_integer_modulo a) /\ not_panic (impl_integer_compare a) /\
  not_panic (impl_integer_and a) /\ not_panic (impl_integer_or a) /\ not_panic (impl_integer_xor a) /\
  not_panic (impl_integer_not a) /\ not_panic (impl_integer_shift a) /\ not_panic (impl_integer_popcount a).
Proof. exact integer_builtins_never_panic. Qed.
Print Assumptions C12_integer_builtins_never_panic.
