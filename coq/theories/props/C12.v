(* C12 — Builtins are total and agree with simple reference models.
   This file contains ONLY the property theorems, each closed by `exact <lemma>` and followed by
   Print Assumptions. The models are in Builtins.v / Rope.v, the specs in BuiltinSpec.v. *)
From Quiver Require Import BuiltinSpec BuiltinProofs RopeProofs BuiltinWf IntBitProofs BinaryProofs VectorProofs BinaryShiftProofs BinaryBitsProofs BuiltinAll.

Theorem C12_integer_add : forall a b, impl_integer_add (BTup [BInt a; BInt b]) = Val (BInt (a + b)).
Proof. exact integer_add_correct. Qed.
Print Assumptions C12_integer_add.

Theorem C12_integer_subtract : forall a b, impl_integer_subtract (BTup [BInt a; BInt b]) = Val (BInt (a - b)).
Proof. exact integer_subtract_correct. Qed.
Print Assumptions C12_integer_subtract.

Theorem C12_integer_multiply : forall a b, impl_integer_multiply (BTup [BInt a; BInt b]) = Val (BInt (a * b)).
Proof. exact integer_multiply_correct. Qed.
Print Assumptions C12_integer_multiply.

Theorem C12_integer_divide_modulo : forall a b,
  (b = 0 -> impl_integer_divide (BTup [BInt a; BInt b]) = Err InvalidArgument) /\
  (b <> 0 -> exists q r, impl_integer_divide (BTup [BInt a; BInt b]) = Val (BInt q) /\
                         impl_integer_modulo (BTup [BInt a; BInt b]) = Val (BInt r) /\
                         a = b * q + r /\ Z.abs r < Z.abs b /\ 0 <= r * a).
Proof. exact integer_divide_correct. Qed.
Print Assumptions C12_integer_divide_modulo.

Theorem C12_integer_sqrt : forall n,
  (n < 0 -> impl_integer_sqrt (BInt n) = Err InvalidArgument) /\
  (0 <= n -> exists r, impl_integer_sqrt (BInt n) = Val (BInt r) /\ 0 <= r /\ r * r <= n < (r + 1) * (r + 1)).
Proof. exact integer_sqrt_correct. Qed.
Print Assumptions C12_integer_sqrt.

Theorem C12_integer_gcd : forall a b,
  exists g, impl_integer_gcd (BTup [BInt a; BInt b]) = Val (BInt g) /\ 0 <= g /\ (g | a) /\ (g | b) /\
            forall d, (d | a) -> (d | b) -> (d | g).
Proof. exact integer_gcd_correct. Qed.
Print Assumptions C12_integer_gcd.

Theorem C12_integer_compare : forall a b,
  impl_integer_compare (BTup [BInt a; BInt b]) = Val (BInt (if a <? b then -1 else if b <? a then 1 else 0)).
Proof. exact integer_compare_correct. Qed.
Print Assumptions C12_integer_compare.

Theorem C12_integer_abs : forall n, impl_integer_abs (BInt n) = Val (BInt (if n <? 0 then - n else n)).
Proof. exact integer_abs_correct. Qed.
Print Assumptions C12_integer_abs.

Theorem C12_integer_and : forall a b,
  impl_integer_and (BTup [BInt a; BInt b]) =
  if in_i64 a && in_i64 b then Val (BInt (spec_bitop Z.land a b)) else Err InvalidArgument.
Proof. exact integer_and_correct. Qed.
Print Assumptions C12_integer_and.

Theorem C12_integer_or : forall a b,
  impl_integer_or (BTup [BInt a; BInt b]) =
  if in_i64 a && in_i64 b then Val (BInt (spec_bitop Z.lor a b)) else Err InvalidArgument.
Proof. exact integer_or_correct. Qed.
Print Assumptions C12_integer_or.

Theorem C12_integer_xor : forall a b,
  impl_integer_xor (BTup [BInt a; BInt b]) =
  if in_i64 a && in_i64 b then Val (BInt (spec_bitop Z.lxor a b)) else Err InvalidArgument.
Proof. exact integer_xor_correct. Qed.
Print Assumptions C12_integer_xor.

Theorem C12_integer_builtins_never_panic : forall a : bval,
  not_panic (impl_integer_abs a) /\ not_panic (impl_integer_sqrt a) /\ not_panic (impl_integer_add a) /\
  not_panic (impl_integer_subtract a) /\ not_panic (impl_integer_multiply a) /\ not_panic (impl_integer_gcd a) /\
  not_panic (impl_integer_divide a) /\ not_panic (impl_integer_modulo a) /\ not_panic (impl_integer_compare a) /\
  not_panic (impl_integer_and a) /\ not_panic (impl_integer_or a) /\ not_panic (impl_integer_xor a) /\
  not_panic (impl_integer_not a) /\ not_panic (impl_integer_shift a) /\ not_panic (impl_integer_popcount a).
Proof. exact integer_builtins_never_panic. Qed.
Print Assumptions C12_integer_builtins_never_panic.

(* ------------------------------------------------------------------ integer bitwise family, all arguments *)
Theorem C12_integer_not : forall a : bval, flatten_out (impl_integer_not a) = spec_integer_not (flatten a).
Proof. exact integer_not_correct. Qed.
Print Assumptions C12_integer_not.

Theorem C12_integer_shift : forall a : bval, flatten_out (impl_integer_shift a) = spec_integer_shift (flatten a).
Proof. exact integer_shift_correct. Qed.
Print Assumptions C12_integer_shift.

Theorem C12_integer_popcount : forall a : bval, flatten_out (impl_integer_popcount a) = spec_integer_popcount (flatten a).
Proof. exact integer_popcount_correct. Qed.
Print Assumptions C12_integer_popcount.

(* ------------------------------------------------------------------ ropes: the representation invariant
   wf (RopeProofs.v) and the denotation theorems *)
Theorem C12_rope_len : forall r, wf r -> rlen r = Z.of_nat (length (bytes_of r)).
Proof. exact rlen_bytes_of. Qed.
Print Assumptions C12_rope_len.

Theorem C12_rope_bytes_are_bytes : forall r, wf r -> bytes_ok (bytes_of r).
Proof. exact bytes_of_ok. Qed.
Print Assumptions C12_rope_bytes_are_bytes.

Theorem C12_rope_byte_at : forall r i, wf r ->
  byte_at r i = if (0 <=? i) && (i <? rlen r) then nth_error (bytes_of r) (Z.to_nat i) else None.
Proof. exact byte_at_spec. Qed.
Print Assumptions C12_rope_byte_at.

Theorem C12_rope_iter : forall r, wf r -> rope_iter r = bytes_of r.
Proof. exact rope_iter_spec. Qed.
Print Assumptions C12_rope_iter.

(* list_find/find_from really is "the first index >= off" *)
Theorem C12_list_find_is_first : forall b l p, list_find b l = Some p <->
  (0 <= p /\ nth_error l (Z.to_nat p) = Some b /\ forall q, (q < Z.to_nat p)%nat -> nth_error l q <> Some b).
Proof. exact list_find_spec. Qed.
Print Assumptions C12_list_find_is_first.

Theorem C12_list_find_none : forall b l, list_find b l = None <-> ~ In b l.
Proof. exact list_find_none. Qed.
Print Assumptions C12_list_find_none.

Theorem C12_rope_find_byte : forall r b off, wf r -> 0 <= off ->
  find_byte r b off = find_from b (bytes_of r) off.
Proof. exact find_byte_spec. Qed.
Print Assumptions C12_rope_find_byte.

Theorem C12_rope_concat : forall l r, wf l -> wf r -> rlen l + rlen r <= MAX_BINARY_SIZE ->
  wf (mk_concat l r) /\ bytes_of (mk_concat l r) = bytes_of l ++ bytes_of r.
Proof. intros l r Hl Hr Hb. split; [exact (mk_concat_wf l r Hl Hr Hb) | exact (mk_concat_bytes l r)]. Qed.
Print Assumptions C12_rope_concat.

Theorem C12_rope_slice : forall p off len, wf p -> 0 <= off -> 0 <= len ->
  (off + len <= rlen p ->
     exists s, mk_slice p off len = Some s /\ wf s /\
               bytes_of s = firstn (Z.to_nat len) (skipn (Z.to_nat off) (bytes_of p))) /\
  (rlen p < off + len -> mk_slice p off len = None).
Proof.
  intros p off len Hp Ho Hl. split; [exact (mk_slice_some p off len Hp Ho Hl) | exact (mk_slice_none p off len Hp Ho Hl)].
Qed.
Print Assumptions C12_rope_slice.

Theorem C12_rope_tiled : forall u c, wf u -> 0 <= c -> rlen u * c <= MAX_BINARY_SIZE ->
  wf (mk_tiled u c) /\ bytes_of (mk_tiled u c) = concat (repeat (bytes_of u) (Z.to_nat c)).
Proof. intros u c Hu Hc Hb. split; [exact (mk_tiled_wf u c Hu Hc Hb) | exact (mk_tiled_bytes u c Hu Hc)]. Qed.
Print Assumptions C12_rope_tiled.

Theorem C12_rope_shape_independent : forall r1 r2, wf r1 -> wf r2 -> bytes_of r1 = bytes_of r2 ->
  rlen r1 = rlen r2 /\ (forall i, byte_at r1 i = byte_at r2 i) /\ rope_iter r1 = rope_iter r2 /\
  (forall b off, 0 <= off -> find_byte r1 b off = find_byte r2 b off) /\
  (forall off len, 0 <= off -> 0 <= len ->
     option_map bytes_of (mk_slice r1 off len) = option_map bytes_of (mk_slice r2 off len)) /\
  (forall c, 0 <= c -> bytes_of (mk_tiled r1 c) = bytes_of (mk_tiled r2 c)) /\
  (forall r3, bytes_of (mk_concat r1 r3) = bytes_of (mk_concat r2 r3) /\ bytes_of (mk_concat r3 r1) = bytes_of (mk_concat r3 r2)).
Proof. exact shape_independent. Qed.
Print Assumptions C12_rope_shape_independent.

(* ------------------------------------------------------------------ binary builtins.
   Statement shape (BuiltinWf.agrees, written out): on every argument a (well-typed or not) whose
   binaries are well-formed ropes, the implementation model returns what the reference spec returns
   on the flattened argument (equal value up to bytes_of, equal error class), is not a Panic, and
   returns well-formed ropes. *)

Theorem C12_binary_new : forall a, wf_bval a ->
  flatten_out (impl_binary_new a) = spec_binary_new (flatten a) /\ wf_out (impl_binary_new a).
Proof. exact binary_new_correct. Qed.
Print Assumptions C12_binary_new.

Theorem C12_binary_length : forall a, wf_bval a ->
  flatten_out (impl_binary_length a) = spec_binary_length (flatten a) /\ wf_out (impl_binary_length a).
Proof. exact binary_length_correct. Qed.
Print Assumptions C12_binary_length.

Theorem C12_binary_concat : forall a, wf_bval a ->
  flatten_out (impl_binary_concat a) = spec_binary_concat (flatten a) /\ wf_out (impl_binary_concat a).
Proof. exact binary_concat_correct. Qed.
Print Assumptions C12_binary_concat.

Theorem C12_binary_repeat : forall a, wf_bval a ->
  flatten_out (impl_binary_repeat a) = spec_binary_repeat (flatten a) /\ wf_out (impl_binary_repeat a).
Proof. exact binary_repeat_correct. Qed.
Print Assumptions C12_binary_repeat.

Theorem C12_binary_and : forall a, wf_bval a ->
  flatten_out (impl_binary_and a) = spec_binary_and (flatten a) /\ wf_out (impl_binary_and a).
Proof. exact binary_and_correct. Qed.
Print Assumptions C12_binary_and.

Theorem C12_binary_or : forall a, wf_bval a ->
  flatten_out (impl_binary_or a) = spec_binary_or (flatten a) /\ wf_out (impl_binary_or a).
Proof. exact binary_or_correct. Qed.
Print Assumptions C12_binary_or.

Theorem C12_binary_xor : forall a, wf_bval a ->
  flatten_out (impl_binary_xor a) = spec_binary_xor (flatten a) /\ wf_out (impl_binary_xor a).
Proof. exact binary_xor_correct. Qed.
Print Assumptions C12_binary_xor.

Theorem C12_binary_not : forall a, wf_bval a ->
  flatten_out (impl_binary_not a) = spec_binary_not (flatten a) /\ wf_out (impl_binary_not a).
Proof. exact binary_not_correct. Qed.
Print Assumptions C12_binary_not.

Theorem C12_binary_index : forall a, wf_bval a ->
  flatten_out (impl_binary_index a) = spec_binary_index (flatten a) /\ wf_out (impl_binary_index a).
Proof. exact binary_index_correct. Qed.
Print Assumptions C12_binary_index.

Theorem C12_binary_slice : forall a, wf_bval a ->
  flatten_out (impl_binary_slice a) = spec_binary_slice (flatten a) /\ wf_out (impl_binary_slice a).
Proof. exact binary_slice_correct. Qed.
Print Assumptions C12_binary_slice.

Theorem C12_binary_popcount : forall a, wf_bval a ->
  flatten_out (impl_binary_popcount a) = spec_binary_popcount (flatten a) /\ wf_out (impl_binary_popcount a).
Proof. exact binary_popcount_correct. Qed.
Print Assumptions C12_binary_popcount.

Theorem C12_binary_hash32 : forall a, wf_bval a ->
  flatten_out (impl_binary_hash32 a) = spec_binary_hash32 (flatten a) /\ wf_out (impl_binary_hash32 a).
Proof. exact binary_hash32_correct. Qed.
Print Assumptions C12_binary_hash32.

Theorem C12_binary_hash64 : forall a, wf_bval a ->
  flatten_out (impl_binary_hash64 a) = spec_binary_hash64 (flatten a) /\ wf_out (impl_binary_hash64 a).
Proof. exact binary_hash64_correct. Qed.
Print Assumptions C12_binary_hash64.

Theorem C12_binary_shift : forall a, wf_bval a ->
  flatten_out (impl_binary_shift a) = spec_binary_shift (flatten a) /\ wf_out (impl_binary_shift a).
Proof. exact binary_shift_correct. Qed.
Print Assumptions C12_binary_shift.

Theorem C12_binary_get : forall a, wf_bval a ->
  flatten_out (impl_binary_get a) = spec_binary_get (flatten a) /\ wf_out (impl_binary_get a).
Proof. exact binary_get_correct. Qed.
Print Assumptions C12_binary_get.

Theorem C12_binary_set : forall a, wf_bval a ->
  flatten_out (impl_binary_set a) = spec_binary_set (flatten a) /\ wf_out (impl_binary_set a).
Proof. exact binary_set_correct. Qed.
Print Assumptions C12_binary_set.

Theorem C12_binary_append : forall a, wf_bval a ->
  flatten_out (impl_binary_append a) = spec_binary_append (flatten a) /\ wf_out (impl_binary_append a).
Proof. exact binary_append_correct. Qed.
Print Assumptions C12_binary_append.

(* ------------------------------------------------------------------ packed-vector kernels (same statement shape) *)

Theorem C12_vector_add : forall a, wf_bval a ->
  flatten_out (impl_vector_add a) = spec_vector_add (flatten a) /\ wf_out (impl_vector_add a).
Proof. exact vector_add_correct. Qed.
Print Assumptions C12_vector_add.

Theorem C12_vector_subtract : forall a, wf_bval a ->
  flatten_out (impl_vector_subtract a) = spec_vector_subtract (flatten a) /\ wf_out (impl_vector_subtract a).
Proof. exact vector_subtract_correct. Qed.
Print Assumptions C12_vector_subtract.

Theorem C12_vector_multiply : forall a, wf_bval a ->
  flatten_out (impl_vector_multiply a) = spec_vector_multiply (flatten a) /\ wf_out (impl_vector_multiply a).
Proof. exact vector_multiply_correct. Qed.
Print Assumptions C12_vector_multiply.

Theorem C12_vector_less_than : forall a, wf_bval a ->
  flatten_out (impl_vector_less_than a) = spec_vector_less_than (flatten a) /\ wf_out (impl_vector_less_than a).
Proof. exact vector_less_than_correct. Qed.
Print Assumptions C12_vector_less_than.

Theorem C12_vector_equal : forall a, wf_bval a ->
  flatten_out (impl_vector_equal a) = spec_vector_equal (flatten a) /\ wf_out (impl_vector_equal a).
Proof. exact vector_equal_correct. Qed.
Print Assumptions C12_vector_equal.

Theorem C12_vector_greater_than : forall a, wf_bval a ->
  flatten_out (impl_vector_greater_than a) = spec_vector_greater_than (flatten a) /\ wf_out (impl_vector_greater_than a).
Proof. exact vector_greater_than_correct. Qed.
Print Assumptions C12_vector_greater_than.

Theorem C12_vector_dot : forall a, wf_bval a ->
  flatten_out (impl_vector_dot a) = spec_vector_dot (flatten a) /\ wf_out (impl_vector_dot a).
Proof. exact vector_dot_correct. Qed.
Print Assumptions C12_vector_dot.

Theorem C12_vector_take : forall a, wf_bval a ->
  flatten_out (impl_vector_take a) = spec_vector_take (flatten a) /\ wf_out (impl_vector_take a).
Proof. exact vector_take_correct. Qed.
Print Assumptions C12_vector_take.

Theorem C12_vector_get : forall a, wf_bval a ->
  flatten_out (impl_vector_get a) = spec_vector_get (flatten a) /\ wf_out (impl_vector_get a).
Proof. exact vector_get_correct. Qed.
Print Assumptions C12_vector_get.

Theorem C12_vector_push : forall a, wf_bval a ->
  flatten_out (impl_vector_push a) = spec_vector_push (flatten a) /\ wf_out (impl_vector_push a).
Proof. exact vector_push_correct. Qed.
Print Assumptions C12_vector_push.

Theorem C12_vector_sum : forall a, wf_bval a ->
  flatten_out (impl_vector_sum a) = spec_vector_sum (flatten a) /\ wf_out (impl_vector_sum a).
Proof. exact vector_sum_correct. Qed.
Print Assumptions C12_vector_sum.

(* ------------------------------------------------------------------ all binary_* / vector_* builtins at once.
   BuiltinAll.rope_builtins lists the 28 (implementation model, reference spec) pairs. *)
Theorem C12_rope_builtins_listed : map fst rope_builtins =
  [ impl_binary_new; impl_binary_length; impl_binary_concat; impl_binary_repeat; impl_binary_and;
    impl_binary_or; impl_binary_xor; impl_binary_not; impl_binary_shift; impl_binary_popcount;
    impl_binary_get; impl_binary_set; impl_binary_slice; impl_binary_index; impl_binary_hash32;
    impl_binary_hash64; impl_binary_append;
    impl_vector_add; impl_vector_subtract; impl_vector_multiply; impl_vector_less_than; impl_vector_equal;
    impl_vector_greater_than; impl_vector_dot; impl_vector_take; impl_vector_get; impl_vector_push;
    impl_vector_sum ].
Proof. reflexivity. Qed.
Print Assumptions C12_rope_builtins_listed.

(* results do not depend on how an argument binary was built (literal, concat, slice, repeat, zero-fill):
   equal bytes in any two well-formed rope shapes give equal results up to bytes_of *)
Theorem C12_builtins_shape_independent :
  Forall (fun p : (bval -> outcome bval) * (fval -> outcome fval) =>
            forall a1 a2, wf_bval a1 -> wf_bval a2 -> flatten a1 = flatten a2 ->
                          flatten_out (fst p a1) = flatten_out (fst p a2)) rope_builtins.
Proof. exact rope_builtins_shape_independent. Qed.
Print Assumptions C12_builtins_shape_independent.

(* never Panic, and the rope invariant is inductive: results are well-formed again *)
Theorem C12_builtins_total_and_wf :
  Forall (fun p : (bval -> outcome bval) * (fval -> outcome fval) =>
            forall a, wf_bval a -> wf_out (fst p a)) rope_builtins.
Proof. exact rope_builtins_total. Qed.
Print Assumptions C12_builtins_total_and_wf.
