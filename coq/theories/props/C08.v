(* C08 — Runtime type tests accept only members and never reject known members.
   ONLY the property theorems (closed by `exact`), each followed by Print Assumptions.
   Model: Compat.v (compatibility.rs tables + the executor's lookups) over Types.v / Rel.v
   (`current_cfg` = check_type_relation as in /repo).  Specification of membership: Sem.v.
   Since 5eb967d (fix of F70) the tables are computed over `ci_xreg I`: the program's types extended
   with the process type of every function that has none in the table (ids past the end).

   PROVED (every input, unbounded):
     table_is_relation        a tag is in the row of pattern t  <->  the tag's type — the FIRST
                              entry of its shape in the type table (first-occurrence rule) — is
                              assignable to t (or the primitive fallback when int/bin/ref have no
                              entry); functions by their type_id, builtins via the first
                              never-receiving Callable (param, result), processes via the first
                              Process (receive, result) of the spawning function, resources by name
     istype_is_relation       IsType answers Ok  <->  t is a registered id named by some IsType
                              instruction and the tag's type is assignable to t
     no_tuple_entry_never_accepted / no_type_entry_never_accepted (F70's mechanism);
     process_has_type_entry   since 5eb967d the process tag of EVERY function (with a callable type) has
                              a type entry, so that mechanism can no longer silence a process value;
     xreg_keeps_ids           the extension changes no id of the program's own types
     istype_sound             relative to C09: on the fragment where compat_sound is proved
                              (cf_domain: cycle-free ...), an accepted value that inhabits its tag's
                              type inhabits the pattern type
     istype_complete          under has_type_entry (type_of_tag = Some) and the transitivity
                              instance of is_compatible at (tag type, static type, pattern);
     istype_complete_partial  the same WITHOUT the transitivity hypothesis on the cycle-free
                              fragment (trans_domain), by C09's compat_trans_partial
     param tables             rows cover every function; a filter is permissive only when the row
                              is absent; with param_compat = false everything is accepted
   NOT proved: soundness on the recursive fragment (inherits C09's gap and its known findings
   F23); `table_config_invariant` (same verdict as compiled / tree-shaken / merged) is checked on
   every run by the harness on structural images of the tables, not a theorem. *)
From Quiver Require Import Base Types Rel Sem RelProofs Compat CompatProofs TransCheck TransThm CompatTrans.
From Coq Require Import Arith.
Close Scope Z_scope.
Open Scope nat_scope.

Theorem C08_index_first_occurrence : forall P, IxInv P (build_index P) (types P).
Proof. exact build_index_spec. Qed.
Print Assumptions C08_index_first_occurrence.

Theorem C08_table_is_relation : forall cfg fuel I c t,
  In c (compute_compatible_concrete_types cfg fuel I (ci_xreg I) (build_index (ci_xreg I)) t) <-> accepts cfg fuel I c t = true.
Proof. exact table_is_relation. Qed.
Print Assumptions C08_table_is_relation.

Theorem C08_istype_is_relation : forall cfg fuel I c t,
  check_type_compatible (compute_type_compatibility cfg fuel I) c t = true <->
  t < length (types (ci_reg I)) /\ is_pattern I t = true /\ accepts cfg fuel I c t = true.
Proof. exact istype_is_relation. Qed.
Print Assumptions C08_istype_is_relation.

Theorem C08_no_tuple_entry_never_accepted : forall cfg fuel I tid t,
  position (is_tuple tid) (types (ci_xreg I)) = None ->
  check_type_compatible (compute_type_compatibility cfg fuel I) (CTuple tid) t = false.
Proof. exact no_tuple_entry_never_accepted. Qed.
Print Assumptions C08_no_tuple_entry_never_accepted.

Theorem C08_no_type_entry_never_accepted : forall cfg fuel I c t,
  type_of_tag I c = None -> (forall p, c <> p \/ (p <> CInteger /\ p <> CBinary /\ p <> CReference)) ->
  check_type_compatible (compute_type_compatibility cfg fuel I) c t = false.
Proof. exact no_type_entry_never_accepted. Qed.
Print Assumptions C08_no_type_entry_never_accepted.

(* since 5eb967d (fix of F70): every function's process tag has a type entry *)
Theorem C08_process_has_type_entry : forall I f fi p r rc,
  nth_error (ci_functions I) f = Some fi ->
  lookup_type (ci_reg I) (f_type_id fi) = Some (TCallable p r rc) ->
  exists tau, type_of_tag I (CProcess f) = Some tau.
Proof. exact process_has_type_entry. Qed.
Print Assumptions C08_process_has_type_entry.

Theorem C08_xreg_keeps_ids : forall I i t,
  lookup_type (ci_reg I) i = Some t -> lookup_type (ci_xreg I) i = Some t.
Proof. exact xreg_keeps_ids. Qed.
Print Assumptions C08_xreg_keeps_ids.

Theorem C08_istype_sound : forall cfg fuel I c t tau n v,
  cfg_retract cfg = true ->
  check_type_compatible (compute_type_compatibility cfg fuel I) c t = true ->
  type_of_tag I c = Some tau ->
  cf_domain cfg (ci_xreg I) tau = true -> cf_domain cfg (ci_xreg I) t = true ->
  inhab (ci_xreg I) n [] v tau -> inhab (ci_xreg I) n [] v t.
Proof. exact istype_sound. Qed.
Print Assumptions C08_istype_sound.

Theorem C08_istype_complete : forall cfg fuel I c t tau S,
  t < length (types (ci_reg I)) -> is_pattern I t = true ->
  type_of_tag I c = Some tau ->
  is_compatible_with cfg fuel (ci_xreg I) tau S = Some true ->
  is_compatible_with cfg fuel (ci_xreg I) S t = Some true ->
  (is_compatible_with cfg fuel (ci_xreg I) tau S = Some true -> is_compatible_with cfg fuel (ci_xreg I) S t = Some true ->
   is_compatible_with cfg fuel (ci_xreg I) tau t = Some true) ->
  check_type_compatible (compute_type_compatibility cfg fuel I) c t = true.
Proof. exact istype_complete. Qed.
Print Assumptions C08_istype_complete.

Theorem C08_istype_complete_partial : forall cfg fuel I c t tau S,
  cfg_retract cfg = true -> cfg_partial_name cfg = true ->
  trans_domain (ci_xreg I) tau = true -> trans_domain (ci_xreg I) S = true -> trans_domain (ci_xreg I) t = true ->
  tau + S < fuel -> S + t < fuel -> tau + t < fuel ->
  t < length (types (ci_reg I)) -> is_pattern I t = true ->
  type_of_tag I c = Some tau ->
  is_compatible_with cfg fuel (ci_xreg I) tau S = Some true ->
  is_compatible_with cfg fuel (ci_xreg I) S t = Some true ->
  check_type_compatible (compute_type_compatibility cfg fuel I) c t = true.
Proof. exact istype_complete_cf. Qed.
Print Assumptions C08_istype_complete_partial.

Theorem C08_param_tables_cover : forall cfg fuel I fp bp,
  compute_param_compatibility cfg fuel I = (fp, bp) ->
  length fp = length (ci_functions I) /\ length bp = length (ci_builtins I).
Proof. exact param_tables_cover. Qed.
Print Assumptions C08_param_tables_cover.

Theorem C08_param_table_permissive_only_when_absent : forall (fp bp : list (list ctag)) c f row,
  nth_error fp f = Some row -> check_message_compatible fp bp c (SrcFunction f) = mem_tag c row.
Proof. exact (fun fp bp c f row => param_table_permissive_only_when_absent fp bp c f row). Qed.
Print Assumptions C08_param_table_permissive_only_when_absent.

Theorem C08_param_table_absent_is_permissive : forall cfg fuel I c f fp bp,
  param_tables cfg fuel I false = (fp, bp) -> check_message_compatible fp bp c (SrcFunction f) = true.
Proof.
  exact (fun cfg fuel I c f fp bp (H : param_tables cfg fuel I false = (fp, bp)) =>
           match H in _ = y return check_message_compatible (fst y) (snd y) c (SrcFunction f) = true with
           | eq_refl => param_table_absent_is_permissive [] c f
           end).
Qed.
Print Assumptions C08_param_table_absent_is_permissive.

Theorem C08_param_row_is_relation : forall cfg fuel I fp bp c f fi,
  param_tables cfg fuel I true = (fp, bp) -> nth_error (ci_functions I) f = Some fi ->
  check_message_compatible fp bp c (SrcFunction f) =
  accepts cfg fuel I c (fst (fst (fst (extract_function_type_info (ci_reg I) fi)))).
Proof. exact param_row_is_relation. Qed.
Print Assumptions C08_param_row_is_relation.

(* ---- non-vacuity / witnesses on the dump of a real program:
   `x = #('int | 'bin) { | =('int)i => 1 | =('bin)b => 2 }, 5 x`  (as compiled) ---- *)
Definition ex_input : compat_input :=
  mk_input
    (mk_reg [mk_tuple None []; mk_tuple (Some name_ok) []]
            [TUnion []; TTuple 0; TInteger; TBinary; TUnion [2; 3]; TUnion [1; 2]; TTuple 1; TUnion [6; 1];
             TCallable 4 2 0; TCallable 1 2 0])
    [mk_func 8 [2]; mk_func 9 []] [] [].

Example C08_example_tables :
  compute_type_compatibility current_cfg 1000 ex_input = [[]; []; [CInteger]; []; []; []; []; []; []; []] /\
  compute_param_compatibility current_cfg 1000 ex_input = ([[CInteger; CBinary]; [CTuple 0]], []) /\
  check_type_compatible (compute_type_compatibility current_cfg 1000 ex_input) CInteger 2 = true /\
  check_type_compatible (compute_type_compatibility current_cfg 1000 ex_input) CBinary 2 = false /\
  type_of_tag ex_input CInteger = Some 2 /\
  cf_domain current_cfg (ci_reg ex_input) 2 = true.
Proof. vm_compute. repeat split; reflexivity. Qed.

(* F70 (fixed 5eb967d) as a regression statement: the process tag of function 0 (receive never, result
   int) has no `Process(Some never, Some int)` entry in the program's type table; the tables are computed
   with that type appended (id 5), so the process pattern with unknown directions accepts the tag.
   (As found: type_of_tag = None and the verdict false — no pattern at all accepted the top-level
   process's own pid.) *)
Definition f70_input : compat_input :=
  mk_input
    (mk_reg [mk_tuple None []; mk_tuple (Some name_ok) []]
            [TUnion []; TTuple 0; TInteger; TCallable 1 2 0; TProcess None None])
    [mk_func 3 [4]] [] [].

Example C08_F70_repaired :
  type_of_tag f70_input (CProcess 0) = Some 5 /\
  lookup_type (ci_xreg f70_input) 5 = Some (TProcess (Some 0) (Some 2)) /\
  check_type_compatible (compute_type_compatibility current_cfg 1000 f70_input) (CProcess 0) 4 = true /\
  type_of_tag f70_input (CFunction 0) = Some 3.
Proof. vm_compute. repeat split; reflexivity. Qed.
