(* VectorProofs.v — the packed-vector kernels agree with their reference specs. *)
From Quiver Require Import BuiltinWf.
From Coq Require Import Lia.

(* ---------------------------------------------------------------- argument shapes *)
(* every ill-shaped argument: both sides compute to Err TypeMismatch *)
Ltac bad := split; [reflexivity | exact I].
Ltac d_tup a fs := destruct a as [?|?|fs|]; [bad|bad| |bad].
Ltac d_cons fs x := destruct fs as [|x fs]; [bad|].
Ltac d_nil fs := destruct fs as [|? ?]; [|bad].
Ltac d_bin x r := destruct x as [?|r|?|]; [bad| |bad|bad].
Ltac d_int x z := destruct x as [z|?|?|]; [|bad|bad|bad].

(* ---------------------------------------------------------------- width *)
Lemma checked_width_spec w :
  checked_width w = if width_ok w then Val w else Err InvalidArgument.
Proof.
  unfold checked_width, to_i64_checked, width_ok.
  destruct (Z.eqb_spec w 4) as [->|H4]; [reflexivity|].
  destruct (Z.eqb_spec w 8) as [->|H8]; [reflexivity|].
  destruct (in_i64 w); cbn [obind]; [|reflexivity].
  destruct (Z.eqb_spec w 4) as [?|_]; [contradiction|].
  destruct (Z.eqb_spec w 8) as [?|_]; [contradiction|]. reflexivity.
Qed.

Lemma width_ok_cases w : width_ok w = true -> w = 4 \/ w = 8.
Proof.
  unfold width_ok. intros H. apply orb_true_iff in H.
  destruct H as [H|H]; apply Z.eqb_eq in H; auto.
Qed.

Lemma width_pos w : w = 4 \/ w = 8 -> 0 < w.
Proof. lia. Qed.

(* ---------------------------------------------------------------- bounds *)
Lemma MAX_lt_two64 : MAX_BINARY_SIZE < two64 - 1.
Proof. reflexivity. Qed.

Lemma wf_blen r : wf r -> 0 <= blen (bytes_of r) <= MAX_BINARY_SIZE.
Proof. intros H. rewrite blen_bytes_of by exact H. apply wf_rlen_bound, H. Qed.

Lemma div_exact_mul L w : 0 < w -> L mod w = 0 -> L = w * (L / w).
Proof. intros Hw Hm. apply Z.div_exact; lia. Qed.

Lemma lane_bound L w i : 0 < w -> L mod w = 0 -> 0 <= i < L / w -> (i + 1) * w <= L.
Proof.
  intros Hw Hm Hi. pose proof (div_exact_mul L w Hw Hm) as E.
  set (q := L / w) in *. rewrite E. timeout 20 nia.
Qed.

Lemma div_nonneg_len L w : 0 < w -> 0 <= L -> 0 <= L / w <= L.
Proof.
  intros Hw HL. split; [apply Z.div_pos; lia|].
  apply Z.div_le_upper_bound; [lia|]. timeout 20 nia.
Qed.

(* ---------------------------------------------------------------- lane *)
Lemma chunk_length (x : list Z) w i : 0 < w -> 0 <= i -> (i + 1) * w <= blen x ->
  length (firstn (Z.to_nat w) (skipn (Z.to_nat (i * w)) x)) = Z.to_nat w.
Proof.
  unfold blen. intros Hw Hi Hb.
  assert (H0 : 0 <= i * w) by (apply Z.mul_nonneg_nonneg; lia).
  replace ((i + 1) * w) with (i * w + w) in Hb by ring.
  rewrite firstn_length, skipn_length. lia.
Qed.

Lemma lane_val x w i : 0 < w -> 0 <= i -> (i + 1) * w <= blen x ->
  lane x w i = Val (spec_lane w x i).
Proof.
  intros Hw Hi Hb. unfold lane, spec_lane.
  rewrite chunk_length by assumption. rewrite Z2Nat.id by lia.
  rewrite Z.eqb_refl. reflexivity.
Qed.

Lemma lane_val_idx x w i : 0 < w -> blen x mod w = 0 -> 0 <= i < blen x / w ->
  lane x w i = Val (spec_lane w x i).
Proof.
  intros Hw Hm Hi. apply lane_val; [exact Hw | lia | apply lane_bound; assumption].
Qed.

(* ---------------------------------------------------------------- list helpers *)
Lemma fold_left_add_map (f : Z -> Z) l acc :
  fold_left (fun a i => a + f i) l acc = acc + fold_right Z.add 0 (map f l).
Proof.
  revert acc. induction l as [|x t IH]; intros acc; cbn [fold_left fold_right map]; [lia|].
  rewrite IH. lia.
Qed.

Lemma map2_map op (f g : Z -> Z) (l : list Z) :
  map2 op (map f l) (map g l) = map (fun i => op (f i) (g i)) l.
Proof.
  unfold map2. induction l as [|x t IH]; [reflexivity|].
  cbn [map combine fst snd]. rewrite IH. reflexivity.
Qed.

(* ---------------------------------------------------------------- sum *)
Lemma vector_sum_good r w : wf r ->
  flatten_out (impl_vector_sum (BTup [BBin r; BInt w]))
  = spec_vector_sum (FTup [FBin (bytes_of r); FInt w])
  /\ wf_out (impl_vector_sum (BTup [BBin r; BInt w])).
Proof.
  intros Hr. unfold impl_vector_sum, spec_vector_sum.
  rewrite checked_width_spec.
  destruct (width_ok w) eqn:Hw; cbn [negb obind]; [|split; [reflexivity|exact I]].
  apply width_ok_cases, width_pos in Hw.
  fold (blen (bytes_of r)).
  destruct (Z.eqb_spec (blen (bytes_of r) mod w) 0) as [Hm|Hm]; cbn [negb];
    [|split; [reflexivity|exact I]].
  rewrite (ofold_val _ (fun acc i => acc + spec_lane w (bytes_of r) i)).
  2:{ intros st i Hi. apply zrange_In in Hi. rewrite lane_val_idx by assumption. reflexivity. }
  cbn [obind flatten_out flatten wf_out wf_bval]. split; [|exact I].
  rewrite fold_left_add_map. unfold spec_lanes. reflexivity.
Qed.

Theorem vector_sum_correct : agrees impl_vector_sum spec_vector_sum.
Proof.
  intros a Ha. d_tup a fs. d_cons fs x. d_bin x r. d_cons fs y. d_int y w. d_nil fs.
  destruct Ha as (Hr & _). apply vector_sum_good. exact Hr.
Qed.

(* ---------------------------------------------------------------- dot *)
Lemma vector_dot_good ra rb w : wf ra -> wf rb ->
  flatten_out (impl_vector_dot (BTup [BBin ra; BBin rb; BInt w]))
  = spec_vector_dot (FTup [FBin (bytes_of ra); FBin (bytes_of rb); FInt w])
  /\ wf_out (impl_vector_dot (BTup [BBin ra; BBin rb; BInt w])).
Proof.
  intros Ha Hb. unfold impl_vector_dot, spec_vector_dot.
  rewrite checked_width_spec.
  destruct (width_ok w) eqn:Hw; cbn [negb obind]; [|split; [reflexivity|exact I]].
  apply width_ok_cases, width_pos in Hw.
  fold (blen (bytes_of ra)). fold (blen (bytes_of rb)).
  destruct (Z.eqb_spec (blen (bytes_of ra)) (blen (bytes_of rb))) as [He|He]; cbn [negb orb];
    [|split; [reflexivity|exact I]].
  destruct (Z.eqb_spec (blen (bytes_of ra) mod w) 0) as [Hm|Hm]; cbn [negb];
    [|split; [reflexivity|exact I]].
  rewrite (ofold_val _ (fun acc i => acc + spec_lane w (bytes_of ra) i * spec_lane w (bytes_of rb) i)).
  2:{ intros st i Hi. apply zrange_In in Hi.
      rewrite lane_val_idx by assumption.
      rewrite lane_val_idx by (try rewrite <- He; assumption). reflexivity. }
  cbn [obind flatten_out flatten wf_out wf_bval]. split; [|exact I].
  rewrite (fold_left_add_map (fun i => spec_lane w (bytes_of ra) i * spec_lane w (bytes_of rb) i)).
  unfold spec_lanes. rewrite <- He, map2_map. reflexivity.
Qed.

Theorem vector_dot_correct : agrees impl_vector_dot spec_vector_dot.
Proof.
  intros a Ha. d_tup a fs. d_cons fs x. d_bin x ra. d_cons fs y. d_bin y rb.
  d_cons fs z. d_int z w. d_nil fs.
  destruct Ha as (Ha & Hb & _). apply vector_dot_good; assumption.
Qed.

(* ---------------------------------------------------------------- compare *)
Lemma compare_good pred ra rb w : wf ra -> wf rb ->
  flatten_out (compare_kernel pred (BTup [BBin ra; BBin rb; BInt w]))
  = spec_compare pred (FTup [FBin (bytes_of ra); FBin (bytes_of rb); FInt w])
  /\ wf_out (compare_kernel pred (BTup [BBin ra; BBin rb; BInt w])).
Proof.
  intros Ha Hb. unfold compare_kernel, spec_compare.
  rewrite checked_width_spec.
  destruct (width_ok w) eqn:Hw; cbn [negb obind]; [|split; [reflexivity|exact I]].
  apply width_ok_cases, width_pos in Hw.
  fold (blen (bytes_of ra)). fold (blen (bytes_of rb)).
  destruct (Z.eqb_spec (blen (bytes_of ra)) (blen (bytes_of rb))) as [He|He]; cbn [negb orb];
    [|split; [reflexivity|exact I]].
  destruct (Z.eqb_spec (blen (bytes_of ra) mod w) 0) as [Hm|Hm]; cbn [negb];
    [|split; [reflexivity|exact I]].
  rewrite (omap_val _ (fun i => if pred (spec_lane w (bytes_of ra) i) (spec_lane w (bytes_of rb) i)
                                then 1 else 0)).
  2:{ intros i Hi. apply zrange_In in Hi.
      rewrite lane_val_idx by assumption.
      rewrite lane_val_idx by (try rewrite <- He; assumption). reflexivity. }
  cbn [obind].
  pose proof (wf_blen ra Ha) as Hla.
  pose proof (div_nonneg_len (blen (bytes_of ra)) w Hw (proj1 Hla)) as Hq.
  rewrite alloc_bytes_ok by (rewrite map_length, zrange_length; lia).
  cbn [flatten_out flatten bytes_of wf_out wf_bval wf]. split.
  - unfold spec_lanes. rewrite <- He, map2_map. reflexivity.
  - split; [|rewrite map_length, zrange_length; lia].
    unfold bytes_ok. apply Forall_forall. intros b Hb'. apply in_map_iff in Hb'.
    destruct Hb' as (i & <- & _). destruct (pred _ _); lia.
Qed.

Lemma compare_correct pred : agrees (compare_kernel pred) (spec_compare pred).
Proof.
  intros a Ha. d_tup a fs. d_cons fs x. d_bin x ra. d_cons fs y. d_bin y rb.
  d_cons fs z. d_int z w. d_nil fs.
  destruct Ha as (Ha & Hb & _). apply compare_good; assumption.
Qed.

Theorem vector_less_than_correct : agrees impl_vector_less_than spec_vector_less_than.
Proof. exact (compare_correct Z.ltb). Qed.
Theorem vector_equal_correct : agrees impl_vector_equal spec_vector_equal.
Proof. exact (compare_correct Z.eqb). Qed.
Theorem vector_greater_than_correct : agrees impl_vector_greater_than spec_vector_greater_than.
Proof. exact (compare_correct Z.gtb). Qed.

(* ---------------------------------------------------------------- get *)
Lemma get_guard L w i : w = 4 \/ w = 8 -> 0 <= L <= MAX_BINARY_SIZE ->
  in_u64 i && ((L mod w =? 0) && (sat_u64 (sat_u64 (i + 1) * w) <=? L))
  = (L mod w =? 0) && (0 <=? i) && (i <? L / w).
Proof.
  intros Hw HL.
  destruct (Z.eqb_spec (L mod w) 0) as [Hm|Hm]; [|apply andb_false_r].
  cbn [andb].
  pose proof (div_exact_mul L w (width_pos w Hw) Hm) as E.
  set (q := L / w) in *.
  unfold in_u64, sat_u64. unfold MAX_BINARY_SIZE in HL.
  change two64 with 18446744073709551616.
  destruct (Z.leb_spec 0 i) as [H0|H0]; cbn [andb].
  - destruct (Z.ltb_spec i 18446744073709551616) as [H1|H1]; cbn [andb].
    + destruct (Z.ltb_spec i q) as [H2|H2];
        destruct (Z.leb_spec (Z.min (Z.min (i + 1) (18446744073709551616 - 1) * w)
                                    (18446744073709551616 - 1)) L) as [H3|H3];
        try reflexivity; exfalso; destruct Hw; subst w; lia.
    + destruct (Z.ltb_spec i q) as [H2|H2]; [|reflexivity].
      exfalso; destruct Hw; subst w; lia.
  - reflexivity.
Qed.

Lemma vector_get_good r w i : wf r ->
  flatten_out (impl_vector_get (BTup [BBin r; BInt w; BInt i]))
  = spec_vector_get (FTup [FBin (bytes_of r); FInt w; FInt i])
  /\ wf_out (impl_vector_get (BTup [BBin r; BInt w; BInt i])).
Proof.
  intros Hr. unfold impl_vector_get, spec_vector_get.
  rewrite checked_width_spec.
  destruct (width_ok w) eqn:Hw; cbn [negb obind]; [|split; [reflexivity|exact I]].
  apply width_ok_cases in Hw.
  fold (blen (bytes_of r)).
  rewrite (get_guard _ _ _ Hw (wf_blen r Hr)).
  destruct (Z.eqb_spec (blen (bytes_of r) mod w) 0) as [Hm|Hm]; cbn [andb];
    [|split; [reflexivity|exact I]].
  destruct (Z.leb_spec 0 i) as [H0|H0]; cbn [andb]; [|split; [reflexivity|exact I]].
  destruct (Z.ltb_spec i (blen (bytes_of r) / w)) as [H1|H1]; [|split; [reflexivity|exact I]].
  rewrite lane_val_idx by (try apply width_pos; auto).
  cbn [obind]. split; [reflexivity|exact I].
Qed.

Theorem vector_get_correct : agrees impl_vector_get spec_vector_get.
Proof.
  intros a Ha. d_tup a fs. d_cons fs x. d_bin x r. d_cons fs y. d_int y w.
  d_cons fs z. d_int z i. d_nil fs.
  destruct Ha as (Hr & _). apply vector_get_good; assumption.
Qed.

(* ---------------------------------------------------------------- encoding of lanes *)
Lemma le_bytes_length n v : length (le_bytes n v) = n.
Proof. revert v. induction n as [|n IH]; intros v; cbn [le_bytes length]; [reflexivity|]. rewrite IH. reflexivity. Qed.

Lemma le_bytes_ok n v : bytes_ok (le_bytes n v).
Proof.
  unfold bytes_ok. revert v. induction n as [|n IH]; intros v; cbn [le_bytes]; constructor.
  - apply Z.mod_pos_bound. lia.
  - apply IH.
Qed.

Lemma push_lane_length w v : 0 <= w -> blen (push_lane w v) = w.
Proof. intros Hw. unfold blen, push_lane. rewrite le_bytes_length. lia. Qed.

Lemma push_lane_ok w v : bytes_ok (push_lane w v).
Proof. apply le_bytes_ok. Qed.

Lemma encode_lanes_cons w v vs : encode_lanes w (v :: vs) = push_lane w v ++ encode_lanes w vs.
Proof. reflexivity. Qed.

Lemma encode_lanes_length w vs : 0 <= w -> blen (encode_lanes w vs) = Z.of_nat (length vs) * w.
Proof.
  intros Hw. unfold blen. induction vs as [|v vs IH]; [reflexivity|].
  rewrite encode_lanes_cons, app_length, Nat2Z.inj_add, IH.
  fold (blen (push_lane w v)). rewrite push_lane_length by exact Hw.
  cbn [length]. lia.
Qed.

Lemma encode_lanes_ok w vs : bytes_ok (encode_lanes w vs).
Proof.
  unfold bytes_ok. induction vs as [|v vs IH]; [constructor|].
  rewrite encode_lanes_cons. apply Forall_app. split; [apply push_lane_ok | exact IH].
Qed.

Lemma lane_ok_fits w v : w = 4 \/ w = 8 -> in_i64 v && fits v w = lane_ok w v.
Proof.
  intros [->| ->]; unfold lane_ok, in_i64, fits, two63.
  - change (8 * 4 - 1) with 31. cbn [Z.eqb Pos.eqb].
    destruct (Z.leb_spec (- 2 ^ 31) v); destruct (Z.ltb_spec v (2 ^ 31));
      destruct (Z.leb_spec (- 2 ^ 63) v); destruct (Z.ltb_spec v (2 ^ 63)); try reflexivity; lia.
  - change (8 * 8 - 1) with 63. cbn [Z.eqb Pos.eqb]. apply andb_true_r.
Qed.

(* ---------------------------------------------------------------- push *)
Lemma length_zero_nil {A} (l : list A) : Z.of_nat (length l) = 0 -> l = [].
Proof. destruct l; [reflexivity|cbn [length]; lia]. Qed.

Lemma vector_push_good r w v : wf r ->
  flatten_out (impl_vector_push (BTup [BBin r; BInt w; BInt v]))
  = spec_vector_push (FTup [FBin (bytes_of r); FInt w; FInt v])
  /\ wf_out (impl_vector_push (BTup [BBin r; BInt w; BInt v])).
Proof.
  intros Hr. unfold impl_vector_push, spec_vector_push.
  rewrite checked_width_spec.
  destruct (width_ok w) eqn:Hw; cbn [negb obind]; [|split; [reflexivity|exact I]].
  apply width_ok_cases in Hw. pose proof (width_pos w Hw) as Hwp.
  rewrite (lane_ok_fits w v Hw).
  rewrite <- (blen_bytes_of r Hr).
  pose proof (wf_blen r Hr) as HL.
  destruct (lane_ok w v); cbn [negb andb]; [|split; [reflexivity|exact I]].
  destruct (Z.eqb_spec (blen (bytes_of r) mod w) 0) as [Hm|Hm]; cbn [negb];
    [|split; [reflexivity|exact I]].
  assert (Hwmax : w <= MAX_BINARY_SIZE) by (unfold MAX_BINARY_SIZE; lia).
  pose proof (push_lane_length w v ltac:(lia)) as Hpl. unfold blen in Hpl.
  destruct (Z.eqb_spec (blen (bytes_of r)) 0) as [Hz|Hz].
  - (* empty vector *)
    rewrite alloc_ok by (cbn [rlen]; lia).
    apply length_zero_nil in Hz. rewrite Hz. change (blen []) with 0.
    destruct (Z.leb_spec (0 + w) MAX_BINARY_SIZE) as [_|Hbad]; [|lia].
    cbn [flatten_out flatten bytes_of wf_out wf_bval wf app encode_lanes flat_map].
    split; [unfold push_lane; rewrite app_nil_r; reflexivity|].
    split; [apply push_lane_ok | lia].
  - assert (Hu : in_u64 (blen (bytes_of r) + w) = true).
    { unfold in_u64. assert (HM : MAX_BINARY_SIZE + 8 < two64) by reflexivity.
      assert (Hw8 : w <= 8) by lia.
      destruct (Z.leb_spec 0 (blen (bytes_of r) + w)); [|lia].
      destruct (Z.ltb_spec (blen (bytes_of r) + w) two64); [reflexivity|lia]. }
    rewrite Hu. cbn [negb].
    assert (Hrl : rlen (mk_concat r (Owned (push_lane w v))) = blen (bytes_of r) + w).
    { unfold mk_concat. cbn [rlen]. rewrite (blen_bytes_of r Hr). lia. }
    destruct (Z.leb_spec (blen (bytes_of r) + w) MAX_BINARY_SIZE) as [Hfit|Hbig].
    + rewrite alloc_ok by lia.
      cbn [flatten_out flatten wf_out wf_bval]. rewrite mk_concat_bytes. cbn [bytes_of].
      split.
      * rewrite encode_lanes_cons. cbn [encode_lanes flat_map]. rewrite app_nil_r. reflexivity.
      * apply mk_concat_wf; [exact Hr | | cbn [rlen]; rewrite <- (blen_bytes_of r Hr); lia].
        cbn [wf]. split; [apply push_lane_ok | lia].
    + rewrite alloc_too_big by lia. split; [reflexivity|exact I].
Qed.

Theorem vector_push_correct : agrees impl_vector_push spec_vector_push.
Proof.
  intros a Ha. d_tup a fs. d_cons fs x. d_bin x r. d_cons fs y. d_int y w.
  d_cons fs z. d_int z v. d_nil fs.
  destruct Ha as (Hr & _). apply vector_push_good; assumption.
Qed.

(* ---------------------------------------------------------------- take *)
Lemma concat_map_length_le {A} (g : A -> list Z) (l : list A) (k : nat) :
  (forall x, In x l -> (length (g x) <= k)%nat) ->
  (length (concat (map g l)) <= length l * k)%nat.
Proof.
  induction l as [|x t IH]; intros H; cbn [map concat length]; [lia|].
  rewrite app_length.
  pose proof (H x (or_introl eq_refl)).
  specialize (IH (fun y Hy => H y (or_intror Hy))). lia.
Qed.

Lemma concat_map_ok {A} (g : A -> list Z) (l : list A) :
  (forall x, In x l -> bytes_ok (g x)) -> bytes_ok (concat (map g l)).
Proof.
  unfold bytes_ok. induction l as [|x t IH]; intros H; cbn [map concat]; [constructor|].
  apply Forall_app. split; [apply H; left; reflexivity|].
  apply IH. intros y Hy. apply H. right. exact Hy.
Qed.

Definition take_chunk (w : Z) (d : list Z) (p : Z * Z) : list Z :=
  if snd p =? 0 then [] else firstn (Z.to_nat w) (skipn (Z.to_nat (fst p * w)) d).

Lemma vector_take_good rd w rm : wf rd -> wf rm ->
  flatten_out (impl_vector_take (BTup [BBin rd; BInt w; BBin rm]))
  = spec_vector_take (FTup [FBin (bytes_of rd); FInt w; FBin (bytes_of rm)])
  /\ wf_out (impl_vector_take (BTup [BBin rd; BInt w; BBin rm])).
Proof.
  intros Hd Hm'. unfold impl_vector_take, spec_vector_take.
  rewrite checked_width_spec.
  destruct (width_ok w) eqn:Hw; cbn [negb obind]; [|split; [reflexivity|exact I]].
  apply width_ok_cases, width_pos in Hw.
  fold (blen (bytes_of rd)). fold (blen (bytes_of rm)).
  destruct (Z.eqb_spec (blen (bytes_of rd) mod w) 0) as [Hm|Hm]; cbn [negb orb];
    [|split; [reflexivity|exact I]].
  destruct (Z.eqb_spec (blen (bytes_of rm)) (blen (bytes_of rd) / w)) as [He|He]; cbn [negb];
    [|split; [reflexivity|exact I]].
  fold (take_chunk w (bytes_of rd)).
  rewrite (omap_val _ (take_chunk w (bytes_of rd))).
  2:{ intros [i s] Hp. apply in_combine_l in Hp. apply zrange_In in Hp.
      unfold take_chunk. cbn [fst snd]. destruct (s =? 0); [reflexivity|].
      rewrite chunk_length; [| exact Hw | lia | apply lane_bound; [exact Hw|exact Hm|lia]].
      rewrite Z2Nat.id by lia. rewrite Z.eqb_refl. reflexivity. }
  cbn [obind].
  pose proof (wf_blen rd Hd) as HLd.
  assert (Hlen : Z.of_nat (length (concat (map (take_chunk w (bytes_of rd))
                    (combine (zrange (blen (bytes_of rm))) (bytes_of rm))))) <= MAX_BINARY_SIZE).
  { pose proof (concat_map_length_le (take_chunk w (bytes_of rd))
                  (combine (zrange (blen (bytes_of rm))) (bytes_of rm)) (Z.to_nat w)) as Hc.
    assert (Hk : forall x, In x (combine (zrange (blen (bytes_of rm))) (bytes_of rm)) ->
                 (length (take_chunk w (bytes_of rd) x) <= Z.to_nat w)%nat).
    { intros x _. unfold take_chunk. destruct (snd x =? 0); cbn [length]; [lia|].
      rewrite firstn_length. lia. }
    specialize (Hc Hk).
    rewrite combine_length, zrange_length in Hc.
    pose proof (Z.mul_div_le (blen (bytes_of rd)) w Hw) as Hdm.
    assert (Hq : 0 <= blen (bytes_of rd) / w) by (apply Z.div_pos; lia).
    assert (Hn : (Nat.min (Z.to_nat (blen (bytes_of rm))) (length (bytes_of rm)) * Z.to_nat w
                  <= Z.to_nat (blen (bytes_of rd) / w) * Z.to_nat w)%nat).
    { apply Nat.mul_le_mono_r. rewrite He. lia. }
    assert (Hz : Z.of_nat (Z.to_nat (blen (bytes_of rd) / w) * Z.to_nat w)
                 = w * (blen (bytes_of rd) / w)).
    { rewrite Nat2Z.inj_mul, !Z2Nat.id by lia. ring. }
    lia. }
  rewrite alloc_bytes_ok by exact Hlen.
  cbn [flatten_out flatten bytes_of wf_out wf_bval wf]. split; [reflexivity|].
  split; [|exact Hlen].
  apply concat_map_ok. intros x _. unfold take_chunk. destruct (snd x =? 0); [constructor|].
  apply Forall_firstn_keep, Forall_skipn_keep. apply bytes_of_ok. exact Hd.
Qed.

Theorem vector_take_correct : agrees impl_vector_take spec_vector_take.
Proof.
  intros a Ha. d_tup a fs. d_cons fs x. d_bin x rd. d_cons fs y. d_int y w.
  d_cons fs z. d_bin z rm. d_nil fs.
  destruct Ha as (Hd & _ & Hm & _). apply vector_take_good; assumption.
Qed.

(* ---------------------------------------------------------------- elementwise *)
Lemma elementwise_loop_spec opZ a b w idxs out : w = 4 \/ w = 8 ->
  (forall i, In i idxs -> lane a w i = Val (spec_lane w a i) /\ lane b w i = Val (spec_lane w b i)) ->
  elementwise_loop (checked_i64 opZ) a b w idxs out
  = Val (if forallb (lane_ok w) (map (fun i => opZ (spec_lane w a i) (spec_lane w b i)) idxs)
         then Some (out ++ encode_lanes w (map (fun i => opZ (spec_lane w a i) (spec_lane w b i)) idxs))
         else None).
Proof.
  intros Hw. revert out. induction idxs as [|i rest IH]; intros out H.
  - cbn [elementwise_loop map forallb encode_lanes flat_map]. rewrite app_nil_r. reflexivity.
  - cbn [elementwise_loop map forallb].
    destruct (H i (or_introl eq_refl)) as [Ea Eb]. rewrite Ea, Eb. cbn [obind].
    unfold checked_i64. rewrite <- (lane_ok_fits w _ Hw).
    destruct (in_i64 (opZ (spec_lane w a i) (spec_lane w b i))); cbn [andb]; [|reflexivity].
    destruct (fits (opZ (spec_lane w a i) (spec_lane w b i)) w); cbn [andb]; [|reflexivity].
    rewrite IH by (intros j Hj; apply H; right; exact Hj).
    rewrite encode_lanes_cons, app_assoc. reflexivity.
Qed.

Lemma elementwise_good opZ ra rb w : wf ra -> wf rb ->
  flatten_out (elementwise (checked_i64 opZ) (BTup [BBin ra; BBin rb; BInt w]))
  = spec_elementwise opZ (FTup [FBin (bytes_of ra); FBin (bytes_of rb); FInt w])
  /\ wf_out (elementwise (checked_i64 opZ) (BTup [BBin ra; BBin rb; BInt w])).
Proof.
  intros Ha Hb. unfold elementwise, spec_elementwise.
  rewrite checked_width_spec.
  destruct (width_ok w) eqn:Hw; cbn [negb obind]; [|split; [reflexivity|exact I]].
  apply width_ok_cases in Hw. pose proof (width_pos w Hw) as Hwp.
  fold (blen (bytes_of ra)). fold (blen (bytes_of rb)).
  destruct (Z.eqb_spec (blen (bytes_of ra)) (blen (bytes_of rb))) as [He|He]; cbn [negb orb];
    [|split; [reflexivity|exact I]].
  destruct (Z.eqb_spec (blen (bytes_of ra) mod w) 0) as [Hm|Hm]; cbn [negb];
    [|split; [reflexivity|exact I]].
  rewrite (elementwise_loop_spec opZ _ _ w _ _ Hw).
  2:{ intros i Hi. apply zrange_In in Hi. split.
      - apply lane_val_idx; assumption.
      - apply lane_val_idx; try rewrite <- He; assumption. }
  cbn [obind app].
  unfold spec_lanes. rewrite <- He, map2_map.
  set (rs := map (fun i => opZ (spec_lane w (bytes_of ra) i) (spec_lane w (bytes_of rb) i))
                 (zrange (blen (bytes_of ra) / w))).
  destruct (forallb (lane_ok w) rs); [|split; [reflexivity|exact I]].
  pose proof (wf_blen ra Ha) as HLa.
  assert (Hlen : Z.of_nat (length (encode_lanes w rs)) <= MAX_BINARY_SIZE).
  { fold (blen (encode_lanes w rs)). rewrite encode_lanes_length by lia.
    unfold rs. rewrite map_length, zrange_length.
    assert (Hq : 0 <= blen (bytes_of ra) / w) by (apply Z.div_pos; lia).
    rewrite Z2Nat.id by exact Hq.
    pose proof (Z.mul_div_le (blen (bytes_of ra)) w Hwp). lia. }
  rewrite alloc_bytes_ok by exact Hlen.
  cbn [flatten_out flatten bytes_of wf_out wf_bval wf]. split; [reflexivity|].
  split; [apply encode_lanes_ok | exact Hlen].
Qed.

Lemma elementwise_correct opZ : agrees (elementwise (checked_i64 opZ)) (spec_elementwise opZ).
Proof.
  intros a Ha. d_tup a fs. d_cons fs x. d_bin x ra. d_cons fs y. d_bin y rb.
  d_cons fs z. d_int z w. d_nil fs.
  destruct Ha as (Ha & Hb & _). apply elementwise_good; assumption.
Qed.

Theorem vector_add_correct : agrees impl_vector_add spec_vector_add.
Proof. exact (elementwise_correct Z.add). Qed.
Theorem vector_subtract_correct : agrees impl_vector_subtract spec_vector_subtract.
Proof. exact (elementwise_correct Z.sub). Qed.
Theorem vector_multiply_correct : agrees impl_vector_multiply spec_vector_multiply.
Proof. exact (elementwise_correct Z.mul). Qed.

(* non-vacuity: concrete evaluations *)
Example vector_add_example :
  flatten_out (impl_vector_add (BTup [BBin (Owned [1;0;0;0; 255;255;255;127]); BBin (Concat (Owned [2;0;0;0]) (Zeroed 4) 8); BInt 4]))
  = Val (FBin [3;0;0;0; 255;255;255;127]).
Proof. vm_compute; reflexivity. Qed.
Example vector_add_overflow_example :
  impl_vector_add (BTup [BBin (Owned [255;255;255;127]); BBin (Owned [1;0;0;0]); BInt 4]) = Val bnil.
Proof. vm_compute; reflexivity. Qed.
