(* BuiltinSpec.v — reference models ("plain" mathematics over unbounded Z and flat byte lists)
   that the implementation models of Builtins.v are proved equal to. *)
From Quiver Require Export Builtins.

(* the 64-bit two's-complement image used by the bitwise integer builtins *)
Definition spec_bitop (op : Z -> Z -> Z) (a b : Z) : Z := to_i64 (op (wrap_u64 a) (wrap_u64 b)).
Definition spec_not (a : Z) : Z := to_i64 (two64 - 1 - wrap_u64 a).
Definition spec_shl (v k : Z) : Z := to_i64 (wrap_u64 v * 2 ^ k).
Definition spec_sar (v k : Z) : Z := v / 2 ^ k.     (* floor division = sign-extending shift *)

(* number of set bits among the low 64 bits *)
Definition spec_popcount64 (z : Z) : Z :=
  Z.of_nat (length (filter (fun i => Z.testbit (wrap_u64 z) (Z.of_nat i)) (seq 0 64))).

(* ================================================================== flat values *)

(* what a builtin's argument/result *means*: binaries are flat byte lists (no rope structure) *)
Inductive fval :=
| FInt (z : Z)
| FBin (bs : list Z)
| FTup (fs : list fval)
| FOther.

Definition fnil : fval := FTup [].

Fixpoint flatten (v : bval) : fval :=
  match v with
  | BInt z => FInt z
  | BBin r => FBin (bytes_of r)
  | BTup fs => FTup (map flatten fs)
  | BOther => FOther
  end.

Definition flatten_out (o : outcome bval) : outcome fval :=
  match o with Val v => Val (flatten v) | Err e => Err e | Panic s => Panic s end.

Definition blen (bs : list Z) : Z := Z.of_nat (length bs).

(* the number denoted by a byte string read big-endian (= its bit string, MSB first) *)
Definition be_val (bs : list Z) : Z := fold_left (fun acc b => acc * 256 + b) bs 0.
(* the n-byte big-endian encoding of v mod 256^n *)
Fixpoint be_bytes (n : nat) (v : Z) : list Z :=
  match n with
  | O => []
  | S k => (v / 256 ^ Z.of_nat k) mod 256 :: be_bytes k v
  end.

(* ================================================================== binary builtins *)
(* Every spec is total on fval: ill-shaped arguments are TypeMismatch, arguments outside the
   documented domain are InvalidArgument. No spec mentions ropes, machine words or Panic. *)

Definition spec_binary_new (a : fval) : outcome fval :=
  match a with
  | FInt n => if (0 <=? n) && (n <=? MAX_BINARY_SIZE) then Val (FBin (repeat 0 (Z.to_nat n)))
              else Err InvalidArgument
  | _ => Err TypeMismatch
  end.

Definition spec_binary_length (a : fval) : outcome fval :=
  match a with FBin x => Val (FInt (blen x)) | _ => Err TypeMismatch end.

Definition spec_binary_concat (a : fval) : outcome fval :=
  match a with
  | FTup [FBin x; FBin y] => if blen x + blen y <=? MAX_BINARY_SIZE then Val (FBin (x ++ y))
                             else Err InvalidArgument
  | _ => Err TypeMismatch
  end.

(* count must be a usize; the repeated size must not exceed MAX_BINARY_SIZE *)
Definition spec_binary_repeat (a : fval) : outcome fval :=
  match a with
  | FTup [FBin x; FInt c] =>
      if (0 <=? c) && (c <? two64) && (blen x * c <=? MAX_BINARY_SIZE)
      then Val (FBin (concat (repeat x (Z.to_nat c)))) else Err InvalidArgument
  | _ => Err TypeMismatch
  end.

Definition pad_to (n : nat) (l : list Z) : list Z := l ++ repeat 0 (n - length l).
Definition map2 (f : Z -> Z -> Z) (l1 l2 : list Z) : list Z :=
  map (fun p => f (fst p) (snd p)) (combine l1 l2).

(* and: the shorter length; or/xor: the longer length, zero padded *)
Definition spec_binary_and (a : fval) : outcome fval :=
  match a with
  | FTup [FBin x; FBin y] => Val (FBin (map2 Z.land x y))
  | _ => Err TypeMismatch
  end.
Definition spec_padded (op : Z -> Z -> Z) (a : fval) : outcome fval :=
  match a with
  | FTup [FBin x; FBin y] =>
      let n := Nat.max (length x) (length y) in Val (FBin (map2 op (pad_to n x) (pad_to n y)))
  | _ => Err TypeMismatch
  end.
Definition spec_binary_or := spec_padded Z.lor.
Definition spec_binary_xor := spec_padded Z.lxor.

Definition spec_binary_not (a : fval) : outcome fval :=
  match a with FBin x => Val (FBin (map (fun b => 255 - b) x)) | _ => Err TypeMismatch end.

(* first index >= off of the byte, nil when absent *)
Definition spec_binary_index (a : fval) : outcome fval :=
  match a with
  | FTup [FBin x; FInt byte; FInt off] =>
      if (0 <=? byte) && (byte <? 256) && (0 <=? off) && (off <? two64)
      then Val (match find_from byte x off with Some i => FInt i | None => fnil end)
      else Err InvalidArgument
  | _ => Err TypeMismatch
  end.

(* logical shift of the big-endian bit string, length preserved: left = multiply by 2^k and drop
   the bits above 8n, right = divide by 2^|k| *)
Definition spec_binary_shift (a : fval) : outcome fval :=
  match a with
  | FTup [FBin x; FInt k] =>
      if in_i64 k then
        let n := length x in
        Val (FBin (be_bytes n (if 0 <=? k then (be_val x * 2 ^ k) mod 256 ^ Z.of_nat n
                               else be_val x / 2 ^ (- k))))
      else Err InvalidArgument
  | _ => Err TypeMismatch
  end.

(* number of set bits *)
Definition bits_set (b : Z) : Z :=
  Z.of_nat (length (filter (fun i => Z.testbit b (Z.of_nat i)) (seq 0 8))).
Definition spec_binary_popcount (a : fval) : outcome fval :=
  match a with
  | FBin x => Val (FInt (fold_right Z.add 0 (map bits_set x)))
  | _ => Err TypeMismatch
  end.

(* bit window [start, start+nb) of the 8n-bit big-endian string, start = 8*byte_offset+bit_offset *)
Definition window_ok (n bo bi nb : Z) : bool :=
  (0 <=? bo) && (0 <=? bi) && (bi <=? 7) && (1 <=? nb) && (nb <=? 64) && (8 * bo + bi + nb <=? 8 * n).

(* the integer denoted by those bits *)
Definition spec_binary_get (a : fval) : outcome fval :=
  match a with
  | FTup [FBin x; FInt bo; FInt bi; FInt nb] =>
      if window_ok (blen x) bo bi nb then
        let low := 8 * blen x - (8 * bo + bi) - nb in          (* bits to the right of the window *)
        Val (FInt ((be_val x / 2 ^ low) mod 2 ^ nb))
      else Err InvalidArgument
  | _ => Err TypeMismatch
  end.

(* replace those bits by v (0 <= v < 2^nb, and v must fit a signed 64-bit integer) *)
Definition spec_binary_set (a : fval) : outcome fval :=
  match a with
  | FTup [FBin x; FInt bo; FInt bi; FInt v; FInt nb] =>
      if window_ok (blen x) bo bi nb && (0 <=? v) && (v <? 2 ^ nb) && (v <? two63) then
        let low := 8 * blen x - (8 * bo + bi) - nb in
        let V := be_val x in
        Val (FBin (be_bytes (length x) ((V / 2 ^ (low + nb)) * 2 ^ (low + nb) + v * 2 ^ low + V mod 2 ^ low)))
      else Err InvalidArgument
  | _ => Err TypeMismatch
  end.

(* [start, end) *)
Definition spec_binary_slice (a : fval) : outcome fval :=
  match a with
  | FTup [FBin x; FInt s; FInt e] =>
      if (0 <=? s) && (s <=? e) && (e <=? blen x)
      then Val (FBin (firstn (Z.to_nat (e - s)) (skipn (Z.to_nat s) x)))
      else Err InvalidArgument
  | _ => Err TypeMismatch
  end.

(* FNV-1a *)
Definition spec_binary_hash32 (a : fval) : outcome fval :=
  match a with
  | FBin x => Val (FInt (fold_left (fun h b => (Z.lxor h b * 16777619) mod 2 ^ 32) x 2166136261))
  | _ => Err TypeMismatch
  end.
Definition spec_binary_hash64 (a : fval) : outcome fval :=
  match a with
  | FBin x => Val (FInt (to_i64 (fold_left (fun h b => (Z.lxor h b * 1099511628211) mod 2 ^ 64) x
                                           14695981039346656037)))
  | _ => Err TypeMismatch
  end.

(* append v as n big-endian bytes (1 <= n <= 8, 0 <= v < 256^n, v fits a signed 64-bit integer) *)
Definition spec_binary_append (a : fval) : outcome fval :=
  match a with
  | FTup [FBin x; FInt v; FInt n] =>
      if (1 <=? n) && (n <=? 8) && (0 <=? v) && (v <? 256 ^ n) && (v <? two63)
         && (blen x + n <=? MAX_BINARY_SIZE)
      then Val (FBin (x ++ be_bytes (Z.to_nat n) v)) else Err InvalidArgument
  | _ => Err TypeMismatch
  end.

(* ================================================================== vector kernels *)
(* a binary is a flat array of w-byte little-endian two's-complement lanes, w = 4 or 8 *)

Definition lane_ok (w v : Z) : bool := (- 2 ^ (8 * w - 1) <=? v) && (v <? 2 ^ (8 * w - 1)).
(* lane i = bytes [i*w, (i+1)*w) *)
Definition spec_lane (w : Z) (x : list Z) (i : Z) : Z :=
  to_signed (8 * w) (le_val (firstn (Z.to_nat w) (skipn (Z.to_nat (i * w)) x))).
Definition spec_lanes (w : Z) (x : list Z) : list Z := map (spec_lane w x) (zrange (blen x / w)).
Definition encode_lanes (w : Z) (vs : list Z) : list Z :=
  flat_map (fun v => le_bytes (Z.to_nat w) (v mod 2 ^ (8 * w))) vs.
Definition width_ok (w : Z) : bool := (w =? 4) || (w =? 8).

(* exact lane-wise op; nil when ragged, lengths differ, or any result lane overflows the width *)
Definition spec_elementwise (op : Z -> Z -> Z) (a : fval) : outcome fval :=
  match a with
  | FTup [FBin x; FBin y; FInt w] =>
      if negb (width_ok w) then Err InvalidArgument else
      if negb (blen x =? blen y) || negb (blen x mod w =? 0) then Val fnil else
      let r := map2 op (spec_lanes w x) (spec_lanes w y) in
      if forallb (lane_ok w) r then Val (FBin (encode_lanes w r)) else Val fnil
  | _ => Err TypeMismatch
  end.
Definition spec_vector_add := spec_elementwise Z.add.
Definition spec_vector_subtract := spec_elementwise Z.sub.
Definition spec_vector_multiply := spec_elementwise Z.mul.

(* one mask byte (1/0) per lane *)
Definition spec_compare (pred : Z -> Z -> bool) (a : fval) : outcome fval :=
  match a with
  | FTup [FBin x; FBin y; FInt w] =>
      if negb (width_ok w) then Err InvalidArgument else
      if negb (blen x =? blen y) || negb (blen x mod w =? 0) then Val fnil else
      Val (FBin (map2 (fun p q => if pred p q then 1 else 0) (spec_lanes w x) (spec_lanes w y)))
  | _ => Err TypeMismatch
  end.
Definition spec_vector_less_than := spec_compare Z.ltb.
Definition spec_vector_equal := spec_compare Z.eqb.
Definition spec_vector_greater_than := spec_compare Z.gtb.

(* keep the lanes whose mask byte is non-zero *)
Definition spec_vector_take (a : fval) : outcome fval :=
  match a with
  | FTup [FBin d; FInt w; FBin m] =>
      if negb (width_ok w) then Err InvalidArgument else
      if negb (blen d mod w =? 0) || negb (blen m =? blen d / w) then Val fnil else
      Val (FBin (concat (map (fun p : Z * Z =>
                                if snd p =? 0 then []
                                else firstn (Z.to_nat w) (skipn (Z.to_nat (fst p * w)) d))
                             (combine (zrange (blen m)) m))))
  | _ => Err TypeMismatch
  end.

Definition spec_vector_get (a : fval) : outcome fval :=
  match a with
  | FTup [FBin x; FInt w; FInt i] =>
      if negb (width_ok w) then Err InvalidArgument else
      if (blen x mod w =? 0) && (0 <=? i) && (i <? blen x / w) then Val (FInt (spec_lane w x i))
      else Val fnil
  | _ => Err TypeMismatch
  end.

Definition spec_vector_push (a : fval) : outcome fval :=
  match a with
  | FTup [FBin x; FInt w; FInt v] =>
      if negb (width_ok w) then Err InvalidArgument else
      if negb (lane_ok w v && (blen x mod w =? 0)) then Val fnil else
      if blen x + w <=? MAX_BINARY_SIZE then Val (FBin (x ++ encode_lanes w [v]))
      else Err InvalidArgument
  | _ => Err TypeMismatch
  end.

Definition spec_vector_sum (a : fval) : outcome fval :=
  match a with
  | FTup [FBin x; FInt w] =>
      if negb (width_ok w) then Err InvalidArgument else
      if negb (blen x mod w =? 0) then Val fnil else
      Val (FInt (fold_right Z.add 0 (spec_lanes w x)))
  | _ => Err TypeMismatch
  end.

Definition spec_vector_dot (a : fval) : outcome fval :=
  match a with
  | FTup [FBin x; FBin y; FInt w] =>
      if negb (width_ok w) then Err InvalidArgument else
      if negb (blen x =? blen y) || negb (blen x mod w =? 0) then Val fnil else
      Val (FInt (fold_right Z.add 0 (map2 Z.mul (spec_lanes w x) (spec_lanes w y))))
  | _ => Err TypeMismatch
  end.

(* ================================================================== integer builtins, bitwise family *)
Definition spec_integer_not (a : fval) : outcome fval :=
  match a with
  | FInt n => if in_i64 n then Val (FInt (spec_not n)) else Err InvalidArgument
  | _ => Err TypeMismatch
  end.
(* shift left wraps to 64 bits; shift right is arithmetic (floor division) *)
Definition spec_integer_shift (a : fval) : outcome fval :=
  match a with
  | FTup [FInt v; y] =>
      if in_i64 v then
        match y with
        | FInt k => if in_i64 k then Val (FInt (if 0 <=? k then spec_shl v k else spec_sar v (- k)))
                    else Err InvalidArgument
        | _ => Err TypeMismatch
        end
      else Err InvalidArgument
  | FTup [_; _] => Err TypeMismatch
  | FTup _ => Err InvalidArgument
  | _ => Err TypeMismatch
  end.
Definition spec_integer_popcount (a : fval) : outcome fval :=
  match a with
  | FInt n => if in_i64 n then Val (FInt (spec_popcount64 n)) else Err InvalidArgument
  | _ => Err TypeMismatch
  end.
