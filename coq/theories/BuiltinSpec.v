(* BuiltinSpec.v — reference models ("plain" mathematics over unbounded Z and flat byte lists)
   that the implementation models of Builtins.v are proved equal to. *)
From Quiver Require Export Builtins.

(* the 64-bit two's-complement image used by the bitwise integer builtins *)
Definition spec_bitop (op : Z -> Z -> Z) (a b : Z) : Z := to_i64 (op (wrap_u64 a) (wrap_u64 b)).
Definition spec_not (a : Z) : Z := to_i64 (two64 - 1 - wrap_u64 a).
Definition spec_shl (v k : Z) : Z := to_i64 (wrap_u64 v * 2 ^ k).
Definition spec_sar (v k : Z) : Z := v / 2 ^ k.     (* floor division = sign-extending shift *)

(* number of set bits among the low 64 bits *)
Definition spec_popcount64 (z : Z) : Z :=
  Z.of_nat (length (filter (fun i => Z.testbit (wrap_u64 z) (Z.of_nat i)) (seq 0 64))).
