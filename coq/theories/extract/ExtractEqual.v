(* Extraction of the equality / ref-minting model for the C13 correspondence driver
   (ExtrOcamlBasic only). *)
Require Extraction.
Require Import ExtrOcamlBasic.
From Quiver Require Import Equal.
Extraction Language OCaml.
Extraction "extracted/equal_model.ml"
  values_equal erase evalue_eqb compute_canonical canonical_tuple wf_valueb update_tables
  handle_equal handle_not pin_matches create_ref run_mints.
