(* Extraction of the dict (HAMT) model instantiated with Quiver keys and FNV-1a 32 for the
   correspondence driver (ExtrOcamlBasic only). *)
Require Extraction.
Require Import ExtrOcamlBasic.
From Quiver Require Import Hamt.
Extraction Language OCaml.
Extraction "extracted/hamt_model.ml"
  d_new q_get q_put q_remove q_has q_entries q_count q_keys q_values q_iter q_from q_merge qhash.
