(* Extraction of the type-table / relation / narrowing models and of the semantic oracle
   (ExtrOcamlBasic only). *)
Require Extraction.
Require Import ExtrOcamlBasic.
From Quiver Require Import Types Rel Sem Narrow Oracle.
Extraction Language OCaml.
Extraction "extracted/types_model.ml"
  new_registry register_tuple register_type lookup_type lookup_tuple
  legacy_cfg f7_cfg fixed_cfg partial_cfg current_cfg check_rel is_compatible_with types_overlap_with
  union_type_ids intersect_types compute_complement filter_variants_by_field
  closedb cycle_freeb enum_inhab inhabb
  cex_sound cex_disjoint cex_intersect cex_complement cex_filter count current_filter_by_overlap.
