(* Extraction of the select machine, its specification and the await-protocol model for the C05
   correspondence driver (ExtrOcamlBasic only). *)
Require Extraction.
Require Import ExtrOcamlBasic.
From Quiver Require Import Base.
From Quiver Require Import sel.Select sel.SelectSpec.
Extraction Language OCaml.
Extraction "extracted/select_model.ml"
  initial step step_action expired apply_event run next_timeout select_spec
  handle_process_results env_run delivered latest.
