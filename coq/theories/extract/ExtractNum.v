(* Extraction of the %num model for the correspondence driver (ExtrOcamlBasic only). *)
Require Extraction.
Require Import ExtrOcamlBasic.
From Quiver Require Import Num.
Extraction Language OCaml.
Extraction "extracted/num_model.ml" run_op lit_reduce reduce sqfree.
