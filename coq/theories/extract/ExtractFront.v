(* Extraction of the C18 termination-bound definitions together with the models they bound
   (ExtrOcamlBasic only). *)
Require Extraction.
Require Import ExtrOcamlBasic.
From Quiver Require Import Types Rel Narrow RelProofs.
From Quiver.front Require Import Totality IntersectTermProofs.
Extraction Language OCaml.
Extraction "extracted/front_model.ml"
  new_registry register_tuple register_type lookup_type lookup_tuple
  current_cfg partial_cfg check_rel is_compatible_with types_overlap_with
  intersect_types compute_complement
  topob closed_tuplesb ntypes rel_bound narrow_bound cc_bound rel_depth isect_depth compl_depth.
