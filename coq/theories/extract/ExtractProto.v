(* Extraction of the protocol model M-Sys (sys/Proto.v) for the C03/C04/C15 trace-replay driver
   (ExtrOcamlBasic only), together with the boolean forms of the oracle premises of the global
   theorems (sys/ProtoPremises.v: premises_step), which the driver evaluates on every replayed
   action of a real trace. *)
Require Extraction.
Require Import ExtrOcamlBasic.
From Quiver Require Import sys.Proto sys.ProtoPremises.
Extraction Language OCaml.
Extraction "extracted/proto_model.ml" init sys_step run premises_step resume_honest_stepb.
