(* Extraction of the protocol model M-Sys (sys/Proto.v) for the C03/C04/C15 trace-replay driver
   (ExtrOcamlBasic only). *)
Require Extraction.
Require Import ExtrOcamlBasic.
From Quiver Require Import sys.Proto.
Extraction Language OCaml.
Extraction "extracted/proto_model.ml" init sys_step run.
