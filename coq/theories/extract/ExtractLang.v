(* Extraction of the reference evaluator (M-Lang) for the C02 correspondence driver
   (ExtrOcamlBasic only). *)
Require Extraction.
Require Import ExtrOcamlBasic.
From Quiver Require Import lang.Lang lang.LangSimplify lang.LangCompile.
Extraction Language OCaml.
Extraction "extracted/lang_model.ml" eval_program eval normalize compile_program function_code collect_chains first_free_atom
  a_Ok a_Str b_integer_add b_integer_subtract b_integer_multiply b_integer_divide b_integer_modulo
  b_integer_compare b_integer_abs b_integer_gcd b_integer_sqrt b_binary_concat b_binary_length
  u_process u_type u_builtin u_module u_toplevel_tail u_typevar.
