(* Extraction of the runtime type-test table model (Compat.v) with the relation model it uses and
   the value semantics (for the end-to-end verdict oracle).  ExtrOcamlBasic only. *)
Require Extraction.
Require Import ExtrOcamlBasic.
From Quiver Require Import Types Rel Sem Compat.
Extraction Language OCaml.
Extraction "extracted/compat_model.ml"
  current_cfg build_index compute_compatible_concrete_types compute_type_compatibility
  compute_param_compatibility param_tables check_type_compatible check_message_compatible
  is_compatible_with closedb inhabb enum_inhab.
