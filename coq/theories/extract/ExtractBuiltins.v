(* Extraction of the builtin models for the correspondence driver (ExtrOcamlBasic only). *)
Require Extraction.
Require Import ExtrOcamlBasic.
From Quiver Require Import Builtins.
Extraction Language OCaml.
Extraction "extracted/builtins_model.ml"
  rlen byte_at bytes_of mk_concat mk_slice mk_tiled find_byte rope_iter
  impl_integer_abs impl_integer_sqrt impl_integer_add impl_integer_subtract impl_integer_multiply
  impl_integer_gcd impl_integer_divide impl_integer_modulo impl_integer_compare
  impl_integer_and impl_integer_or impl_integer_xor impl_integer_not impl_integer_shift
  impl_integer_popcount.
