(* Extraction of the builtin models for the correspondence driver (ExtrOcamlBasic only). *)
Require Extraction.
Require Import ExtrOcamlBasic.
From Quiver Require Import Builtins.
Extraction Language OCaml.
Extraction "extracted/builtins_model.ml"
  rlen byte_at bytes_of mk_concat mk_slice mk_tiled find_byte rope_iter
  impl_integer_abs impl_integer_sqrt impl_integer_add impl_integer_subtract impl_integer_multiply
  impl_integer_gcd impl_integer_divide impl_integer_modulo impl_integer_compare
  impl_integer_and impl_integer_or impl_integer_xor impl_integer_not impl_integer_shift
  impl_integer_popcount
  impl_binary_new impl_binary_length impl_binary_concat impl_binary_repeat
  impl_binary_and impl_binary_or impl_binary_xor impl_binary_not impl_binary_shift
  impl_binary_popcount impl_binary_get impl_binary_set impl_binary_slice impl_binary_index
  impl_binary_hash32 impl_binary_hash64 impl_binary_append
  impl_vector_add impl_vector_subtract impl_vector_multiply impl_vector_less_than impl_vector_equal
  impl_vector_greater_than impl_vector_dot impl_vector_take impl_vector_get impl_vector_push
  impl_vector_sum.
