(* Extraction of the resource-ownership automaton for the C14 correspondence driver
   (ExtrOcamlBasic only). *)
Require Extraction.
Require Import ExtrOcamlBasic.
From Quiver Require Import res.Own.
Extraction Language OCaml.
Extraction "extracted/own_model.ml" init step new_calls lookup rids_of closes
  anyb early_reportb stale_useb stale_transferb issued memb.
