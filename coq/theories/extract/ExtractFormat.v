(* Extraction of the C17 models for the correspondence driver (ExtrOcamlBasic only). *)
Require Extraction.
Require Import ExtrOcamlBasic.
From Quiver Require Import Ast Simplify.
Extraction Language OCaml.
Extraction "extracted/format_model.ml"
  normalize_blocks compiler_options formatter_options keep_by_span.
