(* Extraction of the C17 models for the correspondence driver (ExtrOcamlBasic only). *)
Require Extraction.
Require Import ExtrOcamlBasic.
From Quiver Require Import Ast Simplify Escape Pretty FormatFrag FormatFrag2.
Extraction Language OCaml.
Extraction "extracted/format_model.ml"
  normalize_blocks compiler_options formatter_options keep_by_span
  escape_single unescape scan_single render_multiline process_multiline process_multiline_term
  scan_multiline_raw multiline_dedent process_escapes
  Pretty.print Pretty.group Pretty.forces_break
  FormatFrag.format_frag FormatFrag.parse_frag FormatFrag.wf_chain FormatFrag.flatten FormatFrag.flat_width
  Pretty.strip_trailing_whitespace
  FormatFrag2.format_frag2 FormatFrag2.parse_frag2 FormatFrag2.g_wf_seq FormatFrag2.g_normalize.
