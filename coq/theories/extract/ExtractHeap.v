(* Extraction of the heap-accounting model (ExtrOcamlBasic only). *)
Require Extraction.
Require Import ExtrOcamlBasic.
From Quiver Require Import heap.HeapVm heap.HeapVmFix.
Extraction Language OCaml.
Extraction "extracted/heap_model.ml"
  empty_heap exec_step spawn_process spawn_process_f46 notify_message notify_result report_await notify_spawn
  compact_locals replace_locals release_orphan_locals fail_result resume_process extract inject
  all_refs proc_refs refs_of rc_at bytes_of mkExec.
