(* Extraction of the per-process machine (vm/Vm.v `step`) for the value-level lock-step
   correspondence with executor.rs (ExtrOcamlBasic only). *)
Require Extraction.
Require Import ExtrOcamlBasic.
From Quiver Require Import vm.Vm.
Extraction Language OCaml.
Extraction "extracted/vmstep_model.ml" step init_state is_nil structural.
