(* Extraction of the REPL bookkeeping model for the C11 correspondence driver (ExtrOcamlBasic only). *)
Require Extraction.
Require Import ExtrOcamlBasic.
From Quiver Require Import repl.Repl.
Extraction Language OCaml.
Extraction "extracted/repl_model.ml"
  initial forget evaluate run_history request_variable get_variables keep_indices local_count compact
  session_of run_seq run_lines line_values.
