(* Extraction of the bytecode verifier (ExtrOcamlBasic only). *)
Require Extraction.
Require Import ExtrOcamlBasic.
From Quiver Require Import vm.Wf vm.Tables.
Extraction Language OCaml.
Extraction "extracted/wf_model.ml"
  verify_program verify_function infer_function infer_function_at check_function check_function_at
  check_pc check_program max_height max_locals transfer tables_ok.
