(* Extraction of the renaming validator (ExtrOcamlBasic only). *)
Require Extraction.
Require Import ExtrOcamlBasic.
From Quiver Require Import vm.Remap vm.RemapShake vm.RemapMerge.
Extraction Language OCaml.
Extraction "extracted/remap_model.ml"
  is_renaming chk_fun chk_const chk_tuple chk_type chk_builtin chk_res chk_row canon_ok maps_to
  forall_map instr_ok ren_instr ren_type rows_commute row_of project emit_cached emit_inputs emit_injected
  xrun run istype_verdict equal_verdict init_state struct_ok rows_ok rows_dumped instr_img
  tree_shake shake_rho shake_marks wf_program loaded merge merge_premises backward_refs no_process.
