(* Extraction of the renaming validator (ExtrOcamlBasic only). *)
Require Extraction.
Require Import ExtrOcamlBasic.
From Quiver Require Import vm.Remap.
Extraction Language OCaml.
Extraction "extracted/remap_model.ml"
  is_renaming chk_fun chk_const chk_tuple chk_type chk_builtin chk_res chk_row canon_ok maps_to
  forall_map instr_ok ren_instr ren_type rows_commute row_of project emit_cached emit_inputs emit_injected
  xrun run istype_verdict equal_verdict init_state.
