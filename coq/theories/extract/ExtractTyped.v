(* Extraction of the C01 judgement (ExtrOcamlBasic only): erasure, the membership decision
   `judge` (= Sem.walk_inh with a bounded signature enumeration), `wt_valueb`, the enumerator of
   inputs of a parameter type, and the mirrored builtin signature table. *)
Require Extraction.
Require Import ExtrOcamlBasic.
From Quiver Require Import Types Sem typed.Typed.
Extraction Language OCaml.
Extraction "extracted/typed_model.ml"
  mk_tprog erase judge wt_valueb enum_inputs generic_fun vdepth sig_table open_reg var_freeb closedb inhabb.
