(* Extraction of the C01 judgement (ExtrOcamlBasic only): erasure, the membership decision
   `judge` (= Sem.walk_inh with a bounded signature enumeration), `wt_valueb`, the enumerator of
   inputs of a parameter type, and the mirrored builtin signature table; and the core-fragment typing judgement `infer` with its
   evaluator `eval` (typed/Core.v, proved sound in typed/CoreProofs.v). *)
Require Extraction.
Require Import ExtrOcamlBasic.
From Quiver Require Import Types Sem typed.Typed typed.Core.
Extraction Language OCaml.
Extraction "extracted/typed_model.ml"
  infer infer_prog eval memb
  mk_tprog erase judge wt_valueb enum_inputs generic_fun vdepth sig_table open_reg var_freeb closedb inhabb.
