(* HamtInstance.v — the hypotheses of HamtProofs.v hold for the concrete instance that the
   correspondence check executes (Quiver keys, FNV-1a 32), and non-vacuity examples: concrete deep
   trees with collision buckets satisfy the invariant. *)
From Coq Require Import List ZArith Bool Lia Permutation.
From Quiver Require Import Hamt HamtBits HamtProofs.
Import ListNotations.
Open Scope Z_scope.

Lemma bytes_eqb_spec a : forall b, bytes_eqb a b = true <-> a = b.
Proof.
  induction a as [|x a IH]; intros [|y b]; cbn [bytes_eqb]; try (split; [discriminate|discriminate]); [tauto|].
  rewrite andb_true_iff, Z.eqb_eq, IH. split; [intros [-> ->]; reflexivity|intros H; inversion H; tauto].
Qed.

Lemma qkey_eqb_spec a b : qkey_eqb a b = true <-> a = b.
Proof.
  destruct a as [x|x], b as [y|y]; cbn [qkey_eqb]; try (split; [discriminate|discriminate]);
    rewrite bytes_eqb_spec; split; congruence.
Qed.

Lemma fnv_fold_range bs : forall h, 0 <= h < 2 ^ 32 ->
  0 <= fold_left (fun h b => (Z.lxor h b * 16777619) mod 2 ^ 32) bs h < 2 ^ 32.
Proof.
  induction bs as [|b bs IH]; intros h Hh; cbn [fold_left]; [exact Hh|].
  apply IH. apply Z.mod_pos_bound. reflexivity.
Qed.

Lemma qhash_range k : 0 <= qhash k < 2 ^ 32.
Proof. unfold qhash, fnv1a32. apply fnv_fold_range. split; [discriminate|reflexivity]. Qed.

Definition QInv : qdict -> Prop := Inv qkey Z qhash.
Definition qabs : qdict -> qkey -> option Z := abs qkey Z qkey_eqb.

Lemma QInv_put d k v d' : QInv d -> q_put d k v = Some d' -> QInv d'.
Proof.
  intros HI Hp. destruct (put_correct qkey Z qkey_eqb qhash qkey_eqb_spec qhash_range d k v HI) as (d'' & H1 & H2 & _).
  unfold q_put in Hp. rewrite Hp in H1. inversion H1. subst. exact H2.
Qed.

Lemma QInv_remove d k d' : QInv d -> q_remove d k = Some d' -> QInv d'.
Proof.
  intros HI Hp. destruct (remove_correct qkey Z qkey_eqb qhash qkey_eqb_spec d k HI) as (d'' & H1 & H2 & _).
  unfold q_remove in Hp. rewrite Hp in H1. inversion H1. subst. exact H2.
Qed.

(* ---------------------------------------------------------------- non-vacuity *)

(* Two binaries with the same FNV-1a 32 hash 1742542030 (found by birthday search, see
   corpus/c19_colliding_keys.txt), the Str twin of the first (same bytes, same hash, different
   key), and a binary that shares the first four 5-bit fragments with them. *)
Definition kA : qkey := KBin [0x1f; 0x63; 0x2e; 0xe1].
Definition kB : qkey := KBin [0x33; 0xf2; 0x46; 0xd8].
Definition kA' : qkey := KStr [0x1f; 0x63; 0x2e; 0xe1].
Definition kC : qkey := KBin [0x4b; 0x6e; 0x8e; 0x94; 0x2c].

Example ex_hashes : qhash kA = 1742542030 /\ qhash kB = 1742542030 /\ qhash kA' = 1742542030 /\
                    qhash kC <> 1742542030 /\ agree 4 (qhash kC) (qhash kA) /\ frag (qhash kC) 4 <> frag (qhash kA) 4.
Proof.
  split; [vm_compute; reflexivity|]. split; [vm_compute; reflexivity|]. split; [vm_compute; reflexivity|].
  split; [vm_compute; congruence|]. split; [|vm_compute; congruence].
  intros j Hj. do 4 (destruct j as [|j]; [vm_compute; reflexivity|]). lia.
Qed.

Definition ex_tree : qdict :=
  Node 16384 [Node 64 [Node 32 [Node 67108864 [Node 536871936
    [Leaf 413996238 kC 4; Collision 1742542030 [(kA, 1); (kB, 2); (kA', 3)]]]]]].

(* the real operations build this 5-level tree with a 3-entry collision bucket at the bottom *)
Example ex_tree_built :
  match q_put Empty kA 1 with Some d1 => match q_put d1 kB 2 with Some d2 =>
  match q_put d2 kA' 3 with Some d3 => q_put d3 kC 4 | None => None end | None => None end | None => None end
  = Some ex_tree.
Proof. vm_compute. reflexivity. Qed.

(* ... and it satisfies the invariant: Inv is not vacuous on deep trees with collision buckets *)
Example ex_tree_inv : QInv ex_tree.
Proof.
  pose proof ex_tree_built as H.
  destruct (q_put Empty kA 1) as [d1|] eqn:E1; [|discriminate].
  destruct (q_put d1 kB 2) as [d2|] eqn:E2; [|discriminate].
  destruct (q_put d2 kA' 3) as [d3|] eqn:E3; [|discriminate].
  eapply QInv_put; [|exact H]. eapply QInv_put; [|exact E3]. eapply QInv_put; [|exact E2].
  eapply QInv_put; [|exact E1]. apply Inv_empty.
Qed.

(* removing down to one bucket entry collapses the whole chain to a single Leaf; the old version
   still answers as before *)
Example ex_collapse :
  match q_remove ex_tree kC with Some d1 => match q_remove d1 kA with Some d2 =>
  match q_remove d2 kA' with Some d3 => Some (d1, d3) | None => None end | None => None end | None => None end
  = Some (Collision 1742542030 [(kA, 1); (kB, 2); (kA', 3)], Leaf 1742542030 kB 2)
  /\ q_get ex_tree kC = Some (Some 4) /\ q_get ex_tree kA' = Some (Some 3) /\ q_count ex_tree = Some 4.
Proof. vm_compute. split; [reflexivity|]. split; [reflexivity|]. split; reflexivity. Qed.
