(* BuiltinAll.v — the per-builtin theorems collected: every modelled binary_*/vector_* builtin agrees
   with its reference spec; consequences: shape independence and panic-freedom for all of them. *)
From Quiver Require Import BuiltinWf BinaryProofs BinaryShiftProofs BinaryBitsProofs VectorProofs.
From Coq Require Import Lia.

(* (implementation model, reference spec) of every binary_* and vector_* builtin *)
Definition rope_builtins : list ((bval -> outcome bval) * (fval -> outcome fval)) :=
  [ (impl_binary_new, spec_binary_new); (impl_binary_length, spec_binary_length);
    (impl_binary_concat, spec_binary_concat); (impl_binary_repeat, spec_binary_repeat);
    (impl_binary_and, spec_binary_and); (impl_binary_or, spec_binary_or); (impl_binary_xor, spec_binary_xor);
    (impl_binary_not, spec_binary_not); (impl_binary_shift, spec_binary_shift);
    (impl_binary_popcount, spec_binary_popcount); (impl_binary_get, spec_binary_get);
    (impl_binary_set, spec_binary_set); (impl_binary_slice, spec_binary_slice);
    (impl_binary_index, spec_binary_index); (impl_binary_hash32, spec_binary_hash32);
    (impl_binary_hash64, spec_binary_hash64); (impl_binary_append, spec_binary_append);
    (impl_vector_add, spec_vector_add); (impl_vector_subtract, spec_vector_subtract);
    (impl_vector_multiply, spec_vector_multiply); (impl_vector_less_than, spec_vector_less_than);
    (impl_vector_equal, spec_vector_equal); (impl_vector_greater_than, spec_vector_greater_than);
    (impl_vector_dot, spec_vector_dot); (impl_vector_take, spec_vector_take); (impl_vector_get, spec_vector_get);
    (impl_vector_push, spec_vector_push); (impl_vector_sum, spec_vector_sum) ].

Theorem rope_builtins_agree : Forall (fun p => agrees (fst p) (snd p)) rope_builtins.
Proof.
  unfold rope_builtins.
  repeat (apply Forall_cons; [cbn [fst snd]; first
    [ exact binary_new_correct | exact binary_length_correct | exact binary_concat_correct
    | exact binary_repeat_correct | exact binary_and_correct | exact binary_or_correct
    | exact binary_xor_correct | exact binary_not_correct | exact binary_shift_correct
    | exact binary_popcount_correct | exact binary_get_correct | exact binary_set_correct
    | exact binary_slice_correct | exact binary_index_correct | exact binary_hash32_correct
    | exact binary_hash64_correct | exact binary_append_correct
    | exact vector_add_correct | exact vector_subtract_correct | exact vector_multiply_correct
    | exact vector_less_than_correct | exact vector_equal_correct | exact vector_greater_than_correct
    | exact vector_dot_correct | exact vector_take_correct | exact vector_get_correct
    | exact vector_push_correct | exact vector_sum_correct ] |]).
  apply Forall_nil.
Qed.

(* results do not depend on how an argument binary was built: equal flattened arguments (equal
   bytes, any rope shapes) give equal flattened outcomes *)
Theorem rope_builtins_shape_independent :
  Forall (fun p : (bval -> outcome bval) * (fval -> outcome fval) =>
            forall a1 a2, wf_bval a1 -> wf_bval a2 -> flatten a1 = flatten a2 ->
                          flatten_out (fst p a1) = flatten_out (fst p a2)) rope_builtins.
Proof.
  eapply Forall_impl; [|exact rope_builtins_agree].
  intros p Hp. exact (agrees_shape_independent _ _ Hp).
Qed.

(* no builtin panics on an argument whose binaries are well-formed, and the invariant is inductive *)
Theorem rope_builtins_total :
  Forall (fun p : (bval -> outcome bval) * (fval -> outcome fval) =>
            forall a, wf_bval a -> wf_out (fst p a)) rope_builtins.
Proof.
  eapply Forall_impl; [|exact rope_builtins_agree].
  intros p Hp a Ha. exact (proj2 (Hp a Ha)).
Qed.

(* non-vacuity of the shape-independence statement: two different shapes of the same 4 bytes *)
Example shape_pair :
  let a1 := BTup [BBin (Owned [0;0;7;7]); BInt 4] in
  let a2 := BTup [BBin (Concat (Zeroed 2) (Tiled (Owned [7]) 2) 4); BInt 4] in
  wf_bval a1 /\ wf_bval a2 /\ flatten a1 = flatten a2 /\ a1 <> a2.
Proof.
  cbn zeta. split; [|split; [|split]].
  - cbn [wf_bval wf rlen length]. unfold bytes_ok, MAX_BINARY_SIZE. repeat split; try lia; repeat constructor; lia.
  - cbn [wf_bval wf rlen length]. unfold bytes_ok, MAX_BINARY_SIZE. repeat split; try lia; repeat constructor; lia.
  - reflexivity.
  - discriminate.
Qed.
