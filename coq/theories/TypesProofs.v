(* TypesProofs.v — registry monotonicity: register_type / register_tuple only append (or find),
   never change an existing entry, return an id that denotes exactly the registered entry, and
   therefore never change the meaning (`inhab`) of an existing id. *)
From Quiver Require Import Base Types Sem.
From Coq Require Import Arith Lia.
Close Scope Z_scope.
Open Scope nat_scope.

Lemma opt_eqb_true o1 o2 : opt_eqb o1 o2 = true -> o1 = o2.
Proof. destruct o1, o2; cbn; intros H; try discriminate; [apply Nat.eqb_eq in H; congruence|reflexivity]. Qed.

Lemma list_eqb_true {A} (eqb : A -> A -> bool) :
  (forall x y, eqb x y = true -> x = y) -> forall l1 l2, list_eqb eqb l1 l2 = true -> l1 = l2.
Proof.
  intros Heq. induction l1 as [|x l1 IH]; intros [|y l2] H; cbn in H; try discriminate; [reflexivity|].
  apply andb_true_iff in H. destruct H as [H1 H2]. f_equal; [apply Heq; exact H1|apply IH; exact H2].
Qed.

Lemma pfield_eqb_true f1 f2 : pfield_eqb f1 f2 = true -> f1 = f2.
Proof.
  destruct f1, f2. unfold pfield_eqb. cbn. intros H. apply andb_true_iff in H. destruct H as [H1 H2].
  apply Nat.eqb_eq in H1. apply Nat.eqb_eq in H2. congruence.
Qed.

Lemma tfield_eqb_true f1 f2 : tfield_eqb f1 f2 = true -> f1 = f2.
Proof.
  destruct f1, f2. unfold tfield_eqb. cbn. intros H. apply andb_true_iff in H. destruct H as [H1 H2].
  apply opt_eqb_true in H1. apply Nat.eqb_eq in H2. congruence.
Qed.

Lemma ty_eqb_true t1 t2 : ty_eqb t1 t2 = true -> t1 = t2.
Proof.
  destruct t1, t2; cbn; intros H; try discriminate; try reflexivity;
    repeat match goal with H : _ && _ = true |- _ => apply andb_true_iff in H; destruct H end;
    repeat match goal with
           | H : Nat.eqb _ _ = true |- _ => apply Nat.eqb_eq in H
           | H : opt_eqb _ _ = true |- _ => apply opt_eqb_true in H
           | H : list_eqb pfield_eqb _ _ = true |- _ => apply (list_eqb_true _ pfield_eqb_true) in H
           | H : list_eqb Nat.eqb _ _ = true |- _ => apply (list_eqb_true _ (fun x y => proj1 (Nat.eqb_eq x y))) in H
           end; congruence.
Qed.

Lemma position_spec {A} (pred : A -> bool) l i :
  position pred l = Some i -> exists x, nth_error l i = Some x /\ pred x = true.
Proof.
  revert i. induction l as [|a l IH]; intros i H; cbn in H; [discriminate|].
  destruct (pred a) eqn:Hp.
  - inversion H; subst. exists a. split; [reflexivity|exact Hp].
  - destruct (position pred l) as [j|] eqn:Hj; [|discriminate]. cbn in H. inversion H; subst.
    destruct (IH j eq_refl) as [x [Hx Hpx]]. exists x. split; assumption.
Qed.

(* P' extends P: every existing entry is unchanged *)
Definition extends (P P' : registry) : Prop :=
  (forall i t, lookup_type P i = Some t -> lookup_type P' i = Some t) /\
  (forall i t, lookup_tuple P i = Some t -> lookup_tuple P' i = Some t).

Lemma extends_refl P : extends P P.
Proof. split; auto. Qed.

Lemma extends_trans P1 P2 P3 : extends P1 P2 -> extends P2 P3 -> extends P1 P3.
Proof. intros [A1 B1] [A2 B2]. split; auto. Qed.

Lemma nth_error_app_some {A} (l l' : list A) i x : nth_error l i = Some x -> nth_error (l ++ l') i = Some x.
Proof. intros H. rewrite nth_error_app1; [exact H|]. apply nth_error_Some. congruence. Qed.

Theorem register_type_spec P t P' id :
  register_type P t = (P', id) -> extends P P' /\ lookup_type P' id = Some t.
Proof.
  unfold register_type. destruct (position (ty_eqb t) (types P)) as [i|] eqn:Hpos; intros H; inversion H; subst.
  - split; [apply extends_refl|]. destruct (position_spec _ _ _ Hpos) as [x [Hx Hp]].
    apply ty_eqb_true in Hp. subst x. exact Hx.
  - split.
    + split; cbn; [intros i t0 Hl; apply nth_error_app_some; exact Hl|auto].
    + unfold lookup_type. cbn. rewrite nth_error_app2 by lia. rewrite Nat.sub_diag. reflexivity.
Qed.

Theorem register_tuple_spec P name fields P' id :
  register_tuple P name fields = (P', id) ->
  extends P P' /\ lookup_tuple P' id = Some (mk_tuple name fields).
Proof.
  unfold register_tuple. destruct (position (tuple_eqb name fields) (tuples P)) as [i|] eqn:Hpos; intros H; inversion H; subst.
  - split; [apply extends_refl|]. destruct (position_spec _ _ _ Hpos) as [x [Hx Hp]].
    unfold tuple_eqb in Hp. apply andb_true_iff in Hp. destruct Hp as [Hn Hf].
    apply opt_eqb_true in Hn. apply (list_eqb_true _ tfield_eqb_true) in Hf.
    destruct x as [xn xf]. cbn in Hn, Hf. subst. exact Hx.
  - split.
    + split; cbn; [auto|intros i t0 Hl; apply nth_error_app_some; exact Hl].
    + unfold lookup_tuple. cbn. rewrite nth_error_app2 by lia. rewrite Nat.sub_diag. reflexivity.
Qed.

(* first-order values: no function / process value inside *)
Fixpoint fov (v : value) : bool :=
  match v with
  | VTup _ fs => (fix go (l : list (option nat * value)) : bool :=
                    match l with [] => true | (_, x) :: l' => fov x && go l' end) fs
  | VFun _ | VProc _ => false
  | _ => true
  end.

Lemma fov_fields name fs : fov (VTup name fs) = true -> forall f, In f fs -> fov (snd f) = true.
Proof.
  induction fs as [|[l x] fs IH]; intros H f Hin; [destruct Hin|]. cbn in H.
  apply andb_true_iff in H. destruct H as [Hx Hr]. destruct Hin as [<-|Hin]; [exact Hx|apply IH; assumption].
Qed.

Lemma Forall2_field_ok_vals (R1 R2 : value -> nat -> Prop) fs vs :
  (forall (f : option nat * nat) (fv : option nat * value), In fv vs -> R1 (snd fv) (snd f) -> R2 (snd fv) (snd f)) ->
  Forall2 (field_ok R1) fs vs -> Forall2 (field_ok R2) fs vs.
Proof.
  intros Himp HF. induction HF as [|f fv fs' vs' [Hl Hr] HF IH]; constructor.
  - split; [exact Hl|]. apply Himp; [left; reflexivity|exact Hr].
  - apply IH. intros f0 fv0 Hin. apply Himp. right; exact Hin.
Qed.

(* the meaning of an id is preserved by every extension of the registry (first-order values) *)
Theorem inhab_extends P P' : extends P P' ->
  forall n E v t, fov v = true -> inhab P n E v t -> inhab P' n E v t.
Proof.
  intros [HT HU] n. induction n as [|m IH]; intros E v t Hfo H; [exact H|]. cbn [inhab] in *.
  induction H.
  - apply Inh_int; auto.
  - apply Inh_bin; auto.
  - apply Inh_ref; auto.
  - apply Inh_res; auto.
  - eapply Inh_union; [apply HT; eassumption|eassumption|]. apply IHInh. exact Hfo.
  - eapply Inh_cycle; [apply HT; eassumption|eassumption|]. apply IHInh. exact Hfo.
  - eapply Inh_dangling; [apply HT; eassumption|assumption].
  - eapply Inh_tuple; [apply HT; eassumption|apply HU; eassumption|].
    pose proof (fov_fields _ _ Hfo) as Hf.
    eapply Forall2_field_ok_vals; [|eassumption].
    intros f0 fv Hin Hr. apply IH; [apply Hf; exact Hin|exact Hr].
  - eapply Inh_partial; [apply HT; eassumption|assumption|].
    intros l ft Hin. match goal with Hall : forall l ft, In (l, ft) _ -> _ |- _ => destruct (Hall l ft Hin) as [fv [Hfv Hr]] end.
    exists fv. split; [exact Hfv|]. apply IH; [apply (fov_fields _ _ Hfo (Some l, fv)); exact Hfv|exact Hr].
  - discriminate.
  - discriminate.
Qed.
