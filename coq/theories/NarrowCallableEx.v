(* NarrowCallableEx.v — NarrowCallable.intersect_keeps_callable / intersect_keeps_process are not vacuous:
   registries on which the exact meet of fix_F25b is built, with a value of both operands (kept) and
   a value of only one (not in the result). *)
From Quiver Require Import Base Types Rel Sem Narrow OverlapProofs Witness.
From Coq Require Import Arith.
Close Scope Z_scope.
Open Scope nat_scope.

(* fn(int)->int /\ fn(bin)->int = fn(int|bin)->int: VFun 6 (declared fn(int|bin)->int) is in both and
   in the result, VFun 3 (declared fn(int)->int) is only in the first and not in the result *)
Lemma intersect_callable_nonvacuous :
  cfg_any_callable current_cfg = true /\
  fo_domain reg_F25fn 0 = true /\ fo_domain reg_F25fn 1 = true /\ fo_domain reg_F25fn 2 = true /\
  match intersect_types current_cfg 1000 1000 reg_F25fn 3 4 with
  | Some (P', r) => memb P' (VFun 6) 3 && memb P' (VFun 6) 4 && memb P' (VFun 6) r && negb (memb P' (VFun 3) r)
                    && negb (Nat.eqb r 3) && negb (Nat.eqb r 4)
  | None => false
  end = true.
Proof. vm_compute. repeat split; reflexivity. Qed.

(* @(send int|bin, receive int) /\ @(send int, receive int|bin) = @(send int, receive int) *)
Definition reg_proc : registry :=
  mk_reg [mk_tuple None []; mk_tuple (Some name_ok) []]
    [TInteger; TBinary; TUnion [0; 1]; TProcess (Some 2) (Some 0); TProcess (Some 0) (Some 2);
     TProcess (Some 0) (Some 0); TProcess (Some 1) (Some 1)].

Lemma intersect_process_nonvacuous :
  fo_domain reg_proc 0 = true /\ fo_domain reg_proc 2 = true /\
  match intersect_types current_cfg 1000 1000 reg_proc 3 4 with
  | Some (P', r) => memb P' (VProc 5) 3 && memb P' (VProc 5) 4 && memb P' (VProc 5) r && negb (memb P' (VProc 6) r)
                    && negb (Nat.eqb r 3) && negb (Nat.eqb r 4)
  | None => false
  end = true.
Proof. vm_compute. repeat split; reflexivity. Qed.
