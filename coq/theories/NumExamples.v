(* NumExamples.v — non-vacuity: concrete operands (huge, beyond 2^64; negative; surds) meet the
   hypotheses of the C20 theorems, and the model computes the expected canonical results. *)
From Coq Require Import QArith Lia ZArith.
From Quiver Require Import Base Num NumProofs NumSurd.
Open Scope Z_scope.

Definition big1 : Z := 2 ^ 64 + 1.
Definition big2 : Z := 2 ^ 130 + 7.

Example wfc_huge : wfc (CRat big1 3) /\ wfc (CRat (- big2) big1) /\ wfc (CInt big2).
Proof. repeat split; vm_compute; reflexivity. Qed.

(* (2^64+1)/3 + 5/6 = (2^65+7)/6 in lowest terms; integers beyond 64 bits stay integers *)
Example add_huge :
  add (Some (NRat big1 3)) (Some (NRat 5 6)) = Val (Some (NRat 12297829382473034413 2)) /\
  mul (Some (NInt big2)) (Some (NInt (- big1))) = Val (Some (NInt (- (big1 * big2)))) /\
  sub (Some (NInt big1)) (Some (NRat 1 2)) = Val (Some (NRat (2 ^ 65 + 1) 2)).
Proof. repeat split; vm_compute; reflexivity. Qed.

Example reduce_huge_negative_denominator :
  reduce (Rat (6 * big1) (-4 * big1)) = Val (Rat (-3) 2).
Proof. vm_compute. reflexivity. Qed.

Example div_huge_and_by_zero :
  div (Some (NInt big2)) (Some (NInt big2)) = Val (Some (NRat 1 1)) /\
  div (Some (NInt big2)) (Some (NRat 0 1)) = Val None /\
  div (Some (NInt 6)) (Some (NInt (-4))) = Val (Some (NRat (-3) 2)) /\
  div None (Some (NInt 1)) = Val None.
Proof. repeat split; vm_compute; reflexivity. Qed.

Example compare_huge :
  compare (Some (NRat big1 3)) (Some (NRat (big1 + 1) 3)) = Val (Some (-1)) /\
  ltp (Some (NInt (- big2))) (Some (NRat 1 big2)) = Val true.
Proof. repeat split; vm_compute; reflexivity. Qed.

Example rounding :
  floor (Some (NRat (-7) 2)) = Val (Some (-4)) /\ ceil (Some (NRat (-7) 2)) = Val (Some (-3)) /\
  round (Some (NRat (-7) 2)) = Val (Some (-4)) /\ round (Some (NRat 5 2)) = Val (Some 3) /\
  to_int (Some (NRat (-7) 2)) = Val (Some (-3)) /\ floor (Some (NRat (2 * big2 + 1) 2)) = Val (Some big2).
Proof. repeat split; vm_compute; reflexivity. Qed.

(* surds: (1+sqrt2)(1-sqrt2) = -1 collapses to an integer; sqrt2*sqrt2 = 2; huge coefficients *)
Definition one_plus_sqrt2 := NSurd (CInt 1) (CInt 1) 2.
Definition one_minus_sqrt2 := NSurd (CInt 1) (CInt (-1)) 2.
Example surd_products :
  mul (Some one_plus_sqrt2) (Some one_minus_sqrt2) = Val (Some (NInt (-1))) /\
  mul (Some sqrt2) (Some sqrt2) = Val (Some (NInt 2)) /\
  add (Some (NSurd (CInt big2) (CRat 1 big1) 2)) (Some (NRat 1 2)) =
    Val (Some (NSurd (CRat (2 * big2 + 1) 2) (CRat 1 big1) 2)) /\
  div (Some (NInt 1)) (Some one_plus_sqrt2) = Val (Some (NSurd (CInt (-1)) (CInt 1) 2)) /\
  add (Some sqrt2) (Some sqrt3) = Val None.
Proof. repeat split; vm_compute; reflexivity. Qed.

Example wf_surd_huge : wf_num (NSurd (CInt big2) (CRat 1 big1) 2) /\ wf_num one_plus_sqrt2.
Proof.
  split; (split; [vm_compute; auto |]); (split; [vm_compute; auto |]);
    (split; [discriminate |]); (split; [lia | apply nonsquare_2]).
Qed.

(* golden ratio: phi^2 = phi + 1, and 8/5 < phi < 13/8 *)
Definition phi := NSurd (CRat 1 2) (CRat 1 2) 5.
Example golden_ratio :
  mul (Some phi) (Some phi) = add (Some phi) (Some (NInt 1)) /\
  gtp (Some phi) (Some (NRat 8 5)) = Val true /\ ltp (Some phi) (Some (NRat 13 8)) = Val true.
Proof. repeat split; vm_compute; reflexivity. Qed.

Example surd_rounding :
  to_int (Some (NSurd (CInt 0) (CInt 5) 2)) = Val (Some 7) /\
  to_int (Some (NSurd (CInt (-3)) (CInt 1) 2)) = Val (Some (-1)) /\
  floor (Some (NSurd (CInt (-3)) (CInt 1) 2)) = Val (Some (-2)) /\
  round (Some (NSurd (CInt big2) (CInt 1) 2)) = Val (Some (big2 + 1)).
Proof. repeat split; vm_compute; reflexivity. Qed.

(* sqrt: 8 = 2 sqrt 2; 2^80 is a perfect square; 2^65 = 2^32 sqrt 2; 1/2 = (1/2) sqrt 2; negatives nil *)
Example sqrt_examples :
  sqrt (Some (NInt 8)) = Val (Some (NSurd (CInt 0) (CInt 2) 2)) /\
  sqrt (Some (NInt (2 ^ 80))) = Val (Some (NInt (2 ^ 40))) /\
  sqrt (Some (NInt (2 ^ 65))) = Val (Some (NSurd (CInt 0) (CInt (2 ^ 32)) 2)) /\
  sqrt (Some (NRat 1 2)) = Val (Some (NSurd (CInt 0) (CRat 1 2) 2)) /\
  sqrt (Some (NInt (-4))) = Val None /\ sqrt (Some (NRat 9 4)) = Val (Some (NRat 3 2)).
Proof. repeat split; vm_compute; reflexivity. Qed.

Example literal_examples :
  lit_reduce 150 100 = Rat 3 2 /\ lit_reduce 6 4 = Rat 3 2 /\ lit_reduce (-3) 9 = Rat (-1) 3 /\
  lit_reduce 4 2 = Rat 2 1 /\ lit_reduce 0 10 = Rat 0 1.
Proof. repeat split; vm_compute; reflexivity. Qed.
