(* BuiltinWf.v — vocabulary shared by the builtin correctness proofs: well-formed argument values,
   the shape of a correctness statement (`agrees`), and generic lemmas about alloc / zrange / omap /
   ofold used by BinaryProofs.v and VectorProofs.v. *)
From Quiver Require Export BuiltinSpec RopeProofs.
From Coq Require Import Lia.

(* every binary inside the value is a well-formed rope *)
Fixpoint wf_bval (v : bval) : Prop :=
  match v with
  | BBin r => wf r
  | BTup fs => (fix all (l : list bval) : Prop :=
                  match l with [] => True | x :: t => wf_bval x /\ all t end) fs
  | _ => True
  end.

(* a builtin's outcome keeps the invariant and is not a panic *)
Definition wf_out (o : outcome bval) : Prop :=
  match o with Val v => wf_bval v | Err _ => True | Panic _ => False end.

(* THE correctness statement of a builtin: on every argument whose binaries are well-formed ropes
   (well-typed or not), the implementation model returns exactly what the reference spec returns on
   the flattened argument (same value up to bytes_of, same error class), it does not panic, and
   the ropes it returns are well-formed again. *)
Definition agrees (impl : bval -> outcome bval) (spec : fval -> outcome fval) : Prop :=
  forall a, wf_bval a -> flatten_out (impl a) = spec (flatten a) /\ wf_out (impl a).

(* consequence: the result depends only on the bytes of the argument binaries, not on their shape *)
Lemma agrees_shape_independent impl spec : agrees impl spec ->
  forall a1 a2, wf_bval a1 -> wf_bval a2 -> flatten a1 = flatten a2 ->
  flatten_out (impl a1) = flatten_out (impl a2).
Proof.
  intros Hag a1 a2 H1 H2 Hf. destruct (Hag a1 H1) as [E1 _]. destruct (Hag a2 H2) as [E2 _].
  rewrite E1, E2, Hf. reflexivity.
Qed.

Lemma agrees_never_panics impl spec : agrees impl spec ->
  forall a, wf_bval a -> match impl a with Panic _ => False | _ => True end.
Proof.
  intros Hag a Ha. destruct (Hag a Ha) as [_ Hw]. destruct (impl a); simpl in *; auto.
Qed.

Lemma blen_bytes_of r : wf r -> blen (bytes_of r) = rlen r.
Proof. intros H. unfold blen. symmetry. apply rlen_bytes_of; assumption. Qed.

(* ---------------------------------------------------------------- alloc *)
Lemma alloc_ok r : rlen r <= MAX_BINARY_SIZE -> alloc r = Val (BBin r).
Proof.
  intros H. unfold alloc. destruct (Z.ltb_spec MAX_BINARY_SIZE (rlen r)); [lia | reflexivity].
Qed.

Lemma alloc_wf r : wf r -> alloc r = Val (BBin r).
Proof. intros H. apply alloc_ok. apply wf_rlen_bound in H. lia. Qed.

Lemma alloc_too_big r : MAX_BINARY_SIZE < rlen r -> alloc r = Err InvalidArgument.
Proof.
  intros H. unfold alloc. destruct (Z.ltb_spec MAX_BINARY_SIZE (rlen r)); [reflexivity | lia].
Qed.

Lemma alloc_bytes_ok bs : Z.of_nat (length bs) <= MAX_BINARY_SIZE -> alloc_bytes bs = Val (BBin (Owned bs)).
Proof. intros H. unfold alloc_bytes. apply alloc_ok. exact H. Qed.

(* ---------------------------------------------------------------- zrange *)
Lemma zrange_length n : length (zrange n) = Z.to_nat n.
Proof. unfold zrange. rewrite map_length, seq_length. reflexivity. Qed.

Lemma zrange_nth n i : (i < Z.to_nat n)%nat -> nth_error (zrange n) i = Some (Z.of_nat i).
Proof.
  intros H. unfold zrange. rewrite nth_error_map.
  rewrite (nth_error_nth' (seq 0 (Z.to_nat n)) 0%nat) by (rewrite seq_length; exact H).
  rewrite seq_nth by exact H. reflexivity.
Qed.

Lemma zrange_In n x : In x (zrange n) <-> 0 <= x < n.
Proof.
  unfold zrange. rewrite in_map_iff. split.
  - intros [k [<- Hk]]. apply in_seq in Hk. lia.
  - intros H. exists (Z.to_nat x). split; [lia|]. apply in_seq. lia.
Qed.

Lemma zrange_nonpos n : n <= 0 -> zrange n = [].
Proof. intros H. unfold zrange. replace (Z.to_nat n) with 0%nat by lia. reflexivity. Qed.

Lemma zrange_succ n : 0 <= n -> zrange (n + 1) = zrange n ++ [n].
Proof.
  intros H. unfold zrange. replace (Z.to_nat (n + 1)) with (S (Z.to_nat n)) by lia.
  rewrite seq_S, map_app. simpl. rewrite Z2Nat.id by lia. reflexivity.
Qed.

Lemma zrange_of_nat_length {A} (l : list A) : zrange (Z.of_nat (length l)) = map Z.of_nat (seq 0 (length l)).
Proof. unfold zrange. rewrite Nat2Z.id. reflexivity. Qed.

(* ---------------------------------------------------------------- omap / ofold *)
Lemma omap_val {A B} (f : A -> outcome B) (g : A -> B) l :
  (forall x, In x l -> f x = Val (g x)) -> omap f l = Val (map g l).
Proof.
  induction l as [|x t IH]; intros H; [reflexivity|].
  cbn [omap map]. rewrite (H x (or_introl eq_refl)). cbn [obind].
  rewrite IH by (intros y Hy; apply H; right; exact Hy). reflexivity.
Qed.

Lemma ofold_val {A S} (f : S -> A -> outcome S) (g : S -> A -> S) l s :
  (forall st x, In x l -> f st x = Val (g st x)) -> ofold f l s = Val (fold_left g l s).
Proof.
  revert s. induction l as [|x t IH]; intros s H; [reflexivity|].
  cbn [ofold fold_left]. rewrite (H s x (or_introl eq_refl)). cbn [obind].
  apply IH. intros st y Hy. apply H. right. exact Hy.
Qed.

Lemma nth_error_ext' {A} (l1 l2 : list A) : (forall i, nth_error l1 i = nth_error l2 i) -> l1 = l2.
Proof.
  revert l2. induction l1 as [|x t IH]; intros [|y u] H.
  - reflexivity.
  - specialize (H 0%nat). discriminate.
  - specialize (H 0%nat). discriminate.
  - pose proof (H 0%nat) as H0. cbn in H0. injection H0 as ->. f_equal.
    apply IH. intros i. exact (H (S i)).
Qed.

(* a loop over the indices 0..|l|-1 that reads l[i] is a map over l *)
Lemma map_zrange_nth {B} (l : list Z) (h : Z -> B) :
  map (fun i => match nth_error l (Z.to_nat i) with Some b => h b | None => h 0 end)
      (zrange (Z.of_nat (length l))) = map h l.
Proof.
  rewrite zrange_of_nat_length, map_map.
  apply nth_error_ext'; intros i.
  rewrite !nth_error_map.
  destruct (Nat.lt_ge_cases i (length l)) as [Hi|Hi].
  - rewrite (nth_error_nth' (seq 0 (length l)) 0%nat) by (rewrite seq_length; exact Hi).
    rewrite seq_nth by exact Hi. cbn [option_map Nat.add]. rewrite Nat2Z.id.
    destruct (nth_error l i) eqn:E; [reflexivity|]. apply nth_error_None in E. lia.
  - rewrite (proj2 (nth_error_None l i)) by exact Hi.
    rewrite (proj2 (nth_error_None (seq 0 (length l)) i)) by (rewrite seq_length; exact Hi). reflexivity.
Qed.
