(* Equal.v — model of structural value equality and ref minting (property C13).

   Mirrors, at /repo HEAD:
     quiver-core/src/value.rs            Value, Binary
     quiver-core/src/executor.rs         canonical_tuple, values_equal, handle_equal, create_ref,
                                         update_program (what it does to the tables read here)
     quiver-core/src/compatibility.rs    compute_canonical_tuples
   Definitions only (executable, total). Proofs are in EqualProofs.v.

   Representation choices
   * ids that are only ever compared (function index, builtin id, process id, process function
     index, resource id, resource type id, ref) are Z; ids that index a table (tuple id, constant
     index, heap slot) are nat, looked up with nth_error (no totalising default).
   * Strings (tuple names, field labels) are byte lists (list Z); Option<String> is option.
   * The binary heap is given by its denotation: slot i |-> the bytes `BinaryData::to_vec` returns
     (the rope shapes are the business of Rope.v / C12; equality only reads `len()` and `to_vec()`). *)
From Quiver Require Import Base.

(* ---------------------------------------------------------------- values (value.rs:12-33) *)

(* value.rs:14  enum Binary { Constant(usize), Heap(usize) } *)
Inductive binref := BConst (k : nat) | BHeap (i : nat).

(* value.rs:22  enum Value *)
Inductive value :=
| VInt (z : Z)                          (* Integer(BigInt) *)
| VBin (b : binref)                     (* Binary(Binary) *)
| VRef (r : Z)                          (* Reference(u64) *)
| VTuple (t : nat) (fs : list value)    (* Tuple(usize, Arc<Vec<Value>>) *)
| VFun (f : Z) (caps : list value)      (* Function(usize, Arc<Vec<Value>>) *)
| VBuiltin (b : Z)                      (* Builtin(usize) *)
| VProc (pid : Z) (f : Z)               (* Process(ProcessId, usize) *)
| VRes (rid : Z) (ty : Z).              (* Resource(ResourceId, usize) *)

(* bytecode.rs  enum Constant { Integer(BigInt), Binary(Vec<u8>) } *)
Inductive constant := CInt (z : Z) | CBin (bs : list Z).

(* types.rs:61  TupleTypeInfo { name: Option<String>, fields: Vec<(Option<String>, usize)> }.
   The field type ids are dropped: compute_canonical_tuples ignores them, and nothing else in
   this model reads them. *)
Definition str := list Z.
Record tuple_info := { t_name : option str; t_labels : list (option str) }.

(* The value shape of a tuple id: the key of compute_canonical_tuples' HashMap. *)
Definition shape := (option str * list (option str))%type.
Definition shape_of (t : tuple_info) : shape := (t_name t, t_labels t).

(* The part of the executor state that values_equal reads (executor.rs:200-253):
   constants, heap (by denotation), canonical_tuples; `tuples` is the environment-side table from
   which canonical_tuples was computed (the executor itself keeps only arities). *)
Record tables := {
  constants : list constant;
  heap      : list (list Z);
  tuples    : list tuple_info;
  canonical : list nat
}.

(* ---------------------------------------------------------------- boolean equalities *)

Fixpoint list_eqb {A} (eqb : A -> A -> bool) (x y : list A) : bool :=
  match x, y with
  | [], [] => true
  | a :: x', b :: y' => eqb a b && list_eqb eqb x' y'
  | _, _ => false
  end.

Definition option_eqb {A} (eqb : A -> A -> bool) (x y : option A) : bool :=
  match x, y with
  | None, None => true
  | Some a, Some b => eqb a b
  | _, _ => false
  end.

Definition bytes_eqb : list Z -> list Z -> bool := list_eqb Z.eqb.
Definition shape_eqb (a b : shape) : bool :=
  option_eqb bytes_eqb (fst a) (fst b) && list_eqb (option_eqb bytes_eqb) (snd a) (snd b).

(* ---------------------------------------------------------------- canonical tuples *)

(* HashMap lookup, as an association list in insertion order *)
Fixpoint assoc_shape (sh : shape) (m : list (shape * nat)) : option nat :=
  match m with
  | [] => None
  | (k, v) :: m' => if shape_eqb k sh then Some v else assoc_shape sh m'
  end.

(* compatibility.rs:99  compute_canonical_tuples:
     let mut by_shape = HashMap::new();
     tuples.iter().enumerate().map(|(id, info)| *by_shape.entry((name, labels)).or_insert(id)).collect()
   `by_shape` is threaded through the left-to-right scan; `id` is the enumerate() counter. *)
Fixpoint canon_go (by_shape : list (shape * nat)) (id : nat) (ts : list tuple_info) : list nat :=
  match ts with
  | [] => []
  | info :: rest =>
      match assoc_shape (shape_of info) by_shape with
      | Some c => c :: canon_go by_shape (S id) rest
      | None => id :: canon_go ((shape_of info, id) :: by_shape) (S id) rest
      end
  end.

Definition compute_canonical (ts : list tuple_info) : list nat := canon_go [] 0%nat ts.

(* executor.rs:2709  fn canonical_tuple(&self, tuple_id) =
     self.canonical_tuples.get(tuple_id).copied().unwrap_or(tuple_id) *)
Definition canonical_tuple (P : tables) (t : nat) : nat :=
  match nth_error (canonical P) t with Some c => c | None => t end.

(* ---------------------------------------------------------------- values_equal *)

(* executor.rs:2719-2760, the (Value::Binary(a), Value::Binary(b)) arm. *)
Definition bin_equal (P : tables) (a b : binref) : bool :=
  match a, b with
  | BConst ia, BConst ib =>
      (* both constants: `if let (Some(Constant::Binary(x)), Some(Constant::Binary(y))) = .. { x == y } else { false }` *)
      match nth_error (constants P) ia, nth_error (constants P) ib with
      | Some (CBin x), Some (CBin y) => bytes_eqb x y
      | _, _ => false
      end
  | BHeap ia, BHeap ib =>
      (* both heap: `if let (Some(da), Some(db)) = (heap.get(a), heap.get(b))`:
         lengths first (fast path), then `to_vec() == to_vec()`; else false *)
      match nth_error (heap P) ia, nth_error (heap P) ib with
      | Some x, Some y => if negb (Nat.eqb (length x) (length y)) then false else bytes_eqb x y
      | _, _ => false
      end
  | BConst ic, BHeap ih | BHeap ih, BConst ic =>
      (* one of each: `if let (Some(Constant::Binary(c)), Some(h)) = .. { c.as_slice() == h.to_vec().as_slice() } else { false }` *)
      match nth_error (constants P) ic, nth_error (heap P) ih with
      | Some (CBin c), Some h => bytes_eqb c h
      | _, _ => false
      end
  end.

(* executor.rs:2716  fn values_equal(&self, a: &Value, b: &Value) -> bool
   `zip_all` is `xs.iter().zip(ys.iter()).all(|(a, b)| self.values_equal(a, b))`: it stops at the
   shorter list (the length test before it is what makes the lengths agree). *)
Fixpoint values_equal (P : tables) (a b : value) {struct a} : bool :=
  match a, b with
  | VInt x, VInt y => Z.eqb x y
  | VBin x, VBin y => bin_equal P x y
  | VTuple ta fa, VTuple tb fb =>
      Nat.eqb (canonical_tuple P ta) (canonical_tuple P tb)
      && Nat.eqb (length fa) (length fb)
      && (fix zip_all (xs ys : list value) {struct xs} : bool :=
            match xs, ys with
            | x :: xs', y :: ys' => values_equal P x y && zip_all xs' ys'
            | _, _ => true
            end) fa fb
  | VFun ia ca, VFun ib cb =>
      Z.eqb ia ib
      && Nat.eqb (length ca) (length cb)
      && (fix zip_all (xs ys : list value) {struct xs} : bool :=
            match xs, ys with
            | x :: xs', y :: ys' => values_equal P x y && zip_all xs' ys'
            | _, _ => true
            end) ca cb
  | VBuiltin x, VBuiltin y => Z.eqb x y
  | VProc x _, VProc y _ => Z.eqb x y          (* pid only (fix a4a89a9) *)
  | VRef x, VRef y => Z.eqb x y
  | VRes x _, VRes y _ => Z.eqb x y            (* resource id only (fix dca8158) *)
  | _, _ => false
  end.

(* The same `zip(..).all(..)` as a top-level function, for statements about it. *)
Fixpoint zip_all (P : tables) (xs ys : list value) : bool :=
  match xs, ys with
  | x :: xs', y :: ys' => values_equal P x y && zip_all P xs' ys'
  | _, _ => true
  end.

(* executor.rs:1929  handle_equal(count): pops `count` values, `values.reverse()`, then
     all_equal = values.iter().all(|v| values_equal(first, v));
     result = if all_equal { Value::ok() } else { Value::nil() }        (fix b200cbf: a verdict)
   `values[0]` panics for count = 0 (the compiler only ever emits Equal(2)). The stack is modelled
   with its top at the head of the list. *)
Definition nil_value : value := VTuple 0 [].   (* value.rs:37  Value::nil(): Tuple(NIL = 0, []) *)
Definition ok_value : value := VTuple 1 [].    (* value.rs:42  Value::ok():  Tuple(OK = 1, [])  *)
Definition handle_equal (P : tables) (count : nat) (stack : list value) : outcome (list value) :=
  if Nat.ltb (length stack) count then Err StackUnderflow
  else
    let values := rev (firstn count stack) in
    match values with
    | [] => Panic 1943                      (* `let first = &values[0];` executor.rs:1943 *)
    | first :: _ =>
        let all_equal := forallb (values_equal P first) values in
        Val ((if all_equal then ok_value else nil_value) :: skipn count stack)
    end.

(* value.rs:52  is_nil: Tuple(id, fields) with id == NIL && fields.is_empty() *)
Definition is_nil (v : value) : bool :=
  match v with VTuple O [] => true | _ => false end.

(* executor.rs:1962  handle_not: nil -> Ok, anything else -> nil *)
Definition handle_not (stack : list value) : outcome (list value) :=
  match stack with
  | [] => Err StackUnderflow
  | v :: rest => Val ((if is_nil v then ok_value else nil_value) :: rest)
  end.

(* pattern.rs:213-262 generate_pattern_code: every pin (`&x`: ..Load x; Equal(2)), literal
   (..Constant k; Equal(2)) and repeated binder (..Get path; Pick 1; Get path'; Equal(2)) is
   followed by `Not` and a JumpIf to the failure address; JumpIf (executor.rs:1685 handle_jump_if)
   jumps exactly when the popped value is not nil. The requirement is met -- the pattern goes
   on -- iff that jump is NOT taken. `a` is the value pushed first, `b` the one on top. *)
Definition pin_matches (P : tables) (a b : value) : outcome bool :=
  s1 <- handle_equal P 2 [b; a] ;;
  s2 <- handle_not s1 ;;
  match s2 with
  | [] => Err StackUnderflow
  | v :: _ => Val (is_nil v)       (* jump to `fail` iff not nil; so: matches iff nil here *)
  end.

(* ---------------------------------------------------------------- erasure (the specification) *)

(* What a value *is*, independently of how it is represented: tuple ids become (name, labels),
   binaries their bytes; functions keep the function index ("identity of definition" is read by the
   code as identity of the function-table index — Program::register_function dedups structurally
   identical definitions); a process is its pid, a resource its resource id. EBad marks an
   unresolvable id (excluded by well-formedness). *)
Inductive evalue :=
| EInt (z : Z)
| EBytes (bs : list Z)
| ERef (r : Z)
| ETuple (name : option str) (labels : list (option str)) (fs : list evalue)
| EFun (f : Z) (caps : list evalue)
| EBuiltin (b : Z)
| EProc (pid : Z)
| ERes (rid : Z)
| EBad.

Definition bin_bytes (P : tables) (b : binref) : option (list Z) :=
  match b with
  | BConst k => match nth_error (constants P) k with Some (CBin bs) => Some bs | _ => None end
  | BHeap i => nth_error (heap P) i
  end.

Fixpoint erase (P : tables) (v : value) : evalue :=
  match v with
  | VInt z => EInt z
  | VBin b => match bin_bytes P b with Some bs => EBytes bs | None => EBad end
  | VRef r => ERef r
  | VTuple t fs =>
      match nth_error (tuples P) t with
      | Some info => ETuple (t_name info) (t_labels info) (map (erase P) fs)
      | None => EBad
      end
  | VFun f caps => EFun f (map (erase P) caps)
  | VBuiltin b => EBuiltin b
  | VProc pid _ => EProc pid
  | VRes rid _ => ERes rid
  end.

(* Boolean equality on erased values (used by the correspondence driver and proved correct). *)
Fixpoint evalue_eqb (a b : evalue) {struct a} : bool :=
  match a, b with
  | EInt x, EInt y => Z.eqb x y
  | EBytes x, EBytes y => bytes_eqb x y
  | ERef x, ERef y => Z.eqb x y
  | ETuple na la fa, ETuple nb lb fb =>
      option_eqb bytes_eqb na nb && list_eqb (option_eqb bytes_eqb) la lb
      && (fix go (xs ys : list evalue) {struct xs} : bool :=
            match xs, ys with
            | [], [] => true
            | x :: xs', y :: ys' => evalue_eqb x y && go xs' ys'
            | _, _ => false
            end) fa fb
  | EFun x ca, EFun y cb =>
      Z.eqb x y
      && (fix go (xs ys : list evalue) {struct xs} : bool :=
            match xs, ys with
            | [], [] => true
            | x :: xs', y :: ys' => evalue_eqb x y && go xs' ys'
            | _, _ => false
            end) ca cb
  | EBuiltin x, EBuiltin y => Z.eqb x y
  | EProc x, EProc y => Z.eqb x y
  | ERes x, ERes y => Z.eqb x y
  | EBad, EBad => true
  | _, _ => false
  end.

(* ---------------------------------------------------------------- well-formedness *)

(* ids in range, binaries resolvable *)
Fixpoint wf_value (P : tables) (v : value) : Prop :=
  match v with
  | VBin b => bin_bytes P b <> None
  | VTuple t fs =>
      (t < length (tuples P))%nat /\
      (fix all (xs : list value) : Prop := match xs with [] => True | x :: xs' => wf_value P x /\ all xs' end) fs
  | VFun _ caps =>
      (fix all (xs : list value) : Prop := match xs with [] => True | x :: xs' => wf_value P x /\ all xs' end) caps
  | _ => True
  end.

Fixpoint wf_valueb (P : tables) (v : value) : bool :=
  match v with
  | VBin b => match bin_bytes P b with Some _ => true | None => false end
  | VTuple t fs =>
      Nat.ltb t (length (tuples P)) &&
      (fix all (xs : list value) : bool := match xs with [] => true | x :: xs' => wf_valueb P x && all xs' end) fs
  | VFun _ caps =>
      (fix all (xs : list value) : bool := match xs with [] => true | x :: xs' => wf_valueb P x && all xs' end) caps
  | _ => true
  end.

(* the installed canonical table is the one compute_canonical_tuples yields for the tuple table
   (execute.rs:58, environment.rs:968: always recomputed over the full table) *)
Definition wf_tables (P : tables) : Prop := canonical P = compute_canonical (tuples P).

(* executor.rs:1073  update_program: constants/tuples are appended, canonical_tuples replaced by
   the table recomputed over the whole (grown) tuple list; the heap may have grown too. *)
Definition update_tables (P : tables) (new_consts : list constant) (new_heap : list (list Z))
           (new_tuples : list tuple_info) : tables :=
  {| constants := constants P ++ new_consts;
     heap := heap P ++ new_heap;
     tuples := tuples P ++ new_tuples;
     canonical := compute_canonical (tuples P ++ new_tuples) |}.

(* ---------------------------------------------------------------- refs *)

(* executor.rs:251-253, 637-641:
     worker_id: u16, next_ref: u64
     fn create_ref(&mut self) -> Value {
         let ref_value = ((self.worker_id as u64) << 48) | self.next_ref;
         self.next_ref += 1;
         Value::Reference(ref_value) } *)
Record minter := { worker_id : Z; next_ref : Z }.

Definition ref_value (worker next : Z) : Z := Z.lor (wrap_u64 (Z.shiftl worker 48)) next.

(* `next_ref += 1` on u64: overflow is a panic in debug builds, wrap-around in release *)
Definition create_ref (m : mode) (e : minter) : outcome (Z * minter) :=
  let r := ref_value (worker_id e) (next_ref e) in
  let n := next_ref e + 1 in
  if in_u64 n then Val (r, {| worker_id := worker_id e; next_ref := n |})
  else match m with
       | Debug => Panic 639
       | Release => Val (r, {| worker_id := worker_id e; next_ref := wrap_u64 n |})
       end.

(* A system of executors (one per worker), and a schedule saying which executor mints next.
   Returns the refs minted, oldest first. A schedule entry naming no executor mints nothing. *)
Fixpoint update_nth {A} (l : list A) (i : nat) (x : A) : list A :=
  match l, i with
  | [], _ => []
  | _ :: t, O => x :: t
  | h :: t, S j => h :: update_nth t j x
  end.

Fixpoint run_mints (m : mode) (sys : list minter) (sched : list nat) : outcome (list Z) :=
  match sched with
  | [] => Val []
  | i :: rest =>
      match nth_error sys i with
      | None => run_mints m sys rest
      | Some e =>
          p <- create_ref m e ;;
          rs <- run_mints m (update_nth sys i (snd p)) rest ;;
          Val (fst p :: rs)
      end
  end.
