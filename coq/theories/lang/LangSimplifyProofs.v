(* LangSimplifyProofs.v — simplify.rs block normalisation (model: LangSimplify.v) preserves the
   reference semantics (Lang.v): `eval (normalize p) = eval p` at every fuel, up to
   (a) the event counters (evidence only: a removed block changes how often a short-circuit is
       counted), and
   (b) the function values inside the result: a closure made by the normalised program carries the
       normalised body (`nv`).
   Two independent parts: the evaluator does not see a redundant / liftable block (`splice`,
   `lift_chains` are no-ops for the walkers), and evaluation commutes with normalising every
   function body (`nv`). *)
From Coq Require Import ZArith List Bool Lia.
From Quiver Require Import lang.Lang lang.LangProofs lang.LangSimplify.
Import ListNotations.
Open Scope Z_scope.

(* ------------------------------------------------------------------------------------------
   Outcomes up to the event counters. *)
Definition erase {A} (r : res A) : res A :=
  match r with
  | Ret a _ => Ret a st0
  | TailC f a _ => TailC f a st0
  | Error e => Error e
  | Timeout => Timeout
  end.
Definition eqv {A} (r1 r2 : res A) : Prop := erase r1 = erase r2.

Lemma eqv_refl : forall A (r : res A), eqv r r.
Proof. reflexivity. Qed.
Lemma eqv_sym : forall A (a b : res A), eqv a b -> eqv b a.
Proof. unfold eqv; intros; congruence. Qed.
Lemma eqv_trans : forall A (a b c : res A), eqv a b -> eqv b c -> eqv a c.
Proof. unfold eqv; intros; congruence. Qed.
Lemma eqv_tick : forall A s (r : res A), eqv (tick s r) r.
Proof. intros A s [a w|f a w|e|]; reflexivity. Qed.
Lemma erase_tick : forall A s (r : res A), erase (tick s r) = erase r.
Proof. intros A s [a w|f a w|e|]; reflexivity. Qed.
Lemma eqv_bind : forall A B (a a' : res A) (f f' : A -> res B),
  eqv a a' -> (forall x, eqv (f x) (f' x)) -> eqv (bind a f) (bind a' f').
Proof.
  unfold eqv. intros A B a a' f f' Ha Hf.
  destruct a as [x w|g y w|e|], a' as [x' w'|g' y' w'|e'|]; cbn in Ha; try discriminate; cbn [bind].
  - inversion Ha; subst. rewrite !erase_tick. apply Hf.
  - inversion Ha; subst. reflexivity.
  - inversion Ha; subst. reflexivity.
  - reflexivity.
Qed.
Lemma eqv_with_env : forall A e (a a' : res A), eqv a a' -> eqv (with_env e a) (with_env e a').
Proof. intros. unfold with_env. apply eqv_bind; [assumption | intros; apply eqv_refl]. Qed.
Lemma eqv_bind_assoc : forall A B C (a : res A) (f : A -> res B) (g : B -> res C),
  eqv (bind (bind a f) g) (bind a (fun x => bind (f x) g)).
Proof.
  intros A B C [x w|h y w|e|] f g; cbn [bind]; try reflexivity.
  destruct (f x) as [b w2|h y w2|e|]; cbn [tick bind]; try reflexivity.
  unfold eqv. rewrite !erase_tick. reflexivity.
Qed.
Lemma eqv_bind_ret : forall A (a : res A), eqv (bind a (fun x => ret x)) a.
Proof. intros A [x w|h y w|e|]; reflexivity. Qed.

#[local] Hint Resolve eqv_refl eqv_tick : eqv.

(* ------------------------------------------------------------------------------------------
   Part 1: a frame-free term / chain / sequence leaves the scope unchanged. *)
Lemma with_env_scope : forall A e (r : res A) x e' w, with_env e r = Ret (x, e') w -> e' = e.
Proof.
  intros A e r x e' w H. unfold with_env, bind in H. destruct r; try discriminate. cbn in H. inversion H. reflexivity.
Qed.

Section FrameFree.
  Variable tf : nat.
  Variable cf : value -> value -> stats -> res value.
  Variable imf : list atom -> res value.
  Notation eval_term := (eval_term tf cf imf).
  Notation eval_chain := (eval_chain tf cf imf).

  Definition keeps_scope_t (t : term) : Prop :=
    forall c e v x e' w, contains_match t = false -> eval_term c t e v = Ret (x, e') w -> e' = e.
  Definition keeps_scope_c (ch : chain) : Prop :=
    forall c e v x e' w, is_frame_free_chain ch = true -> eval_chain c ch e v = Ret (x, e') w -> e' = e.

  Lemma terms_keep_scope : forall c ts,
    Forall keeps_scope_t ts -> existsb contains_match ts = false ->
    forall e v x e' w, terms_with (eval_term c) ts e v = Ret (x, e') w -> e' = e.
  Proof.
    intros c ts H. induction H as [|t r Ht _ IH]; intros Hex e v x e' w Hr; cbn [terms_with] in Hr.
    - inversion Hr; reflexivity.
    - cbn [existsb] in Hex. apply orb_false_iff in Hex. destruct Hex as [Hct Hcr].
      destruct (eval_term c t e v) as [[y e1] w1| | |] eqn:Ht1; try discriminate. cbn [bind fst snd] in Hr.
      assert (e1 = e) by (eapply Ht; eassumption). subst e1.
      destruct (terms_with (eval_term c) r e y) as [[z e2] w2| | |] eqn:Hr2; try discriminate.
      cbn in Hr. inversion Hr; subst. eapply IH; eassumption.
  Qed.

  Lemma fields_keep_scope : forall c fs,
    Forall (fun f => match f with TupleField _ (FChain ch) => keeps_scope_c ch | _ => True end) fs ->
    existsb (fun f => match f with
                      | TupleField _ (FChain (Chain mp ts)) => is_some mp || existsb contains_match ts
                      | TupleField _ (FSpread _) => false
                      end) fs = false ->
    forall e v acc inh r e' w, fields_with (eval_chain c) fs e v acc inh = Ret (r, e') w -> e' = e.
  Proof.
    intros c fs H. induction H as [|[l [ch|src]] r Hf _ IH]; intros Hex e v acc inh res e' w Hr; cbn [fields_with] in Hr.
    - inversion Hr; reflexivity.
    - cbn [existsb] in Hex. apply orb_false_iff in Hex. destruct Hex as [Hc Hrest].
      destruct (eval_chain c ch e v) as [[y e1] w1| | |] eqn:Hc1; try discriminate. cbn [bind fst snd] in Hr.
      assert (e1 = e).
      { eapply Hf; [|eassumption]. destruct ch as [mp ts]. cbn. apply orb_false_iff in Hc. destruct Hc as [-> ->]. reflexivity. }
      subst e1. destruct (fields_with (eval_chain c) r e v _ inh) as [[q e2] w2| | |] eqn:Hr2; try discriminate.
      cbn in Hr. inversion Hr; subst. eapply IH; eassumption.
    - cbn [existsb] in Hex. cbn in Hex.
      destruct (match src with Some x => lookup_var x e | None => Some v end) as [[| |sname sfs| |]|]; try discriminate.
      eapply IH; eassumption.
  Qed.

  Lemma frame_free_keeps_scope :
    (forall t, keeps_scope_t t) /\ (forall ch, keeps_scope_c ch).
  Proof.
    assert (H : (forall t, keeps_scope_t t) /\ (forall ch, keeps_scope_c ch) /\ (forall s : sequence, True) /\ (forall b : expression, True)).
    { apply (ast_mutind keeps_scope_t
               (fun f => match f with TupleField _ (FChain ch) => keeps_scope_c ch | _ => True end)
               (fun _ => True) keeps_scope_c (fun _ => True) (fun _ => True) (fun _ => True)); try (intros; exact I).
      - intros l c e v x e' w _ H. cbn in H. inversion H; reflexivity.
      - intros n fs Hfs c e v x e' w Hcm H. rewrite eval_term_tuple in H. cbn [contains_match] in Hcm.
        destruct (fields_with (eval_chain c) fs e v [] None) as [[[fs' inh] e1] w1| | |] eqn:Hf; try discriminate.
        assert (e1 = e) by (eapply fields_keep_scope; eassumption). subst e1.
        cbn [bind] in H. destruct n as [|a|]; [| |destruct inh]; cbn in H; try discriminate; inversion H; reflexivity.
      - intros segs _ c e v x e' w _ H. eapply string_scoping; eassumption.
      - intros p c e v x e' w Hcm. discriminate.
      - intros b _ c e v x e' w _ H. eapply block_scoping; eassumption.
      - intros tps pt rt body _ c e v x e' w _ H. cbn in H. inversion H; reflexivity.
      - intros [src path] c e v x e' w _ H. cbn [Lang.eval_term] in H.
        destruct src as [[y| | |p| |b|[y|]|]|]; try (eapply with_env_scope; eassumption); try discriminate.
        + destruct (lookup_var y e); [eapply with_env_scope; eassumption | discriminate].
        + destruct (lookup_var y e); [|discriminate]. destruct (access_all v0 path); try discriminate.
          cbn in H. destruct (is_callable a); discriminate.
        + destruct (c_self c); [destruct path|]; discriminate.
        + destruct (is_callable v && is_nilary v); discriminate.
      - intros t _ c e v x e' w _ H. discriminate.
      - intros c e v x e' w _ H. discriminate.
      - intros cs _ c e v x e' w _ H. discriminate.
      - intros n c e v x e' w _ H. discriminate.
      - intros [src path] c e v x e' w _ H. cbn [Lang.eval_term] in H.
        destruct src as [[y| | |p| |b|[y|]|]|]; try (eapply with_env_scope; eassumption); try discriminate.
        destruct (lookup_var y e); [eapply with_env_scope; eassumption | discriminate].
      - intros n ch Hc. exact Hc.
      - intros mp ts Hts c e v x e' w Hff H. cbn [is_frame_free_chain] in Hff.
        apply andb_true_iff in Hff. destruct Hff as [Hmp Hcm]. destruct mp; [discriminate|].
        rewrite eval_chain_none in H. apply negb_true_iff in Hcm. eapply terms_keep_scope; eassumption. }
    tauto.
  Qed.
End FrameFree.

(* ------------------------------------------------------------------------------------------
   Part 2: the evaluator does not see a redundant block spliced into its chain, nor a liftable
   block lifted into its sequence. *)
Section NoOps.
  Variable tf : nat.
  Variable cf : value -> value -> stats -> res value.
  Variable imf : list atom -> res value.
  Notation eval_term := (eval_term tf cf imf).
  Notation eval_chain := (eval_chain tf cf imf).
  Notation eval_sequence := (eval_sequence tf cf imf).
  Notation eval_expr := (eval_expr tf cf imf).

  Lemma terms_app : forall ev ts1 ts2 e v,
    eqv (terms_with ev (ts1 ++ ts2) e v)
        (do x <- terms_with ev ts1 e v ;; terms_with ev ts2 (snd x) (fst x)).
  Proof.
    intros ev ts1. induction ts1 as [|t r IH]; intros ts2 e v; cbn [app terms_with].
    - cbn. apply eqv_sym, eqv_tick.
    - eapply eqv_trans; [|apply eqv_sym, eqv_bind_assoc].
      apply eqv_bind; [apply eqv_refl|]. intros x.
      eapply eqv_trans; [apply eqv_tick|]. eapply eqv_trans; [apply IH|].
      apply eqv_bind; [apply eqv_sym, eqv_tick | intros; apply eqv_refl].
  Qed.

  (* the value a sequence of steps hands on (the walker returns nil itself when it short-circuits) *)
  Definition nil_norm (x : value * env) : value * env := (if is_nil (fst x) then vnil else fst x, snd x).
  Lemma nil_norm_id : forall x, nil_norm x = x.
  Proof.
    intros [v e]. unfold nil_norm. cbn. destruct (is_nil v) eqn:H; [|reflexivity].
    apply is_nil_true in H. subst. reflexivity.
  Qed.

  (* a block of one consequence-less branch: the value of its sequence, in the outer scope *)
  Lemma single_branch_block : forall c cs e v,
    eqv (eval_term c (Block (Expression [Branch (Sequence cs) None])) e v)
        (do x <- seq_with (eval_chain c) cs e v ;; ret (fst x, e)).
  Proof.
    intros c cs e v. rewrite eval_term_block, eval_expr_eq. cbn [branches_with]. rewrite eval_sequence_eq.
    unfold with_env. eapply eqv_trans; [apply eqv_bind_assoc|].
    apply eqv_bind; [apply eqv_refl|]. intros x.
    destruct (is_nil (fst x)) eqn:Hn.
    - apply is_nil_true in Hn. rewrite Hn. reflexivity.
    - reflexivity.
  Qed.

  Lemma redundant_block_noop : forall c t body e v,
    redundant_body t = Some body ->
    eqv (eval_term c t e v) (terms_with (eval_term c) (chain_terms body) e v).
  Proof.
    intros c t body e v H. unfold redundant_body in H.
    destruct t as [| | | |[bs]| | | | | | |]; try discriminate.
    destruct bs as [|[[cs] k] bs']; try discriminate.
    destruct k; destruct bs'; destruct cs as [|chn [|c2 cs']]; try discriminate.
    destruct (is_inlinable_chain chn) eqn:Hin; [|discriminate]. inversion H; subst body. clear H.
    eapply eqv_trans; [apply single_branch_block|]. cbn [seq_with].
    eapply eqv_trans; [apply eqv_bind; [apply eqv_bind_ret | intros; apply eqv_refl]|].
    unfold is_inlinable_chain in Hin. apply andb_true_iff in Hin. destruct Hin as [Hin _].
    apply andb_true_iff in Hin. destruct Hin as [_ Hff].
    destruct chn as [mp ts]. pose proof Hff as Hff'. cbn [is_frame_free_chain] in Hff'.
    apply andb_true_iff in Hff'. destruct Hff' as [Hmp _]. destruct mp; [discriminate|].
    cbn [chain_terms]. rewrite eval_chain_none.
    destruct (terms_with (eval_term c) ts e v) as [[x e1] w| | |] eqn:Ht; try reflexivity.
    assert (e1 = e).
    { destruct (frame_free_keeps_scope tf cf imf) as [_ Hc].
      eapply (Hc (Chain None ts)); [exact Hff|]. rewrite eval_chain_none. exact Ht. }
    subst. reflexivity.
  Qed.

  Lemma should_strip_body : forall t l ts,
    should_strip t l = Some ts -> exists body, redundant_body t = Some body /\ ts = chain_terms body.
  Proof.
    intros t l ts H. unfold should_strip in H. destruct (redundant_body t) as [body|]; [|discriminate].
    destruct (negb _ || l); [|discriminate]. inversion H. eauto.
  Qed.

  Theorem splice_noop : forall c ts e v,
    eqv (terms_with (eval_term c) (splice ts) e v) (terms_with (eval_term c) ts e v).
  Proof.
    intros c ts. induction ts as [|t r IH]; intros e v; [apply eqv_refl|]. cbn [splice].
    destruct (should_strip t (null r)) as [body_terms|] eqn:Hs.
    - destruct (should_strip_body _ _ _ Hs) as (body & Hb & ->).
      eapply eqv_trans; [apply terms_app|]. cbn [terms_with].
      apply eqv_bind.
      + apply eqv_sym, redundant_block_noop, Hb.
      + intros x. eapply eqv_trans; [apply IH|]. apply eqv_sym, eqv_tick.
    - cbn [terms_with]. apply eqv_bind; [apply eqv_refl|]. intros x.
      eapply eqv_trans; [apply eqv_tick|]. eapply eqv_trans; [apply IH|]. apply eqv_sym, eqv_tick.
  Qed.

  (* sequences *)
  Lemma seq_keeps_scope : forall c cs,
    forallb is_frame_free_chain cs = true ->
    forall e v x e' w, seq_with (eval_chain c) cs e v = Ret (x, e') w -> e' = e.
  Proof.
    intros c cs. induction cs as [|chn r IH]; intros Hff e v x e' w H; cbn [seq_with] in H.
    - inversion H; reflexivity.
    - cbn [forallb] in Hff. apply andb_true_iff in Hff. destruct Hff as [Hc Hr].
      destruct (eval_chain c chn e v) as [[y e1] w1| | |] eqn:Hc1; try discriminate. cbn [bind fst snd] in H.
      assert (e1 = e) by (destruct (frame_free_keeps_scope tf cf imf) as [_ Hk]; eapply Hk; eassumption). subst e1.
      destruct r as [|c2 r].
      + cbn in H. inversion H; reflexivity.
      + destruct (is_nil y).
        * cbn in H. inversion H; reflexivity.
        * destruct (seq_with (eval_chain c) (c2 :: r) e y) as [[z e2] w2| | |] eqn:Hr2; try discriminate.
          cbn in H. inversion H; subst. eapply IH; eassumption.
  Qed.

  Definition seq_then (ev : chain -> env -> value -> res (value * env)) (cs2 : list chain) (x : value * env)
    : res (value * env) :=
    match cs2 with
    | [] => ret x
    | _ :: _ => if is_nil (fst x) then Ret (vnil, snd x) ev_short else seq_with ev cs2 (snd x) (fst x)
    end.

  (* a sequence that stops early hands on nil, so continuing after it stops as well *)
  Lemma seq_nil_result : forall ev cs e v x e' w,
    seq_with ev cs e v = Ret (x, e') w -> True.
  Proof. trivial. Qed.

  Lemma seq_app : forall ev cs1 cs2 e v,
    cs1 <> [] ->
    eqv (seq_with ev (cs1 ++ cs2) e v) (do x <- seq_with ev cs1 e v ;; seq_then ev cs2 x).
  Proof.
    intros ev cs1. induction cs1 as [|chn r IH]; intros cs2 e v Hne; [congruence|]. clear Hne.
    cbn [app seq_with]. destruct r as [|c2 r].
    - cbn [app]. eapply eqv_trans; [|apply eqv_sym, eqv_bind_assoc].
      apply eqv_bind; [apply eqv_refl|]. intros x. cbn [bind ret]. unfold seq_then.
      destruct cs2 as [|d cs2]; [apply eqv_sym, eqv_tick|].
      destruct (is_nil (fst x)); apply eqv_sym, eqv_tick.
    - eapply eqv_trans; [|apply eqv_sym, eqv_bind_assoc].
      apply eqv_bind; [apply eqv_refl|]. intros x. cbn [app].
      destruct (is_nil (fst x)) eqn:Hn.
      + cbn [bind]. unfold seq_then. destruct cs2; [reflexivity|]. cbn. reflexivity.
      + apply (IH cs2 (snd x) (fst x)). discriminate.
  Qed.

  Lemma should_lift_block : forall chn inner,
    should_lift chn = Some inner ->
    chn = Chain None [Block (Expression [Branch (Sequence inner) None])] /\ inner <> [] /\
    forallb is_frame_free_chain inner = true.
  Proof.
    intros [mp ts] inner H. unfold should_lift in H. destruct mp; [discriminate|].
    destruct ts as [|t [|t2 ts]]; try discriminate. unfold liftable_chains in H.
    destruct t as [| | | |[bs]| | | | | | |]; try discriminate.
    destruct bs as [|[[cs] k] bs']; try discriminate.
    destruct k; destruct bs'; try discriminate.
    destruct (negb (null cs) && forallb is_frame_free_chain cs) eqn:Hc; [|discriminate].
    inversion H; subst. apply andb_true_iff in Hc. destruct Hc as [Hn Hff].
    repeat split; [|exact Hff]. destruct inner; [discriminate | discriminate].
  Qed.

  Theorem lift_noop : forall c cs e v,
    eqv (seq_with (eval_chain c) (lift_chains cs) e v) (seq_with (eval_chain c) cs e v).
  Proof.
    intros c cs. induction cs as [|chn r IH]; intros e v; [apply eqv_refl|]. cbn [lift_chains].
    destruct (should_lift chn) as [inner|] eqn:Hl.
    - destruct (should_lift_block _ _ Hl) as (-> & Hne & Hff).
      eapply eqv_trans; [apply seq_app; exact Hne|].
      (* the block step *)
      cbn [seq_with]. rewrite eval_chain_none. cbn [terms_with].
      eapply eqv_trans; [|apply eqv_bind; [apply eqv_sym; eapply eqv_trans;
                                            [apply eqv_bind; [apply single_branch_block | intros; apply eqv_tick]
                                            | apply eqv_bind_assoc]
                                          | intros; apply eqv_refl]].
      eapply eqv_trans; [|apply eqv_sym, eqv_bind_assoc].
      destruct (seq_with (eval_chain c) inner e v) as [[x e1] w| | |] eqn:Hi; try reflexivity.
      assert (e1 = e) by (eapply seq_keeps_scope; eassumption). subst e1.
      cbn [bind ret fst snd tick]. unfold eqv. rewrite !erase_tick. unfold seq_then.
      destruct (lift_chains r) as [|d l] eqn:Hlr.
      + assert (Hr : r = []).
        { destruct r as [|c2 r']; [reflexivity|]. cbn [lift_chains] in Hlr.
          destruct (should_lift c2) as [i2|] eqn:H2; [|discriminate].
          destruct (should_lift_block _ _ H2) as (_ & Hn2 & _). destruct i2; [congruence | discriminate]. }
        subst r. reflexivity.
      + destruct r as [|c2 r']; [discriminate|].
        cbn [fst snd]. destruct (is_nil x); [reflexivity|]. apply IH.
    - cbn [seq_with]. apply eqv_bind; [apply eqv_refl|]. intros x.
      destruct r as [|c2 r'].
      + cbn [lift_chains]. reflexivity.
      + destruct (lift_chains (c2 :: r')) as [|d l] eqn:Hlr.
        * exfalso. cbn [lift_chains] in Hlr. destruct (should_lift c2) as [i2|] eqn:H2; [|discriminate].
          destruct (should_lift_block _ _ H2) as (_ & Hn2 & _). destruct i2; [congruence | discriminate].
        * destruct (is_nil (fst x)); [reflexivity|]. apply IH.
  Qed.
End NoOps.

(* ------------------------------------------------------------------------------------------
   Part 3: evaluation commutes with normalising the body of every function value. *)
Fixpoint nv (v : value) : value :=
  match v with
  | VTuple n fs => VTuple n (map (fun f => (fst f, nv (snd f))) fs)
  | VClos nl body cenv te =>
      VClos nl (match body with Some b => Some (strip_expression b) | None => None end)
            (map (fun b => (fst b, nv (snd b))) cenv) te
  | other => other
  end.
Definition nfs (fs : list (option atom * value)) : list (option atom * value) := map (fun f => (fst f, nv (snd f))) fs.
Definition nenv (e : env) : env := map (fun b => (fst b, nv (snd b))) e.
Definition nctx (c : ctx) : ctx :=
  mkCtx (nv (c_param c)) (match c_self c with Some f => Some (nv f) | None => None end) (c_tenv c).
Definition nvp (x : value * env) : value * env := (nv (fst x), nenv (snd x)).
Definition rmap {A B} (g : A -> B) (r : res A) : res B :=
  match r with
  | Ret a w => Ret (g a) w
  | TailC f a w => TailC (nv f) (nv a) w
  | Error e => Error e
  | Timeout => Timeout
  end.
(* `r'` (normalised world) simulates `r` *)
Definition sim {A B} (g : A -> B) (r' : res B) (r : res A) : Prop := eqv r' (rmap g r).

Lemma sim_bind : forall A B A' B' (g : A -> A') (h : B -> B') (a : res A) (a' : res A') (f : A -> res B) (f' : A' -> res B'),
  sim g a' a -> (forall x, sim h (f' (g x)) (f x)) -> sim h (bind a' f') (bind a f).
Proof.
  unfold sim, eqv. intros A B A' B' g h a a' f f' Ha Hf.
  destruct a as [x w|k y w|e|], a' as [x' w'|k' y' w'|e'|]; cbn in Ha; try discriminate; cbn [bind rmap].
  - inversion Ha; subst. rewrite erase_tick. rewrite Hf. destruct (f x); reflexivity.
  - inversion Ha; subst. reflexivity.
  - inversion Ha; subst. reflexivity.
  - reflexivity.
Qed.
Lemma sim_ret : forall A B (g : A -> B) x, sim g (ret (g x)) (ret x).
Proof. reflexivity. Qed.
Lemma sim_tick : forall A B (g : A -> B) s s' r' r, sim g r' r -> sim g (tick s' r') (tick s r).
Proof.
  unfold sim, eqv. intros A B g s s' r' r H. rewrite erase_tick. rewrite H. destruct r; reflexivity.
Qed.
Lemma sim_tick_l : forall A B (g : A -> B) s' r' r, sim g r' r -> sim g (tick s' r') r.
Proof. unfold sim, eqv. intros. rewrite erase_tick. assumption. Qed.
Lemma sim_eqv_l : forall A B (g : A -> B) r'' r' r, eqv r'' r' -> sim g r' r -> sim g r'' r.
Proof. unfold sim. intros. eapply eqv_trans; eassumption. Qed.
Lemma sim_eqv_r : forall A B (g : A -> B) r' r r0, sim g r' r -> eqv r r0 -> sim g r' r0.
Proof.
  unfold sim, eqv. intros A B g r' r r0 H H0. rewrite H.
  destruct r, r0; cbn in *; try discriminate; inversion H0; subst; reflexivity.
Qed.
Lemma sim_with_env : forall A B (g : A -> B) e r' r,
  sim g r' r -> sim (fun x => (g (fst x), nenv (snd x))) (with_env (nenv e) r') (with_env e r).
Proof.
  intros. unfold with_env. eapply sim_bind; [eassumption|]. intros x. reflexivity.
Qed.

(* value-level facts *)
Lemma nv_nil : nv vnil = vnil. Proof. reflexivity. Qed.
Lemma nv_is_nil : forall v, is_nil (nv v) = is_nil v.
Proof. intros [| |[n|] [|f fs]| |]; reflexivity. Qed.
Lemma nv_is_callable : forall v, is_callable (nv v) = is_callable v.
Proof. intros [| | | |]; reflexivity. Qed.
Lemma nv_is_nilary : forall v, is_nilary (nv v) = is_nilary v.
Proof. intros [| | | |]; reflexivity. Qed.
Lemma nv_tail_arg : forall f v, tail_arg (nv f) (nv v) = nv (tail_arg f v).
Proof. intros f v. unfold tail_arg. rewrite nv_is_nilary. destruct (is_nilary f); reflexivity. Qed.

Lemma lookup_nenv : forall x e, lookup x (nenv e) = match lookup x e with Some v => Some (nv v) | None => None end.
Proof.
  intros x e. induction e as [|[y v] r IH]; [reflexivity|]. cbn. destruct (x =? y); [reflexivity | exact IH].
Qed.
Lemma lookup_var_nenv : forall x e,
  lookup_var x (nenv e) = match lookup_var x e with Some v => Some (nv v) | None => None end.
Proof.
  intros x e. unfold lookup_var. rewrite !lookup_nenv. destruct (lookup x e); [reflexivity|].
  destruct (lookup a_star e); reflexivity.
Qed.
Lemma find_field_nfs : forall l fs,
  find_field l (nfs fs) = match find_field l fs with Some v => Some (nv v) | None => None end.
Proof.
  intros l fs. induction fs as [|[[k|] v] r IH]; [reflexivity| |exact IH]. cbn. destruct (l =? k); [reflexivity | exact IH].
Qed.
Lemma nth_error_nfs : forall fs n,
  nth_error (nfs fs) n = match nth_error fs n with Some f => Some (fst f, nv (snd f)) | None => None end.
Proof. intros fs n. unfold nfs. rewrite nth_error_map. destruct (nth_error fs n); reflexivity. Qed.

Lemma access_one_nv : forall v p, access_one (nv v) p = rmap nv (access_one v p).
Proof.
  intros v p. destruct v as [| |n fs| |]; try reflexivity. cbn [nv access_one]. fold (nfs fs). destruct p as [l|i].
  - rewrite find_field_nfs. destruct (find_field l fs); reflexivity.
  - destruct (i <? 0); [reflexivity|]. rewrite nth_error_nfs. destruct (nth_error fs (Z.to_nat i)) as [[k w]|]; reflexivity.
Qed.
Lemma access_all_nv : forall path v, sim nv (access_all (nv v) path) (access_all v path).
Proof.
  induction path as [|p r IH]; intros v; cbn [access_all]; [reflexivity|].
  eapply sim_bind; [|intros x; apply IH]. unfold sim. rewrite access_one_nv. apply eqv_refl.
Qed.

(* induction principle for the nested value type *)
Section ValueInd.
  Variable P : value -> Prop.
  Hypothesis HInt : forall n, P (VInt n).
  Hypothesis HBin : forall b, P (VBin b).
  Hypothesis HTup : forall n fs, Forall (fun f => P (snd f)) fs -> P (VTuple n fs).
  Hypothesis HClos : forall nl body cenv te, Forall (fun b => P (snd b)) cenv -> P (VClos nl body cenv te).
  Hypothesis HBi : forall b, P (VBuiltin b).
  Fixpoint value_ind' (v : value) : P v :=
    match v with
    | VInt n => HInt n
    | VBin b => HBin b
    | VTuple n fs => HTup n fs ((fix go (l : list (option atom * value)) : Forall (fun f => P (snd f)) l :=
                                   match l with [] => Forall_nil _ | (k, x) :: r => Forall_cons (k, x) (value_ind' x) (go r) end) fs)
    | VClos nl body cenv te =>
        HClos nl body cenv te ((fix go (l : list (atom * value)) : Forall (fun b => P (snd b)) l :=
                                  match l with [] => Forall_nil _ | (k, x) :: r => Forall_cons (k, x) (value_ind' x) (go r) end) cenv)
    | VBuiltin b => HBi b
    end.
End ValueInd.

Lemma value_eqb_nv : forall a b, value_eqb (nv a) (nv b) = value_eqb a b.
Proof.
  induction a as [n|bs|n fs IH|nl body cenv te _|x] using value_ind'; intros b; destruct b as [m|cs|m gs|nl2 body2 cenv2 te2|y]; try reflexivity.
  cbn [nv value_eqb]. destruct (oatom_eqb n m); [|reflexivity].
  revert gs. induction IH as [|[l x] fs' Hx _ IHfs]; intros gs; destruct gs as [|[k y] gs']; try reflexivity.
  cbn [map fst snd]. destruct (oatom_eqb l k); [|reflexivity]. cbn in Hx. rewrite Hx.
  destruct (value_eqb x y) as [[|]|]; try reflexivity. apply IHfs.
Qed.

Lemma full_fields_nfs : forall (f : ty -> value -> res bool) fts vs,
  (forall t v, f t (nv v) = f t v) -> full_fields f fts (nfs vs) = full_fields f fts vs.
Proof.
  intros f fts. induction fts as [|ft r IH]; intros vs H; destruct vs as [|[k v] vs]; try reflexivity;
    try (destruct ft; reflexivity).
  cbn [nfs map fst snd full_fields]. destruct ft as [l t|]; [|reflexivity]. destruct (oatom_eqb l k); [|reflexivity].
    rewrite H. destruct (f t v) as [[|] w| | |]; try reflexivity. cbn [bind]. f_equal. apply IH, H.
Qed.
Lemma partial_fields_nfs : forall (f : ty -> value -> res bool) fts vs,
  (forall t v, f t (nv v) = f t v) -> partial_fields f fts (nfs vs) = partial_fields f fts vs.
Proof.
  intros f fts vs H. induction fts as [|ft r IH]; [reflexivity|]. cbn [partial_fields].
  destruct ft as [[l|] t|]; try reflexivity. rewrite find_field_nfs. destruct (find_field l vs) as [v|]; [|reflexivity].
  rewrite H. destruct (f t v) as [[|] w| | |]; try reflexivity. cbn [bind]. f_equal. exact IH.
Qed.
Lemma any_res_ext : forall (f g : ty -> res bool) ts, (forall t, f t = g t) -> any_res f ts = any_res g ts.
Proof. intros f g ts H. induction ts as [|t r IH]; [reflexivity|]. cbn. rewrite H. destruct (g t) as [[|] w| | |]; try reflexivity. cbn. f_equal. exact IH. Qed.
Lemma all_res_ext : forall (f g : ty -> res bool) ts, (forall t, f t = g t) -> all_res f ts = all_res g ts.
Proof. intros f g ts H. induction ts as [|t r IH]; [reflexivity|]. cbn. rewrite H. destruct (g t) as [[|] w| | |]; try reflexivity. cbn. f_equal. exact IH. Qed.

Lemma inhab_nv : forall n te root t v, inhab n te root t (nv v) = inhab n te root t v.
Proof.
  induction n as [|n IH]; intros te root t v; [reflexivity|]. cbn [inhab].
  destruct t as [p|name part fts|i o|ts|ts|x args|d| | |mo mem args|args]; try reflexivity.
  - destruct p; destruct v; reflexivity.
  - destruct v as [| |vn vfs| |]; try reflexivity. cbn [nv]. fold (nfs vfs). destruct part.
    + destruct (match name with Some _ => oatom_eqb name vn | None => true end); [|reflexivity].
      apply partial_fields_nfs. intros; apply IH.
    + destruct (oatom_eqb name vn); [|reflexivity]. apply full_fields_nfs. intros; apply IH.
  - apply any_res_ext. intros; apply IH.
  - apply all_res_ext. intros; apply IH.
  - destruct (lookup_alias (Some x) te) as [[ps body]|]; [|reflexivity].
    destruct (existsb has_cycle args); [reflexivity|]. destruct (zip_params ps args); [apply IH | reflexivity].
  - destruct d as [d|]; [destruct (d =? 0); [apply IH | reflexivity] | apply IH].
  - destruct (lookup_alias None te) as [[ps body]|]; [|reflexivity].
    destruct (existsb has_cycle args); [reflexivity|]. destruct (zip_params ps args); [apply IH | reflexivity].
Qed.

Lemma replace_field_nfs : forall l w fs,
  replace_field l (nv w) (nfs fs) = match replace_field l w fs with Some r => Some (nfs r) | None => None end.
Proof.
  intros l w fs. induction fs as [|[[k|] v] r IH]; [reflexivity| |].
  - cbn. destruct (l =? k); [reflexivity|]. fold (nfs r). rewrite IH. destruct (replace_field l w r); reflexivity.
  - cbn. fold (nfs r). rewrite IH. destruct (replace_field l w r); reflexivity.
Qed.
Lemma add_field_nfs : forall acc l w, add_field (nfs acc) l (nv w) = nfs (add_field acc l w).
Proof.
  intros acc [x|] w; unfold add_field.
  - rewrite replace_field_nfs. destruct (replace_field x w acc); [reflexivity|]. unfold nfs. rewrite map_app. reflexivity.
  - unfold nfs. rewrite map_app. reflexivity.
Qed.
Lemma add_fields_nfs : forall fs acc, add_fields (nfs acc) (nfs fs) = nfs (add_fields acc fs).
Proof.
  unfold add_fields. induction fs as [|[l v] r IH]; intros acc; [reflexivity|]. cbn [nfs map fold_left fst snd].
  rewrite add_field_nfs. apply IH.
Qed.

(* patterns *)
Definition pmap (p : pres) : pres := match p with POk b => POk (nenv b) | other => other end.

Lemma eq_verdict_nv : forall b w v, eq_verdict (nenv b) (nv w) (nv v) = pmap (eq_verdict b w v).
Proof. intros. unfold eq_verdict. rewrite value_eqb_nv. destruct (value_eqb w v) as [[|]|]; reflexivity. Qed.
Lemma bind_var_nv : forall b x v, bind_var (nenv b) x (nv v) = pmap (bind_var b x v).
Proof.
  intros. unfold bind_var. rewrite lookup_nenv. destruct (lookup x b); [apply eq_verdict_nv | reflexivity].
Qed.
Lemma bind_star_nv : forall fs b, bind_star (nenv b) (nfs fs) = pmap (bind_star b fs).
Proof.
  induction fs as [|[[l|] v] r IH]; intros b; [reflexivity| |apply IH].
  cbn [nfs map fst snd bind_star]. rewrite bind_var_nv. destruct (bind_var b l v); try reflexivity. apply IH.
Qed.
Lemma type_verdict_nv : forall n te t v k, type_verdict n te t (nv v) (pmap k) = pmap (type_verdict n te t v k).
Proof.
  intros. unfold type_verdict. rewrite inhab_nv. destruct (inhab n te t t v) as [[|] w| | |]; reflexivity.
Qed.
Lemma nv_lit : forall l, nv (val_of_lit l) = val_of_lit l.
Proof. intros [n|b]; reflexivity. Qed.

Lemma pmatch_nv : forall n te outer p b v,
  pmatch n te (nenv outer) (nenv b) p (nv v) = pmap (pmatch n te outer b p v).
Proof.
  intros n te outer p. induction p as [x|l|bs|name fs IH|name fs IH|name| |x|t|ps IH|t x] using pattern_ind';
    intros b v; cbn [pmatch].
  - apply bind_var_nv.
  - rewrite <- (nv_lit l) at 1. apply eq_verdict_nv.
  - change (vstr bs) with (nv (vstr bs)) at 1. apply eq_verdict_nv.
  - destruct v as [| |vn vfs| |]; try reflexivity. cbn [nv]. fold (nfs vfs).
    destruct (oatom_eqb name vn); [|reflexivity].
    revert b vfs. induction IH as [|[l q] fs' Hq _ IHfs]; intros b vfs; destruct vfs as [|[k w] ws]; try reflexivity.
    cbn [nfs map fst snd]. destruct (oatom_eqb l k); [|reflexivity]. rewrite Hq.
    destruct (pmatch n te outer b q w); try reflexivity. apply IHfs.
  - destruct v as [| |vn vfs| |]; try reflexivity. cbn [nv]. fold (nfs vfs).
    destruct (name_ok name vn); [|reflexivity].
    revert b. induction IH as [|[l [q|]] fs' Hq _ IHfs]; intros b; try reflexivity.
    + rewrite find_field_nfs. destruct (find_field l vfs) as [w|]; [|reflexivity]. rewrite Hq.
      destruct (pmatch n te outer b q w); try reflexivity. apply IHfs.
    + rewrite find_field_nfs. destruct (find_field l vfs) as [w|]; [|reflexivity]. rewrite bind_var_nv.
      destruct (bind_var b l w); try reflexivity. apply IHfs.
  - destruct v as [| |vn vfs| |]; try reflexivity. cbn [nv]. fold (nfs vfs).
    destruct (name_ok name vn); [|reflexivity]. rewrite bind_star_nv. destruct (bind_star b vfs); reflexivity.
  - reflexivity.
  - rewrite lookup_var_nenv. destruct (lookup_var x outer); [apply eq_verdict_nv | reflexivity].
  - change (POk (nenv b)) with (pmap (POk b)). apply type_verdict_nv.
  - induction IH as [|q ps' Hq _ IHps]; [reflexivity|]. rewrite Hq.
    destruct (pmatch n te outer b q v); try reflexivity. apply IHps.
  - rewrite bind_var_nv. apply type_verdict_nv.
Qed.

Lemma nenv_app : forall a b, nenv (a ++ b) = nenv a ++ nenv b.
Proof. intros. unfold nenv. apply map_app. Qed.
Lemma nenv_nil_fill : forall xs, nenv (nil_fill xs) = nil_fill xs.
Proof. induction xs as [|x r IH]; [reflexivity|]. cbn. f_equal. exact IH. Qed.

Lemma do_match_nv : forall tf c e p v,
  do_match tf (nctx c) (nenv e) p (nv v) = rmap nvp (do_match tf c e p v).
Proof.
  intros. unfold do_match. cbn [nctx c_tenv]. change (@nil (atom * value)) with (nenv []) at 1.
  rewrite pmatch_nv. destruct (pmatch tf (c_tenv c) e [] p v) as [b| | |]; cbn [pmap rmap ret]; try reflexivity.
  - unfold nvp. cbn [fst snd]. rewrite nenv_app. reflexivity.
  - unfold nvp. cbn [fst snd]. rewrite nenv_app, nenv_nil_fill. reflexivity.
Qed.

Lemma apply_builtin_nv : forall b arg, apply_builtin b (nv arg) = rmap nv (apply_builtin b arg).
Proof.
  intros b arg. unfold apply_builtin, int2.
  repeat match goal with |- context [if b =? ?k then _ else _] => destruct (b =? k) end;
  destruct arg as [z|bs|n [|[l1 [z1|b1|n1 f1|? ? ? ?|?]] [|[l2 [z2|b2|n2 f2|? ? ? ?|?]] [|f3 r]]]|? ? ? ?|?];
  cbn; try reflexivity;
  repeat match goal with |- context [if ?c then _ else _] => destruct c end; reflexivity.
Qed.

(* walkers *)
Lemma terms_sim : forall (ev ev' : term -> env -> value -> res (value * env)) ts,
  Forall (fun t => forall e v, sim nvp (ev' (strip_term t) (nenv e) (nv v)) (ev t e v)) ts ->
  forall e v, sim nvp (terms_with ev' (map strip_term ts) (nenv e) (nv v)) (terms_with ev ts e v).
Proof.
  intros ev ev' ts H. induction H as [|t r Ht _ IH]; intros e v; cbn [map terms_with]; [reflexivity|].
  eapply sim_bind; [apply Ht|]. intros x. apply sim_tick. apply IH.
Qed.

Lemma seq_sim : forall (ev ev' : chain -> env -> value -> res (value * env)) cs,
  Forall (fun c => forall e v, sim nvp (ev' (strip_chain c) (nenv e) (nv v)) (ev c e v)) cs ->
  forall e v, sim nvp (seq_with ev' (map strip_chain cs) (nenv e) (nv v)) (seq_with ev cs e v).
Proof.
  intros ev ev' cs H. induction H as [|c r Hc _ IH]; intros e v; cbn [map seq_with]; [reflexivity|].
  eapply sim_bind; [apply Hc|]. intros x. destruct r as [|c2 r']; [reflexivity|]. cbn [map].
  unfold nvp at 1 2. cbn [fst snd]. rewrite nv_is_nil. destruct (is_nil (fst x)); [reflexivity|]. apply IH.
Qed.

Definition n3 (x : list (option atom * value) * option (option atom) * env) :=
  (nfs (fst (fst x)), snd (fst x), nenv (snd x)).

Lemma fields_sim : forall (ev ev' : chain -> env -> value -> res (value * env)) fs,
  Forall (fun f => match f with
                   | TupleField _ (FChain c) => forall e v, sim nvp (ev' (strip_chain c) (nenv e) (nv v)) (ev c e v)
                   | _ => True
                   end) fs ->
  forall e v acc inh,
    sim n3 (fields_with ev' (map strip_field fs) (nenv e) (nv v) (nfs acc) inh) (fields_with ev fs e v acc inh).
Proof.
  intros ev ev' fs H. induction H as [|[l [c|src]] r Hf _ IH]; intros e v acc inh; cbn [map strip_field fields_with].
  - reflexivity.
  - eapply sim_bind; [apply Hf|]. intros x. unfold nvp. cbn [fst snd]. rewrite add_field_nfs. apply IH.
  - assert (Hs : match src with Some x => lookup_var x (nenv e) | None => Some (nv v) end =
                 match (match src with Some x => lookup_var x e | None => Some v end) with
                 | Some w => Some (nv w) | None => None end).
    { destruct src; [apply lookup_var_nenv | reflexivity]. }
    rewrite Hs. destruct (match src with Some x => lookup_var x e | None => Some v end) as [[| |sname sfs| |]|]; try reflexivity.
    cbn [nv]. fold (nfs sfs). rewrite add_fields_nfs. apply IH.
Qed.

Lemma branches_sim : forall (ev ev' : sequence -> env -> value -> res (value * env)) bs,
  Forall (fun b => match b with
                   | Branch c k => (forall e v, sim nvp (ev' (strip_sequence c) (nenv e) (nv v)) (ev c e v)) /\
                                   Popt (fun s => forall e v, sim nvp (ev' (strip_sequence s) (nenv e) (nv v)) (ev s e v)) k
                   end) bs ->
  forall e v, sim nv (branches_with ev' (map strip_branch bs) (nenv e) (nv v)) (branches_with ev bs e v).
Proof.
  intros ev ev' bs H. induction H as [|[c k] r [Hc Hk] _ IH]; intros e v; cbn [map strip_branch branches_with]; [reflexivity|].
  eapply sim_bind; [apply Hc|]. intros x. unfold nvp at 1. cbn [fst snd]. rewrite nv_is_nil.
  destruct (is_nil (fst x)); [apply sim_tick, IH|]. destruct k as [k|]; [|reflexivity].
  apply sim_tick. eapply sim_bind; [apply Hk|]. intros y. reflexivity.
Qed.

Lemma segments_sim : forall (ev ev' : expression -> env -> value -> res value) segs,
  Forall (fun g => match g with
                   | Hole b => forall e v, sim nv (ev' (strip_expression b) (nenv e) (nv v)) (ev b e v)
                   | Text _ => True
                   end) segs ->
  forall e v acc, sim (fun x : list Z => x) (segments_with ev' (map strip_segment segs) (nenv e) (nv v) acc)
                      (segments_with ev segs e v acc).
Proof.
  intros ev ev' segs H. induction H as [|[bs|b] r Hg _ IH]; intros e v acc; cbn [map strip_segment segments_with].
  - reflexivity.
  - apply IH.
  - eapply sim_bind; [apply Hg|]. intros h.
    destruct h as [| |[nm|] [|[[l|] [| bs| | |]] [|f2 fs]]| |]; try reflexivity.
    cbn [nv map fst snd]. destruct (nm =? a_Str); [apply IH | reflexivity].
Qed.

(* one level *)
Section LevelNorm.
  Variable tf : nat.
  Variables (cf cf' : value -> value -> stats -> res value) (imf imf' : list atom -> res value).
  Hypothesis Hcf : forall f a acc acc', sim nv (cf' (nv f) (nv a) acc') (cf f a acc).
  Hypothesis Himf : forall p, sim nv (imf' p) (imf p).

  Lemma apply_value_sim : forall w v, sim nv (apply_value cf' (nv w) (nv v)) (apply_value cf w v).
  Proof.
    intros w v. unfold apply_value. rewrite nv_is_callable. destruct (is_callable w); [|reflexivity].
    rewrite nv_tail_arg. apply Hcf.
  Qed.

  Lemma access_apply_sim : forall base path v,
    sim nv (do w <- access_all (nv base) path ;; apply_value cf' w (nv v))
           (do w <- access_all base path ;; apply_value cf w v).
  Proof.
    intros. eapply sim_bind; [apply access_all_nv|]. intros w. apply apply_value_sim.
  Qed.

  Lemma sim_with_env' : forall e (r' r : res value),
    sim nv r' r -> sim nvp (with_env (nenv e) r') (with_env e r).
  Proof. intros e r' r H. exact (sim_with_env _ _ nv e r' r H). Qed.

  Lemma level_norm :
    (forall t c e v, sim nvp (eval_term tf cf' imf' (nctx c) (strip_term t) (nenv e) (nv v)) (eval_term tf cf imf c t e v)) /\
    (forall ch c e v, sim nvp (eval_chain tf cf' imf' (nctx c) (strip_chain ch) (nenv e) (nv v)) (eval_chain tf cf imf c ch e v)) /\
    (forall s c e v, sim nvp (eval_sequence tf cf' imf' (nctx c) (strip_sequence s) (nenv e) (nv v)) (eval_sequence tf cf imf c s e v)) /\
    (forall b c e v, sim nv (eval_expr tf cf' imf' (nctx c) (strip_expression b) (nenv e) (nv v)) (eval_expr tf cf imf c b e v)).
  Proof.
    apply (ast_mutind
      (fun t => forall c e v, sim nvp (eval_term tf cf' imf' (nctx c) (strip_term t) (nenv e) (nv v)) (eval_term tf cf imf c t e v))
      (fun f => match f with
                | TupleField _ (FChain ch) => forall c e v, sim nvp (eval_chain tf cf' imf' (nctx c) (strip_chain ch) (nenv e) (nv v)) (eval_chain tf cf imf c ch e v)
                | _ => True
                end)
      (fun g => match g with
                | Hole b => forall c e v, sim nv (eval_expr tf cf' imf' (nctx c) (strip_expression b) (nenv e) (nv v)) (eval_expr tf cf imf c b e v)
                | Text _ => True
                end)
      (fun ch => forall c e v, sim nvp (eval_chain tf cf' imf' (nctx c) (strip_chain ch) (nenv e) (nv v)) (eval_chain tf cf imf c ch e v))
      (fun s => forall c e v, sim nvp (eval_sequence tf cf' imf' (nctx c) (strip_sequence s) (nenv e) (nv v)) (eval_sequence tf cf imf c s e v))
      (fun b => match b with
                | Branch cd k =>
                    (forall c e v, sim nvp (eval_sequence tf cf' imf' (nctx c) (strip_sequence cd) (nenv e) (nv v)) (eval_sequence tf cf imf c cd e v)) /\
                    Popt (fun s => forall c e v, sim nvp (eval_sequence tf cf' imf' (nctx c) (strip_sequence s) (nenv e) (nv v)) (eval_sequence tf cf imf c s e v)) k
                end)
      (fun b => forall c e v, sim nv (eval_expr tf cf' imf' (nctx c) (strip_expression b) (nenv e) (nv v)) (eval_expr tf cf imf c b e v))).
    - (* Literal *) intros l c e v. destruct l; reflexivity.
    - (* Tuple *) intros n fs H c e v. cbn [strip_term]. rewrite !eval_term_tuple.
      eapply sim_bind.
      + change (@nil (option atom * value)) with (nfs []) at 1. apply fields_sim.
        eapply Forall_impl; [|exact H]. intros [l [chn|x]] Hf; auto.
      + intros [[fs' inh] e']. unfold n3. cbn [fst snd].
        destruct n as [|a|]; [reflexivity | reflexivity | destruct inh; reflexivity].
    - (* String *) intros segs H c e v. cbn [strip_term]. rewrite !eval_term_string.
      eapply sim_bind; [|intros bs; reflexivity].
      apply segments_sim. eapply Forall_impl; [|exact H]. intros [bs|b] Hg; auto.
    - (* Match *) intros p c e v. cbn [strip_term]. rewrite !eval_term_match. unfold sim. rewrite do_match_nv. apply eqv_refl.
    - (* Block *) intros b H c e v. cbn [strip_term]. rewrite !eval_term_block. apply sim_with_env', H.
    - (* Function *) intros tps pt rt body _ c e v. cbn [strip_term Lang.eval_term]. destruct body; reflexivity.
    - (* Access *) intros [src path] c e v. cbn [strip_term Lang.eval_term].
      destruct src as [[y| | |p| |b|[y|]|]|].
      + rewrite lookup_var_nenv. destruct (lookup_var y e) as [base|]; [|reflexivity].
        apply sim_with_env', access_apply_sim.
      + apply sim_with_env'. exact (access_apply_sim (c_param c) path v).
      + apply sim_with_env', access_all_nv.
      + apply sim_with_env'. eapply sim_bind; [apply Himf|]. intros base. apply access_apply_sim.
      + reflexivity.
      + apply sim_with_env'. exact (access_apply_sim (VBuiltin b) path v).
      + rewrite lookup_var_nenv. destruct (lookup_var y e) as [base|]; [|reflexivity].
        eapply sim_bind; [apply access_all_nv|]. intros f. rewrite nv_is_callable.
        destruct (is_callable f); [|reflexivity]. unfold sim. cbn [rmap]. rewrite nv_tail_arg. apply eqv_refl.
      + cbn [nctx c_self]. destruct (c_self c) as [f|]; [|reflexivity]. destruct path; [|reflexivity].
        unfold sim. cbn [rmap]. rewrite nv_tail_arg. apply eqv_refl.
      + rewrite nv_is_callable, nv_is_nilary. destruct (is_callable v && is_nilary v); reflexivity.
      + apply sim_with_env', access_all_nv.
    - intros; reflexivity.
    - intros; reflexivity.
    - intros [cs|] _ c e v; reflexivity.
    - intros; reflexivity.
    - (* Reference *) intros [src path] c e v. cbn [strip_term Lang.eval_term].
      destruct src as [[y| | |p| |b|[y|]|]|]; try reflexivity.
      + rewrite lookup_var_nenv. destruct (lookup_var y e) as [base|]; [|reflexivity].
        apply sim_with_env', access_all_nv.
      + apply sim_with_env'. exact (access_all_nv path (c_param c)).
      + apply sim_with_env', access_all_nv.
      + apply sim_with_env'. eapply sim_bind; [apply Himf|]. intros base. apply access_all_nv.
      + apply sim_with_env'. exact (access_all_nv path (VBuiltin b)).
    - intros n chn Hc. exact Hc.
    - intros; exact I.
    - intros; exact I.
    - intros b H. exact H.
    - (* Chain *) intros mp ts H c e v. cbn [strip_chain].
      assert (Hts : forall e0 v0, sim nvp (terms_with (eval_term tf cf' imf' (nctx c)) (splice (map strip_term ts)) (nenv e0) (nv v0))
                                       (terms_with (eval_term tf cf imf c) ts e0 v0)).
      { intros e0 v0. eapply sim_eqv_l; [apply splice_noop|]. apply terms_sim.
        eapply Forall_impl; [|exact H]. intros t Ht e1 v1. apply Ht. }
      destruct mp as [p|]; [rewrite !eval_chain_some | rewrite !eval_chain_none; apply Hts].
      eapply sim_bind; [apply Hts|]. intros x.
      change (snd (nvp x)) with (nenv (snd x)). change (fst (nvp x)) with (nv (fst x)).
      unfold sim. rewrite do_match_nv. apply eqv_refl.
    - (* Sequence *) intros cs H c e v. cbn [strip_sequence]. rewrite !eval_sequence_eq.
      eapply sim_eqv_l; [apply lift_noop|]. apply seq_sim.
      eapply Forall_impl; [|exact H]. intros chn Hc e0 v0. apply Hc.
    - intros cd k Hc Hk. split; [exact Hc | exact Hk].
    - (* Expression *) intros bs H c e v. cbn [strip_expression]. rewrite !eval_expr_eq. apply branches_sim.
      eapply Forall_impl; [|exact H]. intros [cd k] [Hc Hk]. split; [intros; apply Hc|].
      destruct k; cbn in *; auto.
  Qed.
End LevelNorm.

(* ------------------------------------------------------------------------------------------
   The whole evaluator. *)
Definition nmods (mods : list (list atom * program)) : list (list atom * program) :=
  map (fun m => (fst m, normalize (snd m))) mods.

Lemma find_module_nmods : forall path mods,
  find_module path (nmods mods) = match find_module path mods with Some p => Some (normalize p) | None => None end.
Proof.
  intros path mods. induction mods as [|[q m] r IH]; [reflexivity|]. cbn [nmods map find_module fst snd].
  match goal with |- context [if ?b then _ else _] => destruct b end; [reflexivity | exact IH].
Qed.

Lemma lift_chains_app : forall a b, lift_chains (a ++ b) = lift_chains a ++ lift_chains b.
Proof.
  induction a as [|c r IH]; intros b; [reflexivity|]. cbn [app lift_chains].
  destruct (should_lift c); rewrite IH; [rewrite app_assoc|]; reflexivity.
Qed.

Lemma collect_aliases_normalize : forall ss,
  collect_aliases (map (fun s => match s with StmtExpression sq => StmtExpression (strip_sequence sq) | alias => alias end) ss)
  = collect_aliases ss.
Proof. induction ss as [|[n ps t|sq] r IH]; cbn; [reflexivity | f_equal; exact IH | exact IH]. Qed.

Lemma collect_chains_normalize : forall ss,
  collect_chains (map (fun s => match s with StmtExpression sq => StmtExpression (strip_sequence sq) | alias => alias end) ss)
  = lift_chains (map strip_chain (collect_chains ss)).
Proof.
  induction ss as [|[n ps t|[cs]] r IH]; cbn [map collect_chains]; [reflexivity | exact IH |].
  cbn [strip_sequence seq_chains]. rewrite map_app, lift_chains_app, IH. reflexivity.
Qed.

Lemma run_program_norm : forall tf cf cf' imf imf' p,
  (forall f a acc acc', sim nv (cf' (nv f) (nv a) acc') (cf f a acc)) ->
  (forall q, sim nv (imf' q) (imf q)) ->
  sim nv (run_program tf cf' imf' (normalize p)) (run_program tf cf imf p).
Proof.
  intros tf cf cf' imf imf' [ss] Hcf Him. unfold run_program, normalize.
  rewrite collect_aliases_normalize, collect_chains_normalize.
  destruct (level_norm tf cf cf' imf imf' Hcf Him) as (_ & Hchain & _ & _).
  assert (H : sim nvp (seq_with (eval_chain tf cf' imf' (mkCtx vnil None (collect_aliases ss)))
                                (lift_chains (map strip_chain (collect_chains ss))) [] vnil)
                      (seq_with (eval_chain tf cf imf (mkCtx vnil None (collect_aliases ss))) (collect_chains ss) [] vnil)).
  { eapply sim_eqv_l; [apply lift_noop|].
    refine (seq_sim (eval_chain tf cf imf (mkCtx vnil None (collect_aliases ss)))
                    (eval_chain tf cf' imf' (mkCtx vnil None (collect_aliases ss))) (collect_chains ss) _ [] vnil).
    apply Forall_forall. intros chn _ e v.
    exact (Hchain chn (mkCtx vnil None (collect_aliases ss)) e v). }
  unfold sim, eqv in *.
  destruct (seq_with (eval_chain tf cf imf _) (collect_chains ss) [] vnil) as [x w|g y w|err|];
  destruct (seq_with (eval_chain tf cf' imf' _) _ [] vnil) as [x' w'|g' y' w'|err'|];
  cbn in H; try discriminate; inversion H; subst; reflexivity.
Qed.

Lemma call_acc_irrelevant : forall mods n f a acc acc', eqv (call mods n f a acc) (call mods n f a acc').
Proof.
  intros mods. induction n as [|n IH]; intros f a acc acc'; [reflexivity|]. rewrite !call_S.
  destruct f as [z0|bs0|nm0 fs0|nl body cenv te|b]; try reflexivity.
  - destruct body as [body|]; [|reflexivity].
    destruct (eval_expr n (call mods n) (eval_import mods n) _ body cenv a); try reflexivity. apply IH.
  - unfold eqv. rewrite !erase_tick. reflexivity.
Qed.

Theorem call_import_norm : forall mods n,
  (forall f a acc acc', sim nv (call (nmods mods) n (nv f) (nv a) acc') (call mods n f a acc)) /\
  (forall path, sim nv (eval_import (nmods mods) n path) (eval_import mods n path)).
Proof.
  intros mods. induction n as [|n [IHc IHi]]; [split; intros; reflexivity|]. split.
  - intros f a acc acc'. rewrite !call_S.
    destruct f as [z0|bs0|nm0 fs0|nl body cenv te|b]; try reflexivity.
    + destruct body as [body|]; [|reflexivity]. cbn [nv].
      destruct (level_norm n _ _ _ _ IHc IHi) as (_ & _ & _ & Hexpr).
      pose proof (Hexpr body (mkCtx a (Some (VClos nl (Some body) cenv te)) te) cenv a) as H.
      cbn [nctx c_param c_self c_tenv nv] in H. fold (nenv cenv) in *.
      unfold sim, eqv in H.
      destruct (eval_expr n (call mods n) (eval_import mods n) _ body cenv a) as [x w|g y w|err|];
      destruct (eval_expr n (call (nmods mods) n) (eval_import (nmods mods) n) _ (strip_expression body) (nenv cenv) (nv a)) as [x' w'|g' y' w'|err'|];
      cbn in H; try discriminate; inversion H; subst; try reflexivity.
      apply IHc.
    + cbn [nv]. unfold sim, eqv. rewrite erase_tick, apply_builtin_nv.
      destruct (apply_builtin b a); reflexivity.
  - intros path. rewrite !eval_import_S, find_module_nmods.
    destruct (find_module path mods) as [p|]; [|reflexivity]. apply run_program_norm; assumption.
Qed.

(* simplify.rs's normalize_blocks (compiler options) preserves the reference semantics: at every
   fuel the normalised program — with normalised modules — evaluates to the same outcome
   (value / error / out of fuel), up to the event counters and to normalising the bodies of the
   function values in the result *)
Theorem normalize_preserves_eval : forall mods n p,
  erase (eval_program (nmods mods) n (normalize p)) = erase (rmap nv (eval_program mods n p)).
Proof.
  intros mods n p. destruct n as [|n]; [reflexivity|]. unfold eval_program.
  destruct (call_import_norm mods n) as [Hc Hi]. exact (run_program_norm n _ _ _ _ p Hc Hi).
Qed.

(* ... in particular a result without function values is the same value *)
Fixpoint closure_free (v : value) : Prop :=
  match v with
  | VTuple _ fs => (fix go (l : list (option atom * value)) : Prop :=
                      match l with [] => True | f :: r => closure_free (snd f) /\ go r end) fs
  | VClos _ _ _ _ => False
  | _ => True
  end.
Lemma nv_closure_free : forall v, closure_free v -> nv v = v.
Proof.
  induction v as [n|bs|n fs IH|nl body cenv te _|x] using value_ind'; intros H; try reflexivity; [|destruct H].
  cbn [nv]. f_equal. cbn [closure_free] in H. induction IH as [|[l x] r Hx _ IHr]; [reflexivity|].
  destruct H as [H1 H2]. cbn [map fst snd] in *. rewrite (Hx H1). f_equal. apply IHr, H2.
Qed.

Corollary normalize_preserves_value : forall mods n p v w,
  eval_program mods n p = Ret v w -> closure_free v ->
  exists w', eval_program (nmods mods) n (normalize p) = Ret v w'.
Proof.
  intros mods n p v w H Hcf. pose proof (normalize_preserves_eval mods n p) as Hn. rewrite H in Hn.
  cbn [rmap erase] in Hn. rewrite (nv_closure_free v Hcf) in Hn.
  destruct (eval_program (nmods mods) n (normalize p)) as [v' w'| | |]; cbn in Hn; try discriminate.
  inversion Hn; subst. eauto.
Qed.

Corollary normalize_preserves_termination : forall mods n p,
  eval_program (nmods mods) n (normalize p) = Timeout <-> eval_program mods n p = Timeout.
Proof.
  intros mods n p. pose proof (normalize_preserves_eval mods n p) as Hn.
  destruct (eval_program mods n p), (eval_program (nmods mods) n (normalize p)); cbn in Hn; split; intros H; try discriminate; reflexivity.
Qed.

(* non-vacuity: `x = { 1, { 2 } }, { x { [~, 3] } }` is changed by the normalisation (both the
   splice and the lift fire) and evaluates to [2, 3] before and after *)
Definition ex_norm_prog : program :=
  Program [StmtExpression (Sequence
    [Chain (Some (MIdentifier 100)) [Block (Expression [Branch (Sequence [Chain None [Literal (LInteger 1)];
                                                                            Chain None [Block (Expression [Branch (Sequence [Chain None [Literal (LInteger 2)]]) None])]]) None])];
     Chain None [Block (Expression [Branch (Sequence
       [Chain None [Access (mkAccess (Some (Identifier 100)) []);
                    Block (Expression [Branch (Sequence [Chain None [Tuple Anonymous [TupleField None (FChain (Chain None [Access (mkAccess (Some Ripple) [])]));
                                                                                        TupleField None (FChain (Chain None [Literal (LInteger 3)]))]]]) None])]]) None])]])].
Example ex_normalize :
  normalize ex_norm_prog <> ex_norm_prog /\
  erase (eval_program [] 5 ex_norm_prog) = Ret (VTuple None [(None, VInt 2); (None, VInt 3)]) st0 /\
  erase (eval_program [] 5 (normalize ex_norm_prog)) = Ret (VTuple None [(None, VInt 2); (None, VInt 3)]) st0.
Proof. split; [vm_compute; discriminate | split; vm_compute; reflexivity]. Qed.
