(* LangSimplify.v — model of quiver-compiler/src/simplify.rs (`normalize_blocks`) on the AST of
   Lang.v, for the options the COMPILER uses (compiler.rs: `keep = |_| false, lift = true,
   group_consequences = false`).  Definitions only.  (Simplify.v, built for C17, models the same
   file on Ast.v with all three options; its patterns and types are opaque, which the evaluator
   cannot use.  This file follows it line by line; the formatter-only parts — the `keep` closure,
   which reads source spans, and `group_consequence` — are not needed here.)
   The Rust loops `for term in terms { let term = strip_term(term); if strip {extend} else {push} }`
   are written `splice (map strip_term terms)`: the decision for a term depends only on the
   already-simplified term and on whether it is the last one. *)
From Coq Require Import ZArith List Bool.
From Quiver Require Import lang.Lang.
Import ListNotations.
Open Scope Z_scope.

Definition is_some {A} (o : option A) : bool := match o with Some _ => true | None => false end.
Definition null {A} (l : list A) : bool := match l with [] => true | _ => false end.
Definition chain_terms (c : chain) : list term := match c with Chain _ ts => ts end.

(* simplify.rs:254 is_tail_call *)
Definition is_tail_call (t : term) : bool :=
  match t with
  | Access (mkAccess (Some (TailCall _)) _) => true
  | Access (mkAccess (Some TailCallRipple) _) => true
  | _ => false
  end.

(* simplify.rs has_nonfinal_tail_call: terms.len() > 1 && terms[..len-1].iter().any(is_tail_call) *)
Definition has_nonfinal_tail_call (ts : list term) : bool :=
  (1 <? Z.of_nat (length ts)) && existsb is_tail_call (removelast ts).

(* simplify.rs contains_match: recurses through tuples and select sources, stops at blocks/functions *)
Fixpoint contains_match (t : term) : bool :=
  match t with
  | Match _ => true
  | Tuple _ fs =>
      existsb (fun f => match f with
                        | TupleField _ (FChain (Chain mp ts)) => is_some mp || existsb contains_match ts
                        | TupleField _ (FSpread _) => false
                        end) fs
  | Select (Some cs) =>
      existsb (fun c => match c with Chain mp ts => is_some mp || existsb contains_match ts end) cs
  | _ => false
  end.

(* simplify.rs is_frame_free_chain *)
Definition is_frame_free_chain (c : chain) : bool :=
  match c with Chain mp ts => negb (is_some mp) && negb (existsb contains_match ts) end.

(* simplify.rs is_inlinable_chain *)
Definition is_inlinable_chain (c : chain) : bool :=
  negb (null (chain_terms c)) && is_frame_free_chain c && negb (has_nonfinal_tail_call (chain_terms c)).

(* simplify.rs is_redundant_block, fused with the destructuring of strip_chain:
   Some body <-> is_redundant_block term, body = branches[0].condition.chains[0] *)
Definition redundant_body (t : term) : option chain :=
  match t with
  | Block (Expression [Branch (Sequence [c]) None]) => if is_inlinable_chain c then Some c else None
  | _ => None
  end.

(* simplify.rs is_liftable_block, fused with the destructuring in strip_sequence *)
Definition liftable_chains (t : term) : option (list chain) :=
  match t with
  | Block (Expression [Branch (Sequence cs) None]) =>
      if negb (null cs) && forallb is_frame_free_chain cs then Some cs else None
  | _ => None
  end.

(* simplify.rs ends_in_tail_call: a tail call, or a (kept) redundant block that ends in one *)
Fixpoint ends_in_tail_call (t : term) : bool :=
  match t with
  | Block (Expression [Branch (Sequence [Chain mp ts]) None]) =>
      if is_inlinable_chain (Chain mp ts)
      then (fix last_ends (l : list term) : bool :=
              match l with
              | [] => false
              | [x] => ends_in_tail_call x
              | _ :: r => last_ends r
              end) ts
      else false
  | other => is_tail_call other
  end.

Fixpoint last_opt {A} (l : list A) : option A :=
  match l with [] => None | [x] => Some x | _ :: r => last_opt r end.

(* the `strip` decision of strip_chain for an already-simplified term (keep = false) *)
Definition should_strip (t : term) (is_last : bool) : option (list term) :=
  match redundant_body t with
  | Some body =>
      let ends := match last_opt (chain_terms body) with Some x => ends_in_tail_call x | None => false end in
      if negb ends || is_last then Some (chain_terms body) else None
  | None => None
  end.

(* the loop of strip_chain over already-simplified terms *)
Fixpoint splice (ts : list term) : list term :=
  match ts with
  | [] => []
  | t :: r => match should_strip t (null r) with
              | Some body_terms => body_terms ++ splice r
              | None => t :: splice r
              end
  end.

(* the lift decision of strip_sequence for an already-simplified chain (lift = true) *)
Definition should_lift (c : chain) : option (list chain) :=
  match c with
  | Chain None [t] => liftable_chains t
  | _ => None
  end.

Fixpoint lift_chains (cs : list chain) : list chain :=
  match cs with
  | [] => []
  | c :: r => match should_lift c with
              | Some inner => inner ++ lift_chains r
              | None => c :: lift_chains r
              end
  end.

(* simplify.rs strip_term, strip_chain, strip_sequence, strip_expression *)
Fixpoint strip_term (t : term) : term :=
  match t with
  | Tuple n fs => Tuple n (map strip_field fs)
  | Block e => Block (strip_expression e)
  | String segs => String (map strip_segment segs)
  | Function tps pt rt body => Function tps pt rt (match body with Some e => Some (strip_expression e) | None => None end)
  | Spawn inner => Spawn (strip_term inner)
  | Select (Some cs) => Select (Some (map strip_chain cs))
  | other => other
  end
with strip_field (f : tuple_field) : tuple_field :=
  match f with
  | TupleField n (FChain c) => TupleField n (FChain (strip_chain c))
  | other => other
  end
with strip_segment (g : str_segment) : str_segment :=
  match g with
  | Hole e => Hole (strip_expression e)
  | text => text
  end
with strip_chain (c : chain) : chain :=
  match c with Chain mp ts => Chain mp (splice (map strip_term ts)) end
with strip_sequence (s : sequence) : sequence :=
  match s with Sequence cs => Sequence (lift_chains (map strip_chain cs)) end
with strip_branch (b : branch) : branch :=
  match b with
  | Branch c k => Branch (strip_sequence c) (match k with Some s => Some (strip_sequence s) | None => None end)
  end
with strip_expression (e : expression) : expression :=
  match e with Expression bs => Expression (map strip_branch bs) end.

(* simplify.rs normalize_blocks (compiler options) *)
Definition normalize (p : program) : program :=
  match p with Program stmts =>
    Program (map (fun s => match s with
                           | StmtExpression sq => StmtExpression (strip_sequence sq)
                           | alias => alias
                           end) stmts)
  end.
