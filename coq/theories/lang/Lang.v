(* Lang.v — M-Lang: the AST of quiver-compiler/src/ast.rs for the documented core sequential
   language, structural values, and the fuelled big-step REFERENCE EVALUATOR written from
   /repo/docs/spec.md (NOT from compiler.rs).  Definitions only (executable, total).

   Why an own AST and not Ast.v: Ast.v (built for C17) carries patterns and types as an opaque
   payload `sx`, which is all simplify.rs needs; the evaluator has to interpret them.  The
   constructors below keep the names of ast.rs (prefixed where Coq needs it) and the harness
   dumps the real parser's output variant by variant (harness/src/bin/qv_ast.rs).

   Names (identifiers, tuple names, labels, builtin names) are `atom`s: integers interned by the
   driver; two atoms are reserved: `a_Ok` and `a_Str`.

   ---------------------------------------------------------------------------------------------
   Readings chosen where docs/spec.md is silent or ambiguous (each is repeated in the report):
   R1  A binding step `p = chain` is the in-chain match `chain =p` (spec "Pattern matching":
       "Patterns can appear before a chain or within a chain"); it evaluates to Ok / [].
   R2  A full tuple pattern `N[l: p, ..]` is exact on the tuple name (no name = unnamed tuples
       only), the arity and every field label (spec "Tuple types": name and labels are part of
       the type).  Resolved ambiguity (spec example vs spec text/tests, ruled by the
       coordinator): two loose examples of the spec, l.323 `[x: a, y: b] = Point[x: 10, y: 20]`
       ("Rename during binding") and l.336 `Point[x: 0, y] = Point[0, 10]` ("Succeeds if x=0"),
       do not fit any label-respecting reading and are contradicted by the Types section, by
       equality and by quiver-tests/tests/assignment.rs; both evaluate to [] here.
   R3  After a FAILED match the pattern's (static) binders are in scope and hold nil (spec: "any
       variables the pattern binds are in scope afterwards"; it does not say which value they
       have after a failure; nil is the only value the language has for "absent").
   R4  A repeated binder inside ONE pattern is an equality test against its first occurrence
       (spec "Examples/Pattern matching": `=[Cons[value, _], value]`); an identifier bound by an
       EARLIER pattern is simply re-bound (spec: "Identifiers in patterns bind by default").
       A pin `&x` reads the scope outside the pattern.
   R5  The consequence of a branch starts from the BLOCK's input, like every branch ("each branch
       starts from the block's parameter"), with the condition's bindings in scope.
   R6  Each branch is evaluated in the scope the block was entered with: bindings of a branch
       that failed are not visible in the next branch ("a branch's bindings are local").
   R7  Tuple fields and string holes are evaluated left to right, each from the value flowing
       into the tuple/string; a field's bindings persist (a field is a chain, not a block); a
       hole is "parsed like a block body": it is a scope (bindings do not escape).
   R8  "Callable variables are called": decided dynamically (is the value a function/builtin?)
       for identifiers, `$`-accesses, import members and builtins; `~` and a postfix `.x` only
       select (spec: "no bare ripple application").  Static typing can differ for a variable
       whose type is a type variable or a union of callable and non-callable: out of fragment.
   R9  Tail calls: `^`, `^f`, `^~` hand the rest of the enclosing FUNCTION's evaluation over to
       the callee: terms after them in the same function body are not evaluated (outcome
       `TailC`, resolved by `call`).  Blocks are not functions: `^` inside a block targets the
       enclosing function.
   R10 `#{..}` without a parameter type is nilary (spec: "falls back to a nil parameter");
       the context-inferred parameter of an argument-position literal is static: out of fragment.
   R11 A program is one sequence: the chains of all its `Expression` statements in order; type
       aliases are collected up front (spec "Expressions").
   R12 Equality (literal patterns, pins, repeated binders) is structural on (name, labels,
       fields); comparing two functions is outside the fragment (`EStuck`).
   R13 Builtins are not specified by docs/spec.md beyond their names; the handful modelled here
       (integer add/subtract/multiply/divide/modulo/gcd/compare/abs/sqrt, binary concat/length)
       are mathematical integers / byte strings (truncating division, sign-of-dividend modulo;
       a zero divisor or a negative sqrt is the error `EBuiltin`).
   R14 Type patterns: membership is structural; `^` refers to the root of the alias being
       expanded (or of the written type); generic aliases are instantiated by substitution.
       Function/process/resource/module types, type spreads and `^n` (n>0) are outside the
       fragment (`EUnsupported`). 
   R15 `*` over a value whose STATIC type is a union (spec "Destructuring": "Star (all named
       fields)"; silent about unions): the compiler brings every label of every variant into
       scope and the labels the matched value does not carry are nil (semantics fixed by the F64
       repair, /verif/hooks/fix_F64.msg; also the value star binders have after a failed match,
       R3).  The evaluator is untyped, so it cannot enumerate those labels; it records that a star
       pattern was matched in a scope (a reserved entry `a_star` in the environment, block-scoped
       like any binding) and, in such a scope, a name that is NOT bound reads as nil
       (`lookup_var`).  For a program the compiler accepted such a name can only be a star binder
       of another variant.  Imprecision (outside the fragment, avoided by the generator): when an
       OUTER binding has the same name as a label only another variant carries, the compiler's
       star re-binds it to nil while the evaluator still reads the outer binding. *)
From Coq Require Import ZArith List Bool.
Import ListNotations.
Open Scope Z_scope.

Definition atom := Z.
Definition a_Ok : atom := 0.
Definition a_Str : atom := 1.
(* reserved environment entry "a star pattern was matched in this scope" (R15); the driver's
   atoms are non-negative *)
Definition a_star : atom := -1.

(* ast.rs:135 enum Literal *)
Inductive literal :=
| LInteger (n : Z)
| LBinary (bytes : list Z).

(* ast.rs:357 enum PrimitiveType *)
Inductive prim := PInt | PBin | PRef.

(* ast.rs:319 enum Type, :364 TupleType, :372 FieldType, :384 FunctionType, :390 UnionType *)
Inductive ty :=
| TPrimitive (p : prim)
| TTuple (name : option atom) (is_partial : bool) (fields : list field_ty)
| TFunction (input output : ty)
| TUnion (types : list ty)
| TIntersection (types : list ty)
| TIdentifier (name : atom) (arguments : list ty)
| TCycle (depth : option Z)
| TProcess
| TResource
| TModuleType (module : list atom) (member : option atom) (arguments : list ty)
| TSelfDefault (arguments : list ty)
with field_ty :=
| FieldT (name : option atom) (type_def : ty)
| SpreadT (identifier : option atom) (type_arguments : list ty).

(* ast.rs:275 enum Match, :307 MatchTuple, :313 MatchField, :262 PartialPatternField *)
Inductive pattern :=
| MIdentifier (x : atom)
| MLiteral (l : literal)
| MString (bytes : list Z)
| MTuple (name : option atom) (fields : list match_field)
| MPartial (name : option atom) (fields : list partial_field)
| MStar (name : option atom)
| MPlaceholder
| MReference (x : atom)
| MType (t : ty)
| MOr (alternatives : list pattern)
| MAs (t : ty) (x : atom)
with match_field :=
| MatchField (name : option atom) (p : pattern)
with partial_field :=
| PartialPatternField (name : atom) (p : option pattern).

(* ast.rs:162 enum TupleName *)
Inductive tuple_name := Anonymous | Named (n : atom) | Inherit.

(* ast.rs:213 enum AccessSource *)
Inductive access_source :=
| Identifier (x : atom)
| ParameterSrc
| Ripple
| ImportSrc (path : list atom)
| SelfSrc
| Builtin (b : atom)
| TailCall (target : option atom)
| TailCallRipple.

(* ast.rs:252 enum AccessPath *)
Inductive access_path := Field (l : atom) | Index (i : Z).

(* ast.rs:237 struct Access *)
Record access := mkAccess { source : option access_source; accessors : list access_path }.

(* ast.rs:81 Term, :173 Tuple, :191 TupleField, :184 FieldValue, :142 StrSegment, :203 Function,
   :69 Chain, :64 Sequence, :56 Branch, :51 Expression.  Spans and the string style dropped. *)
Inductive term :=
| Literal (l : literal)
| Tuple (name : tuple_name) (fields : list tuple_field)
| String (segments : list str_segment)
| Match (p : pattern)
| Block (e : expression)
| Function (type_parameters : list atom) (parameter_type : option ty) (return_type : option ty)
           (body : option expression)
| Access (a : access)
| Spawn (inner : term)
| Self_
| Select (sources : option (list chain))
| Process (n : Z)
| Reference (a : access)
with tuple_field :=
| TupleField (name : option atom) (value : field_value)
with field_value :=
| FChain (c : chain)
| FSpread (x : option atom)
with str_segment :=
| Text (bytes : list Z)
| Hole (e : expression)
with chain :=
| Chain (match_pattern : option pattern) (terms : list term)
with sequence :=
| Sequence (chains : list chain)
with branch :=
| Branch (condition : sequence) (consequence : option sequence)
with expression :=
| Expression (branches : list branch).

(* ast.rs:32 enum Statement, :27 struct Program *)
Inductive statement :=
| TypeAlias (name : option atom) (type_parameters : list atom) (type_definition : ty)
| StmtExpression (s : sequence).
Inductive program := Program (statements : list statement).

Definition seq_chains (s : sequence) : list chain := match s with Sequence cs => cs end.

(* the type aliases of a module: (name or None for the default type `'`) -> (parameters, body) *)
Definition tenv := list (option atom * (list atom * ty)).

(* ------------------------------------------------------------------------------------------
   Values are structural (spec "Values and immutability"): integers, binaries, tuples with an
   optional name and optional field labels; plus function values (closures capture the scope BY
   VALUE at definition) and builtins. *)
Inductive value :=
| VInt (n : Z)
| VBin (bytes : list Z)
| VTuple (name : option atom) (fields : list (option atom * value))
| VClos (nilary : bool) (body : option expression) (captured : list (atom * value)) (types : tenv)
| VBuiltin (b : atom).

Definition env := list (atom * value).

Definition vnil : value := VTuple None [].
Definition vok : value := VTuple (Some a_Ok) [].
Definition vstr (bs : list Z) : value := VTuple (Some a_Str) [(None, VBin bs)].

Definition is_nil (v : value) : bool :=
  match v with VTuple None [] => true | _ => false end.

Definition is_callable (v : value) : bool :=
  match v with VClos _ _ _ _ => true | VBuiltin _ => true | _ => false end.

(* only closures can be nilary here: no modelled builtin takes nil *)
Definition is_nilary (v : value) : bool :=
  match v with VClos n _ _ _ => n | _ => false end.

(* what kind of dynamic failure; never compared by the check beyond "error" *)
Inductive error :=
| EStuck (site : Z)        (* the program is not well-formed (a statically typed program never gets here) *)
| EBuiltin                 (* domain error of a builtin *)
| EUnsupported (site : Z). (* construct outside the modelled fragment *)

(* Event counters (evidence only: which paths an evaluation took).  They are carried by the
   outcome as a writer component and never influence a value. *)
Record stats := mkStats {
  n_fallthrough : Z;    (* a branch condition was nil: the next branch (or the block's nil) was taken *)
  n_commit : Z;         (* a consequence was entered *)
  n_short : Z;          (* a sequence stopped at a nil step with steps remaining *)
  n_match_fail : Z;     (* a match evaluated to [] *)
  n_mid_fail : Z;       (* ... as a term that is not the last of its chain *)
  n_closure_call : Z;   (* a function value with a body was called *)
  n_tail_call : Z }.    (* a tail call was executed *)
Definition st0 : stats := mkStats 0 0 0 0 0 0 0.
Definition st_add (a b : stats) : stats :=
  mkStats (n_fallthrough a + n_fallthrough b) (n_commit a + n_commit b) (n_short a + n_short b)
          (n_match_fail a + n_match_fail b) (n_mid_fail a + n_mid_fail b)
          (n_closure_call a + n_closure_call b) (n_tail_call a + n_tail_call b).
Definition ev_fallthrough := mkStats 1 0 0 0 0 0 0.
Definition ev_commit := mkStats 0 1 0 0 0 0 0.
Definition ev_short := mkStats 0 0 1 0 0 0 0.
Definition ev_match_fail := mkStats 0 0 0 1 0 0 0.
Definition ev_mid_fail := mkStats 0 0 0 0 1 0 0.
Definition ev_closure_call := mkStats 0 0 0 0 0 1 0.
Definition ev_tail_call := mkStats 0 0 0 0 0 0 1.

Inductive res (A : Type) :=
| Ret (a : A) (w : stats)
| TailC (f : value) (arg : value) (w : stats)   (* a tail call: the enclosing function's evaluation continues as f(arg) *)
| Error (e : error)
| Timeout.
Arguments Ret {A} a w.
Arguments TailC {A} f arg w.
Arguments Error {A} e.
Arguments Timeout {A}.

Definition ret {A} (a : A) : res A := Ret a st0.

(* add events to an outcome *)
Definition tick {A} (s : stats) (r : res A) : res A :=
  match r with
  | Ret a w => Ret a (st_add s w)
  | TailC f a w => TailC f a (st_add s w)
  | Error e => Error e
  | Timeout => Timeout
  end.

Definition bind {A B} (r : res A) (k : A -> res B) : res B :=
  match r with
  | Ret a w => tick w (k a)
  | TailC f a w => TailC f a w
  | Error e => Error e
  | Timeout => Timeout
  end.
Notation "'do' x <- r ;; k" := (bind r (fun x => k)) (at level 200, x pattern, r at level 100, k at level 200).

(* sites of EStuck / EUnsupported *)
Definition s_unbound : Z := 1.
Definition s_field : Z := 2.
Definition s_spread : Z := 3.
Definition s_hole : Z := 4.
Definition s_notfun : Z := 5.
Definition s_fun_eq : Z := 6.
Definition s_inherit : Z := 7.
Definition s_builtin_arg : Z := 8.
Definition u_process : Z := 20.
Definition u_type : Z := 21.
Definition u_builtin : Z := 22.
Definition u_module : Z := 23.
Definition u_toplevel_tail : Z := 24.
Definition u_typevar : Z := 25.

(* ------------------------------------------------------------------------------------------ *)
Definition oatom_eqb (a b : option atom) : bool :=
  match a, b with
  | None, None => true
  | Some x, Some y => x =? y
  | _, _ => false
  end.

Fixpoint bytes_eqb (a b : list Z) : bool :=
  match a, b with
  | [], [] => true
  | x :: a', y :: b' => (x =? y) && bytes_eqb a' b'
  | _, _ => false
  end.

Fixpoint lookup (x : atom) (e : env) : option value :=
  match e with
  | [] => None
  | (y, v) :: r => if x =? y then Some v else lookup x r
  end.

(* R15: reading a variable *)
Definition lookup_var (x : atom) (e : env) : option value :=
  match lookup x e with
  | Some v => Some v
  | None => match lookup a_star e with Some _ => Some vnil | None => None end
  end.

Fixpoint find_field (l : atom) (fs : list (option atom * value)) : option value :=
  match fs with
  | [] => None
  | (Some l', v) :: r => if l =? l' then Some v else find_field l r
  | (None, _) :: r => find_field l r
  end.

(* R12: structural equality; None = two functions were compared *)
Fixpoint value_eqb (a b : value) {struct a} : option bool :=
  match a, b with
  | VInt x, VInt y => Some (x =? y)
  | VBin x, VBin y => Some (bytes_eqb x y)
  | VTuple n fs, VTuple m gs =>
      if oatom_eqb n m then
        (fix go (fs : list (option atom * value)) (gs : list (option atom * value)) : option bool :=
           match fs, gs with
           | [], [] => Some true
           | (l, x) :: fs', (k, y) :: gs' =>
               if oatom_eqb l k then
                 match value_eqb x y with
                 | Some true => go fs' gs'
                 | other => other
                 end
               else Some false
           | _, _ => Some false
           end) fs gs
      else Some false
  | VBuiltin x, VBuiltin y => Some (x =? y)
  | VClos _ _ _ _, VClos _ _ _ _ => None
  | VClos _ _ _ _, VBuiltin _ => None
  | VBuiltin _, VClos _ _ _ _ => None
  | _, _ => Some false
  end.

Definition val_of_lit (l : literal) : value :=
  match l with LInteger n => VInt n | LBinary bs => VBin bs end.

(* spec "Field access": `.x` by label, `.0` by position *)
Definition access_one (v : value) (p : access_path) : res value :=
  match v with
  | VTuple _ fs =>
      match p with
      | Field l => match find_field l fs with Some w => ret w | None => Error (EStuck s_field) end
      | Index i => if i <? 0 then Error (EStuck s_field)
                   else match nth_error fs (Z.to_nat i) with
                        | Some (_, w) => ret w
                        | None => Error (EStuck s_field)
                        end
      end
  | _ => Error (EStuck s_field)
  end.

Fixpoint access_all (v : value) (ps : list access_path) : res value :=
  match ps with
  | [] => ret v
  | p :: r => do w <- access_one v p ;; access_all w r
  end.

(* spec "Spread operator": a later named field overrides an earlier one IN PLACE, anything else
   is appended *)
Fixpoint replace_field (l : atom) (w : value) (fs : list (option atom * value)) : option (list (option atom * value)) :=
  match fs with
  | [] => None
  | (Some l', v) :: r =>
      if l =? l' then Some ((Some l', w) :: r)
      else match replace_field l w r with Some r' => Some ((Some l', v) :: r') | None => None end
  | (None, v) :: r =>
      match replace_field l w r with Some r' => Some ((None, v) :: r') | None => None end
  end.

Definition add_field (acc : list (option atom * value)) (l : option atom) (w : value) : list (option atom * value) :=
  match l with
  | None => acc ++ [(None, w)]
  | Some x => match replace_field x w acc with
              | Some acc' => acc'
              | None => acc ++ [(Some x, w)]
              end
  end.

Definition add_fields (acc : list (option atom * value)) (fs : list (option atom * value)) : list (option atom * value) :=
  fold_left (fun a f => add_field a (fst f) (snd f)) fs acc.

(* ------------------------------------------------------------------------------------------
   Builtins (R13).  The atom -> builtin table is fixed here; the driver interns these names to
   these numbers. *)
Definition b_integer_add : atom := 2.
Definition b_integer_subtract : atom := 3.
Definition b_integer_multiply : atom := 4.
Definition b_integer_divide : atom := 5.
Definition b_integer_modulo : atom := 6.
Definition b_integer_compare : atom := 7.
Definition b_integer_abs : atom := 8.
Definition b_integer_gcd : atom := 9.
Definition b_integer_sqrt : atom := 10.
Definition b_binary_concat : atom := 11.
Definition b_binary_length : atom := 12.
Definition first_free_atom : atom := 13.

Definition int2 (arg : value) (f : Z -> Z -> res value) : res value :=
  match arg with
  | VTuple _ [(_, VInt a); (_, VInt b)] => f a b
  | _ => Error (EStuck s_builtin_arg)
  end.

Definition apply_builtin (b : atom) (arg : value) : res value :=
  if b =? b_integer_add then int2 arg (fun x y => ret (VInt (x + y)))
  else if b =? b_integer_subtract then int2 arg (fun x y => ret (VInt (x - y)))
  else if b =? b_integer_multiply then int2 arg (fun x y => ret (VInt (x * y)))
  else if b =? b_integer_divide then int2 arg (fun x y => if y =? 0 then Error EBuiltin else ret (VInt (Z.quot x y)))
  else if b =? b_integer_modulo then int2 arg (fun x y => if y =? 0 then Error EBuiltin else ret (VInt (Z.rem x y)))
  else if b =? b_integer_compare then int2 arg (fun x y => ret (VInt (if x <? y then -1 else if y <? x then 1 else 0)))
  else if b =? b_integer_gcd then int2 arg (fun x y => ret (VInt (Z.gcd x y)))
  else if b =? b_integer_abs then
    match arg with VInt x => ret (VInt (Z.abs x)) | _ => Error (EStuck s_builtin_arg) end
  else if b =? b_integer_sqrt then
    match arg with
    | VInt x => if x <? 0 then Error EBuiltin else ret (VInt (Z.sqrt x))
    | _ => Error (EStuck s_builtin_arg)
    end
  else if b =? b_binary_concat then
    match arg with
    | VTuple _ [(_, VBin x); (_, VBin y)] => ret (VBin (x ++ y))
    | _ => Error (EStuck s_builtin_arg)
    end
  else if b =? b_binary_length then
    match arg with VBin x => ret (VInt (Z.of_nat (length x))) | _ => Error (EStuck s_builtin_arg) end
  else Error (EUnsupported (- b)).   (* a negative site names the builtin *)

(* ------------------------------------------------------------------------------------------
   Types (R14). *)
Fixpoint lookup_alias (n : option atom) (te : tenv) : option (list atom * ty) :=
  match te with
  | [] => None
  | (m, d) :: r => if oatom_eqb n m then Some d else lookup_alias n r
  end.

Fixpoint lookup_ty (x : atom) (s : list (atom * ty)) : option ty :=
  match s with
  | [] => None
  | (y, t) :: r => if x =? y then Some t else lookup_ty x r
  end.

Fixpoint zip_params (ps : list atom) (args : list ty) : option (list (atom * ty)) :=
  match ps, args with
  | [], [] => Some []
  | p :: ps', a :: args' => match zip_params ps' args' with Some r => Some ((p, a) :: r) | None => None end
  | _, _ => None
  end.

(* instantiate the parameters of a generic alias *)
Fixpoint subst_ty (s : list (atom * ty)) (t : ty) : ty :=
  match t with
  | TPrimitive p => TPrimitive p
  | TTuple n part fs => TTuple n part (map (subst_field s) fs)
  | TFunction i o => TFunction (subst_ty s i) (subst_ty s o)
  | TUnion ts => TUnion (map (subst_ty s) ts)
  | TIntersection ts => TIntersection (map (subst_ty s) ts)
  | TIdentifier x args =>
      match args, lookup_ty x s with
      | [], Some r => r
      | _, _ => TIdentifier x (map (subst_ty s) args)
      end
  | TCycle d => TCycle d
  | TProcess => TProcess
  | TResource => TResource
  | TModuleType m mem args => TModuleType m mem (map (subst_ty s) args)
  | TSelfDefault args => TSelfDefault (map (subst_ty s) args)
  end
with subst_field (s : list (atom * ty)) (f : field_ty) : field_ty :=
  match f with
  | FieldT n t => FieldT n (subst_ty s t)
  | SpreadT x args => SpreadT x (map (subst_ty s) args)
  end.

(* does a type mention `^` (a cycle reference would change meaning when substituted) *)
Fixpoint has_cycle (t : ty) : bool :=
  match t with
  | TCycle _ => true
  | TTuple _ _ fs => existsb (fun f => match f with FieldT _ t' => has_cycle t' | SpreadT _ args => existsb has_cycle args end) fs
  | TFunction i o => has_cycle i || has_cycle o
  | TUnion ts | TIntersection ts => existsb has_cycle ts
  | TIdentifier _ args | TModuleType _ _ args | TSelfDefault args => existsb has_cycle args
  | _ => false
  end.

Fixpoint all_res (f : ty -> res bool) (ts : list ty) : res bool :=
  match ts with
  | [] => ret true
  | t :: r => do b <- f t ;; if b then all_res f r else ret false
  end.

Fixpoint any_res (f : ty -> res bool) (ts : list ty) : res bool :=
  match ts with
  | [] => ret false
  | t :: r => do b <- f t ;; if b then ret true else any_res f r
  end.

(* full tuple type against the value's fields: same length, same labels, members pointwise *)
Fixpoint full_fields (f : ty -> value -> res bool) (fts : list field_ty) (vs : list (option atom * value)) : res bool :=
  match fts, vs with
  | [], [] => ret true
  | FieldT l t :: fts', (k, v) :: vs' =>
      if oatom_eqb l k then do b <- f t v ;; if b then full_fields f fts' vs' else ret false
      else ret false
  | SpreadT _ _ :: _, _ => Error (EUnsupported u_type)
  | _, _ => ret false
  end.

(* partial tuple type: every (named) field is present and a member *)
Fixpoint partial_fields (f : ty -> value -> res bool) (fts : list field_ty) (vs : list (option atom * value)) : res bool :=
  match fts with
  | [] => ret true
  | FieldT (Some l) t :: fts' =>
      match find_field l vs with
      | Some v => do b <- f t v ;; if b then partial_fields f fts' vs else ret false
      | None => ret false
      end
  | _ :: _ => Error (EUnsupported u_type)
  end.

(* `inhab n te root t v`: is v a member of t?  `root`: what `^` refers to. *)
Fixpoint inhab (n : nat) (te : tenv) (root : ty) (t : ty) (v : value) : res bool :=
  match n with
  | O => Timeout
  | S m =>
      match t with
      | TPrimitive PInt => ret (match v with VInt _ => true | _ => false end)
      | TPrimitive PBin => ret (match v with VBin _ => true | _ => false end)
      | TPrimitive PRef => ret false
      | TTuple name part fts =>
          match v with
          | VTuple vname vfs =>
              if part then
                if (match name with None => true | Some _ => oatom_eqb name vname end)
                then partial_fields (inhab m te root) fts vfs
                else ret false
              else
                if oatom_eqb name vname then full_fields (inhab m te root) fts vfs else ret false
          | _ => match existsb (fun f => match f with SpreadT _ _ => true | _ => false end) fts with
                 | true => Error (EUnsupported u_type)
                 | false => ret false
                 end
          end
      | TUnion ts => any_res (fun t' => inhab m te root t' v) ts
      | TIntersection ts => all_res (fun t' => inhab m te root t' v) ts
      | TIdentifier x args =>
          match lookup_alias (Some x) te with
          | Some (ps, body) =>
              if existsb has_cycle args then Error (EUnsupported u_type)
              else match zip_params ps args with
                   | Some s => let body' := subst_ty s body in inhab m te body' body' v
                   | None => Error (EStuck s_unbound)
                   end
          | None => Error (EUnsupported u_typevar)
          end
      | TSelfDefault args =>
          match lookup_alias None te with
          | Some (ps, body) =>
              if existsb has_cycle args then Error (EUnsupported u_type)
              else match zip_params ps args with
                   | Some s => let body' := subst_ty s body in inhab m te body' body' v
                   | None => Error (EStuck s_unbound)
                   end
          | None => Error (EUnsupported u_typevar)
          end
      | TCycle None => inhab m te root root v
      | TCycle (Some d) => if d =? 0 then inhab m te root root v else Error (EUnsupported u_type)
      | TFunction _ _ | TProcess | TResource | TModuleType _ _ _ => Error (EUnsupported u_type)
      end
  end.

(* R10: is the declared parameter type nil?  (aliases are followed a bounded number of times) *)
Fixpoint is_nil_ty (n : nat) (te : tenv) (t : ty) : bool :=
  match t with
  | TTuple None false [] => true
  | TIdentifier x [] =>
      match n with
      | O => false
      | S m => match lookup_alias (Some x) te with
               | Some ([], body) => is_nil_ty m te body
               | _ => false
               end
      end
  | _ => false
  end.

Definition nilary_of (te : tenv) (pt : option ty) : bool :=
  match pt with
  | None => true
  | Some t => is_nil_ty (S (length te)) te t
  end.

(* ------------------------------------------------------------------------------------------
   Pattern matching (spec "Pattern matching"; R2, R3, R4, R12). *)
Inductive pres :=
| POk (b : env)      (* the bindings made by this pattern so far (newest first) *)
| PFail
| PErr (e : error)
| PTimeout.

Definition eq_verdict (b : env) (w v : value) : pres :=
  match value_eqb w v with
  | Some true => POk b
  | Some false => PFail
  | None => PErr (EStuck s_fun_eq)
  end.

(* R4: the first occurrence binds, a repeated one compares *)
Definition bind_var (b : env) (x : atom) (v : value) : pres :=
  match lookup x b with
  | Some w => eq_verdict b w v
  | None => POk ((x, v) :: b)
  end.

Definition type_verdict (n : nat) (te : tenv) (t : ty) (v : value) (k : pres) : pres :=
  match inhab n te t t v with
  | Ret true _ => k
  | Ret false _ => PFail
  | Error e => PErr e
  | Timeout => PTimeout
  | TailC _ _ _ => PErr (EStuck s_unbound)
  end.

Definition name_ok (pn vn : option atom) : bool :=
  match pn with None => true | Some _ => oatom_eqb pn vn end.

(* `*`: every NAMED field is bound to its label *)
Fixpoint bind_star (b : env) (fs : list (option atom * value)) : pres :=
  match fs with
  | [] => POk b
  | (Some l, v) :: r => match bind_var b l v with POk b' => bind_star b' r | other => other end
  | (None, _) :: r => bind_star b r
  end.

Fixpoint pmatch (n : nat) (te : tenv) (outer : env) (b : env) (p : pattern) (v : value) {struct p} : pres :=
  match p with
  | MIdentifier x => bind_var b x v
  | MLiteral l => eq_verdict b (val_of_lit l) v
  | MString bs => eq_verdict b (vstr bs) v
  | MTuple name fields =>
      match v with
      | VTuple vname vfs =>
          if oatom_eqb name vname then
            (fix go (fs : list match_field) (ws : list (option atom * value)) (b : env) : pres :=
               match fs, ws with
               | [], [] => POk b
               | MatchField l q :: fs', (k, w) :: ws' =>
                   if oatom_eqb l k then
                     match pmatch n te outer b q w with
                     | POk b' => go fs' ws' b'
                     | other => other
                     end
                   else PFail
               | _, _ => PFail
               end) fields vfs b
          else PFail
      | _ => PFail
      end
  | MPartial name fields =>
      match v with
      | VTuple vname vfs =>
          if name_ok name vname then
            (fix go (fs : list partial_field) (b : env) : pres :=
               match fs with
               | [] => POk b
               | PartialPatternField l q :: fs' =>
                   match find_field l vfs with
                   | None => PFail
                   | Some w =>
                       match (match q with
                              | None => bind_var b l w
                              | Some q' => pmatch n te outer b q' w
                              end) with
                       | POk b' => go fs' b'
                       | other => other
                       end
                   end
               end) fields b
          else PFail
      | _ => PFail
      end
  | MStar name =>
      match v with
      | VTuple vname vfs =>
          if name_ok name vname then
            match bind_star b vfs with
            | POk b' => POk ((a_star, vnil) :: b')       (* R15 *)
            | other => other
            end
          else PFail
      | _ => PFail
      end
  | MPlaceholder => POk b
  | MReference x =>
      match lookup_var x outer with
      | Some w => eq_verdict b w v
      | None => PErr (EStuck s_unbound)
      end
  | MType t => type_verdict n te t v (POk b)
  | MOr alts =>
      (fix go (ps : list pattern) : pres :=
         match ps with
         | [] => PFail
         | q :: ps' => match pmatch n te outer b q v with
                       | PFail => go ps'
                       | other => other
                       end
         end) alts
  | MAs t x => type_verdict n te t v (bind_var b x v)
  end.

(* the binders a pattern has statically (`*`: only the marker of R15; its names depend on the value) *)
Fixpoint binders (p : pattern) : list atom :=
  match p with
  | MIdentifier x => [x]
  | MTuple _ fields => flat_map (fun f => match f with MatchField _ q => binders q end) fields
  | MPartial _ fields =>
      flat_map (fun f => match f with
                         | PartialPatternField l None => [l]
                         | PartialPatternField _ (Some q) => binders q
                         end) fields
  | MOr (q :: _) => binders q
  | MAs _ x => [x]
  | MStar _ => [a_star]
  | _ => []
  end.

Definition nil_fill (xs : list atom) : env := map (fun x => (x, vnil)) xs.

(* ------------------------------------------------------------------------------------------
   The evaluator.  `ctx`: what does not change inside one function body. *)
Record ctx := mkCtx {
  c_param : value;            (* `$` *)
  c_self : option value;      (* the function being evaluated (`^`); None at the top level *)
  c_tenv : tenv }.            (* the type aliases of the module the code was written in *)

Fixpoint collect_aliases (ss : list statement) : tenv :=
  match ss with
  | [] => []
  | TypeAlias n ps t :: r => (n, (ps, t)) :: collect_aliases r
  | StmtExpression _ :: r => collect_aliases r
  end.

Fixpoint collect_chains (ss : list statement) : list chain :=
  match ss with
  | [] => []
  | TypeAlias _ _ _ :: r => collect_chains r
  | StmtExpression s :: r => seq_chains s ++ collect_chains r
  end.

Fixpoint find_module (path : list atom) (mods : list (list atom * program)) : option program :=
  match mods with
  | [] => None
  | (p, m) :: r => if (fix eq (a b : list atom) : bool :=
                         match a, b with
                         | [], [] => true
                         | x :: a', y :: b' => (x =? y) && eq a' b'
                         | _, _ => false
                         end) path p then Some m else find_module path r
  end.

Definition with_env {A} (e : env) (r : res A) : res (A * env) := do a <- r ;; ret (a, e).

Definition tail_arg (f v : value) : value := if is_nilary f then vnil else v.

(* spec "Pattern matching": a match evaluates to Ok / [] (R3 on failure).  `tf`: the fuel of the
   type tests (`inhab`) *)
Definition do_match (tf : nat) (c : ctx) (e : env) (p : pattern) (v : value) : res (value * env) :=
  match pmatch tf (c_tenv c) e [] p v with
  | POk b => ret (vok, b ++ e)
  | PFail => Ret (vnil, nil_fill (binders p) ++ e) ev_match_fail
  | PErr err => Error err
  | PTimeout => Timeout
  end.

(* ------------------------------------------------------------------------------------------
   The walkers over the lists of the AST, parameterised by the evaluator of one element.  (They
   are defined before the evaluator so that the evaluator is structurally recursive on the AST:
   fuel is only consumed by function calls and imports.) *)
Section Walkers.
  (* spec "Chains": infallible pipe, left to right *)
  Variable ev_term : term -> env -> value -> res (value * env).
  Fixpoint terms_with (ts : list term) (e : env) (v : value) : res (value * env) :=
    match ts with
    | [] => ret (v, e)
    | t :: r =>
        do x <- ev_term t e v ;;
        tick (match t, r with
              | Match _, _ :: _ => if is_nil (fst x) then ev_mid_fail else st0
              | _, _ => st0
              end)
             (terms_with r (snd x) (fst x))
    end.
End Walkers.

Section Walkers2.
  Variable ev_chain : chain -> env -> value -> res (value * env).
  (* spec "Expressions"/"Control flow": fallible pipe: a nil step ends the sequence with nil *)
  Fixpoint seq_with (cs : list chain) (e : env) (v : value) : res (value * env) :=
    match cs with
    | [] => ret (v, e)
    | ch :: r =>
        do x <- ev_chain ch e v ;;
        match r with
        | [] => ret x
        | _ :: _ => if is_nil (fst x) then Ret (vnil, snd x) ev_short else seq_with r (snd x) (fst x)
        end
    end.

  (* spec "Chains" (fields receive the flowing value), "Spread operator" (R7) *)
  Fixpoint fields_with (fs : list tuple_field) (e : env) (v : value)
                       (acc : list (option atom * value)) (inh : option (option atom))
    : res (list (option atom * value) * option (option atom) * env) :=
    match fs with
    | [] => ret (acc, inh, e)
    | TupleField l (FChain ch) :: r =>
        do x <- ev_chain ch e v ;;
        fields_with r (snd x) v (add_field acc l (fst x)) inh
    | TupleField _ (FSpread src) :: r =>
        match (match src with None => Some v | Some x => lookup_var x e end) with
        | Some (VTuple sname sfs) =>
            fields_with r e v (add_fields acc sfs) (match inh with None => Some sname | Some _ => inh end)
        | Some _ => Error (EStuck s_spread)
        | None => Error (EStuck s_unbound)
        end
    end.
End Walkers2.

Section Walkers3.
  Variable ev_seq : sequence -> env -> value -> res (value * env).
  (* spec "Branches" / "Condition-consequence" (R5, R6) *)
  Fixpoint branches_with (bs : list branch) (e : env) (v : value) : res value :=
    match bs with
    | [] => ret vnil
    | Branch cond conseq :: r =>
        do x <- ev_seq cond e v ;;
        if is_nil (fst x) then tick ev_fallthrough (branches_with r e v)
        else match conseq with
             | None => ret (fst x)
             | Some k => tick ev_commit (do y <- ev_seq k (snd x) v ;; ret (fst y))
             end
    end.
End Walkers3.

Section Walkers4.
  Variable ev_expr : expression -> env -> value -> res value.
  (* spec "Interpolation": every hole must evaluate to a Str; a hole is a scope (R7) *)
  Fixpoint segments_with (segs : list str_segment) (e : env) (v : value) (acc : list Z) : res (list Z) :=
    match segs with
    | [] => ret acc
    | Text bs :: r => segments_with r e v (acc ++ bs)
    | Hole b :: r =>
        do h <- ev_expr b e v ;;
        match h with
        | VTuple (Some nm) [(None, VBin bs)] =>
            if nm =? a_Str then segments_with r e v (acc ++ bs) else Error (EStuck s_hole)
        | _ => Error (EStuck s_hole)
        end
    end.
End Walkers4.

(* ------------------------------------------------------------------------------------------
   One level of the evaluator: structurally recursive on the AST, parameterised by what consumes
   fuel: calling a function value and importing a module. *)
Section Level.
  Variable tf : nat.                                            (* fuel of the type tests *)
  Variable callf : value -> value -> stats -> res value.        (* spec "Functions" *)
  Variable importf : list atom -> res value.                    (* spec "Modules and imports" *)

  (* spec "Chains": callable -> called with the flowing value (nil if nilary); else replaces it *)
  Definition apply_value (w : value) (v : value) : res value :=
    if is_callable w then callf w (tail_arg w v) st0 else ret w.

  Fixpoint eval_term (c : ctx) (t : term) (e : env) (v : value) {struct t} : res (value * env) :=
    match t with
    (* spec "Chains": literals and tuples replace the value *)
    | Literal l => ret (val_of_lit l, e)
    | Tuple name fields =>
        do r <- fields_with (eval_chain c) fields e v [] None ;;
        let '(fs, inh, e') := r in
        match name with
        | Anonymous => ret (VTuple None fs, e')
        | Named a => ret (VTuple (Some a) fs, e')
        | Inherit => match inh with
                     | Some nm => ret (VTuple nm fs, e')
                     | None => Error (EStuck s_inherit)
                     end
        end
    (* spec "Strings": Str[text ++ holes] *)
    | String segs => do bs <- segments_with (eval_expr c) segs e v [] ;; ret (vstr bs, e)
    | Match p => do_match tf c e p v
    (* spec "Blocks" / "Variable scoping": a block is a scope *)
    | Block b => with_env e (eval_expr c b e v)
    (* spec "Functions": capture by value; R10 *)
    | Function _ pt _ body => ret (VClos (nilary_of (c_tenv c) pt) body e (c_tenv c), e)
    | Access (mkAccess src path) =>
        match src with
        | None => with_env e (access_all v path)
        | Some Ripple => with_env e (access_all v path)
        | Some (Identifier x) =>
            match lookup_var x e with
            | Some base => with_env e (do w <- access_all base path ;; apply_value w v)
            | None => Error (EStuck s_unbound)
            end
        | Some ParameterSrc =>
            with_env e (do w <- access_all (c_param c) path ;; apply_value w v)
        | Some (ImportSrc p) =>
            with_env e (do base <- importf p ;; do w <- access_all base path ;; apply_value w v)
        | Some (Builtin b) =>
            with_env e (do w <- access_all (VBuiltin b) path ;; apply_value w v)
        (* spec "Tail recursion" (R9) *)
        | Some (TailCall None) =>
            match c_self c, path with
            | Some f, [] => TailC f (tail_arg f v) st0
            | Some _, _ :: _ => Error (EStuck s_field)
            | None, _ => Error (EUnsupported u_toplevel_tail)
            end
        | Some (TailCall (Some x)) =>
            match lookup_var x e with
            | Some base =>
                do f <- access_all base path ;;
                if is_callable f then TailC f (tail_arg f v) st0 else Error (EStuck s_notfun)
            | None => Error (EStuck s_unbound)
            end
        | Some TailCallRipple =>
            if is_callable v && is_nilary v then TailC v vnil st0 else Error (EStuck s_notfun)
        | Some SelfSrc => Error (EUnsupported u_process)
        end
    (* spec "Function application": `&f` references without calling *)
    | Reference (mkAccess src path) =>
        match src with
        | Some (Identifier x) =>
            match lookup_var x e with
            | Some base => with_env e (access_all base path)
            | None => Error (EStuck s_unbound)
            end
        | Some ParameterSrc => with_env e (access_all (c_param c) path)
        | Some (ImportSrc p) => with_env e (do base <- importf p ;; access_all base path)
        | Some (Builtin b) => with_env e (access_all (VBuiltin b) path)
        | Some Ripple => with_env e (access_all v path)
        | _ => Error (EUnsupported u_process)
        end
    | Spawn _ | Self_ | Select _ | Process _ => Error (EUnsupported u_process)
    end

  (* R1: `p = chain` is `chain =p` *)
  with eval_chain (c : ctx) (ch : chain) (e : env) (v : value) {struct ch} : res (value * env) :=
    match ch with
    | Chain None ts => terms_with (eval_term c) ts e v
    | Chain (Some p) ts => do x <- terms_with (eval_term c) ts e v ;; do_match tf c (snd x) p (fst x)
    end

  with eval_sequence (c : ctx) (s : sequence) (e : env) (v : value) {struct s} : res (value * env) :=
    match s with Sequence cs => seq_with (eval_chain c) cs e v end

  with eval_expr (c : ctx) (b : expression) (e : env) (v : value) {struct b} : res value :=
    match b with Expression bs => branches_with (eval_sequence c) bs e v end.

  (* R11: a program is one sequence *)
  Definition run_program (p : program) : res value :=
    match p with
    | Program ss =>
        match seq_with (eval_chain (mkCtx vnil None (collect_aliases ss))) (collect_chains ss) [] vnil with
        | Ret x w => Ret (fst x) w
        | TailC _ _ _ => Error (EUnsupported u_toplevel_tail)
        | Error err => Error err
        | Timeout => Timeout
        end
    end.
End Level.

(* ------------------------------------------------------------------------------------------
   Fuel: the depth of function calls / tail-call iterations / nested imports. *)
Section Eval.
  (* the modules the program can import (spec "Modules and imports"): path -> parsed module *)
  Variable mods : list (list atom * program).

  (* spec "Functions": the body is a block that starts from the parameter; a tail call made by
     the body continues here (R9) *)
  Fixpoint call (n : nat) (f : value) (arg : value) (acc : stats) {struct n} : res value :=
    match n with
    | O => Timeout
    | S m =>
        match f with
        | VBuiltin b => tick acc (apply_builtin b arg)
        | VClos _ None _ _ => Ret arg acc                     (* `#'int` = `#'int { $ }` *)
        | VClos _ (Some body) cenv te =>
            match eval_expr m (call m) (eval_import m) (mkCtx arg (Some f) te) body cenv arg with
            | Ret r w => Ret r (st_add acc (st_add ev_closure_call w))
            | TailC g a w => call m g a (st_add acc (st_add ev_closure_call (st_add w ev_tail_call)))
            | Error err => Error err
            | Timeout => Timeout
            end
        | _ => Error (EStuck s_notfun)
        end
    end

  (* spec "Modules and imports": the module's value is the value of its program *)
  with eval_import (n : nat) (path : list atom) {struct n} : res value :=
    match n with
    | O => Timeout
    | S m =>
        match find_module path mods with
        | Some p => run_program m (call m) (eval_import m) p
        | None => Error (EUnsupported u_module)
        end
    end.

  Definition eval_program (n : nat) (p : program) : res value :=
    match n with
    | O => Timeout
    | S m => run_program m (call m) (eval_import m) p
    end.

  (* The evaluator named by the property: `eval fuel ctx env expression value(flowing in)`. *)
  Definition eval (n : nat) (c : ctx) (e : env) (b : expression) (v : value) : res value :=
    match n with
    | O => Timeout
    | S m => eval_expr m (call m) (eval_import m) c b e v
    end.
End Eval.
