(* LangProofs.v — laws of the reference evaluator of Lang.v (all by computation / induction on
   fuel) and the non-vacuity Examples.  The property file props/C02.v restates the theorems. *)
From Coq Require Import ZArith List Bool Lia.
From Quiver Require Import lang.Lang.
Import ListNotations.
Open Scope Z_scope.

(* ------------------------------------------------------------------------------------------
   Small facts about the outcome monad. *)
Lemma is_nil_true : forall v, is_nil v = true -> v = vnil.
Proof.
  intros v H. destruct v as [| |nm fs| |]; try discriminate.
  destruct nm; try discriminate. destruct fs; try discriminate. reflexivity.
Qed.

Lemma tick_ret : forall A s (a : A) w, tick s (Ret a w) = Ret a (st_add s w).
Proof. reflexivity. Qed.

Lemma bind_ret : forall A B (a : A) w (k : A -> res B), bind (Ret a w) k = tick w (k a).
Proof. reflexivity. Qed.

(* ------------------------------------------------------------------------------------------
   chain = infallible pipe: whatever a term evaluates to (nil included) flows into the next
   term; the only effect of a nil is the event counter. *)
Lemma chain_infallible : forall mods n c e t ts v x e1 w,
  eval_term mods n c e t v = Ret (x, e1) w ->
  eval_terms mods (S n) c e (t :: ts) v =
  tick w (tick (match t, ts with
                | Match _, _ :: _ => if is_nil x then ev_mid_fail else st0
                | _, _ => st0
                end) (eval_terms mods n c e1 ts x)).
Proof.
  intros mods n c e t ts v x e1 w H. simpl. rewrite H. reflexivity.
Qed.

Corollary chain_nil_flows : forall mods n c e t ts v e1 w,
  eval_term mods n c e t v = Ret (vnil, e1) w ->
  exists s1 s2, eval_terms mods (S n) c e (t :: ts) v = tick s1 (tick s2 (eval_terms mods n c e1 ts vnil)).
Proof.
  intros mods n c e t ts v e1 w H. rewrite (chain_infallible _ _ _ _ _ ts _ _ _ _ H). eauto.
Qed.

(* sequence = fallible pipe: a nil step ends the sequence with nil; the remaining steps do not
   matter (they are not evaluated: the equation holds for every `rest`). *)
Lemma sequence_short_circuit : forall mods n c e ch rest v x e1 w,
  rest <> [] ->
  eval_chain mods n c e ch v = Ret (x, e1) w -> is_nil x = true ->
  eval_seq mods (S n) c e (ch :: rest) v = Ret (vnil, e1) (st_add w ev_short).
Proof.
  intros mods n c e ch rest v x e1 w Hne H Hnil. simpl eval_seq. destruct rest as [|r0 rest]; [congruence|].
  rewrite H. cbn [bind fst snd]. rewrite Hnil. reflexivity.
Qed.

Lemma sequence_continues : forall mods n c e ch r0 rest v x e1 w,
  eval_chain mods n c e ch v = Ret (x, e1) w -> is_nil x = false ->
  eval_seq mods (S n) c e (ch :: r0 :: rest) v = tick w (eval_seq mods n c e1 (r0 :: rest) x).
Proof.
  intros mods n c e ch r0 rest v x e1 w H Hnil. simpl eval_seq. rewrite H. cbn [bind fst snd]. rewrite Hnil. reflexivity.
Qed.

(* a branch whose condition is nil is abandoned: the next branch starts from the block's input
   in the scope the block was entered with; the consequence is not evaluated *)
Lemma branch_fallthrough : forall mods n c e cond conseq rest v x e1 w,
  eval_seq mods n c e (seq_chains cond) v = Ret (x, e1) w -> is_nil x = true ->
  eval_branches mods (S n) c e (Branch cond conseq :: rest) v =
  tick w (tick ev_fallthrough (eval_branches mods n c e rest v)).
Proof.
  intros mods n c e cond conseq rest v x e1 w H Hnil. simpl eval_branches. rewrite H.
  cbn [bind fst snd]. rewrite Hnil. reflexivity.
Qed.

Lemma block_without_match_is_nil : forall mods n c e v,
  eval_branches mods (S n) c e [] v = Ret vnil st0.
Proof. reflexivity. Qed.

(* a condition that is not nil commits: the block's value is the consequence's value even when
   that is nil; the remaining branches do not matter *)
Lemma consequence_commits : forall mods n c e cond k rest v x e1 w y e2 w2,
  eval_seq mods n c e (seq_chains cond) v = Ret (x, e1) w -> is_nil x = false ->
  eval_seq mods n c e1 (seq_chains k) v = Ret (y, e2) w2 ->
  exists w', eval_branches mods (S n) c e (Branch cond (Some k) :: rest) v = Ret y w'.
Proof.
  intros mods n c e cond k rest v x e1 w y e2 w2 H Hnil H2. simpl eval_branches. rewrite H.
  cbn [bind fst snd]. rewrite Hnil, H2. cbn. eexists. reflexivity.
Qed.

Lemma condition_without_consequence : forall mods n c e cond rest v x e1 w,
  eval_seq mods n c e (seq_chains cond) v = Ret (x, e1) w -> is_nil x = false ->
  exists w', eval_branches mods (S n) c e (Branch cond None :: rest) v = Ret x w'.
Proof.
  intros mods n c e cond rest v x e1 w H Hnil. simpl eval_branches. rewrite H.
  cbn [bind fst snd]. rewrite Hnil. cbn. eexists. reflexivity.
Qed.

(* blocks, string holes and function bodies are scopes: the bindings after them are the
   bindings before them *)
Lemma block_scoping : forall mods n c e b v r e' w,
  eval_term mods n c e (Block b) v = Ret (r, e') w -> e' = e.
Proof.
  intros mods n c e b v r e' w H. destruct n as [|n]; [discriminate|]. simpl eval_term in H.
  unfold with_env, bind in H. destruct (eval_expr mods n c e b v); try discriminate.
  cbn in H. inversion H. reflexivity.
Qed.

Lemma string_scoping : forall mods n c e segs v r e' w,
  eval_term mods n c e (String segs) v = Ret (r, e') w -> e' = e.
Proof.
  intros mods n c e segs v r e' w H. destruct n as [|n]; [discriminate|]. simpl eval_term in H.
  unfold bind in H. destruct (eval_segments mods n c e segs v []); try discriminate.
  cbn in H. inversion H. reflexivity.
Qed.

(* a function literal captures the whole scope BY VALUE at its definition ... *)
Lemma closure_captures_scope : forall mods n c e tps pt rt body v,
  eval_term mods (S n) c e (Function tps pt rt body) v =
  Ret (VClos (nilary_of (c_tenv c) pt) body e (c_tenv c), e) st0.
Proof. reflexivity. Qed.

(* ... and applying a variable that holds a function consults the caller's scope only to find
   the function: the body runs in the captured scope (`call` has no scope argument), and the
   caller's bindings are unchanged afterwards *)
Lemma closure_captures_by_value : forall mods n c e f clo v,
  lookup_var f e = Some clo ->
  eval_term mods (S (S n)) c e (Access (mkAccess (Some (Identifier f)) [])) v =
  with_env e (tick st0 (if is_callable clo then call mods n clo (tail_arg clo v) st0 else ret clo)).
Proof.
  intros mods n c e f clo v H. simpl eval_term. rewrite H. cbn [access_all bind ret]. reflexivity.
Qed.

Corollary call_independent_of_caller_scope : forall mods n c1 c2 e1 e2 f clo v,
  lookup_var f e1 = Some clo -> lookup_var f e2 = Some clo ->
  bind (eval_term mods (S (S n)) c1 e1 (Access (mkAccess (Some (Identifier f)) [])) v) (fun x => ret (fst x)) =
  bind (eval_term mods (S (S n)) c2 e2 (Access (mkAccess (Some (Identifier f)) [])) v) (fun x => ret (fst x)).
Proof.
  intros mods n c1 c2 e1 e2 f clo v H1 H2.
  rewrite (closure_captures_by_value _ _ c1 _ _ _ _ H1), (closure_captures_by_value _ _ c2 _ _ _ _ H2).
  unfold with_env. destruct (tick st0 _); reflexivity.
Qed.

(* ------------------------------------------------------------------------------------------
   Fuel monotonicity: an outcome other than Timeout is stable under more fuel, for every
   judgement of the evaluator.  Hence `eval` defines a partial function (the outcome, when
   there is one, does not depend on the fuel). *)
Definition le_res {A} (r1 r2 : res A) : Prop := r1 = Timeout \/ r1 = r2.

Lemma le_refl : forall A (r : res A), le_res r r.
Proof. intros; right; reflexivity. Qed.
Lemma le_timeout : forall A (r : res A), le_res Timeout r.
Proof. intros; left; reflexivity. Qed.
Lemma le_tick : forall A s (a b : res A), le_res a b -> le_res (tick s a) (tick s b).
Proof. intros A s a b [-> | ->]; [left | right]; reflexivity. Qed.
Lemma le_bind : forall A B (a b : res A) (f g : A -> res B),
  le_res a b -> (forall x, le_res (f x) (g x)) -> le_res (bind a f) (bind b g).
Proof.
  intros A B a b f g [-> | ->] H; [left; reflexivity|].
  destruct b; cbn [bind]; auto using le_tick, le_refl.
Qed.
Lemma le_with_env : forall A e (a b : res A), le_res a b -> le_res (with_env e a) (with_env e b).
Proof. intros. unfold with_env. apply le_bind; auto using le_refl. Qed.
#[local] Hint Resolve le_refl le_timeout le_tick le_with_env : le.

Lemma any_res_le : forall (f g : ty -> res bool) ts,
  (forall t, le_res (f t) (g t)) -> le_res (any_res f ts) (any_res g ts).
Proof.
  intros f g ts H. induction ts as [|t r IH]; cbn [any_res]; auto with le.
  apply le_bind; auto. intros [|]; auto with le.
Qed.
Lemma all_res_le : forall (f g : ty -> res bool) ts,
  (forall t, le_res (f t) (g t)) -> le_res (all_res f ts) (all_res g ts).
Proof.
  intros f g ts H. induction ts as [|t r IH]; cbn [all_res]; auto with le.
  apply le_bind; auto. intros [|]; auto with le.
Qed.
Lemma full_fields_le : forall (f g : ty -> value -> res bool) fts vs,
  (forall t v, le_res (f t v) (g t v)) -> le_res (full_fields f fts vs) (full_fields g fts vs).
Proof.
  intros f g fts. induction fts as [|ft r IH]; intros vs H; destruct vs as [|[k v] vs]; cbn [full_fields]; auto with le.
  destruct ft as [l t|]; auto with le. destruct (oatom_eqb l k); auto with le.
  apply le_bind; auto. intros [|]; auto with le.
Qed.
Lemma partial_fields_le : forall (f g : ty -> value -> res bool) fts vs,
  (forall t v, le_res (f t v) (g t v)) -> le_res (partial_fields f fts vs) (partial_fields g fts vs).
Proof.
  intros f g fts vs H. induction fts as [|ft r IH]; cbn [partial_fields]; auto with le.
  destruct ft as [[l|] t|]; auto with le. destruct (find_field l vs); auto with le.
  apply le_bind; auto. intros [|]; auto with le.
Qed.

Lemma inhab_mono : forall n m te root t v, (n <= m)%nat ->
  le_res (inhab n te root t v) (inhab m te root t v).
Proof.
  induction n as [|n IH]; intros m te root t v Hle; [apply le_timeout|].
  destruct m as [|m]; [lia|]. assert (Hle' : (n <= m)%nat) by lia.
  cbn [inhab]. destruct t as [p|name part fts|i o|ts|ts|x args|d| | |mo mem args|args]; auto with le.
  - destruct v; auto with le. destruct part.
    + destruct (match name with None => true | Some _ => oatom_eqb name name0 end); auto with le.
      apply partial_fields_le. intros; apply IH; assumption.
    + destruct (oatom_eqb name name0); auto with le. apply full_fields_le. intros; apply IH; assumption.
  - apply any_res_le. intros; apply IH; assumption.
  - apply all_res_le. intros; apply IH; assumption.
  - destruct (lookup_alias (Some x) te) as [[ps body]|]; auto with le.
    destruct (existsb has_cycle args); auto with le. destruct (zip_params ps args); auto with le.
  - destruct d as [d|]; auto with le. destruct (d =? 0); auto with le.
  - destruct (lookup_alias None te) as [[ps body]|]; auto with le.
    destruct (existsb has_cycle args); auto with le. destruct (zip_params ps args); auto with le.
Qed.

(* induction principle for the nested pattern type *)
Section PatternInd.
  Variable P : pattern -> Prop.
  Hypothesis HId : forall x, P (MIdentifier x).
  Hypothesis HLit : forall l, P (MLiteral l).
  Hypothesis HStr : forall b, P (MString b).
  Hypothesis HTup : forall n fs, Forall (fun f => match f with MatchField _ q => P q end) fs -> P (MTuple n fs).
  Hypothesis HPar : forall n fs,
    Forall (fun f => match f with PartialPatternField _ (Some q) => P q | _ => True end) fs -> P (MPartial n fs).
  Hypothesis HStar : forall n, P (MStar n).
  Hypothesis HPh : P MPlaceholder.
  Hypothesis HRef : forall x, P (MReference x).
  Hypothesis HTy : forall t, P (MType t).
  Hypothesis HOr : forall ps, Forall P ps -> P (MOr ps).
  Hypothesis HAs : forall t x, P (MAs t x).

  Fixpoint pattern_ind' (p : pattern) : P p :=
    match p with
    | MIdentifier x => HId x
    | MLiteral l => HLit l
    | MString b => HStr b
    | MTuple n fs =>
        HTup n fs ((fix go (l : list match_field) : Forall (fun f => match f with MatchField _ q => P q end) l :=
                      match l with
                      | [] => Forall_nil _
                      | MatchField k q :: r => Forall_cons (MatchField k q) (pattern_ind' q) (go r)
                      end) fs)
    | MPartial n fs =>
        HPar n fs ((fix go (l : list partial_field)
                      : Forall (fun f => match f with PartialPatternField _ (Some q) => P q | _ => True end) l :=
                      match l with
                      | [] => Forall_nil _
                      | PartialPatternField k (Some q) :: r =>
                          Forall_cons (PartialPatternField k (Some q)) (pattern_ind' q) (go r)
                      | PartialPatternField k None :: r => Forall_cons (PartialPatternField k None) I (go r)
                      end) fs)
    | MStar n => HStar n
    | MPlaceholder => HPh
    | MReference x => HRef x
    | MType t => HTy t
    | MOr ps => HOr ps ((fix go (l : list pattern) : Forall P l :=
                           match l with [] => Forall_nil _ | q :: r => Forall_cons q (pattern_ind' q) (go r) end) ps)
    | MAs t x => HAs t x
    end.
End PatternInd.

Definition le_pres (p1 p2 : pres) : Prop := p1 = PTimeout \/ p1 = p2.
Lemma le_pres_refl : forall p, le_pres p p.
Proof. intros; right; reflexivity. Qed.
#[local] Hint Resolve le_pres_refl : le.

Lemma type_verdict_mono : forall n m te t v k, (n <= m)%nat ->
  le_pres (type_verdict n te t v k) (type_verdict m te t v k).
Proof.
  intros n m te t v k Hle. unfold type_verdict.
  destruct (inhab_mono n m te t t v Hle) as [-> | ->]; [left; reflexivity | right; reflexivity].
Qed.

Lemma pmatch_mono : forall n m te outer, (n <= m)%nat ->
  forall p b v, le_pres (pmatch n te outer b p v) (pmatch m te outer b p v).
Proof.
  intros n m te outer Hle p. induction p as [x|l|bs|name fs IH|name fs IH|name| |x|t|ps IH|t x] using pattern_ind';
    intros b v; cbn [pmatch]; auto with le.
  - destruct v as [| |vn vfs| |]; auto with le. destruct (oatom_eqb name vn); auto with le.
    revert b vfs. induction IH as [|[l q] fs' Hq _ IHfs]; intros b vfs; destruct vfs as [|[k w] ws]; auto with le.
    destruct (oatom_eqb l k); auto with le.
    destruct (Hq b w) as [-> | ->]; [left; reflexivity|].
    destruct (pmatch m te outer b q w); auto with le.
  - destruct v as [| |vn vfs| |]; auto with le. destruct (name_ok name vn); auto with le.
    revert b. induction IH as [|[l [q|]] fs' Hq _ IHfs]; intros b; auto with le.
    + destruct (find_field l vfs) as [w|]; auto with le.
      destruct (Hq b w) as [-> | ->]; [left; reflexivity|].
      destruct (pmatch m te outer b q w); auto with le.
    + destruct (find_field l vfs) as [w|]; auto with le.
      destruct (bind_var b l w); auto with le.
  - apply type_verdict_mono; assumption.
  - induction IH as [|q ps' Hq _ IHps]; auto with le.
    destruct (Hq b v) as [-> | ->]; [left; reflexivity|].
    destruct (pmatch m te outer b q v); auto with le.
  - apply type_verdict_mono; assumption.
Qed.

Lemma do_match_mono : forall n m c e p v, (n <= m)%nat ->
  le_res (do_match n c e p v) (do_match m c e p v).
Proof.
  intros n m c e p v Hle. unfold do_match.
  destruct (pmatch_mono n m (c_tenv c) e Hle p [] v) as [-> | ->]; [left; reflexivity | right; reflexivity].
Qed.

(* every judgement of the evaluator at fuel n is below the same judgement at fuel m *)
Definition mono_at (mods : list (list atom * program)) (n m : nat) : Prop :=
  (forall c e t v, le_res (eval_term mods n c e t v) (eval_term mods m c e t v)) /\
  (forall w v, le_res (apply_value mods n w v) (apply_value mods m w v)) /\
  (forall f a acc, le_res (call mods n f a acc) (call mods m f a acc)) /\
  (forall c e ts v, le_res (eval_terms mods n c e ts v) (eval_terms mods m c e ts v)) /\
  (forall c e ch v, le_res (eval_chain mods n c e ch v) (eval_chain mods m c e ch v)) /\
  (forall c e cs v, le_res (eval_seq mods n c e cs v) (eval_seq mods m c e cs v)) /\
  (forall c e bs v, le_res (eval_branches mods n c e bs v) (eval_branches mods m c e bs v)) /\
  (forall c e b v, le_res (eval_expr mods n c e b v) (eval_expr mods m c e b v)) /\
  (forall c e fs v acc inh, le_res (eval_fields mods n c e fs v acc inh) (eval_fields mods m c e fs v acc inh)) /\
  (forall c e segs v acc, le_res (eval_segments mods n c e segs v acc) (eval_segments mods m c e segs v acc)) /\
  (forall path, le_res (eval_import mods n path) (eval_import mods m path)) /\
  (forall p, le_res (eval_program mods n p) (eval_program mods m p)).

Ltac le_struct :=
  repeat match goal with
  | |- le_res ?a ?a => apply le_refl
  | |- le_res Timeout _ => apply le_timeout
  | |- le_res (bind _ _) (bind _ _) => apply le_bind; [| intros ?]
  | |- le_res (tick _ _) (tick _ _) => apply le_tick
  | |- le_res (with_env _ _) (with_env _ _) => apply le_with_env
  | |- le_res (do_match _ _ _ _ _) (do_match _ _ _ _ _) => apply do_match_mono; assumption
  | |- le_res (if ?x then _ else _) (if ?x then _ else _) => destruct x
  | |- le_res (match ?x with _ => _ end) (match ?x with _ => _ end) => destruct x
  | |- le_res (match ?x with _ => _ end) (match ?y with _ => _ end) =>
      let H := fresh "Hle" in
      assert (H : le_res x y) by auto; destruct H as [H | H]; rewrite H; [apply le_timeout | destruct y]
  | H : forall _, _ |- le_res _ _ => apply H
  end.

Lemma mono_all : forall mods n m, (n <= m)%nat -> mono_at mods n m.
Proof.
  intros mods. induction n as [|n IH]; intros m Hle.
  - repeat split; intros; apply le_timeout.
  - destruct m as [|m]; [lia|]. assert (Hle' : (n <= m)%nat) by lia.
    destruct (IH m Hle') as (Hterm & Happly & Hcall & Hterms & Hchain & Hseq & Hbranches & Hexpr & Hfields & Hsegs & Himport & Hprog).
    clear IH. repeat split; intros.
    + (* eval_term *) simpl. le_struct.
    + (* apply_value *) simpl. le_struct.
    + (* call *) simpl. le_struct.
    + simpl. le_struct.
    + simpl. le_struct.
    + simpl. le_struct.
    + simpl. le_struct.
    + simpl. le_struct.
    + simpl. le_struct.
    + simpl. le_struct.
    + simpl. le_struct.
    + simpl. destruct p as [ss]. le_struct.
Qed.

Theorem eval_fuel_mono : forall mods n m c e b v r,
  (n <= m)%nat -> eval mods n c e b v = r -> r <> Timeout -> eval mods m c e b v = r.
Proof.
  intros mods n m c e b v r Hle H Hr. unfold eval in *.
  destruct (mono_all mods n m Hle) as (_ & _ & _ & _ & _ & _ & _ & Hexpr & _).
  destruct (Hexpr c e b v) as [Ht | Heq]; congruence.
Qed.

Theorem eval_program_fuel_mono : forall mods n m p r,
  (n <= m)%nat -> eval_program mods n p = r -> r <> Timeout -> eval_program mods m p = r.
Proof.
  intros mods n m p r Hle H Hr.
  destruct (mono_all mods n m Hle) as (_ & _ & _ & _ & _ & _ & _ & _ & _ & _ & _ & Hprog).
  destruct (Hprog p) as [Ht | Heq]; congruence.
Qed.

(* the semantics is a partial function: two fuels that both finish agree *)
Corollary eval_deterministic : forall mods n m c e b v,
  eval mods n c e b v <> Timeout -> eval mods m c e b v <> Timeout ->
  eval mods n c e b v = eval mods m c e b v.
Proof.
  intros mods n m c e b v Hn Hm. destruct (Nat.le_ge_cases n m) as [H | H].
  - symmetry. apply (eval_fuel_mono mods n m); auto.
  - apply (eval_fuel_mono mods m n); auto.
Qed.

(* ------------------------------------------------------------------------------------------
   A match evaluates to Ok or [].  On success the scope is extended by the bindings the pattern
   made; on failure by its static binders, all nil (reading R3); nothing else changes. *)
Theorem match_verdict : forall n c e p v r e' w,
  do_match n c e p v = Ret (r, e') w ->
  (r = vok /\ exists b, pmatch n (c_tenv c) e [] p v = POk b /\ e' = b ++ e) \/
  (r = vnil /\ pmatch n (c_tenv c) e [] p v = PFail /\ e' = nil_fill (binders p) ++ e).
Proof.
  intros n c e p v r e' w H. unfold do_match in H.
  destruct (pmatch n (c_tenv c) e [] p v) as [b| | |] eqn:Hp; try discriminate.
  - left. inversion H; subst. split; [reflexivity|]. exists b. auto.
  - right. inversion H; subst. auto.
Qed.

Corollary match_term_verdict : forall mods n c e p v r e' w,
  eval_term mods (S n) c e (Match p) v = Ret (r, e') w -> r = vok \/ r = vnil.
Proof.
  intros mods n c e p v r e' w H. simpl in H. apply match_verdict in H. tauto.
Qed.

(* a bare binder always succeeds and binds exactly that name, nil included *)
Lemma bare_binder_always_succeeds : forall n c e x v,
  do_match n c e (MIdentifier x) v = Ret (vok, (x, v) :: e) st0.
Proof. reflexivity. Qed.

(* which names a successful match binds: the pattern's static binders (for patterns without `*`,
   whose binders depend on the value, and whose alternatives bind the same names) *)
Fixpoint star_free (p : pattern) : Prop :=
  match p with
  | MStar _ => False
  | MTuple _ fs => (fix go (l : list match_field) : Prop :=
                      match l with [] => True | MatchField _ q :: r => star_free q /\ go r end) fs
  | MPartial _ fs => (fix go (l : list partial_field) : Prop :=
                        match l with
                        | [] => True
                        | PartialPatternField _ (Some q) :: r => star_free q /\ go r
                        | PartialPatternField _ None :: r => go r
                        end) fs
  | MOr ps => (fix go (l : list pattern) : Prop :=
                 match l with [] => True | q :: r => star_free q /\ go r end) ps
  | _ => True
  end.

Definition extends (b b' : env) : Prop := exists d, b' = d ++ b.
Lemma extends_refl : forall b, extends b b.
Proof. intros b; exists []; reflexivity. Qed.
Lemma extends_trans : forall a b c, extends a b -> extends b c -> extends a c.
Proof. intros a b c [d1 ->] [d2 ->]. exists (d2 ++ d1). rewrite app_assoc. reflexivity. Qed.

Lemma eq_verdict_ok : forall b w v b', eq_verdict b w v = POk b' -> b' = b.
Proof. intros b w v b' H. unfold eq_verdict in H. destruct (value_eqb w v) as [[|]|]; inversion H; reflexivity. Qed.

Lemma bind_var_extends : forall b x v b', bind_var b x v = POk b' -> extends b b'.
Proof.
  intros b x v b' H. unfold bind_var in H. destruct (lookup x b).
  - apply eq_verdict_ok in H. subst. apply extends_refl.
  - inversion H. exists [(x, v)]. reflexivity.
Qed.

Lemma type_verdict_ok : forall n te t v k b', type_verdict n te t v k = POk b' -> k = POk b'.
Proof.
  intros n te t v k b' H. unfold type_verdict in H.
  destruct (inhab n te t t v) as [[|] ?| | |]; try discriminate; assumption.
Qed.

(* a successful match only ADDS bindings (it never drops or changes one made earlier in the same
   pattern) *)
Lemma pmatch_extends : forall n te outer p b v b',
  pmatch n te outer b p v = POk b' -> extends b b'.
Proof.
  intros n te outer p. induction p as [x|l|bs|name fs IH|name fs IH|name| |x|t|ps IH|t x] using pattern_ind';
    intros b v b' H; cbn [pmatch] in H.
  - eapply bind_var_extends; eassumption.
  - apply eq_verdict_ok in H; subst; apply extends_refl.
  - apply eq_verdict_ok in H; subst; apply extends_refl.
  - destruct v as [| |vn vfs| |]; try discriminate. destruct (oatom_eqb name vn); try discriminate.
    revert b vfs H. induction IH as [|[l q] fs' Hq _ IHfs]; intros b vfs H; destruct vfs as [|[k w] ws]; try discriminate.
    + inversion H; apply extends_refl.
    + destruct (oatom_eqb l k); try discriminate.
      destruct (pmatch n te outer b q w) as [b1| | |] eqn:Hq1; try discriminate.
      eapply extends_trans; [eapply Hq; eassumption | eapply IHfs; eassumption].
  - destruct v as [| |vn vfs| |]; try discriminate. destruct (name_ok name vn); try discriminate.
    revert b H. induction IH as [|[l [q|]] fs' Hq _ IHfs]; intros b H.
    + inversion H; apply extends_refl.
    + destruct (find_field l vfs) as [w|]; try discriminate.
      destruct (pmatch n te outer b q w) as [b1| | |] eqn:Hq1; try discriminate.
      eapply extends_trans; [eapply Hq; eassumption | eapply IHfs; eassumption].
    + destruct (find_field l vfs) as [w|]; try discriminate.
      destruct (bind_var b l w) as [b1| | |] eqn:Hq1; try discriminate.
      eapply extends_trans; [eapply bind_var_extends; eassumption | eapply IHfs; eassumption].
  - destruct v as [| |vn vfs| |]; try discriminate. destruct (name_ok name vn); try discriminate.
    destruct (bind_star b vfs) as [b2| | |] eqn:Hs; try discriminate. inversion H; subst b'.
    eapply extends_trans; [|exists [(a_star, vnil)]; reflexivity].
    clear H. revert b Hs. induction vfs as [|[[l|] w] r IHr]; intros b H; cbn [bind_star] in H.
    + inversion H; apply extends_refl.
    + destruct (bind_var b l w) as [b1| | |] eqn:Hb; try discriminate.
      eapply extends_trans; [eapply bind_var_extends; eassumption | eapply IHr; eassumption].
    + eapply IHr; eassumption.
  - inversion H; apply extends_refl.
  - destruct (lookup_var x outer); try discriminate. apply eq_verdict_ok in H; subst; apply extends_refl.
  - apply type_verdict_ok in H. inversion H; apply extends_refl.
  - induction IH as [|q ps' Hq _ IHps]; try discriminate.
    destruct (pmatch n te outer b q v) as [b1| | |] eqn:Hq1; try discriminate.
    + inversion H; subst. eapply Hq; eassumption.
    + apply IHps; assumption.
  - apply type_verdict_ok in H. eapply bind_var_extends; eassumption.
Qed.

(* ... so after a successful match every binding of the enclosing scope is still there *)
Corollary match_preserves_scope : forall n c e p v e' w,
  do_match n c e p v = Ret (vok, e') w -> exists b, e' = b ++ e.
Proof.
  intros n c e p v e' w H. apply match_verdict in H. destruct H as [(_ & b & _ & ->) | (Hr & _)].
  - eauto.
  - discriminate.
Qed.

(* patterns whose binders are static: no `*` (its binders depend on the value) and every
   alternative of an or-pattern binds names of the first one (the compiler demands the same set) *)
Fixpoint wf_pat (p : pattern) : Prop :=
  match p with
  | MStar _ => False
  | MTuple _ fs => (fix go (l : list match_field) : Prop :=
                      match l with [] => True | MatchField _ q :: r => wf_pat q /\ go r end) fs
  | MPartial _ fs => (fix go (l : list partial_field) : Prop :=
                        match l with
                        | [] => True
                        | PartialPatternField _ (Some q) :: r => wf_pat q /\ go r
                        | PartialPatternField _ None :: r => go r
                        end) fs
  | MOr ps => match ps with
              | [] => True
              | q0 :: _ => (fix go (l : list pattern) : Prop :=
                              match l with [] => True | q :: r => (wf_pat q /\ incl (binders q) (binders q0)) /\ go r end) ps
              end
  | _ => True
  end.

Lemma bind_var_domain : forall b x v b', bind_var b x v = POk b' ->
  exists d, b' = d ++ b /\ incl (map fst d) [x].
Proof.
  intros b x v b' H. unfold bind_var in H. destruct (lookup x b).
  - apply eq_verdict_ok in H. subst. exists []. split; [reflexivity | intros y []].
  - inversion H. exists [(x, v)]. split; [reflexivity|]. cbn. apply incl_refl.
Qed.


Lemma wf_or_forall : forall q0 l,
  (fix go (l : list pattern) : Prop :=
     match l with [] => True | q :: r => (wf_pat q /\ incl (binders q) (binders q0)) /\ go r end) l ->
  Forall (fun q => wf_pat q /\ incl (binders q) (binders q0)) l.
Proof.
  intros q0 l. induction l as [|q r IHl]; intros Hw; constructor.
  - destruct Hw as [Hq _]. exact Hq.
  - apply IHl. destruct Hw as [_ Hr]. exact Hr.
Qed.

Lemma or_loop : forall n te outer q0 (l : list pattern),
  Forall (fun p => wf_pat p -> forall b v b', pmatch n te outer b p v = POk b' ->
                   exists d, b' = d ++ b /\ incl (map fst d) (binders p)) l ->
  Forall (fun q => wf_pat q /\ incl (binders q) (binders q0)) l ->
  forall b v b',
  (fix go (ps : list pattern) : pres :=
     match ps with
     | [] => PFail
     | q :: ps' => match pmatch n te outer b q v with
                   | PFail => go ps'
                   | other => other
                   end
     end) l = POk b' ->
  exists d, b' = d ++ b /\ incl (map fst d) (binders q0).
Proof.
  intros n te outer q0 l IH Hall b v b'. induction l as [|q r IHl]; intros H; [discriminate|].
  inversion IH as [|? ? Hq IHrest]; subst. inversion Hall as [|? ? [Hwq Hinc] Hr]; subst.
  destruct (pmatch n te outer b q v) as [b1| | |] eqn:Hq1; try discriminate.
  - inversion H; subst. destruct (Hq Hwq _ _ _ Hq1) as (d1 & -> & Hd1).
    exists d1. split; [reflexivity|]. intros y Hy. apply Hinc, Hd1, Hy.
  - apply IHl; assumption.
Qed.

Lemma pmatch_domain : forall n te outer p, wf_pat p -> forall b v b',
  pmatch n te outer b p v = POk b' -> exists d, b' = d ++ b /\ incl (map fst d) (binders p).
Proof.
  intros n te outer p. induction p as [x|l|bs|name fs IH|name fs IH|name| |x|t|ps IH|t x] using pattern_ind';
    intros Hwf b v b' H; cbn [pmatch] in H.
  - apply bind_var_domain in H. exact H.
  - apply eq_verdict_ok in H; subst. exists []; split; [reflexivity | intros y []].
  - apply eq_verdict_ok in H; subst. exists []; split; [reflexivity | intros y []].
  - destruct v as [| |vn vfs| |]; try discriminate. destruct (oatom_eqb name vn); try discriminate.
    cbn [binders]. cbn [wf_pat] in Hwf.
    revert b vfs Hwf H. induction IH as [|[l q] fs' Hq _ IHfs]; intros b vfs Hwf H; destruct vfs as [|[k w] ws]; try discriminate.
    + inversion H. exists []; split; [reflexivity | intros y []].
    + destruct (oatom_eqb l k); try discriminate. destruct Hwf as [Hwq Hwr].
      destruct (pmatch n te outer b q w) as [b1| | |] eqn:Hq1; try discriminate.
      destruct (Hq Hwq _ _ _ Hq1) as (d1 & -> & Hd1).
      destruct (IHfs _ _ Hwr H) as (d2 & -> & Hd2).
      exists (d2 ++ d1). split; [rewrite app_assoc; reflexivity|].
      rewrite map_app. cbn [flat_map]. intros y Hy. apply in_app_or in Hy. apply in_or_app.
      destruct Hy as [Hy | Hy]; [right; apply Hd2; exact Hy | left; apply Hd1; exact Hy].
  - destruct v as [| |vn vfs| |]; try discriminate. destruct (name_ok name vn); try discriminate.
    cbn [binders]. cbn [wf_pat] in Hwf.
    revert b Hwf H. induction IH as [|[l [q|]] fs' Hq _ IHfs]; intros b Hwf H.
    + inversion H. exists []; split; [reflexivity | intros y []].
    + destruct (find_field l vfs) as [w|]; try discriminate. destruct Hwf as [Hwq Hwr].
      destruct (pmatch n te outer b q w) as [b1| | |] eqn:Hq1; try discriminate.
      destruct (Hq Hwq _ _ _ Hq1) as (d1 & -> & Hd1).
      destruct (IHfs _ Hwr H) as (d2 & -> & Hd2).
      exists (d2 ++ d1). split; [rewrite app_assoc; reflexivity|].
      rewrite map_app. cbn [flat_map]. intros y Hy. apply in_app_or in Hy. apply in_or_app.
      destruct Hy as [Hy | Hy]; [right; apply Hd2; exact Hy | left; apply Hd1; exact Hy].
    + destruct (find_field l vfs) as [w|]; try discriminate.
      destruct (bind_var b l w) as [b1| | |] eqn:Hq1; try discriminate.
      destruct (bind_var_domain _ _ _ _ Hq1) as (d1 & -> & Hd1).
      destruct (IHfs _ Hwf H) as (d2 & -> & Hd2).
      exists (d2 ++ d1). split; [rewrite app_assoc; reflexivity|].
      rewrite map_app. cbn [flat_map]. intros y Hy. apply in_app_or in Hy. apply in_or_app.
      destruct Hy as [Hy | Hy]; [right; apply Hd2; exact Hy | left; apply Hd1; exact Hy].
  - destruct Hwf.
  - inversion H. exists []; split; [reflexivity | intros y []].
  - destruct (lookup_var x outer); try discriminate. apply eq_verdict_ok in H; subst.
    exists []; split; [reflexivity | intros y []].
  - apply type_verdict_ok in H. inversion H. exists []; split; [reflexivity | intros y []].
  - destruct ps as [|q0 ps0]; [cbn in H; discriminate|]. cbn [binders].
    exact (or_loop n te outer q0 (q0 :: ps0) IH (wf_or_forall q0 (q0 :: ps0) Hwf) b v b' H).
  - apply type_verdict_ok in H. apply bind_var_domain in H. exact H.
Qed.

(* the names a successful match adds to the scope are static binders of the pattern *)
Theorem match_binds_only_binders : forall n c e p v e' w,
  wf_pat p -> do_match n c e p v = Ret (vok, e') w ->
  exists d, e' = d ++ e /\ incl (map fst d) (binders p).
Proof.
  intros n c e p v e' w Hwf H. apply match_verdict in H.
  destruct H as [(_ & b & Hp & ->) | (Hr & _)]; [|discriminate].
  destruct (pmatch_domain _ _ _ _ Hwf _ _ _ Hp) as (d & -> & Hd).
  exists d. rewrite app_nil_r. auto.
Qed.

(* ------------------------------------------------------------------------------------------
   Non-vacuity: concrete programs (the spec's own examples with their documented results),
   evaluated by vm_compute.  Atoms: identifiers/tuple names are arbitrary numbers >= 13. *)
Definition x_ : atom := 100. Definition y_ : atom := 101. Definition f_ : atom := 102.
Definition a_ : atom := 103. Definition b_ : atom := 104.
Definition A_ : atom := 200. Definition B_ : atom := 201. Definition Done_ : atom := 202.

Definition int (n : Z) : term := Literal (LInteger n).
Definition nil_t : term := Tuple Anonymous [].
Definition ch (ts : list term) : chain := Chain None ts.
Definition bindc (p : pattern) (ts : list term) : chain := Chain (Some p) ts.
Definition var (x : atom) : term := Access (mkAccess (Some (Identifier x)) []).
Definition fld (ts : list term) : tuple_field := TupleField None (FChain (ch ts)).
Definition prog (cs : list chain) : program := Program [StmtExpression (Sequence cs)].
Definition val_of {A} (r : res A) : option A := match r with Ret a _ => Some a | _ => None end.

(* spec "Control flow": `[] 5` is 5 (nil flows through a chain); `[], 5` is [] (short-circuit) *)
Example ex_chain_vs_sequence :
  val_of (eval_program [] 20 (prog [ch [nil_t; int 5]])) = Some (VInt 5) /\
  eval_program [] 20 (prog [ch [nil_t]; ch [int 5]]) = Ret vnil ev_short.
Proof. split; vm_compute; reflexivity. Qed.

(* spec "Blocks": `B[42] { =A[a] => 1 | =B[b] => 2 }` is 2: the first branch falls through, the
   second commits *)
Definition ex_block : term :=
  Block (Expression [Branch (Sequence [ch [Match (MTuple (Some A_) [MatchField None (MIdentifier a_)])]]) (Some (Sequence [ch [int 1]]));
                     Branch (Sequence [ch [Match (MTuple (Some B_) [MatchField None (MIdentifier b_)])]]) (Some (Sequence [ch [int 2]]))]).
Example ex_fallthrough_then_commit :
  exists w, eval_program [] 30 (prog [ch [Tuple (Named B_) [fld [int 42]]; ex_block]]) = Ret (VInt 2) w /\
            n_fallthrough w = 1 /\ n_commit w = 1.
Proof. eexists. vm_compute. repeat split. Qed.

(* spec "Condition-consequence": `{ 1 => [], 10 | 2 => 20 }` is []: a failing consequence commits *)
Example ex_consequence_commits :
  val_of (eval_program [] 30 (prog [ch [Block (Expression
      [Branch (Sequence [ch [int 1]]) (Some (Sequence [ch [nil_t]; ch [int 10]]));
       Branch (Sequence [ch [int 2]]) (Some (Sequence [ch [int 20]]))])]])) = Some vnil.
Proof. vm_compute; reflexivity. Qed.

(* spec "Variable scoping": `x = 42, { x = 5 }, x` is 42 *)
Example ex_block_scoping :
  val_of (eval_program [] 30 (prog [bindc (MIdentifier x_) [int 42];
                                    ch [Block (Expression [Branch (Sequence [bindc (MIdentifier x_) [int 5]]) None])];
                                    ch [var x_]])) = Some (VInt 42).
Proof. vm_compute; reflexivity. Qed.

(* closures capture by value: `x = 1, f = #{ x }, x = 2, [] f` is 1 *)
Example ex_closure_by_value :
  val_of (eval_program [] 30 (prog [bindc (MIdentifier x_) [int 1];
                                    bindc (MIdentifier f_) [Function [] None None (Some (Expression [Branch (Sequence [ch [var x_]]) None]))];
                                    bindc (MIdentifier x_) [int 2];
                                    ch [nil_t; var f_]])) = Some (VInt 1).
Proof. vm_compute; reflexivity. Qed.

(* spec "Pattern matching": `[5, 5] =[x, x]` is Ok, `[5, 6] =[x, x]` is []; a failed match
   leaves its binders nil: `[1, 2] =[a, 3] [~, a]` is [[], []] *)
Definition pair (p q : Z) : term := Tuple Anonymous [fld [int p]; fld [int q]].
Definition ripple : term := Access (mkAccess (Some Ripple) []).
Example ex_match_verdict :
  val_of (eval_program [] 30 (prog [ch [pair 5 5; Match (MTuple None [MatchField None (MIdentifier x_); MatchField None (MIdentifier x_)])]])) = Some vok /\
  val_of (eval_program [] 30 (prog [ch [pair 5 6; Match (MTuple None [MatchField None (MIdentifier x_); MatchField None (MIdentifier x_)])]])) = Some vnil /\
  val_of (eval_program [] 30 (prog [ch [pair 1 2; Match (MTuple None [MatchField None (MIdentifier a_); MatchField None (MLiteral (LInteger 3))]);
                                        Tuple Anonymous [fld [ripple]; fld [var a_]]]])) = Some (VTuple None [(None, vnil); (None, vnil)]).
Proof. repeat split; vm_compute; reflexivity. Qed.

(* spec "Tail recursion": `f = #'int { | =0 => Done | [~, 1] __integer_subtract__ ^ }, 3 f`
   is Done after three tail calls *)
Definition ex_countdown : term :=
  Function [] (Some (TPrimitive PInt)) None (Some (Expression
    [Branch (Sequence [ch [Match (MLiteral (LInteger 0))]]) (Some (Sequence [ch [Tuple (Named Done_) []]]));
     Branch (Sequence [ch [Tuple Anonymous [fld [ripple]; fld [int 1]];
                           Access (mkAccess (Some (Builtin b_integer_subtract)) []);
                           Access (mkAccess (Some (TailCall None)) [])]]) None])).
Example ex_tail_calls :
  exists w, eval_program [] 40 (prog [bindc (MIdentifier f_) [ex_countdown]; ch [int 3; var f_]]) = Ret (VTuple (Some Done_) []) w /\
            n_tail_call w = 3.
Proof. eexists. vm_compute. split; reflexivity. Qed.

(* fuel monotonicity is not vacuous: the countdown needs fuel; with too little it times out, with
   enough it finishes, and more fuel does not change the outcome *)
Example ex_fuel :
  eval_program [] 5 (prog [bindc (MIdentifier f_) [ex_countdown]; ch [int 3; var f_]]) = Timeout /\
  val_of (eval_program [] 40 (prog [bindc (MIdentifier f_) [ex_countdown]; ch [int 3; var f_]])) =
  val_of (eval_program [] 400 (prog [bindc (MIdentifier f_) [ex_countdown]; ch [int 3; var f_]])).
Proof. split; vm_compute; reflexivity. Qed.

(* the binder theorem is not vacuous: `Point[x, &y]`-like pattern with a literal, a pin and an
   or-pattern is well-formed and binds exactly `a_` *)
Example ex_wf_pattern :
  wf_pat (MTuple (Some A_) [MatchField None (MIdentifier a_); MatchField None (MOr [MLiteral (LInteger 1); MLiteral (LInteger 2)]); MatchField None (MReference y_)]) /\
  binders (MTuple (Some A_) [MatchField None (MIdentifier a_); MatchField None (MOr [MLiteral (LInteger 1); MLiteral (LInteger 2)]); MatchField None (MReference y_)]) = [a_].
Proof. split; [cbn; intuition; intros z [] | reflexivity]. Qed.
