(* LangProofs.v — laws of the reference evaluator of Lang.v and the non-vacuity Examples.  The
   property file props/C02.v restates the theorems.  The evaluator is structurally recursive on
   the AST (fuel is consumed only by function calls and imports), so the laws are equations at
   one fuel level. *)
From Coq Require Import ZArith List Bool Lia.
From Quiver Require Import lang.Lang.
Import ListNotations.
Open Scope Z_scope.

(* ------------------------------------------------------------------------------------------
   Small facts about the outcome monad. *)
Lemma is_nil_true : forall v, is_nil v = true -> v = vnil.
Proof.
  intros v H. destruct v as [| |nm fs| |]; try discriminate.
  destruct nm; try discriminate. destruct fs; try discriminate. reflexivity.
Qed.

Lemma tick_ret : forall A s (a : A) w, tick s (Ret a w) = Ret a (st_add s w).
Proof. reflexivity. Qed.

Lemma bind_ret : forall A B (a : A) w (k : A -> res B), bind (Ret a w) k = tick w (k a).
Proof. reflexivity. Qed.

Section Laws.
  Variable tf : nat.
  Variable callf : value -> value -> stats -> res value.
  Variable importf : list atom -> res value.
  Notation eval_term := (eval_term tf callf importf).
  Notation eval_chain := (eval_chain tf callf importf).
  Notation eval_sequence := (eval_sequence tf callf importf).
  Notation eval_expr := (eval_expr tf callf importf).


  (* unfolding equations of the structural evaluator (all by conversion) *)
  Lemma eval_chain_none : forall c ts e v, eval_chain c (Chain None ts) e v = terms_with (eval_term c) ts e v.
  Proof. reflexivity. Qed.
  Lemma eval_chain_some : forall c p ts e v,
    eval_chain c (Chain (Some p) ts) e v = (do x <- terms_with (eval_term c) ts e v ;; do_match tf c (snd x) p (fst x)).
  Proof. reflexivity. Qed.
  Lemma eval_sequence_eq : forall c cs e v, eval_sequence c (Sequence cs) e v = seq_with (eval_chain c) cs e v.
  Proof. reflexivity. Qed.
  Lemma eval_expr_eq : forall c bs e v, eval_expr c (Expression bs) e v = branches_with (eval_sequence c) bs e v.
  Proof. reflexivity. Qed.
  Lemma eval_term_block : forall c b e v, eval_term c (Block b) e v = with_env e (eval_expr c b e v).
  Proof. reflexivity. Qed.
  Lemma eval_term_string : forall c segs e v,
    eval_term c (String segs) e v = (do bs <- segments_with (eval_expr c) segs e v [] ;; ret (vstr bs, e)).
  Proof. reflexivity. Qed.
  Lemma eval_term_match : forall c p e v, eval_term c (Match p) e v = do_match tf c e p v.
  Proof. reflexivity. Qed.
  Lemma eval_term_tuple : forall c name fields e v,
    eval_term c (Tuple name fields) e v =
    (do r <- fields_with (eval_chain c) fields e v [] None ;;
     let '(fs, inh, e') := r in
     match name with
     | Anonymous => ret (VTuple None fs, e')
     | Named a => ret (VTuple (Some a) fs, e')
     | Inherit => match inh with
                  | Some nm => ret (VTuple nm fs, e')
                  | None => Error (EStuck s_inherit)
                  end
     end).
  Proof. reflexivity. Qed.

  (* chain = infallible pipe: whatever a term evaluates to (nil included) flows into the next
     term; the only effect of a nil is the event counter. *)
  Lemma chain_infallible : forall c e t ts v x e1 w,
    eval_term c t e v = Ret (x, e1) w ->
    eval_chain c (Chain None (t :: ts)) e v =
    tick w (tick (match t, ts with
                  | Match _, _ :: _ => if is_nil x then ev_mid_fail else st0
                  | _, _ => st0
                  end) (eval_chain c (Chain None ts) e1 x)).
  Proof.
    intros c e t ts v x e1 w H. rewrite !eval_chain_none. cbn [terms_with]. rewrite H. reflexivity.
  Qed.

  Corollary chain_nil_flows : forall c e t ts v e1 w,
    eval_term c t e v = Ret (vnil, e1) w ->
    exists s1 s2, eval_chain c (Chain None (t :: ts)) e v = tick s1 (tick s2 (eval_chain c (Chain None ts) e1 vnil)).
  Proof.
    intros c e t ts v e1 w H. rewrite (chain_infallible _ _ _ ts _ _ _ _ H). eauto.
  Qed.

  (* sequence = fallible pipe: a nil step ends the sequence with nil; the remaining steps do not
     matter (they are not evaluated: the equation holds for every `rest`). *)
  Lemma sequence_short_circuit : forall c e ch rest v x e1 w,
    rest <> [] ->
    eval_chain c ch e v = Ret (x, e1) w -> is_nil x = true ->
    eval_sequence c (Sequence (ch :: rest)) e v = Ret (vnil, e1) (st_add w ev_short).
  Proof.
    intros c e ch rest v x e1 w Hne H Hnil. rewrite ?eval_sequence_eq. cbn [seq_with].
    destruct rest as [|r0 rest]; [congruence|]. rewrite H. cbn [bind fst snd]. rewrite Hnil. reflexivity.
  Qed.

  Lemma sequence_continues : forall c e ch r0 rest v x e1 w,
    eval_chain c ch e v = Ret (x, e1) w -> is_nil x = false ->
    eval_sequence c (Sequence (ch :: r0 :: rest)) e v = tick w (eval_sequence c (Sequence (r0 :: rest)) e1 x).
  Proof.
    intros c e ch r0 rest v x e1 w H Hnil. rewrite ?eval_sequence_eq. cbn [seq_with]. rewrite H.
    cbn [bind fst snd]. rewrite Hnil. reflexivity.
  Qed.

  (* a branch whose condition is nil is abandoned: the next branch starts from the block's input
     in the scope the block was entered with; the consequence is not evaluated *)
  Lemma branch_fallthrough : forall c e cond conseq rest v x e1 w,
    eval_sequence c cond e v = Ret (x, e1) w -> is_nil x = true ->
    eval_expr c (Expression (Branch cond conseq :: rest)) e v =
    tick w (tick ev_fallthrough (eval_expr c (Expression rest) e v)).
  Proof.
    intros c e cond conseq rest v x e1 w H Hnil. rewrite ?eval_expr_eq. cbn [branches_with]. rewrite <- ?eval_expr_eq. rewrite H.
    cbn [bind fst snd]. rewrite Hnil. reflexivity.
  Qed.

  Lemma block_without_match_is_nil : forall c e v, eval_expr c (Expression []) e v = Ret vnil st0.
  Proof. reflexivity. Qed.

  (* a condition that is not nil commits: the block's value is the consequence's value even when
     that is nil; the remaining branches do not matter *)
  Lemma consequence_commits : forall c e cond k rest v x e1 w y e2 w2,
    eval_sequence c cond e v = Ret (x, e1) w -> is_nil x = false ->
    eval_sequence c k e1 v = Ret (y, e2) w2 ->
    exists w', eval_expr c (Expression (Branch cond (Some k) :: rest)) e v = Ret y w'.
  Proof.
    intros c e cond k rest v x e1 w y e2 w2 H Hnil H2. rewrite ?eval_expr_eq. cbn [branches_with]. rewrite <- ?eval_expr_eq. rewrite H.
    cbn [bind fst snd]. rewrite Hnil, H2. cbn. eexists. reflexivity.
  Qed.

  Lemma condition_without_consequence : forall c e cond rest v x e1 w,
    eval_sequence c cond e v = Ret (x, e1) w -> is_nil x = false ->
    exists w', eval_expr c (Expression (Branch cond None :: rest)) e v = Ret x w'.
  Proof.
    intros c e cond rest v x e1 w H Hnil. rewrite ?eval_expr_eq. cbn [branches_with]. rewrite <- ?eval_expr_eq. rewrite H.
    cbn [bind fst snd]. rewrite Hnil. cbn. eexists. reflexivity.
  Qed.

  (* blocks, string holes and function bodies are scopes: the bindings after them are the
     bindings before them *)
  Lemma block_scoping : forall c e b v r e' w,
    eval_term c (Block b) e v = Ret (r, e') w -> e' = e.
  Proof.
    intros c e b v r e' w H. rewrite eval_term_block in H.
    unfold with_env, bind in H. destruct (eval_expr c b e v); try discriminate.
    cbn in H. inversion H. reflexivity.
  Qed.

  Lemma string_scoping : forall c e segs v r e' w,
    eval_term c (String segs) e v = Ret (r, e') w -> e' = e.
  Proof.
    intros c e segs v r e' w H. rewrite eval_term_string in H.
    unfold bind in H. destruct (segments_with _ segs e v []); try discriminate.
    cbn in H. inversion H. reflexivity.
  Qed.

  (* a function literal captures the whole scope BY VALUE at its definition ... *)
  Lemma closure_captures_scope : forall c e tps pt rt body v,
    eval_term c (Function tps pt rt body) e v =
    Ret (VClos (nilary_of (c_tenv c) pt) body e (c_tenv c), e) st0.
  Proof. reflexivity. Qed.

  (* ... and applying a variable that holds a function consults the caller's scope only to find
     the function: the body runs in the captured scope (a call has no scope argument), and the
     caller's bindings are unchanged afterwards *)
  Lemma closure_captures_by_value : forall c e f clo v,
    lookup_var f e = Some clo ->
    eval_term c (Access (mkAccess (Some (Identifier f)) [])) e v =
    with_env e (tick st0 (if is_callable clo then callf clo (tail_arg clo v) st0 else ret clo)).
  Proof.
    intros c e f clo v H.
    change (eval_term c (Access (mkAccess (Some (Identifier f)) [])) e v) with
      (match lookup_var f e with
       | Some base => with_env e (do w <- access_all base [] ;; apply_value callf w v)
       | None => Error (EStuck s_unbound)
       end).
    rewrite H. reflexivity.
  Qed.

  Corollary call_independent_of_caller_scope : forall c1 c2 e1 e2 f clo v,
    lookup_var f e1 = Some clo -> lookup_var f e2 = Some clo ->
    bind (eval_term c1 (Access (mkAccess (Some (Identifier f)) [])) e1 v) (fun x => ret (fst x)) =
    bind (eval_term c2 (Access (mkAccess (Some (Identifier f)) [])) e2 v) (fun x => ret (fst x)).
  Proof.
    intros c1 c2 e1 e2 f clo v H1 H2.
    rewrite (closure_captures_by_value c1 _ _ _ _ H1), (closure_captures_by_value c2 _ _ _ _ H2).
    unfold with_env. destruct (tick st0 _); reflexivity.
  Qed.
End Laws.

(* ------------------------------------------------------------------------------------------
   Fuel monotonicity: an outcome other than Timeout is stable under more fuel, for every
   judgement of the evaluator.  Hence `eval` defines a partial function (the outcome, when
   there is one, does not depend on the fuel). *)
Definition le_res {A} (r1 r2 : res A) : Prop := r1 = Timeout \/ r1 = r2.

Lemma le_refl : forall A (r : res A), le_res r r.
Proof. intros; right; reflexivity. Qed.
Lemma le_timeout : forall A (r : res A), le_res Timeout r.
Proof. intros; left; reflexivity. Qed.
Lemma le_tick : forall A s (a b : res A), le_res a b -> le_res (tick s a) (tick s b).
Proof. intros A s a b [-> | ->]; [left | right]; reflexivity. Qed.
Lemma le_bind : forall A B (a b : res A) (f g : A -> res B),
  le_res a b -> (forall x, le_res (f x) (g x)) -> le_res (bind a f) (bind b g).
Proof.
  intros A B a b f g [-> | ->] H; [left; reflexivity|].
  destruct b; cbn [bind]; auto using le_tick, le_refl.
Qed.
Lemma le_with_env : forall A e (a b : res A), le_res a b -> le_res (with_env e a) (with_env e b).
Proof. intros. unfold with_env. apply le_bind; auto using le_refl. Qed.
#[local] Hint Resolve le_refl le_timeout le_tick le_with_env : le.

Lemma any_res_le : forall (f g : ty -> res bool) ts,
  (forall t, le_res (f t) (g t)) -> le_res (any_res f ts) (any_res g ts).
Proof.
  intros f g ts H. induction ts as [|t r IH]; cbn [any_res]; auto with le.
  apply le_bind; auto. intros [|]; auto with le.
Qed.
Lemma all_res_le : forall (f g : ty -> res bool) ts,
  (forall t, le_res (f t) (g t)) -> le_res (all_res f ts) (all_res g ts).
Proof.
  intros f g ts H. induction ts as [|t r IH]; cbn [all_res]; auto with le.
  apply le_bind; auto. intros [|]; auto with le.
Qed.
Lemma full_fields_le : forall (f g : ty -> value -> res bool) fts vs,
  (forall t v, le_res (f t v) (g t v)) -> le_res (full_fields f fts vs) (full_fields g fts vs).
Proof.
  intros f g fts. induction fts as [|ft r IH]; intros vs H; destruct vs as [|[k v] vs]; cbn [full_fields]; auto with le.
  destruct ft as [l t|]; auto with le. destruct (oatom_eqb l k); auto with le.
  apply le_bind; auto. intros [|]; auto with le.
Qed.
Lemma partial_fields_le : forall (f g : ty -> value -> res bool) fts vs,
  (forall t v, le_res (f t v) (g t v)) -> le_res (partial_fields f fts vs) (partial_fields g fts vs).
Proof.
  intros f g fts vs H. induction fts as [|ft r IH]; cbn [partial_fields]; auto with le.
  destruct ft as [[l|] t|]; auto with le. destruct (find_field l vs); auto with le.
  apply le_bind; auto. intros [|]; auto with le.
Qed.

Lemma inhab_mono : forall n m te root t v, (n <= m)%nat ->
  le_res (inhab n te root t v) (inhab m te root t v).
Proof.
  induction n as [|n IH]; intros m te root t v Hle; [apply le_timeout|].
  destruct m as [|m]; [lia|]. assert (Hle' : (n <= m)%nat) by lia.
  cbn [inhab]. destruct t as [p|name part fts|i o|ts|ts|x args|d| | |mo mem args|args]; auto with le.
  - destruct v; auto with le. destruct part.
    + destruct (match name with None => true | Some _ => oatom_eqb name name0 end); auto with le.
      apply partial_fields_le. intros; apply IH; assumption.
    + destruct (oatom_eqb name name0); auto with le. apply full_fields_le. intros; apply IH; assumption.
  - apply any_res_le. intros; apply IH; assumption.
  - apply all_res_le. intros; apply IH; assumption.
  - destruct (lookup_alias (Some x) te) as [[ps body]|]; auto with le.
    destruct (existsb has_cycle args); auto with le. destruct (zip_params ps args); auto with le.
  - destruct d as [d|]; auto with le. destruct (d =? 0); auto with le.
  - destruct (lookup_alias None te) as [[ps body]|]; auto with le.
    destruct (existsb has_cycle args); auto with le. destruct (zip_params ps args); auto with le.
Qed.

(* induction principle for the nested pattern type *)
Section PatternInd.
  Variable P : pattern -> Prop.
  Hypothesis HId : forall x, P (MIdentifier x).
  Hypothesis HLit : forall l, P (MLiteral l).
  Hypothesis HStr : forall b, P (MString b).
  Hypothesis HTup : forall n fs, Forall (fun f => match f with MatchField _ q => P q end) fs -> P (MTuple n fs).
  Hypothesis HPar : forall n fs,
    Forall (fun f => match f with PartialPatternField _ (Some q) => P q | _ => True end) fs -> P (MPartial n fs).
  Hypothesis HStar : forall n, P (MStar n).
  Hypothesis HPh : P MPlaceholder.
  Hypothesis HRef : forall x, P (MReference x).
  Hypothesis HTy : forall t, P (MType t).
  Hypothesis HOr : forall ps, Forall P ps -> P (MOr ps).
  Hypothesis HAs : forall t x, P (MAs t x).

  Fixpoint pattern_ind' (p : pattern) : P p :=
    match p with
    | MIdentifier x => HId x
    | MLiteral l => HLit l
    | MString b => HStr b
    | MTuple n fs =>
        HTup n fs ((fix go (l : list match_field) : Forall (fun f => match f with MatchField _ q => P q end) l :=
                      match l with
                      | [] => Forall_nil _
                      | MatchField k q :: r => Forall_cons (MatchField k q) (pattern_ind' q) (go r)
                      end) fs)
    | MPartial n fs =>
        HPar n fs ((fix go (l : list partial_field)
                      : Forall (fun f => match f with PartialPatternField _ (Some q) => P q | _ => True end) l :=
                      match l with
                      | [] => Forall_nil _
                      | PartialPatternField k (Some q) :: r =>
                          Forall_cons (PartialPatternField k (Some q)) (pattern_ind' q) (go r)
                      | PartialPatternField k None :: r => Forall_cons (PartialPatternField k None) I (go r)
                      end) fs)
    | MStar n => HStar n
    | MPlaceholder => HPh
    | MReference x => HRef x
    | MType t => HTy t
    | MOr ps => HOr ps ((fix go (l : list pattern) : Forall P l :=
                           match l with [] => Forall_nil _ | q :: r => Forall_cons q (pattern_ind' q) (go r) end) ps)
    | MAs t x => HAs t x
    end.
End PatternInd.

Definition le_pres (p1 p2 : pres) : Prop := p1 = PTimeout \/ p1 = p2.
Lemma le_pres_refl : forall p, le_pres p p.
Proof. intros; right; reflexivity. Qed.
#[local] Hint Resolve le_pres_refl : le.

Lemma type_verdict_mono : forall n m te t v k, (n <= m)%nat ->
  le_pres (type_verdict n te t v k) (type_verdict m te t v k).
Proof.
  intros n m te t v k Hle. unfold type_verdict.
  destruct (inhab_mono n m te t t v Hle) as [-> | ->]; [left; reflexivity | right; reflexivity].
Qed.

Lemma pmatch_mono : forall n m te outer, (n <= m)%nat ->
  forall p b v, le_pres (pmatch n te outer b p v) (pmatch m te outer b p v).
Proof.
  intros n m te outer Hle p. induction p as [x|l|bs|name fs IH|name fs IH|name| |x|t|ps IH|t x] using pattern_ind';
    intros b v; cbn [pmatch]; auto with le.
  - destruct v as [| |vn vfs| |]; auto with le. destruct (oatom_eqb name vn); auto with le.
    revert b vfs. induction IH as [|[l q] fs' Hq _ IHfs]; intros b vfs; destruct vfs as [|[k w] ws]; auto with le.
    destruct (oatom_eqb l k); auto with le.
    destruct (Hq b w) as [-> | ->]; [left; reflexivity|].
    destruct (pmatch m te outer b q w); auto with le.
  - destruct v as [| |vn vfs| |]; auto with le. destruct (name_ok name vn); auto with le.
    revert b. induction IH as [|[l [q|]] fs' Hq _ IHfs]; intros b; auto with le.
    + destruct (find_field l vfs) as [w|]; auto with le.
      destruct (Hq b w) as [-> | ->]; [left; reflexivity|].
      destruct (pmatch m te outer b q w); auto with le.
    + destruct (find_field l vfs) as [w|]; auto with le.
      destruct (bind_var b l w); auto with le.
  - apply type_verdict_mono; assumption.
  - induction IH as [|q ps' Hq _ IHps]; auto with le.
    destruct (Hq b v) as [-> | ->]; [left; reflexivity|].
    destruct (pmatch m te outer b q v); auto with le.
  - apply type_verdict_mono; assumption.
Qed.

Lemma do_match_mono : forall n m c e p v, (n <= m)%nat ->
  le_res (do_match n c e p v) (do_match m c e p v).
Proof.
  intros n m c e p v Hle. unfold do_match.
  destruct (pmatch_mono n m (c_tenv c) e Hle p [] v) as [-> | ->]; [left; reflexivity | right; reflexivity].
Qed.


(* ------------------------------------------------------------------------------------------
   Induction principle for the nested mutual AST. *)
Section AstInd.
  Variables (Pt : term -> Prop) (Pf : tuple_field -> Prop) (Pg : str_segment -> Prop)
            (Pc : chain -> Prop) (Ps : sequence -> Prop) (Pb : branch -> Prop) (Pe : expression -> Prop).
  Definition Popt {A} (P : A -> Prop) (o : option A) : Prop := match o with Some a => P a | None => True end.
  Hypothesis HLiteral : forall l, Pt (Literal l).
  Hypothesis HTuple : forall n fs, Forall Pf fs -> Pt (Tuple n fs).
  Hypothesis HString : forall segs, Forall Pg segs -> Pt (String segs).
  Hypothesis HMatch : forall p, Pt (Match p).
  Hypothesis HBlock : forall e, Pe e -> Pt (Block e).
  Hypothesis HFunction : forall tps pt rt body, Popt Pe body -> Pt (Function tps pt rt body).
  Hypothesis HAccess : forall a, Pt (Access a).
  Hypothesis HSpawn : forall t, Pt t -> Pt (Spawn t).
  Hypothesis HSelf : Pt Self_.
  Hypothesis HSelect : forall cs, Popt (Forall Pc) cs -> Pt (Select cs).
  Hypothesis HProcess : forall n, Pt (Process n).
  Hypothesis HReference : forall a, Pt (Reference a).
  Hypothesis HFieldChain : forall n c, Pc c -> Pf (TupleField n (FChain c)).
  Hypothesis HFieldSpread : forall n x, Pf (TupleField n (FSpread x)).
  Hypothesis HText : forall b, Pg (Text b).
  Hypothesis HHole : forall e, Pe e -> Pg (Hole e).
  Hypothesis HChain : forall mp ts, Forall Pt ts -> Pc (Chain mp ts).
  Hypothesis HSequence : forall cs, Forall Pc cs -> Ps (Sequence cs).
  Hypothesis HBranch : forall c k, Ps c -> Popt Ps k -> Pb (Branch c k).
  Hypothesis HExpression : forall bs, Forall Pb bs -> Pe (Expression bs).

  Fixpoint term_ind' (t : term) : Pt t :=
    match t with
    | Literal l => HLiteral l
    | Tuple n fs => HTuple n fs ((fix go (l : list tuple_field) : Forall Pf l :=
                      match l with [] => Forall_nil _ | x :: r => Forall_cons x (field_ind' x) (go r) end) fs)
    | String segs => HString segs ((fix go (l : list str_segment) : Forall Pg l :=
                      match l with [] => Forall_nil _ | x :: r => Forall_cons x (segment_ind' x) (go r) end) segs)
    | Match p => HMatch p
    | Block e => HBlock e (expression_ind' e)
    | Function tps pt rt body => HFunction tps pt rt body (match body with Some e => expression_ind' e | None => I end)
    | Access a => HAccess a
    | Spawn t' => HSpawn t' (term_ind' t')
    | Self_ => HSelf
    | Select None => HSelect None I
    | Select (Some cs) => HSelect (Some cs) ((fix go (l : list chain) : Forall Pc l :=
                      match l with [] => Forall_nil _ | x :: r => Forall_cons x (chain_ind' x) (go r) end) cs)
    | Process n => HProcess n
    | Reference a => HReference a
    end
  with field_ind' (f : tuple_field) : Pf f :=
    match f with
    | TupleField n (FChain c) => HFieldChain n c (chain_ind' c)
    | TupleField n (FSpread x) => HFieldSpread n x
    end
  with segment_ind' (g : str_segment) : Pg g :=
    match g with Text b => HText b | Hole e => HHole e (expression_ind' e) end
  with chain_ind' (c : chain) : Pc c :=
    match c with Chain mp ts => HChain mp ts ((fix go (l : list term) : Forall Pt l :=
                      match l with [] => Forall_nil _ | x :: r => Forall_cons x (term_ind' x) (go r) end) ts) end
  with sequence_ind' (s : sequence) : Ps s :=
    match s with Sequence cs => HSequence cs ((fix go (l : list chain) : Forall Pc l :=
                      match l with [] => Forall_nil _ | x :: r => Forall_cons x (chain_ind' x) (go r) end) cs) end
  with branch_ind' (b : branch) : Pb b :=
    match b with Branch c k => HBranch c k (sequence_ind' c)
                                 (match k with Some s => sequence_ind' s | None => I end) end
  with expression_ind' (e : expression) : Pe e :=
    match e with Expression bs => HExpression bs ((fix go (l : list branch) : Forall Pb l :=
                      match l with [] => Forall_nil _ | x :: r => Forall_cons x (branch_ind' x) (go r) end) bs) end.

  Lemma ast_mutind :
    (forall t, Pt t) /\ (forall c, Pc c) /\ (forall s, Ps s) /\ (forall e, Pe e).
  Proof.
    repeat split; [apply term_ind' | apply chain_ind' | apply sequence_ind' | apply expression_ind'].
  Qed.
End AstInd.

(* ------------------------------------------------------------------------------------------
   Monotonicity of one level in what consumes fuel. *)
Ltac le_struct :=
  repeat match goal with
  | |- le_res ?a ?a => apply le_refl
  | |- le_res Timeout _ => apply le_timeout
  | |- le_res (bind _ _) (bind _ _) => apply le_bind; [| intros ?]
  | |- le_res (tick _ _) (tick _ _) => apply le_tick
  | |- le_res (with_env _ _) (with_env _ _) => apply le_with_env
  | |- le_res (do_match _ _ _ _ _) (do_match _ _ _ _ _) => apply do_match_mono; assumption
  | |- le_res (if ?x then _ else _) (if ?x then _ else _) => destruct x
  | |- le_res (match ?x with _ => _ end) (match ?x with _ => _ end) => destruct x
  | |- le_res (match ?x with _ => _ end) (match ?y with _ => _ end) =>
      let H := fresh "Hle" in
      assert (H : le_res x y) by auto; destruct H as [H | H]; rewrite H; [apply le_timeout | destruct y]
  | H : forall _, _ |- le_res _ _ => apply H
  end.

Section WalkerMono.
  Lemma terms_with_le : forall (ev ev' : term -> env -> value -> res (value * env)) ts,
    Forall (fun t => forall e v, le_res (ev t e v) (ev' t e v)) ts ->
    forall e v, le_res (terms_with ev ts e v) (terms_with ev' ts e v).
  Proof.
    intros ev ev' ts H. induction H as [|t r Ht _ IH]; intros e v; cbn [terms_with]; le_struct.
  Qed.
  Lemma seq_with_le : forall (ev ev' : chain -> env -> value -> res (value * env)) cs,
    Forall (fun c => forall e v, le_res (ev c e v) (ev' c e v)) cs ->
    forall e v, le_res (seq_with ev cs e v) (seq_with ev' cs e v).
  Proof.
    intros ev ev' cs H. induction H as [|c r Hc _ IH]; intros e v; cbn [seq_with]; le_struct.
  Qed.
  Lemma fields_with_le : forall (ev ev' : chain -> env -> value -> res (value * env)) fs,
    Forall (fun f => match f with
                     | TupleField _ (FChain c) => forall e v, le_res (ev c e v) (ev' c e v)
                     | _ => True
                     end) fs ->
    forall e v acc inh, le_res (fields_with ev fs e v acc inh) (fields_with ev' fs e v acc inh).
  Proof.
    intros ev ev' fs H. induction H as [|[l [c|x]] r Hc _ IH]; intros e v acc inh; cbn [fields_with]; le_struct.
  Qed.
  Lemma branches_with_le : forall (ev ev' : sequence -> env -> value -> res (value * env)) bs,
    Forall (fun b => match b with
                     | Branch c k => (forall e v, le_res (ev c e v) (ev' c e v)) /\
                                     Popt (fun s => forall e v, le_res (ev s e v) (ev' s e v)) k
                     end) bs ->
    forall e v, le_res (branches_with ev bs e v) (branches_with ev' bs e v).
  Proof.
    intros ev ev' bs H. induction H as [|[c k] r [Hc Hk] _ IH]; intros e v; cbn [branches_with]; [apply le_refl|].
    apply le_bind; [apply Hc|]. intros x. destruct (is_nil (fst x)); [le_struct|].
    destruct k as [k|]; cbn in Hk; le_struct.
  Qed.
  Lemma segments_with_le : forall (ev ev' : expression -> env -> value -> res value) segs,
    Forall (fun g => match g with
                     | Hole b => forall e v, le_res (ev b e v) (ev' b e v)
                     | Text _ => True
                     end) segs ->
    forall e v acc, le_res (segments_with ev segs e v acc) (segments_with ev' segs e v acc).
  Proof.
    intros ev ev' segs H. induction H as [|[bs|b] r Hg _ IH]; intros e v acc; cbn [segments_with]; le_struct.
  Qed.
End WalkerMono.

Section LevelMono.
  Variables (tf tf' : nat) (cf cf' : value -> value -> stats -> res value) (imf imf' : list atom -> res value).
  Hypothesis Htf : (tf <= tf')%nat.
  Hypothesis Hcf : forall f a acc, le_res (cf f a acc) (cf' f a acc).
  Hypothesis Himf : forall p, le_res (imf p) (imf' p).

  Lemma apply_value_le : forall w v, le_res (apply_value cf w v) (apply_value cf' w v).
  Proof. intros. unfold apply_value. le_struct. Qed.

  Lemma level_mono :
    (forall t c e v, le_res (eval_term tf cf imf c t e v) (eval_term tf' cf' imf' c t e v)) /\
    (forall ch c e v, le_res (eval_chain tf cf imf c ch e v) (eval_chain tf' cf' imf' c ch e v)) /\
    (forall s c e v, le_res (eval_sequence tf cf imf c s e v) (eval_sequence tf' cf' imf' c s e v)) /\
    (forall b c e v, le_res (eval_expr tf cf imf c b e v) (eval_expr tf' cf' imf' c b e v)).
  Proof.
    pose proof apply_value_le as Hap.
    apply (ast_mutind
      (fun t => forall c e v, le_res (eval_term tf cf imf c t e v) (eval_term tf' cf' imf' c t e v))
      (fun f => match f with
                | TupleField _ (FChain ch) => forall c e v, le_res (eval_chain tf cf imf c ch e v) (eval_chain tf' cf' imf' c ch e v)
                | _ => True
                end)
      (fun g => match g with
                | Hole b => forall c e v, le_res (eval_expr tf cf imf c b e v) (eval_expr tf' cf' imf' c b e v)
                | Text _ => True
                end)
      (fun ch => forall c e v, le_res (eval_chain tf cf imf c ch e v) (eval_chain tf' cf' imf' c ch e v))
      (fun s => forall c e v, le_res (eval_sequence tf cf imf c s e v) (eval_sequence tf' cf' imf' c s e v))
      (fun b => match b with
                | Branch cd k =>
                    (forall c e v, le_res (eval_sequence tf cf imf c cd e v) (eval_sequence tf' cf' imf' c cd e v)) /\
                    Popt (fun s => forall c e v, le_res (eval_sequence tf cf imf c s e v) (eval_sequence tf' cf' imf' c s e v)) k
                end)
      (fun b => forall c e v, le_res (eval_expr tf cf imf c b e v) (eval_expr tf' cf' imf' c b e v))).
    - intros; apply le_refl.
    - intros n fs H c e v. rewrite !eval_term_tuple. apply le_bind.
      + apply fields_with_le. eapply Forall_impl; [|exact H]. intros [l [ch|x]] Hf; auto.
      + intros [[fs' inh] e']. apply le_refl.
    - intros segs H c e v. rewrite !eval_term_string. apply le_bind; [|intros; apply le_refl].
      apply segments_with_le. eapply Forall_impl; [|exact H]. intros [bs|b] Hg; auto.
    - intros p c e v. rewrite !eval_term_match. apply do_match_mono; assumption.
    - intros b H c e v. rewrite !eval_term_block. apply le_with_env, H.
    - intros; apply le_refl.
    - intros [src path] c e v. cbn [eval_term]. unfold apply_value. le_struct.
    - intros; apply le_refl.
    - intros; apply le_refl.
    - intros; apply le_refl.
    - intros; apply le_refl.
    - intros [src path] c e v. cbn [eval_term]. le_struct.
    - intros n ch H. exact H.
    - intros; exact I.
    - intros; exact I.
    - intros b H. exact H.
    - intros mp ts H c e v. destruct mp as [p|]; [rewrite !eval_chain_some | rewrite !eval_chain_none].
      + apply le_bind; [|intros; apply do_match_mono; assumption].
        apply terms_with_le. eapply Forall_impl; [|exact H]. intros t Ht e0 v0. apply Ht.
      + apply terms_with_le. eapply Forall_impl; [|exact H]. intros t Ht e0 v0. apply Ht.
    - intros cs H c e v. rewrite !eval_sequence_eq. apply seq_with_le.
      eapply Forall_impl; [|exact H]. intros ch Hc e0 v0. apply Hc.
    - intros cd k Hc Hk. split; [exact Hc | exact Hk].
    - intros bs H c e v. rewrite !eval_expr_eq. apply branches_with_le.
      eapply Forall_impl; [|exact H]. intros [cd k] [Hc Hk]. split; [intros; apply Hc|].
      destruct k; cbn in *; auto.
  Qed.
End LevelMono.

(* ------------------------------------------------------------------------------------------
   Fuel monotonicity of the whole evaluator: calls, imports, programs, expressions. *)
Definition mono_at (mods : list (list atom * program)) (n m : nat) : Prop :=
  (forall f a acc, le_res (call mods n f a acc) (call mods m f a acc)) /\
  (forall path, le_res (eval_import mods n path) (eval_import mods m path)).

Lemma run_program_le : forall tf tf' cf cf' imf imf' p,
  (tf <= tf')%nat -> (forall f a acc, le_res (cf f a acc) (cf' f a acc)) -> (forall q, le_res (imf q) (imf' q)) ->
  le_res (run_program tf cf imf p) (run_program tf' cf' imf' p).
Proof.
  intros tf tf' cf cf' imf imf' [ss] Htf Hcf Him. unfold run_program.
  destruct (level_mono tf tf' cf cf' imf imf' Htf Hcf Him) as (_ & Hchain & _ & _).
  assert (H : le_res (seq_with (eval_chain tf cf imf (mkCtx vnil None (collect_aliases ss))) (collect_chains ss) [] vnil)
                     (seq_with (eval_chain tf' cf' imf' (mkCtx vnil None (collect_aliases ss))) (collect_chains ss) [] vnil)).
  { apply seq_with_le. apply Forall_forall. intros ch _ e v. apply Hchain. }
  destruct H as [-> | ->]; [apply le_timeout | apply le_refl].
Qed.

Lemma call_S : forall mods m f arg acc,
  call mods (S m) f arg acc =
  match f with
  | VBuiltin b => tick acc (apply_builtin b arg)
  | VClos _ None _ _ => Ret arg acc
  | VClos _ (Some body) cenv te =>
      match eval_expr m (call mods m) (eval_import mods m) (mkCtx arg (Some f) te) body cenv arg with
      | Ret r w => Ret r (st_add acc (st_add ev_closure_call w))
      | TailC g a w => call mods m g a (st_add acc (st_add ev_closure_call (st_add w ev_tail_call)))
      | Error err => Error err
      | Timeout => Timeout
      end
  | _ => Error (EStuck s_notfun)
  end.
Proof. reflexivity. Qed.

Lemma eval_import_S : forall mods m path,
  eval_import mods (S m) path =
  match find_module path mods with
  | Some p => run_program m (call mods m) (eval_import mods m) p
  | None => Error (EUnsupported u_module)
  end.
Proof. reflexivity. Qed.

Lemma mono_all : forall mods n m, (n <= m)%nat -> mono_at mods n m.
Proof.
  intros mods. induction n as [|n IH]; intros m Hle.
  - split; intros; apply le_timeout.
  - destruct m as [|m]; [lia|]. assert (Hle' : (n <= m)%nat) by lia.
    destruct (IH m Hle') as (Hcall & Himp). split.
    + intros f a acc. rewrite !call_S. destruct f as [z0|bs0|nm0 fs0|nl body cenv te|b]; try apply le_refl.
      destruct body as [body|]; [|apply le_refl].
      destruct (level_mono n m _ _ _ _ Hle' Hcall Himp) as (_ & _ & _ & Hexpr).
      destruct (Hexpr body (mkCtx a (Some (VClos nl (Some body) cenv te)) te) cenv a) as [-> | ->]; [apply le_timeout|].
      destruct (eval_expr m (call mods m) (eval_import mods m) _ body cenv a); try apply le_refl. apply Hcall.
    + intros path. rewrite !eval_import_S. destruct (find_module path mods); [|apply le_refl].
      apply run_program_le; assumption.
Qed.

Theorem eval_fuel_mono : forall mods n m c e b v r,
  (n <= m)%nat -> eval mods n c e b v = r -> r <> Timeout -> eval mods m c e b v = r.
Proof.
  intros mods n m c e b v r Hle H Hr. destruct n as [|n]; [cbn in H; congruence|].
  destruct m as [|m]; [lia|]. assert (Hle' : (n <= m)%nat) by lia. unfold eval in *.
  destruct (mono_all mods n m Hle') as (Hcall & Himp).
  destruct (level_mono n m _ _ _ _ Hle' Hcall Himp) as (_ & _ & _ & Hexpr).
  destruct (Hexpr b c e v) as [Ht | Heq]; congruence.
Qed.

Theorem eval_program_fuel_mono : forall mods n m p r,
  (n <= m)%nat -> eval_program mods n p = r -> r <> Timeout -> eval_program mods m p = r.
Proof.
  intros mods n m p r Hle H Hr. destruct n as [|n]; [cbn in H; congruence|].
  destruct m as [|m]; [lia|]. assert (Hle' : (n <= m)%nat) by lia. unfold eval_program in *.
  destruct (mono_all mods n m Hle') as (Hcall & Himp).
  destruct (run_program_le n m _ _ _ _ p Hle' Hcall Himp) as [Ht | Heq]; congruence.
Qed.

Theorem call_fuel_mono : forall mods n m f a acc r,
  (n <= m)%nat -> call mods n f a acc = r -> r <> Timeout -> call mods m f a acc = r.
Proof.
  intros mods n m f a acc r Hle H Hr. destruct (mono_all mods n m Hle) as (Hcall & _).
  destruct (Hcall f a acc) as [Ht | Heq]; congruence.
Qed.

(* the semantics is a partial function: two fuels that both finish agree *)
Corollary eval_deterministic : forall mods n m c e b v,
  eval mods n c e b v <> Timeout -> eval mods m c e b v <> Timeout ->
  eval mods n c e b v = eval mods m c e b v.
Proof.
  intros mods n m c e b v Hn Hm. destruct (Nat.le_ge_cases n m) as [H | H].
  - symmetry. apply (eval_fuel_mono mods n m); auto.
  - apply (eval_fuel_mono mods m n); auto.
Qed.

(* ------------------------------------------------------------------------------------------
   A match evaluates to Ok or [].  On success the scope is extended by the bindings the pattern
   made; on failure by its static binders, all nil (reading R3); nothing else changes. *)
Theorem match_verdict : forall n c e p v r e' w,
  do_match n c e p v = Ret (r, e') w ->
  (r = vok /\ exists b, pmatch n (c_tenv c) e [] p v = POk b /\ e' = b ++ e) \/
  (r = vnil /\ pmatch n (c_tenv c) e [] p v = PFail /\ e' = nil_fill (binders p) ++ e).
Proof.
  intros n c e p v r e' w H. unfold do_match in H.
  destruct (pmatch n (c_tenv c) e [] p v) as [b| | |] eqn:Hp; try discriminate.
  - left. inversion H; subst. split; [reflexivity|]. exists b. auto.
  - right. inversion H; subst. auto.
Qed.

Corollary match_term_verdict : forall tf cf imf c e p v r e' w,
  eval_term tf cf imf c (Match p) e v = Ret (r, e') w -> r = vok \/ r = vnil.
Proof.
  intros tf cf imf c e p v r e' w H. rewrite eval_term_match in H. apply match_verdict in H. tauto.
Qed.

(* a bare binder always succeeds and binds exactly that name, nil included *)
Lemma bare_binder_always_succeeds : forall n c e x v,
  do_match n c e (MIdentifier x) v = Ret (vok, (x, v) :: e) st0.
Proof. reflexivity. Qed.

(* which names a successful match binds: the pattern's static binders (for patterns without `*`,
   whose binders depend on the value, and whose alternatives bind the same names) *)
Fixpoint star_free (p : pattern) : Prop :=
  match p with
  | MStar _ => False
  | MTuple _ fs => (fix go (l : list match_field) : Prop :=
                      match l with [] => True | MatchField _ q :: r => star_free q /\ go r end) fs
  | MPartial _ fs => (fix go (l : list partial_field) : Prop :=
                        match l with
                        | [] => True
                        | PartialPatternField _ (Some q) :: r => star_free q /\ go r
                        | PartialPatternField _ None :: r => go r
                        end) fs
  | MOr ps => (fix go (l : list pattern) : Prop :=
                 match l with [] => True | q :: r => star_free q /\ go r end) ps
  | _ => True
  end.

Definition extends (b b' : env) : Prop := exists d, b' = d ++ b.
Lemma extends_refl : forall b, extends b b.
Proof. intros b; exists []; reflexivity. Qed.
Lemma extends_trans : forall a b c, extends a b -> extends b c -> extends a c.
Proof. intros a b c [d1 ->] [d2 ->]. exists (d2 ++ d1). rewrite app_assoc. reflexivity. Qed.

Lemma eq_verdict_ok : forall b w v b', eq_verdict b w v = POk b' -> b' = b.
Proof. intros b w v b' H. unfold eq_verdict in H. destruct (value_eqb w v) as [[|]|]; inversion H; reflexivity. Qed.

Lemma bind_var_extends : forall b x v b', bind_var b x v = POk b' -> extends b b'.
Proof.
  intros b x v b' H. unfold bind_var in H. destruct (lookup x b).
  - apply eq_verdict_ok in H. subst. apply extends_refl.
  - inversion H. exists [(x, v)]. reflexivity.
Qed.

Lemma type_verdict_ok : forall n te t v k b', type_verdict n te t v k = POk b' -> k = POk b'.
Proof.
  intros n te t v k b' H. unfold type_verdict in H.
  destruct (inhab n te t t v) as [[|] ?| | |]; try discriminate; assumption.
Qed.

(* a successful match only ADDS bindings (it never drops or changes one made earlier in the same
   pattern) *)
Lemma pmatch_extends : forall n te outer p b v b',
  pmatch n te outer b p v = POk b' -> extends b b'.
Proof.
  intros n te outer p. induction p as [x|l|bs|name fs IH|name fs IH|name| |x|t|ps IH|t x] using pattern_ind';
    intros b v b' H; cbn [pmatch] in H.
  - eapply bind_var_extends; eassumption.
  - apply eq_verdict_ok in H; subst; apply extends_refl.
  - apply eq_verdict_ok in H; subst; apply extends_refl.
  - destruct v as [| |vn vfs| |]; try discriminate. destruct (oatom_eqb name vn); try discriminate.
    revert b vfs H. induction IH as [|[l q] fs' Hq _ IHfs]; intros b vfs H; destruct vfs as [|[k w] ws]; try discriminate.
    + inversion H; apply extends_refl.
    + destruct (oatom_eqb l k); try discriminate.
      destruct (pmatch n te outer b q w) as [b1| | |] eqn:Hq1; try discriminate.
      eapply extends_trans; [eapply Hq; eassumption | eapply IHfs; eassumption].
  - destruct v as [| |vn vfs| |]; try discriminate. destruct (name_ok name vn); try discriminate.
    revert b H. induction IH as [|[l [q|]] fs' Hq _ IHfs]; intros b H.
    + inversion H; apply extends_refl.
    + destruct (find_field l vfs) as [w|]; try discriminate.
      destruct (pmatch n te outer b q w) as [b1| | |] eqn:Hq1; try discriminate.
      eapply extends_trans; [eapply Hq; eassumption | eapply IHfs; eassumption].
    + destruct (find_field l vfs) as [w|]; try discriminate.
      destruct (bind_var b l w) as [b1| | |] eqn:Hq1; try discriminate.
      eapply extends_trans; [eapply bind_var_extends; eassumption | eapply IHfs; eassumption].
  - destruct v as [| |vn vfs| |]; try discriminate. destruct (name_ok name vn); try discriminate.
    destruct (bind_star b vfs) as [b2| | |] eqn:Hs; try discriminate. inversion H; subst b'.
    eapply extends_trans; [|exists [(a_star, vnil)]; reflexivity].
    clear H. revert b Hs. induction vfs as [|[[l|] w] r IHr]; intros b H; cbn [bind_star] in H.
    + inversion H; apply extends_refl.
    + destruct (bind_var b l w) as [b1| | |] eqn:Hb; try discriminate.
      eapply extends_trans; [eapply bind_var_extends; eassumption | eapply IHr; eassumption].
    + eapply IHr; eassumption.
  - inversion H; apply extends_refl.
  - destruct (lookup_var x outer); try discriminate. apply eq_verdict_ok in H; subst; apply extends_refl.
  - apply type_verdict_ok in H. inversion H; apply extends_refl.
  - induction IH as [|q ps' Hq _ IHps]; try discriminate.
    destruct (pmatch n te outer b q v) as [b1| | |] eqn:Hq1; try discriminate.
    + inversion H; subst. eapply Hq; eassumption.
    + apply IHps; assumption.
  - apply type_verdict_ok in H. eapply bind_var_extends; eassumption.
Qed.

(* ... so after a successful match every binding of the enclosing scope is still there *)
Corollary match_preserves_scope : forall n c e p v e' w,
  do_match n c e p v = Ret (vok, e') w -> exists b, e' = b ++ e.
Proof.
  intros n c e p v e' w H. apply match_verdict in H. destruct H as [(_ & b & _ & ->) | (Hr & _)].
  - eauto.
  - discriminate.
Qed.

(* patterns whose binders are static: no `*` (its binders depend on the value) and every
   alternative of an or-pattern binds names of the first one (the compiler demands the same set) *)
Fixpoint wf_pat (p : pattern) : Prop :=
  match p with
  | MStar _ => False
  | MTuple _ fs => (fix go (l : list match_field) : Prop :=
                      match l with [] => True | MatchField _ q :: r => wf_pat q /\ go r end) fs
  | MPartial _ fs => (fix go (l : list partial_field) : Prop :=
                        match l with
                        | [] => True
                        | PartialPatternField _ (Some q) :: r => wf_pat q /\ go r
                        | PartialPatternField _ None :: r => go r
                        end) fs
  | MOr ps => match ps with
              | [] => True
              | q0 :: _ => (fix go (l : list pattern) : Prop :=
                              match l with [] => True | q :: r => (wf_pat q /\ incl (binders q) (binders q0)) /\ go r end) ps
              end
  | _ => True
  end.

Lemma bind_var_domain : forall b x v b', bind_var b x v = POk b' ->
  exists d, b' = d ++ b /\ incl (map fst d) [x].
Proof.
  intros b x v b' H. unfold bind_var in H. destruct (lookup x b).
  - apply eq_verdict_ok in H. subst. exists []. split; [reflexivity | intros y []].
  - inversion H. exists [(x, v)]. split; [reflexivity|]. cbn. apply incl_refl.
Qed.


Lemma wf_or_forall : forall q0 l,
  (fix go (l : list pattern) : Prop :=
     match l with [] => True | q :: r => (wf_pat q /\ incl (binders q) (binders q0)) /\ go r end) l ->
  Forall (fun q => wf_pat q /\ incl (binders q) (binders q0)) l.
Proof.
  intros q0 l. induction l as [|q r IHl]; intros Hw; constructor.
  - destruct Hw as [Hq _]. exact Hq.
  - apply IHl. destruct Hw as [_ Hr]. exact Hr.
Qed.

Lemma or_loop : forall n te outer q0 (l : list pattern),
  Forall (fun p => wf_pat p -> forall b v b', pmatch n te outer b p v = POk b' ->
                   exists d, b' = d ++ b /\ incl (map fst d) (binders p)) l ->
  Forall (fun q => wf_pat q /\ incl (binders q) (binders q0)) l ->
  forall b v b',
  (fix go (ps : list pattern) : pres :=
     match ps with
     | [] => PFail
     | q :: ps' => match pmatch n te outer b q v with
                   | PFail => go ps'
                   | other => other
                   end
     end) l = POk b' ->
  exists d, b' = d ++ b /\ incl (map fst d) (binders q0).
Proof.
  intros n te outer q0 l IH Hall b v b'. induction l as [|q r IHl]; intros H; [discriminate|].
  inversion IH as [|? ? Hq IHrest]; subst. inversion Hall as [|? ? [Hwq Hinc] Hr]; subst.
  destruct (pmatch n te outer b q v) as [b1| | |] eqn:Hq1; try discriminate.
  - inversion H; subst. destruct (Hq Hwq _ _ _ Hq1) as (d1 & -> & Hd1).
    exists d1. split; [reflexivity|]. intros y Hy. apply Hinc, Hd1, Hy.
  - apply IHl; assumption.
Qed.

Lemma pmatch_domain : forall n te outer p, wf_pat p -> forall b v b',
  pmatch n te outer b p v = POk b' -> exists d, b' = d ++ b /\ incl (map fst d) (binders p).
Proof.
  intros n te outer p. induction p as [x|l|bs|name fs IH|name fs IH|name| |x|t|ps IH|t x] using pattern_ind';
    intros Hwf b v b' H; cbn [pmatch] in H.
  - apply bind_var_domain in H. exact H.
  - apply eq_verdict_ok in H; subst. exists []; split; [reflexivity | intros y []].
  - apply eq_verdict_ok in H; subst. exists []; split; [reflexivity | intros y []].
  - destruct v as [| |vn vfs| |]; try discriminate. destruct (oatom_eqb name vn); try discriminate.
    cbn [binders]. cbn [wf_pat] in Hwf.
    revert b vfs Hwf H. induction IH as [|[l q] fs' Hq _ IHfs]; intros b vfs Hwf H; destruct vfs as [|[k w] ws]; try discriminate.
    + inversion H. exists []; split; [reflexivity | intros y []].
    + destruct (oatom_eqb l k); try discriminate. destruct Hwf as [Hwq Hwr].
      destruct (pmatch n te outer b q w) as [b1| | |] eqn:Hq1; try discriminate.
      destruct (Hq Hwq _ _ _ Hq1) as (d1 & -> & Hd1).
      destruct (IHfs _ _ Hwr H) as (d2 & -> & Hd2).
      exists (d2 ++ d1). split; [rewrite app_assoc; reflexivity|].
      rewrite map_app. cbn [flat_map]. intros y Hy. apply in_app_or in Hy. apply in_or_app.
      destruct Hy as [Hy | Hy]; [right; apply Hd2; exact Hy | left; apply Hd1; exact Hy].
  - destruct v as [| |vn vfs| |]; try discriminate. destruct (name_ok name vn); try discriminate.
    cbn [binders]. cbn [wf_pat] in Hwf.
    revert b Hwf H. induction IH as [|[l [q|]] fs' Hq _ IHfs]; intros b Hwf H.
    + inversion H. exists []; split; [reflexivity | intros y []].
    + destruct (find_field l vfs) as [w|]; try discriminate. destruct Hwf as [Hwq Hwr].
      destruct (pmatch n te outer b q w) as [b1| | |] eqn:Hq1; try discriminate.
      destruct (Hq Hwq _ _ _ Hq1) as (d1 & -> & Hd1).
      destruct (IHfs _ Hwr H) as (d2 & -> & Hd2).
      exists (d2 ++ d1). split; [rewrite app_assoc; reflexivity|].
      rewrite map_app. cbn [flat_map]. intros y Hy. apply in_app_or in Hy. apply in_or_app.
      destruct Hy as [Hy | Hy]; [right; apply Hd2; exact Hy | left; apply Hd1; exact Hy].
    + destruct (find_field l vfs) as [w|]; try discriminate.
      destruct (bind_var b l w) as [b1| | |] eqn:Hq1; try discriminate.
      destruct (bind_var_domain _ _ _ _ Hq1) as (d1 & -> & Hd1).
      destruct (IHfs _ Hwf H) as (d2 & -> & Hd2).
      exists (d2 ++ d1). split; [rewrite app_assoc; reflexivity|].
      rewrite map_app. cbn [flat_map]. intros y Hy. apply in_app_or in Hy. apply in_or_app.
      destruct Hy as [Hy | Hy]; [right; apply Hd2; exact Hy | left; apply Hd1; exact Hy].
  - destruct Hwf.
  - inversion H. exists []; split; [reflexivity | intros y []].
  - destruct (lookup_var x outer); try discriminate. apply eq_verdict_ok in H; subst.
    exists []; split; [reflexivity | intros y []].
  - apply type_verdict_ok in H. inversion H. exists []; split; [reflexivity | intros y []].
  - destruct ps as [|q0 ps0]; [cbn in H; discriminate|]. cbn [binders].
    exact (or_loop n te outer q0 (q0 :: ps0) IH (wf_or_forall q0 (q0 :: ps0) Hwf) b v b' H).
  - apply type_verdict_ok in H. apply bind_var_domain in H. exact H.
Qed.

(* the names a successful match adds to the scope are static binders of the pattern *)
Theorem match_binds_only_binders : forall n c e p v e' w,
  wf_pat p -> do_match n c e p v = Ret (vok, e') w ->
  exists d, e' = d ++ e /\ incl (map fst d) (binders p).
Proof.
  intros n c e p v e' w Hwf H. apply match_verdict in H.
  destruct H as [(_ & b & Hp & ->) | (Hr & _)]; [|discriminate].
  destruct (pmatch_domain _ _ _ _ Hwf _ _ _ Hp) as (d & -> & Hd).
  exists d. rewrite app_nil_r. auto.
Qed.

(* ------------------------------------------------------------------------------------------
   Non-vacuity: concrete programs (the spec's own examples with their documented results),
   evaluated by vm_compute.  Atoms: identifiers/tuple names are arbitrary numbers >= 13. *)
Definition x_ : atom := 100. Definition y_ : atom := 101. Definition f_ : atom := 102.
Definition a_ : atom := 103. Definition b_ : atom := 104.
Definition A_ : atom := 200. Definition B_ : atom := 201. Definition Done_ : atom := 202.

Definition int (n : Z) : term := Literal (LInteger n).
Definition nil_t : term := Tuple Anonymous [].
Definition ch (ts : list term) : chain := Chain None ts.
Definition bindc (p : pattern) (ts : list term) : chain := Chain (Some p) ts.
Definition var (x : atom) : term := Access (mkAccess (Some (Identifier x)) []).
Definition fld (ts : list term) : tuple_field := TupleField None (FChain (ch ts)).
Definition prog (cs : list chain) : program := Program [StmtExpression (Sequence cs)].
Definition val_of {A} (r : res A) : option A := match r with Ret a _ => Some a | _ => None end.

(* spec "Control flow": `[] 5` is 5 (nil flows through a chain); `[], 5` is [] (short-circuit) *)
Example ex_chain_vs_sequence :
  val_of (eval_program [] 20 (prog [ch [nil_t; int 5]])) = Some (VInt 5) /\
  eval_program [] 20 (prog [ch [nil_t]; ch [int 5]]) = Ret vnil ev_short.
Proof. split; vm_compute; reflexivity. Qed.

(* spec "Blocks": `B[42] { =A[a] => 1 | =B[b] => 2 }` is 2: the first branch falls through, the
   second commits *)
Definition ex_block : term :=
  Block (Expression [Branch (Sequence [ch [Match (MTuple (Some A_) [MatchField None (MIdentifier a_)])]]) (Some (Sequence [ch [int 1]]));
                     Branch (Sequence [ch [Match (MTuple (Some B_) [MatchField None (MIdentifier b_)])]]) (Some (Sequence [ch [int 2]]))]).
Example ex_fallthrough_then_commit :
  exists w, eval_program [] 30 (prog [ch [Tuple (Named B_) [fld [int 42]]; ex_block]]) = Ret (VInt 2) w /\
            n_fallthrough w = 1 /\ n_commit w = 1.
Proof. eexists. vm_compute. repeat split. Qed.

(* spec "Condition-consequence": `{ 1 => [], 10 | 2 => 20 }` is []: a failing consequence commits *)
Example ex_consequence_commits :
  val_of (eval_program [] 30 (prog [ch [Block (Expression
      [Branch (Sequence [ch [int 1]]) (Some (Sequence [ch [nil_t]; ch [int 10]]));
       Branch (Sequence [ch [int 2]]) (Some (Sequence [ch [int 20]]))])]])) = Some vnil.
Proof. vm_compute; reflexivity. Qed.

(* spec "Variable scoping": `x = 42, { x = 5 }, x` is 42 *)
Example ex_block_scoping :
  val_of (eval_program [] 30 (prog [bindc (MIdentifier x_) [int 42];
                                    ch [Block (Expression [Branch (Sequence [bindc (MIdentifier x_) [int 5]]) None])];
                                    ch [var x_]])) = Some (VInt 42).
Proof. vm_compute; reflexivity. Qed.

(* closures capture by value: `x = 1, f = #{ x }, x = 2, [] f` is 1 *)
Example ex_closure_by_value :
  val_of (eval_program [] 30 (prog [bindc (MIdentifier x_) [int 1];
                                    bindc (MIdentifier f_) [Function [] None None (Some (Expression [Branch (Sequence [ch [var x_]]) None]))];
                                    bindc (MIdentifier x_) [int 2];
                                    ch [nil_t; var f_]])) = Some (VInt 1).
Proof. vm_compute; reflexivity. Qed.

(* spec "Pattern matching": `[5, 5] =[x, x]` is Ok, `[5, 6] =[x, x]` is []; a failed match
   leaves its binders nil: `[1, 2] =[a, 3] [~, a]` is [[], []] *)
Definition pair (p q : Z) : term := Tuple Anonymous [fld [int p]; fld [int q]].
Definition ripple : term := Access (mkAccess (Some Ripple) []).
Example ex_match_verdict :
  val_of (eval_program [] 30 (prog [ch [pair 5 5; Match (MTuple None [MatchField None (MIdentifier x_); MatchField None (MIdentifier x_)])]])) = Some vok /\
  val_of (eval_program [] 30 (prog [ch [pair 5 6; Match (MTuple None [MatchField None (MIdentifier x_); MatchField None (MIdentifier x_)])]])) = Some vnil /\
  val_of (eval_program [] 30 (prog [ch [pair 1 2; Match (MTuple None [MatchField None (MIdentifier a_); MatchField None (MLiteral (LInteger 3))]);
                                        Tuple Anonymous [fld [ripple]; fld [var a_]]]])) = Some (VTuple None [(None, vnil); (None, vnil)]).
Proof. repeat split; vm_compute; reflexivity. Qed.

(* spec "Tail recursion": `f = #'int { | =0 => Done | [~, 1] __integer_subtract__ ^ }, 3 f`
   is Done after three tail calls *)
Definition ex_countdown : term :=
  Function [] (Some (TPrimitive PInt)) None (Some (Expression
    [Branch (Sequence [ch [Match (MLiteral (LInteger 0))]]) (Some (Sequence [ch [Tuple (Named Done_) []]]));
     Branch (Sequence [ch [Tuple Anonymous [fld [ripple]; fld [int 1]];
                           Access (mkAccess (Some (Builtin b_integer_subtract)) []);
                           Access (mkAccess (Some (TailCall None)) [])]]) None])).
Example ex_tail_calls :
  exists w, eval_program [] 40 (prog [bindc (MIdentifier f_) [ex_countdown]; ch [int 3; var f_]]) = Ret (VTuple (Some Done_) []) w /\
            n_tail_call w = 3.
Proof. eexists. vm_compute. split; reflexivity. Qed.

(* fuel monotonicity is not vacuous: the countdown needs fuel; with too little it times out, with
   enough it finishes, and more fuel does not change the outcome *)
Example ex_fuel :
  eval_program [] 3 (prog [bindc (MIdentifier f_) [ex_countdown]; ch [int 3; var f_]]) = Timeout /\
  val_of (eval_program [] 40 (prog [bindc (MIdentifier f_) [ex_countdown]; ch [int 3; var f_]])) =
  val_of (eval_program [] 400 (prog [bindc (MIdentifier f_) [ex_countdown]; ch [int 3; var f_]])).
Proof. split; vm_compute; reflexivity. Qed.

(* the binder theorem is not vacuous: `Point[x, &y]`-like pattern with a literal, a pin and an
   or-pattern is well-formed and binds exactly `a_` *)
Example ex_wf_pattern :
  wf_pat (MTuple (Some A_) [MatchField None (MIdentifier a_); MatchField None (MOr [MLiteral (LInteger 1); MLiteral (LInteger 2)]); MatchField None (MReference y_)]) /\
  binders (MTuple (Some A_) [MatchField None (MIdentifier a_); MatchField None (MOr [MLiteral (LInteger 1); MLiteral (LInteger 2)]); MatchField None (MReference y_)]) = [a_].
Proof. split; [cbn; intuition; intros z [] | reflexivity]. Qed.
