(* LangProofs.v — laws of the reference evaluator of Lang.v (all by computation / induction on
   fuel) and the non-vacuity Examples.  The property file props/C02.v restates the theorems. *)
From Coq Require Import ZArith List Bool Lia.
From Quiver Require Import lang.Lang.
Import ListNotations.
Open Scope Z_scope.

(* ------------------------------------------------------------------------------------------
   Small facts about the outcome monad. *)
Lemma is_nil_true : forall v, is_nil v = true -> v = vnil.
Proof.
  intros v H. destruct v as [| |nm fs| |]; try discriminate.
  destruct nm; try discriminate. destruct fs; try discriminate. reflexivity.
Qed.

Lemma tick_ret : forall A s (a : A) w, tick s (Ret a w) = Ret a (st_add s w).
Proof. reflexivity. Qed.

Lemma bind_ret : forall A B (a : A) w (k : A -> res B), bind (Ret a w) k = tick w (k a).
Proof. reflexivity. Qed.

(* ------------------------------------------------------------------------------------------
   chain = infallible pipe: whatever a term evaluates to (nil included) flows into the next
   term; the only effect of a nil is the event counter. *)
Lemma chain_infallible : forall mods n c e t ts v x e1 w,
  eval_term mods n c e t v = Ret (x, e1) w ->
  eval_terms mods (S n) c e (t :: ts) v =
  tick w (tick (match t, ts with
                | Match _, _ :: _ => if is_nil x then ev_mid_fail else st0
                | _, _ => st0
                end) (eval_terms mods n c e1 ts x)).
Proof.
  intros mods n c e t ts v x e1 w H. simpl. rewrite H. reflexivity.
Qed.

Corollary chain_nil_flows : forall mods n c e t ts v e1 w,
  eval_term mods n c e t v = Ret (vnil, e1) w ->
  exists s1 s2, eval_terms mods (S n) c e (t :: ts) v = tick s1 (tick s2 (eval_terms mods n c e1 ts vnil)).
Proof.
  intros mods n c e t ts v e1 w H. rewrite (chain_infallible _ _ _ _ _ ts _ _ _ _ H). eauto.
Qed.

(* sequence = fallible pipe: a nil step ends the sequence with nil; the remaining steps do not
   matter (they are not evaluated: the equation holds for every `rest`). *)
Lemma sequence_short_circuit : forall mods n c e ch rest v x e1 w,
  rest <> [] ->
  eval_chain mods n c e ch v = Ret (x, e1) w -> is_nil x = true ->
  eval_seq mods (S n) c e (ch :: rest) v = Ret (vnil, e1) (st_add w ev_short).
Proof.
  intros mods n c e ch rest v x e1 w Hne H Hnil. simpl eval_seq. destruct rest as [|r0 rest]; [congruence|].
  rewrite H. cbn [bind fst snd]. rewrite Hnil. reflexivity.
Qed.

Lemma sequence_continues : forall mods n c e ch r0 rest v x e1 w,
  eval_chain mods n c e ch v = Ret (x, e1) w -> is_nil x = false ->
  eval_seq mods (S n) c e (ch :: r0 :: rest) v = tick w (eval_seq mods n c e1 (r0 :: rest) x).
Proof.
  intros mods n c e ch r0 rest v x e1 w H Hnil. simpl eval_seq. rewrite H. cbn [bind fst snd]. rewrite Hnil. reflexivity.
Qed.

(* a branch whose condition is nil is abandoned: the next branch starts from the block's input
   in the scope the block was entered with; the consequence is not evaluated *)
Lemma branch_fallthrough : forall mods n c e cond conseq rest v x e1 w,
  eval_seq mods n c e (seq_chains cond) v = Ret (x, e1) w -> is_nil x = true ->
  eval_branches mods (S n) c e (Branch cond conseq :: rest) v =
  tick w (tick ev_fallthrough (eval_branches mods n c e rest v)).
Proof.
  intros mods n c e cond conseq rest v x e1 w H Hnil. simpl eval_branches. rewrite H.
  cbn [bind fst snd]. rewrite Hnil. reflexivity.
Qed.

Lemma block_without_match_is_nil : forall mods n c e v,
  eval_branches mods (S n) c e [] v = Ret vnil st0.
Proof. reflexivity. Qed.

(* a condition that is not nil commits: the block's value is the consequence's value even when
   that is nil; the remaining branches do not matter *)
Lemma consequence_commits : forall mods n c e cond k rest v x e1 w y e2 w2,
  eval_seq mods n c e (seq_chains cond) v = Ret (x, e1) w -> is_nil x = false ->
  eval_seq mods n c e1 (seq_chains k) v = Ret (y, e2) w2 ->
  exists w', eval_branches mods (S n) c e (Branch cond (Some k) :: rest) v = Ret y w'.
Proof.
  intros mods n c e cond k rest v x e1 w y e2 w2 H Hnil H2. simpl eval_branches. rewrite H.
  cbn [bind fst snd]. rewrite Hnil, H2. cbn. eexists. reflexivity.
Qed.

Lemma condition_without_consequence : forall mods n c e cond rest v x e1 w,
  eval_seq mods n c e (seq_chains cond) v = Ret (x, e1) w -> is_nil x = false ->
  exists w', eval_branches mods (S n) c e (Branch cond None :: rest) v = Ret x w'.
Proof.
  intros mods n c e cond rest v x e1 w H Hnil. simpl eval_branches. rewrite H.
  cbn [bind fst snd]. rewrite Hnil. cbn. eexists. reflexivity.
Qed.

(* blocks, string holes and function bodies are scopes: the bindings after them are the
   bindings before them *)
Lemma block_scoping : forall mods n c e b v r e' w,
  eval_term mods n c e (Block b) v = Ret (r, e') w -> e' = e.
Proof.
  intros mods n c e b v r e' w H. destruct n as [|n]; [discriminate|]. simpl eval_term in H.
  unfold with_env, bind in H. destruct (eval_expr mods n c e b v); try discriminate.
  cbn in H. inversion H. reflexivity.
Qed.

Lemma string_scoping : forall mods n c e segs v r e' w,
  eval_term mods n c e (String segs) v = Ret (r, e') w -> e' = e.
Proof.
  intros mods n c e segs v r e' w H. destruct n as [|n]; [discriminate|]. simpl eval_term in H.
  unfold bind in H. destruct (eval_segments mods n c e segs v []); try discriminate.
  cbn in H. inversion H. reflexivity.
Qed.

(* a function literal captures the whole scope BY VALUE at its definition ... *)
Lemma closure_captures_scope : forall mods n c e tps pt rt body v,
  eval_term mods (S n) c e (Function tps pt rt body) v =
  Ret (VClos (nilary_of (c_tenv c) pt) body e (c_tenv c), e) st0.
Proof. reflexivity. Qed.

(* ... and applying a variable that holds a function consults the caller's scope only to find
   the function: the body runs in the captured scope (`call` has no scope argument), and the
   caller's bindings are unchanged afterwards *)
Lemma closure_captures_by_value : forall mods n c e f clo v,
  lookup f e = Some clo ->
  eval_term mods (S (S n)) c e (Access (mkAccess (Some (Identifier f)) [])) v =
  with_env e (tick st0 (if is_callable clo then call mods n clo (tail_arg clo v) st0 else ret clo)).
Proof.
  intros mods n c e f clo v H. simpl eval_term. rewrite H. cbn [access_all bind ret]. reflexivity.
Qed.

Corollary call_independent_of_caller_scope : forall mods n c1 c2 e1 e2 f clo v,
  lookup f e1 = Some clo -> lookup f e2 = Some clo ->
  bind (eval_term mods (S (S n)) c1 e1 (Access (mkAccess (Some (Identifier f)) [])) v) (fun x => ret (fst x)) =
  bind (eval_term mods (S (S n)) c2 e2 (Access (mkAccess (Some (Identifier f)) [])) v) (fun x => ret (fst x)).
Proof.
  intros mods n c1 c2 e1 e2 f clo v H1 H2.
  rewrite (closure_captures_by_value _ _ c1 _ _ _ _ H1), (closure_captures_by_value _ _ c2 _ _ _ _ H2).
  unfold with_env. destruct (tick st0 _); reflexivity.
Qed.
