(* LangCompileProofs.v — a compiler-correctness slice: for the fragment of lang/LangCompile.v the
   code the mirror emits, run on the VM model vm/Vm.v (shared with C07), SIMULATES the reference
   evaluator: whenever the evaluator yields a value and a scope, the machine started on the
   compiled code with a related flowing value on its stack and related locals reaches the end of
   that code with the related value on the stack (everything below it untouched) and locals
   related to the new scope.  Blocks: the input is stored in a fresh slot, every branch starts
   from it, the slots a branch bound and the block's own slot are released (Reset) — the locals
   after a block are the locals before it.  IEqual takes its verdict from outside in the VM model:
   the run exhibited here supplies the verdict of the evaluator's own equality (`lit_verdict`).
   Calls of non-capturing functions (`f = #T { body }`, `arg f`): the term-level theorem takes the
   simulation of calls at the evaluator's current fuel as a hypothesis (Hcf); Section Program
   discharges it for `call mods n`, every n, by induction on the fuel (`call_simulates`): Call
   pushes the callee's frame (its locals above the caller's), the callee's code runs by the
   term-level theorem at fuel n-1, the exhausted frame is popped and the caller resumes. *)
From Coq Require Import ZArith List Bool Lia.
From Quiver Require Import lang.Lang lang.LangProofs lang.LangCompile lang.LangSimplify lang.LangSimplifyProofs.
From Quiver Require vm.Vm.
Import ListNotations.
Open Scope Z_scope.

Notation mvalue := Quiver.vm.Bytecode.value.
Notation MInt := Quiver.vm.Bytecode.VInt.
Notation MTuple := Quiver.vm.Bytecode.VTuple.
Notation mis_nil := Quiver.vm.Bytecode.is_nil.
Notation mnil := Quiver.vm.Bytecode.vnil.
Notation mok := Quiver.vm.Bytecode.vok.
Notation mprogram := Quiver.vm.Bytecode.program.
Notation p_consts := Quiver.vm.Bytecode.p_consts.
Notation p_funcs := Quiver.vm.Bytecode.p_funcs.
Notation p_tuples := Quiver.vm.Bytecode.p_tuples.
Notation CInt := Quiver.vm.Bytecode.CInt.
Notation mk_func := Quiver.vm.Bytecode.Build_func.
Notation MFun := Quiver.vm.Bytecode.VFun.
Notation state := Quiver.vm.Vm.state.
Notation mk_state := Quiver.vm.Vm.Build_state.
Notation mk_frame := Quiver.vm.Vm.Build_frame.
Notation step := Quiver.vm.Vm.step.
Notation Next := Quiver.vm.Vm.Next.
Notation ext := Quiver.vm.Vm.ext.

Definition code_at (C : list instr) (pc : nat) (c : list instr) : Prop :=
  exists pre post, C = pre ++ c ++ post /\ length pre = pc.

Lemma code_at_head : forall C pc i c, code_at C pc (i :: c) -> nth_error C pc = Some i /\ code_at C (S pc) c.
Proof.
  intros C pc i c (pre & post & -> & <-). split.
  - rewrite nth_error_app2 by lia. rewrite Nat.sub_diag. reflexivity.
  - exists (pre ++ [i]), post. split; [rewrite <- app_assoc; reflexivity | rewrite app_length; cbn; lia].
Qed.
Lemma code_at_app : forall C pc c1 c2,
  code_at C pc (c1 ++ c2) -> code_at C pc c1 /\ code_at C (pc + length c1) c2.
Proof.
  intros C pc c1 c2 (pre & post & -> & <-). split.
  - exists pre, (c2 ++ post). rewrite <- app_assoc. auto.
  - exists (pre ++ c1), post. split; [rewrite <- !app_assoc; reflexivity | rewrite app_length; reflexivity].
Qed.

Lemma F2_length : forall A B (R : A -> B -> Prop) a b, Forall2 R a b -> length a = length b.
Proof. induction 1; cbn; congruence. Qed.

Section Sim.
  Variable P : mprogram.
  Variable fn : nat.
  Variable C : list instr.
  Variable caps : nat.
  Hypothesis Hfn : nth_error (p_funcs P) fn = Some (mk_func C caps).
  Variable pool : list Z.
  Variable shapes : list shape.
  (* the tables of the VM program resolve the indices the mirror emits *)
  Hypothesis Hpool : forall z k, const_index pool z = Some k -> nth_error (p_consts P) k = Some (CInt z).
  Hypothesis Hshapes : forall sh t, shape_index shapes sh = Some t -> nth_error (p_tuples P) t = Some (length (snd sh)).
  Hypothesis Hshapes0 : exists r, shapes = nil_shape :: ok_shape :: r.
  (* functions: which names are function variables, and where the function compiled from a body
     sits in the program's function table (no captures) *)
  Variable isfun : atom -> bool.
  Variable fnum : expression -> option nat.
  Hypothesis Hfuns : forall body k, fnum body = Some k ->
    exists code, function_code pool shapes isfun fnum body = Some code /\
                 nth_error (p_funcs P) k = Some (mk_func code 0).
  Variable base : nat.
  Variable rest : list Quiver.vm.Vm.frame.
  Variable pers : bool.

  (* the machine inside the function `fn`, at `pc` *)
  Definition st (pc : nat) (stk ls : list mvalue) : state :=
    mk_state stk ls (mk_frame fn base caps pc :: rest) pers.

  Inductive star : state -> state -> Prop :=
  | star_refl : forall s, star s s
  | star_step : forall s x s' s'', step P s x = Next s' -> star s' s'' -> star s s''.
  Lemma star_trans : forall a b c, star a b -> star b c -> star a c.
  Proof. intros a b c H. induction H; intros; [assumption|]. econstructor; eauto. Qed.
  Lemma star_one : forall s x s', step P s x = Next s' -> star s s'.
  Proof. intros. econstructor; [eassumption | constructor]. Qed.

  Definition x0 : ext := Quiver.vm.Vm.Build_ext None false.

  Ltac stepper H :=
    unfold st, Quiver.vm.Vm.step; cbn [Quiver.vm.Vm.frames Quiver.vm.Vm.fr_fn Quiver.vm.Vm.fr_pc];
    unfold Quiver.vm.Vm.code_of; rewrite Hfn; cbn [option_map Quiver.vm.Bytecode.f_code]; rewrite H.

  Lemma step_pop : forall pc v stk ls, nth_error C pc = Some IPop ->
    step P (st pc (v :: stk) ls) x0 = Next (st (S pc) stk ls).
  Proof. intros pc v stk ls H. stepper H. reflexivity. Qed.
  Lemma step_const : forall pc z k stk ls, nth_error C pc = Some (IConstant k) -> const_index pool z = Some k ->
    step P (st pc stk ls) x0 = Next (st (S pc) (MInt z :: stk) ls).
  Proof. intros pc z k stk ls H Hk. stepper H. rewrite (Hpool _ _ Hk). reflexivity. Qed.
  Lemma step_dup : forall pc v stk ls, nth_error C pc = Some IDuplicate ->
    step P (st pc (v :: stk) ls) x0 = Next (st (S pc) (v :: v :: stk) ls).
  Proof. intros pc v stk ls H. stepper H. reflexivity. Qed.
  Lemma step_pick : forall pc n v stk ls, nth_error C pc = Some (IPick n) -> nth_error stk n = Some v ->
    step P (st pc stk ls) x0 = Next (st (S pc) (v :: stk) ls).
  Proof. intros pc n v stk ls H Hn. stepper H. cbn [Quiver.vm.Vm.stack]. rewrite Hn. reflexivity. Qed.
  Lemma step_load : forall pc i v stk ls, nth_error C pc = Some (ILoad i) -> nth_error ls (base + i) = Some v ->
    step P (st pc stk ls) x0 = Next (st (S pc) (v :: stk) ls).
  Proof. intros pc i v stk ls H Hn. stepper H. cbn [Quiver.vm.Vm.locals Quiver.vm.Vm.fr_base]. rewrite Hn. reflexivity. Qed.
  Lemma step_store : forall pc v stk ls, nth_error C pc = Some IStore ->
    step P (st pc (v :: stk) ls) x0 = Next (st (S pc) stk (ls ++ [v])).
  Proof. intros pc v stk ls H. stepper H. reflexivity. Qed.
  Lemma step_get : forall pc i t fs v stk ls, nth_error C pc = Some (IGet i) -> nth_error fs i = Some v ->
    step P (st pc (MTuple t fs :: stk) ls) x0 = Next (st (S pc) (v :: stk) ls).
  Proof. intros pc i t fs v stk ls H Hn. stepper H. cbn [Quiver.vm.Vm.stack]. rewrite Hn. reflexivity. Qed.
  Lemma step_not : forall pc v stk ls, nth_error C pc = Some INot ->
    step P (st pc (v :: stk) ls) x0 = Next (st (S pc) ((if mis_nil v then mok else mnil) :: stk) ls).
  Proof. intros pc v stk ls H. stepper H. reflexivity. Qed.
  Lemma step_tuple : forall pc t arity vals stk ls,
    nth_error C pc = Some (ITuple t) -> nth_error (p_tuples P) t = Some arity -> length vals = arity ->
    step P (st pc (rev vals ++ stk) ls) x0 = Next (st (S pc) (MTuple t vals :: stk) ls).
  Proof.
    intros pc t arity vals stk ls H Ht Hl. stepper H. rewrite Ht. cbn [Quiver.vm.Vm.stack].
    assert (Hp : forall vs acc, Quiver.vm.Vm.popn (length vs) (rev vs ++ stk) acc = Some (vs ++ acc, stk)).
    { induction vs as [|a vs IH] using rev_ind; intros acc; [reflexivity|].
      rewrite rev_app_distr, app_length. cbn [rev app length]. rewrite Nat.add_1_r. cbn [Quiver.vm.Vm.popn].
      rewrite IH. rewrite <- app_assoc. reflexivity. }
    subst arity. rewrite Hp, app_nil_r. reflexivity.
  Qed.
  Lemma step_rot2 : forall pc a b stk ls, nth_error C pc = Some (IRotate 2) ->
    step P (st pc (a :: b :: stk) ls) x0 = Next (st (S pc) (b :: a :: stk) ls).
  Proof. intros pc a b stk ls H. stepper H. reflexivity. Qed.
  Lemma step_reset : forall pc idx stk ls, nth_error C pc = Some (IReset idx) -> (base + idx <= length ls)%nat ->
    step P (st pc stk ls) x0 = Next (st (S pc) stk (firstn (base + idx) ls)).
  Proof.
    intros pc idx stk ls H Hl. stepper H. cbn [Quiver.vm.Vm.locals Quiver.vm.Vm.fr_base].
    destruct (length ls <? base + idx)%nat eqn:Hb; [apply Nat.ltb_lt in Hb; lia | reflexivity].
  Qed.
  (* Equal: the verdict is an outside input of the VM model; here it is supplied as `verdict` *)
  Lemma step_equal2 : forall pc a b stk ls verdict, nth_error C pc = Some (IEqual 2) ->
    step P (st pc (a :: b :: stk) ls) (Quiver.vm.Vm.Build_ext None verdict) =
    Next (st (S pc) ((if verdict then mok else mnil) :: stk) ls).
  Proof. intros pc a b stk ls verdict H. stepper H. reflexivity. Qed.
  Lemma step_function : forall pc k code stk ls, nth_error C pc = Some (IFunction k) ->
    nth_error (p_funcs P) k = Some (mk_func code 0) ->
    step P (st pc stk ls) x0 = Next (st (S pc) (MFun k [] :: stk) ls).
  Proof. intros pc k code stk ls H Hk. stepper H. rewrite Hk. reflexivity. Qed.
  Lemma step_jump : forall pc off stk ls, nth_error C pc = Some (IJump off) ->
    (0 <= Z.of_nat pc + off + 1 <= Z.of_nat (length C)) ->
    step P (st pc stk ls) x0 = Next (st (Z.to_nat (Z.of_nat pc + off + 1)) stk ls).
  Proof.
    intros pc off stk ls H Hr. stepper H. unfold Quiver.vm.Vm.jump_target.
    destruct ((Z.of_nat pc + off + 1 <? 0) || (Z.of_nat (length C) <? Z.of_nat pc + off + 1)) eqn:Hb.
    - apply orb_true_iff in Hb. destruct Hb as [Hb | Hb]; apply Z.ltb_lt in Hb; lia.
    - reflexivity.
  Qed.
  Lemma step_jumpif_fall : forall pc off v stk ls, nth_error C pc = Some (IJumpIf off) -> mis_nil v = true ->
    step P (st pc (v :: stk) ls) x0 = Next (st (S pc) stk ls).
  Proof. intros pc off v stk ls H Hn. stepper H. cbn [Quiver.vm.Vm.stack]. rewrite Hn. reflexivity. Qed.
  Lemma step_jumpif_take : forall pc off v stk ls, nth_error C pc = Some (IJumpIf off) -> mis_nil v = false ->
    (0 <= Z.of_nat pc + off + 1 <= Z.of_nat (length C)) ->
    step P (st pc (v :: stk) ls) x0 = Next (st (Z.to_nat (Z.of_nat pc + off + 1)) stk ls).
  Proof.
    intros pc off v stk ls H Hn Hr. stepper H. cbn [Quiver.vm.Vm.stack]. rewrite Hn. unfold Quiver.vm.Vm.jump_target.
    destruct ((Z.of_nat pc + off + 1 <? 0) || (Z.of_nat (length C) <? Z.of_nat pc + off + 1)) eqn:Hb.
    - apply orb_true_iff in Hb. destruct Hb as [Hb | Hb]; apply Z.ltb_lt in Hb; lia.
    - reflexivity.
  Qed.

  (* ---------------------------------------------------------------------------------------
     values and scopes of the two worlds *)
  Inductive vrel : value -> mvalue -> Prop :=
  | vr_int : forall z, vrel (VInt z) (MInt z)
  | vr_tup : forall name fs t mfs,
      shape_index shapes (name, map fst fs) = Some t ->
      Forall2 (fun f m => vrel (snd f) m) fs mfs ->
      vrel (VTuple name fs) (MTuple t mfs).

  Lemma shape_index_nil : shape_index shapes nil_shape = Some Quiver.vm.Bytecode.NIL.
  Proof. destruct Hshapes0 as [r ->]. reflexivity. Qed.
  Lemma shape_index_ok : shape_index shapes ok_shape = Some Quiver.vm.Bytecode.OK.
  Proof. destruct Hshapes0 as [r ->]. reflexivity. Qed.
  Lemma vrel_nil : vrel vnil mnil.
  Proof. apply vr_tup; [apply shape_index_nil | constructor]. Qed.
  Lemma vrel_ok : vrel vok mok.
  Proof. apply vr_tup; [apply shape_index_ok | constructor]. Qed.

  Lemma vrel_is_nil : forall v mv, vrel v mv -> mis_nil mv = is_nil v.
  Proof.
    intros v mv H. inversion H as [z|name fs t mfs Hs Hf]; subst; [reflexivity|].
    destruct Hf as [|[l x] m fs' mfs' Hx Hr]; [|destruct name; reflexivity].
    cbn [map] in Hs. destruct Hshapes0 as [r Hsh]. rewrite Hsh in Hs. unfold shape_index in Hs. cbn [index_from] in Hs.
    destruct name as [a|].
    - cbn in Hs. destruct (shape_eqb (Some a, []) ok_shape).
      + inversion Hs; reflexivity.
      + cbn [is_nil Quiver.vm.Bytecode.is_nil].
        assert (Ht : (2 <= t)%nat).
        { clear - Hs. revert Hs. generalize 2%nat. induction r as [|y r IH]; intros n Hs; [discriminate|].
          cbn [index_from] in Hs. destruct (shape_eqb (Some a, []) y); [inversion Hs; lia | apply IH in Hs; lia]. }
        destruct t as [|[|t]]; try lia. reflexivity.
    - cbn in Hs. inversion Hs. reflexivity.
  Qed.

  Lemma vrel_not_callable : forall v mv, vrel v mv -> is_callable v = false.
  Proof. intros v mv H. inversion H; reflexivity. Qed.

  (* locals of the frame (from its base) against the scope: one slot per binding, oldest first *)
  (* a function variable holds a non-nilary closure; the machine holds the function compiled from
     its body, without captures *)
  Definition funrel (v : value) (mv : mvalue) : Prop :=
    exists body cenv te k, v = VClos false (Some body) cenv te /\ mv = MFun k [] /\ fnum body = Some k.

  Inductive erel : scope -> env -> list mvalue -> Prop :=
  | erel_nil : forall e0, erel [] e0 []     (* function entry: the captured scope e0 is not addressable *)
  | erel_push : forall sc e ls x v mv,
      erel sc e ls -> vrel v mv -> x <> a_star -> isfun x = false -> erel (sc ++ [Some x]) ((x, v) :: e) (ls ++ [mv])
  | erel_pushf : forall sc e ls f v mv,
      erel sc e ls -> funrel v mv -> f <> a_star -> isfun f = true -> erel (sc ++ [Some f]) ((f, v) :: e) (ls ++ [mv])
  | erel_anon : forall sc e ls mv,            (* the slot holding a block's input *)
      erel sc e ls -> erel (sc ++ [None]) e (ls ++ [mv]).

  Lemma erel_length : forall sc e ls, erel sc e ls -> length ls = length sc.
  Proof. induction 1; [reflexivity| | |]; rewrite !app_length; cbn; lia. Qed.
  Lemma erel_param : forall e0 mv, erel [None] e0 [mv].
  Proof. intros e0 mv. exact (erel_anon [] e0 [] mv (erel_nil e0)). Qed.

  Lemma scope_lookup_from_app : forall sc i x y,
    scope_lookup_from i (sc ++ [Some y]) x =
    if x =? y then Some (i + length sc)%nat else scope_lookup_from i sc x.
  Proof.
    induction sc as [|s r IH]; intros i x y; cbn [app scope_lookup_from length].
    - destruct (x =? y); [f_equal; lia | reflexivity].
    - rewrite IH. destruct (x =? y); [f_equal; lia | reflexivity].
  Qed.

  Lemma scope_lookup_from_app_none : forall sc i x,
    scope_lookup_from i (sc ++ [None]) x = scope_lookup_from i sc x.
  Proof.
    induction sc as [|s r IH]; intros i x; cbn [app scope_lookup_from]; [reflexivity|]. rewrite IH. reflexivity.
  Qed.

  Lemma lookup_var_push_other : forall x y (w : value) e, (x =? y) = false -> y <> a_star ->
    lookup_var x ((y, w) :: e) = lookup_var x e.
  Proof.
    intros x y w e Hxy Hy. unfold lookup_var. cbn [lookup]. rewrite Hxy.
    destruct (a_star =? y) eqn:Hs; [apply Z.eqb_eq in Hs; congruence | reflexivity].
  Qed.
  Lemma lookup_var_push_same : forall x y (w : value) e, (x =? y) = true -> lookup_var x ((y, w) :: e) = Some w.
  Proof. intros x y w e Hxy. unfold lookup_var. cbn [lookup]. rewrite Hxy. reflexivity. Qed.

  (* a name the compiler resolves to slot i is, at run time, the newest binding of that name, and
     slot i holds the related machine value *)
  Lemma erel_lookup_gen : forall sc e ls, erel sc e ls -> forall x i v,
    scope_lookup sc x = Some i -> lookup_var x e = Some v ->
    exists mv, nth_error ls i = Some mv /\ (if isfun x then funrel v mv else vrel v mv).
  Proof.
    intros sc e ls H. induction H as [e0|sc e ls y w mv H IH Hv Hy Hf|sc e ls y w mv H IH Hv Hy Hf|sc e ls mv H IH];
      intros x i v Hi Hl.
    - discriminate.
    - unfold scope_lookup in Hi. rewrite scope_lookup_from_app in Hi. destruct (x =? y) eqn:Hxy.
      + rewrite (lookup_var_push_same _ _ _ _ Hxy) in Hl. inversion Hl; subst w. inversion Hi; subst i.
        apply Z.eqb_eq in Hxy. subst y. rewrite Hf. exists mv. split; [|assumption].
        rewrite <- (erel_length _ _ _ H). cbn. rewrite nth_error_app2 by lia. rewrite Nat.sub_diag. reflexivity.
      + rewrite (lookup_var_push_other _ _ _ _ Hxy Hy) in Hl. destruct (IH x i v Hi Hl) as (mv0 & Hn & Hr).
        exists mv0. split; [|assumption]. rewrite nth_error_app1; [assumption|]. apply nth_error_Some. congruence.
    - unfold scope_lookup in Hi. rewrite scope_lookup_from_app in Hi. destruct (x =? y) eqn:Hxy.
      + rewrite (lookup_var_push_same _ _ _ _ Hxy) in Hl. inversion Hl; subst w. inversion Hi; subst i.
        apply Z.eqb_eq in Hxy. subst y. rewrite Hf. exists mv. split; [|assumption].
        rewrite <- (erel_length _ _ _ H). cbn. rewrite nth_error_app2 by lia. rewrite Nat.sub_diag. reflexivity.
      + rewrite (lookup_var_push_other _ _ _ _ Hxy Hy) in Hl. destruct (IH x i v Hi Hl) as (mv0 & Hn & Hr).
        exists mv0. split; [|assumption]. rewrite nth_error_app1; [assumption|]. apply nth_error_Some. congruence.
    - unfold scope_lookup in Hi. rewrite scope_lookup_from_app_none in Hi. destruct (IH x i v Hi Hl) as (mv0 & Hn & Hr).
      exists mv0. split; [|assumption]. rewrite nth_error_app1; [assumption|]. apply nth_error_Some. congruence.
  Qed.

  (* ---------------------------------------------------------------------------------------
     code segments *)
  Lemma code_at_bound : forall pc c, code_at C pc c -> (pc + length c <= length C)%nat.
  Proof. intros pc c (pre & post & -> & <-). rewrite !app_length. lia. Qed.

  Lemma gets_exec : forall path c, gets path = Some c ->
    forall v v' w mv pc stk ls, access_all v path = Ret v' w -> vrel v mv -> code_at C pc c ->
    exists mv', star (st pc (mv :: stk) ls) (st (pc + length c) (mv' :: stk) ls) /\ vrel v' mv'.
  Proof.
    induction path as [|p r IH]; intros c Hc v v' w mv pc stk ls Ha Hv Hat; cbn [gets] in Hc.
    - inversion Hc; subst c. cbn in Ha. inversion Ha; subst. exists mv. rewrite Nat.add_0_r. split; [constructor | assumption].
    - destruct p as [l|i]; [discriminate|]. destruct (i <? 0) eqn:Hi; [discriminate|].
      destruct (gets r) as [cr|] eqn:Hr; [|discriminate]. inversion Hc; subst c. clear Hc.
      cbn [access_all] in Ha. destruct (access_one v (Index i)) as [x wx| | |] eqn:H1; try discriminate.
      cbn [bind] in Ha. destruct (access_all x r) as [y wy| | |] eqn:H2; try discriminate. cbn in Ha. inversion Ha; subst y.
      inversion Hv as [z|name fs t mfs Hs Hf]; subst; [discriminate|]. cbn [access_one] in H1. rewrite Hi in H1.
      destruct (nth_error fs (Z.to_nat i)) as [[lf xf]|] eqn:Hn; [|discriminate]. inversion H1; subst xf.
      assert (Hm : exists mx, nth_error mfs (Z.to_nat i) = Some mx /\ vrel x mx).
      { clear - Hf Hn. revert Hn. generalize (Z.to_nat i). induction Hf as [|f m fs' mfs' Hfm _ IHf]; intros n Hn; destruct n; try discriminate.
        - cbn in Hn. inversion Hn; subst f. exists m. split; [reflexivity | exact Hfm].
        - apply IHf. exact Hn. }
      destruct Hm as (mx & Hmx & Hvx).
      destruct (code_at_head _ _ _ _ Hat) as [Hi0 Hat'].
      destruct (IH cr eq_refl x v' wy mx (S pc) stk ls H2 Hvx Hat') as (mv' & Hst & Hv').
      exists mv'. split; [|assumption]. cbn [length]. replace (pc + S (length cr))%nat with (S pc + length cr)%nat by lia.
      eapply star_step; [eapply step_get; eassumption | exact Hst].
  Qed.

  Lemma binder_exec : forall pc mv stk ls, code_at C pc binder_code ->
    star (st pc (mv :: stk) ls) (st (pc + length binder_code) (mok :: stk) (ls ++ [mv])).
  Proof.
    intros pc mv stk ls Hat. pose proof (code_at_bound _ _ Hat) as Hb. cbn [binder_code length] in Hb.
    unfold binder_code in Hat.
    destruct (code_at_head _ _ _ _ Hat) as [H0 Hat1]. destruct (code_at_head _ _ _ _ Hat1) as [H1 Hat2].
    destruct (code_at_head _ _ _ _ Hat2) as [H2 Hat3]. destruct (code_at_head _ _ _ _ Hat3) as [H3 Hat4].
    destruct (code_at_head _ _ _ _ Hat4) as [H4 Hat5]. destruct (code_at_head _ _ _ _ Hat5) as [H5 Hat6].
    destruct (code_at_head _ _ _ _ Hat6) as [H6 _].
    eapply star_step. { apply step_jump; [exact H0 | lia]. }
    replace (Z.to_nat (Z.of_nat pc + 1 + 1)) with (S (S pc)) by lia.
    eapply star_step. { apply step_dup; exact H2. }
    eapply star_step. { apply step_store; exact H3. }
    eapply star_step. { apply step_pop; exact H4. }
    eapply star_step.
    { apply (step_tuple (S (S (S (S (S pc))))) Quiver.vm.Bytecode.OK 0%nat [] stk); [exact H5 | | reflexivity].
      exact (Hshapes _ _ shape_index_ok). }
    eapply star_step. { apply step_jump; [exact H6 | lia]. }
    cbn [length]. replace (Z.to_nat (Z.of_nat (S (S (S (S (S (S pc)))))) + 4 + 1)) with (pc + 11)%nat by lia.
    constructor.
  Qed.

  (* the inner loops of the mirror, named, and the unfolding equations (by conversion) *)
  Fixpoint fields_go (fs : list tuple_field) (i : nat) (sc : scope) (labels : list (option atom)) {struct fs}
    : option (list instr * scope * list (option atom)) :=
    match fs with
    | [] => Some ([], sc, labels)
    | TupleField l (FChain c) :: r =>
        if (match l with Some _ => existsb (oatom_eqb l) labels | None => false end) then None
        else
        match compile_chain pool shapes isfun fnum sc c with
        | Some (cc, sc1) =>
            match fields_go r (S i) sc1 (labels ++ [l]) with
            | Some (cr, sc2, ls) => Some (IPick i :: cc ++ cr, sc2, ls)
            | None => None
            end
        | None => None
        end
    | TupleField _ (FSpread _) :: _ => None
    end.
  Fixpoint terms_go (ts : list term) (sc : scope) {struct ts} : option (list instr * scope) :=
    match ts with
    | [] => Some ([], sc)
    | t :: r =>
        match compile_term pool shapes isfun fnum sc t with
        | Some (ct, sc1) =>
            match terms_go r sc1 with
            | Some (cr, sc2) => Some (ct ++ cr, sc2)
            | None => None
            end
        | None => None
        end
    end.
  Lemma compile_term_tuple : forall sc name fs,
    compile_term pool shapes isfun fnum sc (Tuple name fs) =
    match name with
    | Inherit => None
    | _ => match fields_go fs O sc [] with
           | Some (cf, sc', labels) =>
               match shape_index shapes (match name with Named a => Some a | _ => None end, labels) with
               | Some t => Some (cf ++ [ITuple t; IRotate 2; IPop], sc')
               | None => None
               end
           | None => None
           end
    end.
  Proof. reflexivity. Qed.
  Fixpoint seq_go (cs : list chain) (sc : scope) {struct cs} : option (list instr * scope) :=
    match cs with
    | [] => None
    | c :: r =>
        match r with
        | [] => compile_chain pool shapes isfun fnum sc c
        | _ :: _ =>
            if ends_in_nil_literal c then None else
            match compile_chain pool shapes isfun fnum sc c with
            | Some (cc, sc1) =>
                match seq_go r sc1 with
                | Some (cr, sc2) => Some (cc ++ [IDuplicate; INot; IJumpIf (Z.of_nat (length cr))] ++ cr, sc2)
                | None => None
                end
            | None => None
            end
        end
    end.
  Section BrGo.
  Variable b : nat.
  Variable scb : scope.
  Fixpoint br_go (bs : list branch) {struct bs} : option (list instr) :=
    match bs with
    | [] => None
    | Branch (Sequence cs) k :: r =>
        match seq_go cs scb with
        | None => None
        | Some (cc, sc1) =>
            let bound := Nat.ltb (S b) (length sc1) in
            match k with
            | None =>
                let body := cc ++ (if bound then [IReset (S b)] else []) in
                match r with
                | [] => Some body
                | _ :: _ =>
                    match br_go r with
                    | Some cr => Some (body ++ [IDuplicate; IJumpIf (Z.of_nat (2 + length cr)); IPop; ILoad b] ++ cr)
                    | None => None
                    end
                end
            | Some (Sequence ks) =>
                if bound then None else
                match seq_go ks scb with
                | None => None
                | Some (ck, sc2) =>
                    let kb := ck ++ (if Nat.ltb (S b) (length sc2) then [IReset (S b)] else []) in
                    match r with
                    | [] => Some (cc ++ [IDuplicate; INot; IJumpIf (Z.of_nat (2 + length kb)); IPop; ILoad b] ++ kb)
                    | _ :: _ =>
                        match br_go r with
                        | Some cr =>
                            Some (cc ++ [IDuplicate; INot; IJumpIf (Z.of_nat (3 + length kb)); IPop; ILoad b] ++ kb
                                     ++ [IJump (Z.of_nat (2 + length cr)); IPop; ILoad b] ++ cr)
                        | None => None
                        end
                    end
                end
            end
        end
    end.
  End BrGo.
  Lemma compile_term_block : forall sc bs,
    compile_term pool shapes isfun fnum sc (Block (Expression bs)) =
    match br_go (length sc) (sc ++ [None]) bs with
    | Some cb => Some (IStore :: ILoad (length sc) :: cb ++ [IReset (length sc)], sc)
    | None => None
    end.
  Proof. reflexivity. Qed.
  Lemma compile_seq_cons2 : forall sc c1 c2 r,
    compile_seq pool shapes isfun fnum sc (c1 :: c2 :: r) =
    if ends_in_nil_literal c1 then None else
    match compile_chain pool shapes isfun fnum sc c1 with
    | Some (cc, sc1) =>
        match compile_seq pool shapes isfun fnum sc1 (c2 :: r) with
        | Some (cr, sc2) => Some (cc ++ [IDuplicate; INot; IJumpIf (Z.of_nat (length cr))] ++ cr, sc2)
        | None => None
        end
    | None => None
    end.
  Proof. reflexivity. Qed.

  Lemma seq_go_cons2 : forall sc c1 c2 r,
    seq_go (c1 :: c2 :: r) sc =
    if ends_in_nil_literal c1 then None else
    match compile_chain pool shapes isfun fnum sc c1 with
    | Some (cc, sc1) =>
        match seq_go (c2 :: r) sc1 with
        | Some (cr, sc2) => Some (cc ++ [IDuplicate; INot; IJumpIf (Z.of_nat (length cr))] ++ cr, sc2)
        | None => None
        end
    | None => None
    end.
  Proof. reflexivity. Qed.
  Lemma seq_with_cons2 : forall ev c1 c2 r e v,
    seq_with ev (c1 :: c2 :: r) e v =
    (do x <- ev c1 e v ;; if is_nil (fst x) then Ret (vnil, snd x) ev_short else seq_with ev (c2 :: r) (snd x) (fst x)).
  Proof. reflexivity. Qed.
  Lemma seq_go_eq : forall cs sc, seq_go cs sc = compile_seq pool shapes isfun fnum sc cs.
  Proof.
    induction cs as [|c r IH]; intros sc; [reflexivity|]. destruct r as [|c2 r']; [reflexivity|].
    rewrite seq_go_cons2, compile_seq_cons2. destruct (ends_in_nil_literal c); [reflexivity|].
    destruct (compile_chain pool shapes isfun fnum sc c) as [[cc sc1]|]; [|reflexivity]. rewrite IH. reflexivity.
  Qed.

  (* is the chain the binding of a function literal, `f = #T { body }`? *)
  Definition fun_binding (c : chain) : option (atom * ty * expression) :=
    match c with
    | Chain (Some (MIdentifier f)) [Function _ (Some pt) _ (Some body)] => Some (f, pt, body)
    | _ => None
    end.
  Lemma compile_chain_fun : forall sc c f pt body, fun_binding c = Some (f, pt, body) ->
    compile_chain pool shapes isfun fnum sc c =
    if isfun f && negb (f =? a_star) && negb (nil_param pt) then
      match fnum body with
      | Some k => Some ([IPop; IFunction k] ++ binder_code, sc ++ [Some f])
      | None => None
      end
    else None.
  Proof.
    intros sc [mp ts] f pt body H. unfold fun_binding in H.
    destruct mp as [[x|l| | | | | | | | |]|]; try discriminate.
    destruct ts as [|t [|t2 ts']]; try discriminate; destruct t; try discriminate;
      destruct parameter_type; try discriminate; destruct body0; try discriminate; inversion H; subst; reflexivity.
  Qed.
  Lemma compile_chain_eq : forall sc mp ts, fun_binding (Chain mp ts) = None ->
    compile_chain pool shapes isfun fnum sc (Chain mp ts) =
    match terms_go ts sc with
    | Some (ct, sc1) =>
        match mp with
        | None => Some (ct, sc1)
        | Some (MIdentifier x) => if (x =? a_star) || isfun x then None else Some (ct ++ binder_code, sc1 ++ [Some x])
        | Some _ => None
        end
    | None => None
    end.
  Proof.
    intros sc mp ts H. unfold fun_binding in H.
    destruct mp as [[x|l| | | | | | | | |]|]; try reflexivity.
    destruct ts as [|t [|t2 ts']]; try reflexivity; destruct t; try reflexivity;
      destruct parameter_type; try reflexivity; destruct body; try reflexivity; discriminate.
  Qed.

  (* ---------------------------------------------------------------------------------------
     scopes only grow during compilation *)
  Lemma fields_go_extends : forall fs,
    Forall (fun f => match f with
                     | TupleField _ (FChain ch) => forall sc c sc', compile_chain pool shapes isfun fnum sc ch = Some (c, sc') -> exists s, sc' = sc ++ s
                     | _ => True
                     end) fs ->
    forall i sc labels c sc' labels', fields_go fs i sc labels = Some (c, sc', labels') -> exists s, sc' = sc ++ s.
  Proof.
    intros fs H. induction H as [|[l [chn|x]] r Hf _ IH]; intros i sc labels c sc' labels' Hg; cbn [fields_go] in Hg.
    - inversion Hg. exists []. rewrite app_nil_r. reflexivity.
    - destruct (match l with Some _ => existsb (oatom_eqb l) labels | None => false end); [discriminate|].
      destruct (compile_chain pool shapes isfun fnum sc chn) as [[cc sc1]|] eqn:Hc; [|discriminate].
      destruct (fields_go r (S i) sc1 (labels ++ [l])) as [[[cr sc2] ls2]|] eqn:Hr; [|discriminate].
      inversion Hg; subst. destruct (Hf _ _ _ Hc) as [s1 ->]. destruct (IH _ _ _ _ _ _ Hr) as [s2 ->].
      exists (s1 ++ s2). rewrite app_assoc. reflexivity.
    - discriminate.
  Qed.
  Lemma terms_go_extends : forall ts,
    Forall (fun t => forall sc c sc', compile_term pool shapes isfun fnum sc t = Some (c, sc') -> exists s, sc' = sc ++ s) ts ->
    forall sc c sc', terms_go ts sc = Some (c, sc') -> exists s, sc' = sc ++ s.
  Proof.
    intros ts H. induction H as [|t r Ht _ IH]; intros sc c sc' Hg; cbn [terms_go] in Hg.
    - inversion Hg. exists []. rewrite app_nil_r. reflexivity.
    - destruct (compile_term pool shapes isfun fnum sc t) as [[ct sc1]|] eqn:Hc; [|discriminate].
      destruct (terms_go r sc1) as [[cr sc2]|] eqn:Hr; [|discriminate]. inversion Hg; subst.
      destruct (Ht _ _ _ Hc) as [s1 ->]. destruct (IH _ _ _ Hr) as [s2 ->]. exists (s1 ++ s2). rewrite app_assoc. reflexivity.
  Qed.
  Lemma compile_extends :
    (forall t sc c sc', compile_term pool shapes isfun fnum sc t = Some (c, sc') -> exists s, sc' = sc ++ s) /\
    (forall ch sc c sc', compile_chain pool shapes isfun fnum sc ch = Some (c, sc') -> exists s, sc' = sc ++ s).
  Proof.
    assert (H : (forall t sc c sc', compile_term pool shapes isfun fnum sc t = Some (c, sc') -> exists s, sc' = sc ++ s) /\
                (forall ch sc c sc', compile_chain pool shapes isfun fnum sc ch = Some (c, sc') -> exists s, sc' = sc ++ s) /\
                (forall s : sequence, True) /\ (forall b : expression, True)).
    { apply (ast_mutind
        (fun t => forall sc c sc', compile_term pool shapes isfun fnum sc t = Some (c, sc') -> exists s, sc' = sc ++ s)
        (fun f => match f with
                  | TupleField _ (FChain ch) => forall sc c sc', compile_chain pool shapes isfun fnum sc ch = Some (c, sc') -> exists s, sc' = sc ++ s
                  | _ => True
                  end)
        (fun _ => True)
        (fun ch => forall sc c sc', compile_chain pool shapes isfun fnum sc ch = Some (c, sc') -> exists s, sc' = sc ++ s)
        (fun _ => True) (fun _ => True) (fun _ => True)); try (intros; exact I); try (intros; discriminate).
      - intros [z|bs] sc c sc' Hc; [|discriminate]. cbn [compile_term] in Hc.
        destruct (const_index pool z); [|discriminate]. inversion Hc. exists []. rewrite app_nil_r. reflexivity.
      - intros name fs Hfs sc c sc' Hc. rewrite compile_term_tuple in Hc.
        destruct name as [|a|]; [| |discriminate];
          (destruct (fields_go fs 0 sc []) as [[[cfs sc1] labels]|] eqn:Hg; [|discriminate];
           match type of Hc with context [shape_index shapes ?sh] => destruct (shape_index shapes sh) end; [|discriminate];
           inversion Hc; subst; eapply fields_go_extends; eassumption).
      - intros p sc c sc' Hc. destruct p as [x|l| | | | | | | | |]; try discriminate; cbn [compile_term] in Hc.
        + destruct ((x =? a_star) || isfun x); [discriminate|]. inversion Hc. eauto.
        + destruct l as [z|]; [|discriminate]. destruct (const_index pool z); [|discriminate]. inversion Hc.
          exists []. rewrite app_nil_r. reflexivity.
      - intros [bs] _ sc c sc' Hc. rewrite compile_term_block in Hc.
        destruct (br_go (length sc) (sc ++ [None]) bs); [|discriminate]. inversion Hc. exists []. rewrite app_nil_r. reflexivity.
      - intros [src path] sc c sc' Hc. cbn [compile_term] in Hc.
        destruct src as [[y| | |p| |b|[y|]|]|]; try discriminate.
        + destruct (isfun y).
          { destruct (scope_lookup sc y); [|discriminate]. destruct path; [|discriminate]. inversion Hc. exists []. rewrite app_nil_r. reflexivity. }
          destruct (scope_lookup sc y); [|discriminate]. destruct (gets path); [|discriminate]. inversion Hc. exists []. rewrite app_nil_r. reflexivity.
        + destruct (gets path); [|discriminate]. inversion Hc. exists []. rewrite app_nil_r. reflexivity.
        + destruct (gets path); [|discriminate]. inversion Hc. exists []. rewrite app_nil_r. reflexivity.
      - intros n chn H. exact H.
      - intros mp ts Hts sc c sc' Hc. destruct (fun_binding (Chain mp ts)) as [[[f pt] body]|] eqn:Hfb.
        { rewrite (compile_chain_fun _ _ _ _ _ Hfb) in Hc. destruct (isfun f && negb (f =? a_star) && negb (nil_param pt)); [|discriminate].
          destruct (fnum body); [|discriminate]. inversion Hc. eauto. }
        rewrite (compile_chain_eq _ _ _ Hfb) in Hc.
        destruct (terms_go ts sc) as [[ct sc1]|] eqn:Hg; [|discriminate].
        destruct (terms_go_extends ts Hts _ _ _ Hg) as [s1 ->].
        destruct mp as [p|]; [|inversion Hc; eauto]. destruct p; try discriminate.
        destruct ((x =? a_star) || isfun x); [discriminate|]. inversion Hc. exists (s1 ++ [Some x]). rewrite app_assoc. reflexivity. }
    tauto.
  Qed.
  Lemma seq_go_extends : forall cs sc c sc', seq_go cs sc = Some (c, sc') -> exists s, sc' = sc ++ s.
  Proof.
    destruct compile_extends as [_ Hch].
    induction cs as [|chn r IH]; intros sc c sc' Hg; [discriminate|]. destruct r as [|c2 r'].
    - exact (Hch _ _ _ _ Hg).
    - rewrite seq_go_cons2 in Hg. destruct (ends_in_nil_literal chn); [discriminate|].
      destruct (compile_chain pool shapes isfun fnum sc chn) as [[cc sc1]|] eqn:Hc; [|discriminate].
      destruct (seq_go (c2 :: r') sc1) as [[cr sc2]|] eqn:Hr; [|discriminate]. inversion Hg; subst.
      destruct (Hch _ _ _ _ Hc) as [s1 ->]. destruct (IH _ _ _ Hr) as [s2 ->]. exists (s1 ++ s2). rewrite app_assoc. reflexivity.
  Qed.

  (* ---------------------------------------------------------------------------------------
     the simulation *)
  Variable tf : nat.
  Variable cf : value -> value -> stats -> res value.
  Variable imf : list atom -> res value.
  (* calling a function value: whenever `cf` (the evaluator's call at the current fuel) returns a
     value, the machine — the function compiled from the closure's body on top of the argument,
     at a Call instruction of this frame — comes back to the next instruction with the related
     result in place of both, locals unchanged.  (Discharged for `call mods n` by induction on n:
     `call_simulates` below.) *)
  Hypothesis Hcf : forall body cenv te k a acc r w ma pc stk locs,
    fnum body = Some k -> cf (VClos false (Some body) cenv te) a acc = Ret r w -> vrel a ma ->
    nth_error C pc = Some ICall ->
    exists mr, star (st pc (MFun k [] :: ma :: stk) locs) (st (S pc) (mr :: stk) locs) /\ vrel r mr.

  (* locals only grow while a term / chain / sequence runs *)
  Definition grows (ls ls' : list mvalue) : Prop := exists extra, ls' = ls ++ extra.
  Lemma grows_refl : forall ls, grows ls ls.
  Proof. intros ls. exists []. rewrite app_nil_r. reflexivity. Qed.
  Lemma grows_trans : forall a b c, grows a b -> grows b c -> grows a c.
  Proof. intros a b c [x ->] [y ->]. exists (x ++ y). rewrite app_assoc. reflexivity. Qed.
  Lemma grows_snoc : forall a b m, grows a b -> grows a (b ++ [m]).
  Proof. intros a b m [x ->]. exists (x ++ [m]). rewrite app_assoc. reflexivity. Qed.

  (* `ev` (a judgement of the evaluator) is simulated by the code `c`, which turns scope sc into sc' *)
  Definition SIM (ev : env -> value -> res (value * env)) (c : list instr) (sc sc' : scope) : Prop :=
    forall e v v' e' w pc stk ls mv L,
      ev e v = Ret (v', e') w -> code_at C pc c -> erel sc e ls -> vrel v mv -> length L = base ->
      exists mv' ls',
        star (st pc (mv :: stk) (L ++ ls)) (st (pc + length c) (mv' :: stk) (L ++ ls')) /\
        vrel v' mv' /\ erel sc' e' ls' /\ grows ls ls'.

  (* sequences: after a short-circuit the later binders do not exist: the final scope is some
     scope between the initial one and the one the compiler computed *)
  Definition SIMseq (ev : env -> value -> res (value * env)) (c : list instr) (sc sc' : scope) : Prop :=
    forall e v v' e' w pc stk ls mv L,
      ev e v = Ret (v', e') w -> code_at C pc c -> erel sc e ls -> vrel v mv -> length L = base ->
      exists mv' ls' sc'',
        star (st pc (mv :: stk) (L ++ ls)) (st (pc + length c) (mv' :: stk) (L ++ ls')) /\
        vrel v' mv' /\ erel sc'' e' ls' /\ grows ls ls' /\
        (exists s1 s2, sc'' = sc ++ s1 /\ sc' = sc'' ++ s2).

  (* blocks: every branch starts from the block's input, kept in slot b *)
  Definition SIMbr (ev : env -> value -> res value) (cb : list instr) (b : nat) (scb : scope) : Prop :=
    forall e v r w pc stk lsb mv L,
      ev e v = Ret r w -> code_at C pc cb -> erel scb e lsb -> vrel v mv -> length L = base ->
      length lsb = S b -> nth_error lsb b = Some mv ->
      exists mr ls',
        star (st pc (mv :: stk) (L ++ lsb)) (st (pc + length cb) (mr :: stk) (L ++ ls')) /\
        vrel r mr /\ grows lsb ls'.

  Lemma add_field_fresh : forall acc l w,
    (match l with Some _ => existsb (oatom_eqb l) (map fst acc) | None => false end) = false ->
    add_field acc l w = acc ++ [(l, w)].
  Proof.
    intros acc [x|] w H; [|reflexivity]. unfold add_field.
    assert (Hr : replace_field x w acc = None).
    { induction acc as [|[[k|] v] r IH]; [reflexivity| |].
      - cbn [map fst existsb oatom_eqb] in H. apply orb_false_iff in H. destruct H as [Hk Hr].
        cbn [replace_field]. rewrite Hk. rewrite (IH Hr). reflexivity.
      - cbn [map fst existsb oatom_eqb] in H. cbn [replace_field]. rewrite (IH H). reflexivity. }
    rewrite Hr. reflexivity.
  Qed.

  Lemma do_match_bare : forall c e x v, do_match tf c e (MIdentifier x) v = Ret (vok, (x, v) :: e) st0.
  Proof. reflexivity. Qed.

  (* the evaluator's own equality decides a literal match; it is the verdict handed to IEqual *)
  Definition lit_verdict (z : Z) (v : value) : bool := match v with VInt y => z =? y | _ => false end.
  Lemma do_match_lit : forall c e z v,
    do_match tf c e (MLiteral (LInteger z)) v =
    if lit_verdict z v then Ret (vok, e) st0 else Ret (vnil, e) ev_match_fail.
  Proof. intros c e z v. unfold do_match. cbn. destruct v; try reflexivity. cbn. destruct (z =? n); reflexivity. Qed.

  Lemma literal_match_exec : forall pc z k mv stk ls (verdict : bool),
    code_at C pc (literal_match_code k) -> const_index pool z = Some k ->
    star (st pc (mv :: stk) ls) (st (pc + length (literal_match_code k)) ((if verdict then mok else mnil) :: stk) ls).
  Proof.
    intros pc z k mv stk ls verdict Hat Hk. pose proof (code_at_bound _ _ Hat) as Hb. cbn [literal_match_code length] in Hb.
    unfold literal_match_code in Hat.
    destruct (code_at_head _ _ _ _ Hat) as [H0 A1]. destruct (code_at_head _ _ _ _ A1) as [H1 A2].
    destruct (code_at_head _ _ _ _ A2) as [H2 A3]. destruct (code_at_head _ _ _ _ A3) as [H3 A4].
    destruct (code_at_head _ _ _ _ A4) as [H4 A5]. destruct (code_at_head _ _ _ _ A5) as [H5 A6].
    destruct (code_at_head _ _ _ _ A6) as [H6 A7]. destruct (code_at_head _ _ _ _ A7) as [H7 A8].
    destruct (code_at_head _ _ _ _ A8) as [H8 A9]. destruct (code_at_head _ _ _ _ A9) as [H9 A10].
    destruct (code_at_head _ _ _ _ A10) as [H10 A11]. destruct (code_at_head _ _ _ _ A11) as [H11 _].
    eapply star_step. { apply step_jump; [exact H0 | lia]. }
    replace (Z.to_nat (Z.of_nat pc + 1 + 1)) with (S (S pc)) by lia.
    eapply star_step. { apply step_dup; exact H2. }
    eapply star_step. { eapply step_const; eassumption. }
    eapply star_step. { apply (step_equal2 _ _ _ _ _ verdict); exact H4. }
    eapply star_step. { apply step_not; exact H5. }
    cbn [length]. destruct verdict.
    - (* equal: Not Ok = nil: fall through, pop the value, push Ok, jump to the end *)
      eapply star_step. { eapply step_jumpif_fall; [exact H6 | reflexivity]. }
      eapply star_step. { apply step_pop; exact H7. }
      eapply star_step.
      { apply (step_tuple (S (S (S (S (S (S (S (S pc)))))))) Quiver.vm.Bytecode.OK 0%nat [] stk); [exact H8 | | reflexivity].
        exact (Hshapes _ _ shape_index_ok). }
      eapply star_step. { apply step_jump; [exact H9 | lia]. }
      replace (Z.to_nat (Z.of_nat (S (S (S (S (S (S (S (S (S pc))))))))) + 2 + 1)) with (pc + 12)%nat by lia. constructor.
    - (* different: jump back to the second instruction, which jumps to the failure path *)
      eapply star_step. { apply step_jumpif_take; [exact H6 | reflexivity | lia]. }
      replace (Z.to_nat (Z.of_nat (S (S (S (S (S (S pc)))))) + -6 + 1)) with (S pc) by lia.
      eapply star_step. { apply step_jump; [exact H1 | lia]. }
      replace (Z.to_nat (Z.of_nat (S pc) + 8 + 1)) with (S (S (S (S (S (S (S (S (S (S pc)))))))))) by lia.
      eapply star_step. { apply step_pop; exact H10. }
      eapply star_step.
      { apply (step_tuple (S (S (S (S (S (S (S (S (S (S (S pc))))))))))) Quiver.vm.Bytecode.NIL 0%nat [] stk); [exact H11 | | reflexivity].
        exact (Hshapes _ _ shape_index_nil). }
      replace (S (S (S (S (S (S (S (S (S (S (S (S pc)))))))))))) with (pc + 12)%nat by lia. constructor.
  Qed.

  Lemma erel_scope_eq : forall sc s e ls extra,
    erel (sc ++ s) e (ls ++ extra) -> length ls = length sc -> length s = length extra.
  Proof.
    intros sc s e ls extra H Hl. apply erel_length in H. rewrite !app_length in H. lia.
  Qed.

  Lemma firstn_app_exact : forall A (a b : list A), firstn (length a) (a ++ b) = a.
  Proof. intros A a b. rewrite firstn_app, Nat.sub_diag, firstn_all. cbn. apply app_nil_r. Qed.

  Lemma star_refl_pc : forall pc1 pc2 stk ls, pc1 = pc2 -> star (st pc1 stk ls) (st pc2 stk ls).
  Proof. intros; subst; constructor. Qed.

  Definition reset_opt (b : nat) (sc1 : scope) : list instr :=
    if Nat.ltb (S b) (length sc1) then [IReset (S b)] else [].

  (* a sequence run inside a block, followed by the reset to the block's slots when it bound
     something: the locals are back to the block's slots afterwards *)
  Lemma seq_reset_exec : forall ev c scb sc1 b,
    SIMseq ev c scb sc1 ->
    forall e v x e1 w1 pc stk lsb mv L (post : list instr),
      ev e v = Ret (x, e1) w1 -> code_at C pc (c ++ reset_opt b sc1 ++ post) ->
      erel scb e lsb -> vrel v mv -> length L = base -> length lsb = S b ->
      exists mx, star (st pc (mv :: stk) (L ++ lsb)) (st (pc + length (c ++ reset_opt b sc1)) (mx :: stk) (L ++ lsb)) /\
                 vrel x mx /\ (Nat.ltb (S b) (length sc1) = false -> erel scb e1 lsb).
  Proof.
    intros ev c scb sc1 b Hsim e v x e1 w1 pc stk lsb mv L post Hev Hat Her Hv HL Hlb.
    destruct (code_at_app _ _ _ _ Hat) as [Hat1 Hat2].
    destruct (Hsim e v x e1 w1 pc stk lsb mv L Hev Hat1 Her Hv HL)
      as (mx & ls1 & sc'' & Hst & Hvx & Her1 & [extra Hgr] & (t1 & t2 & Ht1 & Ht2)).
    exists mx. rewrite app_length. unfold reset_opt in *.
    destruct (Nat.ltb (S b) (length sc1)) eqn:Hbound.
    - split; [|split; [assumption | discriminate]].
      destruct (code_at_app _ _ _ _ Hat2) as [Hat3 _]. destruct (code_at_head _ _ _ _ Hat3) as [Hres _].
      eapply star_trans; [exact Hst|]. eapply star_step.
      { apply step_reset; [exact Hres|]. subst ls1. rewrite !app_length, HL, Hlb. apply Nat.add_le_mono_l, Nat.le_add_r. }
      cbn [length]. replace (pc + (length c + 1))%nat with (S (pc + length c)) by lia.
      subst ls1. rewrite <- HL, <- Hlb, <- app_length, app_assoc, firstn_app_exact. constructor.
    - apply Nat.ltb_ge in Hbound. cbn [length]. rewrite Nat.add_0_r.
      assert (Hex : extra = [] /\ t1 = []).
      { pose proof (erel_length _ _ _ Her) as Hl0. pose proof (erel_length _ _ _ Her1) as Hl1.
        rewrite Ht2, Ht1 in Hbound. rewrite !app_length in Hbound. rewrite Hgr, Ht1 in Hl1. rewrite !app_length in Hl1.
        split; [destruct extra | destruct t1]; try reflexivity; cbn [length] in *; lia. }
      destruct Hex as [-> ->]. rewrite app_nil_r in *. subst ls1 sc''.
      split; [exact Hst | split; [assumption | intros _; exact Her1]].
  Qed.

  Lemma eval_expr_cons : forall ctx cd k r e v,
    eval_expr tf cf imf ctx (Expression (Branch cd k :: r)) e v =
    (do x <- eval_sequence tf cf imf ctx cd e v ;;
     if is_nil (fst x) then tick ev_fallthrough (eval_expr tf cf imf ctx (Expression r) e v)
     else match k with
          | None => ret (fst x)
          | Some ks => tick ev_commit (do y <- eval_sequence tf cf imf ctx ks (snd x) v ;; ret (fst y))
          end).
  Proof. reflexivity. Qed.

  Theorem compile_simulates_all :
    (forall t ctx sc c sc', compile_term pool shapes isfun fnum sc t = Some (c, sc') ->
                            SIM (eval_term tf cf imf ctx t) c sc sc') /\
    (forall ch ctx sc c sc', compile_chain pool shapes isfun fnum sc ch = Some (c, sc') ->
                             SIM (eval_chain tf cf imf ctx ch) c sc sc') /\
    (forall s ctx sc c sc', seq_go (seq_chains s) sc = Some (c, sc') ->
                            SIMseq (eval_sequence tf cf imf ctx s) c sc sc') /\
    (forall ex ctx b scb cb, match ex with Expression bs => br_go b scb bs end = Some cb ->
                             SIMbr (eval_expr tf cf imf ctx ex) cb b scb).
  Proof.
    apply (ast_mutind
        (fun t => forall ctx sc c sc', compile_term pool shapes isfun fnum sc t = Some (c, sc') -> SIM (eval_term tf cf imf ctx t) c sc sc')
        (fun f => match f with
                  | TupleField _ (FChain ch) => forall ctx sc c sc', compile_chain pool shapes isfun fnum sc ch = Some (c, sc') -> SIM (eval_chain tf cf imf ctx ch) c sc sc'
                  | _ => True
                  end)
        (fun _ => True)
        (fun ch => forall ctx sc c sc', compile_chain pool shapes isfun fnum sc ch = Some (c, sc') -> SIM (eval_chain tf cf imf ctx ch) c sc sc')
        (fun s => forall ctx sc c sc', seq_go (seq_chains s) sc = Some (c, sc') -> SIMseq (eval_sequence tf cf imf ctx s) c sc sc')
        (fun br => match br with
                   | Branch cd k =>
                       (forall ctx sc c sc', seq_go (seq_chains cd) sc = Some (c, sc') -> SIMseq (eval_sequence tf cf imf ctx cd) c sc sc') /\
                       Popt (fun s => forall ctx sc c sc', seq_go (seq_chains s) sc = Some (c, sc') -> SIMseq (eval_sequence tf cf imf ctx s) c sc sc') k
                   end)
        (fun ex => forall ctx b scb cb, match ex with Expression bs => br_go b scb bs end = Some cb -> SIMbr (eval_expr tf cf imf ctx ex) cb b scb));
      try (intros; exact I); try (intros; discriminate).
    - (* Literal *)
      intros [z|bs] ctx sc c sc' Hc; [|discriminate]. cbn [compile_term] in Hc.
      destruct (const_index pool z) as [k|] eqn:Hk; [|discriminate]. inversion Hc; subst c sc'. clear Hc.
      intros e v v' e' w pc stk ls mv L Hev Hat Her Hv HL. cbn in Hev. inversion Hev; subst.
      destruct (code_at_head _ _ _ _ Hat) as [H0 Hat1]. destruct (code_at_head _ _ _ _ Hat1) as [H1 _].
      exists (MInt z), ls. split; [|split; [constructor | split; [assumption | apply grows_refl]]].
      eapply star_step; [apply step_pop; exact H0|]. eapply star_step; [eapply step_const; eassumption|].
      cbn [length]. replace (pc + 2)%nat with (S (S pc)) by lia. constructor.
    - (* Tuple *)
      intros name fs Hfs ctx sc c sc' Hc. rewrite compile_term_tuple in Hc.
      assert (Hgo : forall fs, Forall (fun f => match f with
                                                | TupleField _ (FChain ch) => forall ctx sc c sc', compile_chain pool shapes isfun fnum sc ch = Some (c, sc') -> SIM (eval_chain tf cf imf ctx ch) c sc sc'
                                                | _ => True
                                                end) fs ->
                forall i sc labels cfs sc' labels', fields_go fs i sc labels = Some (cfs, sc', labels') ->
                forall e v acc inh r inh' e' w pc stk ls mvals mv L,
                  fields_with (eval_chain tf cf imf ctx) fs e v acc inh = Ret (r, inh', e') w ->
                  code_at C pc cfs -> erel sc e ls -> vrel v mv -> length L = base ->
                  length mvals = i -> Forall2 (fun f m => vrel (snd f) m) acc mvals -> map fst acc = labels ->
                  exists mvals' ls',
                    star (st pc (rev mvals ++ mv :: stk) (L ++ ls)) (st (pc + length cfs) (rev mvals' ++ mv :: stk) (L ++ ls')) /\
                    Forall2 (fun f m => vrel (snd f) m) r mvals' /\ map fst r = labels' /\ erel sc' e' ls' /\ grows ls ls').
      { clear Hc. intros fs0 HF. induction HF as [|[l [chn|src]] r0 Hf _ IH];
          intros i sc0 labels cfs sc0' labels' Hg e v acc inh r inh' e' w pc stk ls mvals mv L Hev Hat Her Hv HL Hlen Hacc Hlab.
        - cbn in Hg. inversion Hg; subst. cbn in Hev. inversion Hev; subst.
          exists mvals, ls. rewrite Nat.add_0_r. repeat split; try assumption; [constructor | apply grows_refl].
        - cbn [fields_go] in Hg.
          destruct (match l with Some _ => existsb (oatom_eqb l) labels | None => false end) eqn:Hfresh; [discriminate|].
          destruct (compile_chain pool shapes isfun fnum sc0 chn) as [[cc sc1]|] eqn:Hcc; [|discriminate].
          destruct (fields_go r0 (S i) sc1 (labels ++ [l])) as [[[cr sc2] ls2]|] eqn:Hgr; [|discriminate].
          inversion Hg; subst cfs sc0' labels'. clear Hg.
          cbn [fields_with] in Hev.
          destruct (eval_chain tf cf imf ctx chn e v) as [[x e1] w1| | |] eqn:Hch; try discriminate. cbn [bind fst snd] in Hev.
          destruct (fields_with (eval_chain tf cf imf ctx) r0 e1 v (add_field acc l x) inh) as [[[r1 inh1] e2] w2| | |] eqn:Hr; try discriminate.
          cbn in Hev. inversion Hev; subst r1 inh1 e2. clear Hev.
          destruct (code_at_head _ _ _ _ Hat) as [Hpick Hat1]. destruct (code_at_app _ _ _ _ Hat1) as [Hatc Hatr].
          destruct (Hf ctx sc0 cc sc1 Hcc e v x e1 w1 (S pc) (rev mvals ++ mv :: stk) ls mv L Hch Hatc Her Hv HL) as (mx & ls1 & Hst1 & Hvx & Her1 & Hg1).
          rewrite <- Hlab in Hfresh. rewrite (add_field_fresh acc l x Hfresh) in Hr.
          destruct (IH (S i) sc1 (labels ++ [l]) cr sc2 ls2 Hgr e1 v (acc ++ [(l, x)]) inh r inh' e' w2 (S pc + length cc)%nat stk ls1 (mvals ++ [mx]) mv L Hr Hatr Her1 Hv HL)
            as (mvals' & ls' & Hst2 & Hr' & Hlab' & Her' & Hg2).
          { rewrite app_length. cbn. lia. }
          { apply Forall2_app; [assumption | constructor; [exact Hvx | constructor]]. }
          { rewrite map_app, Hlab. reflexivity. }
          exists mvals', ls'. repeat split; try assumption; [|eapply grows_trans; eassumption].
          eapply star_step.
          { apply (step_pick pc i mv); [exact Hpick|]. rewrite nth_error_app2 by (rewrite rev_length; lia).
            rewrite rev_length, Hlen, Nat.sub_diag. reflexivity. }
          eapply star_trans; [exact Hst1|].
          cbn [length]. rewrite app_length.
          replace (pc + S (length cc + length cr))%nat with (S pc + length cc + length cr)%nat by lia.
          rewrite rev_app_distr in Hst2. cbn [rev app] in Hst2. exact Hst2.
        - cbn [fields_go] in Hg. discriminate. }
      assert (Hfin : forall nm, name <> Inherit -> (match name with Named a => Some a | _ => None end) = nm ->
                forall cfs sc1 labels t, fields_go fs 0%nat sc [] = Some (cfs, sc1, labels) -> shape_index shapes (nm, labels) = Some t ->
                SIM (eval_term tf cf imf ctx (Tuple name fs)) (cfs ++ [ITuple t; IRotate 2; IPop]) sc sc1).
      { intros nm Hni Hnm cfs sc1 labels t Hg Ht e v v' e' w pc stk ls mv L Hev Hat Her Hv HL. rewrite eval_term_tuple in Hev.
        destruct (fields_with (eval_chain tf cf imf ctx) fs e v [] None) as [[[r inh] e1] w1| | |] eqn:Hf; try discriminate.
        assert (Hval : v' = VTuple nm r /\ e' = e1).
        { destruct name as [|a|]; [| |congruence]; cbn in Hev, Hnm; inversion Hev; subst; auto. }
        destruct Hval as [-> ->]. clear Hev.
        destruct (code_at_app _ _ _ _ Hat) as [Hatf Hatt].
        destruct (Hgo fs Hfs 0%nat sc [] cfs sc1 labels Hg e v [] None r inh e1 w1 pc stk ls [] mv L Hf Hatf Her Hv HL eq_refl (Forall2_nil _) eq_refl)
          as (mvals & ls' & Hst & Hr & Hlab & Her' & Hgr).
        destruct (code_at_head _ _ _ _ Hatt) as [Ht0 Hatt1]. destruct (code_at_head _ _ _ _ Hatt1) as [Ht1 Hatt2].
        destruct (code_at_head _ _ _ _ Hatt2) as [Ht2 _].
        exists (MTuple t mvals), ls'. split; [|split; [|split; assumption]].
        * eapply star_trans; [exact Hst|].
          eapply star_step.
          { apply (step_tuple (pc + length cfs) t (length labels) mvals (mv :: stk)); [exact Ht0 | exact (Hshapes _ _ Ht) |].
            rewrite <- Hlab, map_length. symmetry. eapply F2_length. exact Hr. }
          eapply star_step; [apply step_rot2; exact Ht1|]. eapply star_step; [apply step_pop; exact Ht2|].
          rewrite app_length. cbn [length]. replace (pc + (length cfs + 3))%nat with (S (S (S (pc + length cfs)))) by lia. constructor.
        * apply vr_tup; [rewrite Hlab; exact Ht | exact Hr]. }
      destruct name as [|a|]; [| |discriminate];
        (destruct (fields_go fs 0%nat sc []) as [[[cfs sc1] labels]|] eqn:Hg; [|discriminate];
         match type of Hc with context [shape_index shapes ?sh] => destruct (shape_index shapes sh) as [t|] eqn:Ht end; [|discriminate];
         inversion Hc; subst c sc'; eapply Hfin; try eassumption; try reflexivity; discriminate).
    - (* Match *)
      intros p ctx sc c sc' Hc. destruct p as [x|l| | | | | | | | |]; try discriminate; cbn [compile_term] in Hc.
      + destruct (x =? a_star) eqn:Hx; [discriminate|]. destruct (isfun x) eqn:Hfx; [discriminate|]. cbn [orb] in Hc.
        inversion Hc; subst c sc'. clear Hc.
        intros e v v' e' w pc stk ls mv L Hev Hat Her Hv HL. rewrite eval_term_match, do_match_bare in Hev.
        inversion Hev; subst. exists mok, (ls ++ [mv]). split; [|split; [|split]].
        * rewrite app_assoc. apply binder_exec. exact Hat.
        * apply vrel_ok.
        * apply erel_push; [assumption | assumption | intros ->; cbn in Hx; discriminate | exact Hfx].
        * apply grows_snoc, grows_refl.
      + destruct l as [z|]; [|discriminate]. destruct (const_index pool z) as [k|] eqn:Hk; [|discriminate].
        inversion Hc; subst c sc'. clear Hc.
        intros e v v' e' w pc stk ls mv L Hev Hat Her Hv HL. rewrite eval_term_match, do_match_lit in Hev.
        exists (if lit_verdict z v then mok else mnil), ls. split; [|split; [|split; [|apply grows_refl]]].
        * eapply literal_match_exec; eassumption.
        * destruct (lit_verdict z v); inversion Hev; subst; [apply vrel_ok | apply vrel_nil].
        * destruct (lit_verdict z v); inversion Hev; subst; assumption.
    - (* Block *)
      intros [bs] Hbs ctx sc c sc' Hc. rewrite compile_term_block in Hc.
      destruct (br_go (length sc) (sc ++ [None]) bs) as [cb|] eqn:Hb; [|discriminate]. inversion Hc; subst c sc'. clear Hc.
      intros e v v' e' w pc stk ls mv L Hev Hat Her Hv HL. rewrite eval_term_block in Hev.
      unfold with_env in Hev. destruct (eval_expr tf cf imf ctx (Expression bs) e v) as [r wr| | |] eqn:Hex; try discriminate.
      cbn in Hev. inversion Hev; subst v' e'. clear Hev.
      pose proof (erel_length _ _ _ Her) as Hlen.
      destruct (code_at_head _ _ _ _ Hat) as [H0 A1]. destruct (code_at_head _ _ _ _ A1) as [H1 A2].
      destruct (code_at_app _ _ _ _ A2) as [Hatb A3]. destruct (code_at_head _ _ _ _ A3) as [Hres _].
      destruct (Hbs ctx (length sc) (sc ++ [None]) cb Hb e v r wr (S (S pc)) stk (ls ++ [mv]) mv L Hex Hatb
                  (erel_anon _ _ _ mv Her) Hv HL) as (mr & ls' & Hst & Hvr & [extra Hgr]).
      { rewrite app_length. cbn. lia. }
      { rewrite nth_error_app2 by lia. rewrite Hlen, Nat.sub_diag. reflexivity. }
      exists mr, ls. split; [|split; [assumption | split; [assumption | apply grows_refl]]].
      eapply star_step. { apply step_store; exact H0. }
      eapply star_step.
      { apply (step_load (S pc) (length sc) mv); [exact H1|]. rewrite <- app_assoc. rewrite nth_error_app2 by lia.
        rewrite HL, Nat.add_comm, Nat.add_sub. rewrite nth_error_app2 by lia. rewrite Hlen, Nat.sub_diag. reflexivity. }
      rewrite <- app_assoc. eapply star_trans; [exact Hst|].
      eapply star_step.
      { apply step_reset; [exact Hres|]. subst ls'. rewrite !app_length. lia. }
      cbn [length]. rewrite app_length. cbn [length].
      replace (pc + S (S (length cb + 1)))%nat with (S (S (S pc) + length cb))%nat by lia.
      subst ls'. rewrite <- HL, <- Hlen, <- app_length. rewrite <- !app_assoc.
      rewrite (app_assoc L ls). rewrite firstn_app_exact. constructor.
    - (* Access *)
      intros [src path] ctx sc c sc' Hc. cbn [compile_term] in Hc.
      destruct src as [[y| | |p| |b|[y|]|]|]; try discriminate.
      + destruct (isfun y) eqn:Hfy.
        { (* a function variable: load it and call it with the flowing value *)
          destruct (scope_lookup sc y) as [i|] eqn:Hi; [|discriminate]. destruct path; [|discriminate].
          inversion Hc; subst c sc'. clear Hc.
          intros e v v' e' w pc stk ls mv L Hev Hat Her Hv HL. cbn [Lang.eval_term] in Hev.
          destruct (lookup_var y e) as [bv|] eqn:Hl; [|discriminate].
          destruct (erel_lookup_gen _ _ _ Her _ _ _ Hi Hl) as (mb & Hn & Hfr). rewrite Hfy in Hfr.
          destruct Hfr as (body & cenv & te & k & -> & -> & Hk).
          unfold with_env in Hev. cbn [access_all bind ret] in Hev. unfold apply_value in Hev.
          cbn [is_callable tail_arg is_nilary] in Hev.
          destruct (cf (VClos false (Some body) cenv te) v st0) as [r wr| | |] eqn:Hcall; try discriminate.
          cbn in Hev. inversion Hev; subst v' e'. clear Hev.
          destruct (code_at_head _ _ _ _ Hat) as [H0 Hat1]. destruct (code_at_head _ _ _ _ Hat1) as [H1 _].
          destruct (Hcf body cenv te k v st0 r wr mv (S pc) stk (L ++ ls) Hk Hcall Hv H1) as (mr & Hst & Hvr).
          exists mr, ls. split; [|split; [assumption | split; [assumption | apply grows_refl]]].
          eapply star_step.
          { apply (step_load pc i (MFun k [])); [exact H0|]. rewrite nth_error_app2 by lia. rewrite HL, Nat.add_comm, Nat.add_sub. exact Hn. }
          cbn [length]. replace (pc + 2)%nat with (S (S pc)) by lia. exact Hst. }
        destruct (scope_lookup sc y) as [i|] eqn:Hi; [|discriminate].
        destruct (gets path) as [cg|] eqn:Hg; [|discriminate]. inversion Hc; subst c sc'. clear Hc.
        intros e v v' e' w pc stk ls mv L Hev Hat Her Hv HL. cbn [Lang.eval_term] in Hev.
        destruct (lookup_var y e) as [bv|] eqn:Hl; [|discriminate].
        destruct (erel_lookup_gen _ _ _ Her _ _ _ Hi Hl) as (mb & Hn & Hvb). rewrite Hfy in Hvb.
        unfold with_env in Hev. destruct (access_all bv path) as [x wx| | |] eqn:Ha; try discriminate.
        destruct (code_at_head _ _ _ _ Hat) as [H0 Hat1]. destruct (code_at_head _ _ _ _ Hat1) as [H1 Hat2].
        destruct (gets_exec path cg Hg bv x wx mb (S (S pc)) stk (L ++ ls) Ha Hvb Hat2) as (mx & Hst & Hvx).
        cbn [bind] in Hev. unfold apply_value in Hev. rewrite (vrel_not_callable _ _ Hvx) in Hev. cbn in Hev.
        inversion Hev; subst v' e'. exists mx, ls. split; [|split; [assumption | split; [assumption | apply grows_refl]]].
        eapply star_step; [apply step_pop; exact H0|].
        eapply star_step. { apply (step_load (S pc) i mb); [exact H1|]. rewrite nth_error_app2 by lia. rewrite HL, Nat.add_comm, Nat.add_sub. exact Hn. }
        cbn [length]. replace (pc + S (S (length cg)))%nat with (S (S pc) + length cg)%nat by lia. exact Hst.
      + destruct (gets path) as [cg|] eqn:Hg; [|discriminate]. inversion Hc; subst c sc'. clear Hc.
        intros e v v' e' w pc stk ls mv L Hev Hat Her Hv HL. cbn [Lang.eval_term] in Hev.
        unfold with_env in Hev. destruct (access_all v path) as [x wx| | |] eqn:Ha; try discriminate.
        cbn in Hev. inversion Hev; subst v' e'.
        destruct (gets_exec path cg Hg v x wx mv pc stk (L ++ ls) Ha Hv Hat) as (mx & Hst & Hvx).
        exists mx, ls. split; [exact Hst | split; [assumption | split; [assumption | apply grows_refl]]].
      + destruct (gets path) as [cg|] eqn:Hg; [|discriminate]. inversion Hc; subst c sc'. clear Hc.
        intros e v v' e' w pc stk ls mv L Hev Hat Her Hv HL. cbn [Lang.eval_term] in Hev.
        unfold with_env in Hev. destruct (access_all v path) as [x wx| | |] eqn:Ha; try discriminate.
        cbn in Hev. inversion Hev; subst v' e'.
        destruct (gets_exec path cg Hg v x wx mv pc stk (L ++ ls) Ha Hv Hat) as (mx & Hst & Hvx).
        exists mx, ls. split; [exact Hst | split; [assumption | split; [assumption | apply grows_refl]]].
    - (* field: chain *) intros n chn Hch. exact Hch.
    - (* Chain *)
      intros mp ts Hts ctx sc c sc' Hc. destruct (fun_binding (Chain mp ts)) as [[[f pt] body]|] eqn:Hfb.
      { (* `f = #T { body }` *)
        rewrite (compile_chain_fun _ _ _ _ _ Hfb) in Hc.
        destruct (isfun f) eqn:Hff; [|discriminate]. destruct (f =? a_star) eqn:Hfs; [discriminate|].
        destruct (nil_param pt) eqn:Hnp; [discriminate|]. cbn [andb negb] in Hc.
        destruct (fnum body) as [k|] eqn:Hk; [|discriminate]. inversion Hc; subst c sc'. clear Hc.
        unfold fun_binding in Hfb. destruct mp as [[x|l| | | | | | | | |]|]; try discriminate.
        destruct ts as [|t [|t2 ts']]; try discriminate; destruct t; try discriminate;
          destruct parameter_type; try discriminate; destruct body0; try discriminate; inversion Hfb; subst x t e.
        assert (Hnl : nilary_of (c_tenv ctx) (Some pt) = false).
        { unfold nilary_of. destruct pt; try reflexivity; try discriminate.
          cbn [is_nil_ty]. destruct name; [reflexivity|]. destruct is_partial; [reflexivity|]. destruct fields; [discriminate | reflexivity]. }
        intros e v v' e' w pc stk ls mv L Hev Hat Her Hv HL. rewrite eval_chain_some in Hev.
        cbn [terms_with Lang.eval_term bind ret fst snd tick] in Hev. rewrite Hnl, do_match_bare in Hev. cbn in Hev.
        inversion Hev; subst v' e'. clear Hev.
        destruct (code_at_head _ _ _ _ Hat) as [H0 Hat1]. destruct (code_at_head _ _ _ _ Hat1) as [H1 Hat2].
        destruct (Hfuns _ _ Hk) as (fcode & _ & Hfk).
        exists mok, (ls ++ [MFun k []]). split; [|split; [|split]].
        - eapply star_step; [apply step_pop; exact H0|].
          eapply star_step; [apply (step_function (S pc) k fcode); [exact H1 | exact Hfk]|].
          cbn [app length]. replace (pc + S (S (length binder_code)))%nat with (S (S pc) + length binder_code)%nat by lia.
          rewrite app_assoc. apply binder_exec. exact Hat2.
        - apply vrel_ok.
        - apply erel_pushf; [assumption | | intros ->; cbn in Hfs; discriminate | exact Hff].
          exists body, e, (c_tenv ctx), k. auto.
        - apply grows_snoc, grows_refl. }
      rewrite (compile_chain_eq _ _ _ Hfb) in Hc.
      assert (Hgo : forall ts0, Forall (fun t => forall ctx sc c sc', compile_term pool shapes isfun fnum sc t = Some (c, sc') -> SIM (eval_term tf cf imf ctx t) c sc sc') ts0 ->
                forall sc0 c0 sc0', terms_go ts0 sc0 = Some (c0, sc0') ->
                SIM (terms_with (eval_term tf cf imf ctx) ts0) c0 sc0 sc0').
      { clear Hc. intros ts0 HF. induction HF as [|t r Ht _ IH]; intros sc0 c0 sc0' Hg e v v' e' w pc stk ls mv L Hev Hat Her Hv HL.
        - cbn in Hg. inversion Hg; subst. cbn in Hev. inversion Hev; subst. exists mv, ls. rewrite Nat.add_0_r.
          split; [constructor | split; [assumption | split; [assumption | apply grows_refl]]].
        - cbn [terms_go] in Hg. destruct (compile_term pool shapes isfun fnum sc0 t) as [[ct sc1]|] eqn:Hct; [|discriminate].
          destruct (terms_go r sc1) as [[cr sc2]|] eqn:Hgr; [|discriminate]. inversion Hg; subst c0 sc0'. clear Hg.
          cbn [terms_with] in Hev. destruct (eval_term tf cf imf ctx t e v) as [[x e1] w1| | |] eqn:Het; try discriminate.
          cbn [bind fst snd] in Hev.
          destruct (terms_with (eval_term tf cf imf ctx) r e1 x) as [[y e2] w2| | |] eqn:Her2; try discriminate.
          cbn in Hev. inversion Hev; subst y e2. clear Hev.
          destruct (code_at_app _ _ _ _ Hat) as [Hat1 Hat2].
          destruct (Ht ctx sc0 ct sc1 Hct e v x e1 w1 pc stk ls mv L Het Hat1 Her Hv HL) as (mx & ls1 & Hst1 & Hvx & Her1 & Hg1).
          destruct (IH sc1 cr sc2 Hgr e1 x v' e' w2 (pc + length ct)%nat stk ls1 mx L Her2 Hat2 Her1 Hvx HL) as (my & ls2 & Hst2 & Hvy & Her2' & Hg2).
          exists my, ls2. split; [|split; [assumption | split; [assumption | eapply grows_trans; eassumption]]]. rewrite app_length, Nat.add_assoc.
          eapply star_trans; eassumption. }
      destruct (terms_go ts sc) as [[ct sc1]|] eqn:Hg; [|discriminate].
      destruct mp as [p|].
      + destruct p; try discriminate. destruct (x =? a_star) eqn:Hx; [discriminate|]. destruct (isfun x) eqn:Hfx; [discriminate|].
        cbn [orb] in Hc. inversion Hc; subst c sc'. clear Hc.
        intros e v v' e' w pc stk ls mv L Hev Hat Her Hv HL. rewrite eval_chain_some in Hev.
        destruct (terms_with (eval_term tf cf imf ctx) ts e v) as [[y e1] w1| | |] eqn:Hts'; try discriminate.
        cbn [bind fst snd] in Hev. rewrite do_match_bare in Hev. cbn in Hev. inversion Hev; subst v' e'. clear Hev.
        destruct (code_at_app _ _ _ _ Hat) as [Hat1 Hat2].
        destruct (Hgo ts Hts sc ct sc1 Hg e v y e1 w1 pc stk ls mv L Hts' Hat1 Her Hv HL) as (my & ls1 & Hst1 & Hvy & Her1 & Hg1).
        exists mok, (ls1 ++ [my]). split; [|split; [|split]].
        * eapply star_trans; [exact Hst1|]. rewrite app_length, Nat.add_assoc, app_assoc. apply binder_exec. exact Hat2.
        * apply vrel_ok.
        * apply erel_push; [assumption | assumption | intros ->; cbn in Hx; discriminate | exact Hfx].
        * apply grows_snoc. exact Hg1.
      + inversion Hc; subst c sc'. clear Hc.
        intros e v v' e' w pc stk ls mv L Hev Hat Her Hv HL. rewrite eval_chain_none in Hev.
        exact (Hgo ts Hts sc ct sc1 Hg e v v' e' w pc stk ls mv L Hev Hat Her Hv HL).
    - (* Sequence *)
      intros cs Hcs ctx. cbn [seq_chains].
      induction Hcs as [|chn r Hchn Hr IH]; intros sc c sc' Hc; [discriminate|].
      destruct r as [|c2 r'].
      + cbn [seq_go] in Hc. intros e v v' e' w pc stk ls mv L Hev Hat Her Hv HL. rewrite eval_sequence_eq in Hev. cbn [seq_with] in Hev.
        destruct (eval_chain tf cf imf ctx chn e v) as [[x e1] w1| | |] eqn:Hch; try discriminate. cbn in Hev. inversion Hev; subst v' e'.
        destruct (Hchn ctx sc c sc' Hc e v x e1 w1 pc stk ls mv L Hch Hat Her Hv HL) as (mx & ls1 & Hst & Hvx & Her1 & Hg1).
        destruct compile_extends as [_ Hext]. destruct (Hext _ _ _ _ Hc) as [s1 ->].
        exists mx, ls1, (sc ++ s1). repeat split; try assumption. exists s1, []. rewrite app_nil_r. auto.
      + rewrite seq_go_cons2 in Hc. destruct (ends_in_nil_literal chn); [discriminate|].
        destruct (compile_chain pool shapes isfun fnum sc chn) as [[cc sc1]|] eqn:Hcc; [|discriminate].
        destruct (seq_go (c2 :: r') sc1) as [[cr sc2]|] eqn:Hcr; [|discriminate].
        inversion Hc; subst c sc'. clear Hc.
        intros e v v' e' w pc stk ls mv L Hev Hat Her Hv HL. rewrite eval_sequence_eq, seq_with_cons2 in Hev.
        destruct (eval_chain tf cf imf ctx chn e v) as [[x e1] w1| | |] eqn:Hch; try discriminate. cbn [bind fst snd] in Hev.
        destruct (code_at_app _ _ _ _ Hat) as [Hat1 Hat2].
        destruct (Hchn ctx sc cc sc1 Hcc e v x e1 w1 pc stk ls mv L Hch Hat1 Her Hv HL) as (mx & ls1 & Hst1 & Hvx & Her1 & Hg1).
        destruct compile_extends as [_ Hext]. destruct (Hext _ _ _ _ Hcc) as [s1 Hs1].
        destruct (seq_go_extends _ _ _ _ Hcr) as [s2 Hs2].
        pose proof (code_at_bound _ _ Hat) as Hbound. rewrite !app_length in Hbound. cbn [length] in Hbound.
        destruct (code_at_head _ _ _ _ Hat2) as [Hd Hat3]. destruct (code_at_head _ _ _ _ Hat3) as [Hn Hat4].
        destruct (code_at_head _ _ _ _ Hat4) as [Hj Hat5].
        assert (Hprefix : star (st pc (mv :: stk) (L ++ ls))
                               (st (S (S (pc + length cc))) ((if mis_nil mx then mok else mnil) :: mx :: stk) (L ++ ls1))).
        { eapply star_trans; [exact Hst1|]. eapply star_step; [apply step_dup; exact Hd|].
          eapply star_step; [apply step_not; exact Hn|]. constructor. }
        rewrite (vrel_is_nil _ _ Hvx) in Hprefix.
        destruct (is_nil x) eqn:Hnil.
        * cbn in Hev. inversion Hev; subst v' e'. apply is_nil_true in Hnil. subst x.
          exists mx, ls1, sc1. split; [|split; [assumption | split; [assumption | split; [assumption|]]]].
          -- eapply star_trans; [exact Hprefix|]. eapply star_step.
             { apply step_jumpif_take; [exact Hj | reflexivity | lia]. }
             rewrite !app_length. cbn [length].
             replace (Z.to_nat (Z.of_nat (S (S (pc + length cc))) + Z.of_nat (length cr) + 1)) with (pc + (length cc + S (S (S (length cr)))))%nat by lia.
             constructor.
          -- exists s1, s2. subst. auto.
        * destruct (seq_with (eval_chain tf cf imf ctx) (c2 :: r') e1 x) as [[y e2] w2| | |] eqn:Hr2; try discriminate.
          cbn in Hev. inversion Hev; subst y e2. clear Hev.
          rewrite <- eval_sequence_eq in Hr2.
          destruct (IH sc1 cr sc2 Hcr e1 x v' e' w2 (S (S (S (pc + length cc)))) stk ls1 mx L Hr2 Hat5 Her1 Hvx HL)
            as (my & ls2 & sc'' & Hst2 & Hvy & Her2 & Hg2 & (t1 & t2 & Ht1 & Ht2)).
          exists my, ls2, sc''. split; [|split; [assumption | split; [assumption | split; [eapply grows_trans; eassumption|]]]].
          -- eapply star_trans; [exact Hprefix|]. eapply star_step.
             { eapply step_jumpif_fall; [exact Hj | reflexivity]. }
             rewrite !app_length. cbn [length].
             replace (pc + (length cc + S (S (S (length cr)))))%nat with (S (S (S (pc + length cc))) + length cr)%nat by lia.
             exact Hst2.
          -- exists (s1 ++ t1), t2. split; [rewrite Ht1, Hs1, app_assoc; reflexivity | exact Ht2].
    - (* Branch *) intros cd k Hc Hk. split; [exact Hc | exact Hk].
    - (* Expression: the branches of a block *)
      intros bs Hbs ctx b scb.
      induction Hbs as [|[[cs] k] r [Hcd Hk] Hr IH]; intros cb Hb; [discriminate|].
      cbn [br_go] in Hb. destruct (seq_go cs scb) as [[cc sc1]|] eqn:Hcc; [|discriminate].
      fold (reset_opt b sc1) in Hb.
      pose proof (Hcd ctx scb cc sc1 Hcc) as Hsimc. cbn [seq_chains] in *.
      intros e v res w pc stk lsb mv L Hev Hat Her Hv HL Hlb Hnth. rewrite eval_expr_cons in Hev.
      destruct (eval_sequence tf cf imf ctx (Sequence cs) e v) as [[x e1] w1| | |] eqn:Hcev; try discriminate.
      cbn [bind fst snd] in Hev.
      assert (Hload : nth_error (L ++ lsb) (base + b) = Some mv).
      { rewrite nth_error_app2 by lia. rewrite HL, Nat.add_comm, Nat.add_sub. exact Hnth. }
      destruct k as [[ks]|].
      + (* condition => consequence *)
        destruct (Nat.ltb (S b) (length sc1)) eqn:Hbound; [discriminate|].
        destruct (seq_go ks scb) as [[ck sc2]|] eqn:Hck; [|discriminate].
        fold (reset_opt b sc2) in Hb. cbn [Popt] in Hk. pose proof (Hk ctx scb ck sc2 Hck) as Hsimk. cbn [seq_chains] in Hsimk.
        assert (Hr0 : reset_opt b sc1 = []) by (unfold reset_opt; rewrite Hbound; reflexivity).
        remember (ck ++ reset_opt b sc2) as kb eqn:Hkb.
        (* common prefix: the condition, dup, not *)
        assert (Hpre : forall post, code_at C pc (cc ++ IDuplicate :: INot :: post) ->
                  exists mx, star (st pc (mv :: stk) (L ++ lsb))
                                  (st (S (S (pc + length cc))) ((if is_nil x then mok else mnil) :: mx :: stk) (L ++ lsb)) /\
                             vrel x mx /\ erel scb e1 lsb).
        { intros post Hat0.
          assert (Hat0' : code_at C pc (cc ++ reset_opt b sc1 ++ IDuplicate :: INot :: post)) by (rewrite Hr0; exact Hat0).
          destruct (seq_reset_exec _ _ _ _ b Hsimc e v x e1 w1 pc stk lsb mv L _ Hcev Hat0' Her Hv HL Hlb) as (mx & Hst & Hvx & Her1).
          rewrite Hr0, app_nil_r in Hst. destruct (code_at_app _ _ _ _ Hat0) as [_ A2].
          destruct (code_at_head _ _ _ _ A2) as [Hd A3]. destruct (code_at_head _ _ _ _ A3) as [Hn _].
          exists mx. split; [|split; [assumption | apply Her1; exact Hbound]].
          eapply star_trans; [exact Hst|]. eapply star_step; [apply step_dup; exact Hd|].
          eapply star_step; [apply step_not; exact Hn|]. rewrite (vrel_is_nil _ _ Hvx). constructor. }
        destruct r as [|b2 r2].
        * (* last branch *)
          inversion Hb; subst cb. clear Hb.
          pose proof (code_at_bound _ _ Hat) as Hbound2. rewrite !app_length in Hbound2. cbn [length] in Hbound2.
          destruct (Hpre _ Hat) as (mx & Hst0 & Hvx & Her1).
          destruct (code_at_app _ _ _ _ Hat) as [_ A2]. destruct (code_at_head _ _ _ _ A2) as [_ A3].
          destruct (code_at_head _ _ _ _ A3) as [_ A4]. destruct (code_at_head _ _ _ _ A4) as [Hj A5].
          destruct (code_at_head _ _ _ _ A5) as [Hp A6]. destruct (code_at_head _ _ _ _ A6) as [Hl A7].
          destruct (is_nil x) eqn:Hnil.
          -- cbn in Hev. inversion Hev; subst res. apply is_nil_true in Hnil. subst x.
             exists mx, lsb. split; [|split; [assumption | apply grows_refl]].
             eapply star_trans; [exact Hst0|]. eapply star_step. { apply step_jumpif_take; [exact Hj | reflexivity | lia]. }
             apply star_refl_pc. rewrite !app_length. cbn [length]. rewrite ?app_length. cbn [length]. lia.
          -- destruct (eval_sequence tf cf imf ctx (Sequence ks) e1 v) as [[y e2] w2| | |] eqn:Hkev; try discriminate.
             cbn in Hev. inversion Hev; subst res. clear Hev.
             assert (A7' : code_at C (S (S (S (S (S (pc + length cc)))))) (ck ++ reset_opt b sc2 ++ [])) by (rewrite app_nil_r, <- Hkb; exact A7).
             destruct (seq_reset_exec _ _ _ _ b Hsimk e1 v y e2 w2 _ stk lsb mv L _ Hkev A7' Her1 Hv HL Hlb) as (my & Hst2 & Hvy & _).
             rewrite <- Hkb in Hst2.
             exists my, lsb. split; [|split; [assumption | apply grows_refl]].
             eapply star_trans; [exact Hst0|]. eapply star_step. { eapply step_jumpif_fall; [exact Hj | reflexivity]. }
             eapply star_step. { apply step_pop; exact Hp. }
             eapply star_step. { apply (step_load _ b mv); [exact Hl | exact Hload]. }
             rewrite !app_length. cbn [length].
             replace (pc + (length cc + S (S (S (S (S (length kb)))))))%nat with (S (S (S (S (S (pc + length cc))))) + length kb)%nat by lia.
             exact Hst2.
        * (* more branches follow *)
          destruct (br_go b scb (b2 :: r2)) as [cr|] eqn:Hcr; [|discriminate]. inversion Hb; subst cb. clear Hb.
          pose proof (code_at_bound _ _ Hat) as Hbound2. rewrite !app_length in Hbound2. cbn [length] in Hbound2. rewrite !app_length in Hbound2. cbn [length] in Hbound2.
          destruct (Hpre _ Hat) as (mx & Hst0 & Hvx & Her1).
          destruct (code_at_app _ _ _ _ Hat) as [_ A2]. destruct (code_at_head _ _ _ _ A2) as [_ A3].
          destruct (code_at_head _ _ _ _ A3) as [_ A4]. destruct (code_at_head _ _ _ _ A4) as [Hj A5].
          destruct (code_at_head _ _ _ _ A5) as [Hp A6]. destruct (code_at_head _ _ _ _ A6) as [Hl A7].
          destruct (code_at_app _ _ _ _ A7) as [A7k A8]. destruct (code_at_head _ _ _ _ A8) as [Hjmp A9].
          destruct (code_at_head _ _ _ _ A9) as [Hp2 A10]. destruct (code_at_head _ _ _ _ A10) as [Hl2 A11].
          destruct (is_nil x) eqn:Hnil.
          -- (* fall through to the next branch *)
             destruct (eval_expr tf cf imf ctx (Expression (b2 :: r2)) e v) as [r' w'| | |] eqn:Hrest; try discriminate.
             cbn in Hev. inversion Hev; subst r'. clear Hev.
             destruct (IH cr eq_refl e v res w' (S (S (S (S (S (S (S (S (pc + length cc)))))) + length kb))) stk lsb mv L Hrest A11 Her Hv HL Hlb Hnth)
               as (mr & ls' & Hst3 & Hvr & Hg3).
             exists mr, ls'. split; [|split; assumption].
             eapply star_trans; [exact Hst0|]. eapply star_step. { apply step_jumpif_take; [exact Hj | reflexivity | lia]. }
             match goal with |- star (st ?p _ _) _ => replace p with (S (S (S (S (S (S (pc + length cc))))) + length kb))%nat by lia end.
             eapply star_step. { apply step_pop; exact Hp2. }
             eapply star_step. { apply (step_load _ b mv); [exact Hl2 | exact Hload]. }
             rewrite !app_length. cbn [length]. rewrite !app_length. cbn [length].
             replace (pc + (length cc + S (S (S (S (S (length kb + S (S (S (length cr))))))))))%nat
               with (S (S (S (S (S (S (S (S (pc + length cc)))))) + length kb)) + length cr)%nat by lia.
             exact Hst3.
          -- (* commit: the consequence, then jump to the end *)
             destruct (eval_sequence tf cf imf ctx (Sequence ks) e1 v) as [[y e2] w2| | |] eqn:Hkev; try discriminate.
             cbn in Hev. inversion Hev; subst res. clear Hev.
             assert (A7' : code_at C (S (S (S (S (S (pc + length cc)))))) (ck ++ reset_opt b sc2 ++ [])) by (rewrite app_nil_r, <- Hkb; exact A7k).
             destruct (seq_reset_exec _ _ _ _ b Hsimk e1 v y e2 w2 _ stk lsb mv L _ Hkev A7' Her1 Hv HL Hlb) as (my & Hst2 & Hvy & _).
             rewrite <- Hkb in Hst2.
             exists my, lsb. split; [|split; [assumption | apply grows_refl]].
             eapply star_trans; [exact Hst0|]. eapply star_step. { eapply step_jumpif_fall; [exact Hj | reflexivity]. }
             eapply star_step. { apply step_pop; exact Hp. }
             eapply star_step. { apply (step_load _ b mv); [exact Hl | exact Hload]. }
             eapply star_trans; [exact Hst2|].
             eapply star_step. { apply step_jump; [exact Hjmp | lia]. }
             apply star_refl_pc. rewrite !app_length. cbn [length]. rewrite ?app_length. cbn [length]. lia.
      + (* a branch without consequence *)
        set (body := cc ++ reset_opt b sc1) in *.
        destruct r as [|b2 r2].
        * inversion Hb; subst cb. clear Hb.
          assert (Hat' : code_at C pc (cc ++ reset_opt b sc1 ++ [])) by (rewrite app_nil_r; exact Hat).
          destruct (seq_reset_exec _ _ _ _ b Hsimc e v x e1 w1 pc stk lsb mv L _ Hcev Hat' Her Hv HL Hlb) as (mx & Hst & Hvx & _).
          exists mx, lsb. split; [exact Hst | split; [|apply grows_refl]].
          destruct (is_nil x) eqn:Hnil; cbn in Hev; inversion Hev; subst res; [|assumption].
          apply is_nil_true in Hnil. subst x. exact Hvx.
        * destruct (br_go b scb (b2 :: r2)) as [cr|] eqn:Hcr; [|discriminate]. inversion Hb; subst cb. clear Hb.
          pose proof (code_at_bound _ _ Hat) as Hbound2. rewrite !app_length in Hbound2. cbn [length] in Hbound2.
          assert (Hat' : code_at C pc (cc ++ reset_opt b sc1 ++ [IDuplicate; IJumpIf (Z.of_nat (2 + length cr)); IPop; ILoad b] ++ cr)).
          { unfold body in Hat. rewrite <- app_assoc in Hat. exact Hat. }
          destruct (seq_reset_exec _ _ _ _ b Hsimc e v x e1 w1 pc stk lsb mv L _ Hcev Hat' Her Hv HL Hlb) as (mx & Hst & Hvx & _).
          fold body in Hst.
          destruct (code_at_app _ _ _ _ Hat) as [_ A2]. destruct (code_at_head _ _ _ _ A2) as [Hd A3].
          destruct (code_at_head _ _ _ _ A3) as [Hj A4]. destruct (code_at_head _ _ _ _ A4) as [Hp A5].
          destruct (code_at_head _ _ _ _ A5) as [Hl A6].
          destruct (is_nil x) eqn:Hnil.
          -- destruct (eval_expr tf cf imf ctx (Expression (b2 :: r2)) e v) as [r' w'| | |] eqn:Hrest; try discriminate.
             cbn in Hev. inversion Hev; subst r'. clear Hev.
             destruct (IH cr eq_refl e v res w' (S (S (S (S (pc + length body))))) stk lsb mv L Hrest A6 Her Hv HL Hlb Hnth)
               as (mr & ls' & Hst3 & Hvr & Hg3).
             exists mr, ls'. split; [|split; assumption].
             eapply star_trans; [exact Hst|]. eapply star_step; [apply step_dup; exact Hd|].
             eapply star_step. { eapply step_jumpif_fall; [exact Hj|]. rewrite (vrel_is_nil _ _ Hvx). exact Hnil. }
             eapply star_step. { apply step_pop; exact Hp. }
             eapply star_step. { apply (step_load _ b mv); [exact Hl | exact Hload]. }
             rewrite !app_length. cbn [length].
             replace (pc + (length body + S (S (S (S (length cr))))))%nat with (S (S (S (S (pc + length body)))) + length cr)%nat by lia.
             exact Hst3.
          -- cbn in Hev. inversion Hev; subst res. clear Hev.
             exists mx, lsb. split; [|split; [assumption | apply grows_refl]].
             eapply star_trans; [exact Hst|]. eapply star_step; [apply step_dup; exact Hd|].
             eapply star_step. { apply step_jumpif_take; [exact Hj | rewrite (vrel_is_nil _ _ Hvx); exact Hnil | lia]. }
             apply star_refl_pc. rewrite !app_length. cbn [length]. rewrite ?app_length. cbn [length]. lia.
  Qed.

  (* ---------------------------------------------------------------------------------------
     a compiled term never makes a tail call (the mirror refuses `^`, `^f`, `^~`), provided the
     evaluator's call does not return one *)
  Hypothesis Hcf_nt : forall f a acc g b w, cf f a acc <> TailC g b w.

  Definition compilable_t (t : term) : Prop := exists sc c sc', compile_term pool shapes isfun fnum sc t = Some (c, sc').
  Definition compilable_c (ch : chain) : Prop := exists sc c sc', compile_chain pool shapes isfun fnum sc ch = Some (c, sc').
  Definition compilable_s (cs : list chain) : Prop := exists sc c sc', seq_go cs sc = Some (c, sc').
  Definition compilable_b (bs : list branch) : Prop := exists b scb cb, br_go b scb bs = Some cb.

  Lemma fields_go_compilable : forall fs i sc labels r, fields_go fs i sc labels = Some r ->
    Forall (fun f => match f with TupleField _ (FChain ch) => compilable_c ch | _ => True end) fs.
  Proof.
    induction fs as [|[l [chn|x]] r0 IH]; intros i sc labels r H; [constructor| |discriminate].
    cbn [fields_go] in H. destruct (match l with Some _ => existsb (oatom_eqb l) labels | None => false end); [discriminate|].
    destruct (compile_chain pool shapes isfun fnum sc chn) as [[cc sc1]|] eqn:Hc; [|discriminate].
    destruct (fields_go r0 (S i) sc1 (labels ++ [l])) as [r1|] eqn:Hr; [|discriminate].
    constructor; [exists sc, cc, sc1; exact Hc | eapply IH; exact Hr].
  Qed.
  Lemma terms_go_compilable : forall ts sc r, terms_go ts sc = Some r -> Forall compilable_t ts.
  Proof.
    induction ts as [|t r0 IH]; intros sc r H; [constructor|]. cbn [terms_go] in H.
    destruct (compile_term pool shapes isfun fnum sc t) as [[ct sc1]|] eqn:Hc; [|discriminate].
    destruct (terms_go r0 sc1) as [r1|] eqn:Hr; [|discriminate].
    constructor; [exists sc, ct, sc1; exact Hc | eapply IH; exact Hr].
  Qed.
  Lemma seq_go_compilable : forall cs sc r, seq_go cs sc = Some r -> Forall compilable_c cs.
  Proof.
    induction cs as [|chn r0 IH]; intros sc r H; [constructor|]. destruct r0 as [|c2 r'].
    - constructor; [|constructor]. destruct r as [c sc']. exists sc, c, sc'. exact H.
    - rewrite seq_go_cons2 in H. destruct (ends_in_nil_literal chn); [discriminate|].
      destruct (compile_chain pool shapes isfun fnum sc chn) as [[cc sc1]|] eqn:Hc; [|discriminate].
      destruct (seq_go (c2 :: r') sc1) as [r1|] eqn:Hr; [|discriminate].
      constructor; [exists sc, cc, sc1; exact Hc | eapply IH; exact Hr].
  Qed.
  Lemma br_go_compilable : forall b scb bs cb, br_go b scb bs = Some cb ->
    Forall (fun br => match br with Branch cd k => compilable_s (seq_chains cd) /\ Popt (fun s => compilable_s (seq_chains s)) k end) bs.
  Proof.
    intros b scb. induction bs as [|[[cs] k] r IH]; intros cb H; [constructor|]. cbn [br_go] in H.
    destruct (seq_go cs scb) as [[cc sc1]|] eqn:Hc; [|discriminate].
    assert (Hcs : compilable_s cs) by (exists scb, cc, sc1; exact Hc).
    destruct k as [[ks]|].
    - destruct (Nat.ltb (S b) (length sc1)); [discriminate|].
      destruct (seq_go ks scb) as [[ck sc2]|] eqn:Hk; [|discriminate].
      assert (Hks : compilable_s ks) by (exists scb, ck, sc2; exact Hk).
      destruct r as [|b2 r2]; [constructor; [split; assumption | constructor]|].
      destruct (br_go b scb (b2 :: r2)) as [cr|] eqn:Hr; [|discriminate].
      constructor; [split; assumption | eapply IH; reflexivity].
    - destruct r as [|b2 r2]; [constructor; [split; [assumption | exact I] | constructor]|].
      destruct (br_go b scb (b2 :: r2)) as [cr|] eqn:Hr; [|discriminate].
      constructor; [split; [assumption | exact I] | eapply IH; reflexivity].
  Qed.

  Definition nt {A} (r : res A) : Prop := forall g b w, r <> TailC g b w.
  Lemma nt_bind : forall A B (a : res A) (f : A -> res B), nt a -> (forall x, nt (f x)) -> nt (bind a f).
  Proof.
    intros A B a f Ha Hf g b w. destruct a as [x wx|g0 b0 w0| |]; cbn [bind]; try discriminate.
    - specialize (Hf x g b). destruct (f x); cbn; try discriminate. intros H. inversion H; subst. eapply Hf; reflexivity.
    - exfalso. eapply Ha; reflexivity.
  Qed.
  Lemma nt_tick : forall A s (r : res A), nt r -> nt (tick s r).
  Proof. intros A s r H g b w. destruct r; cbn; try discriminate. intros E. inversion E; subst. eapply H; reflexivity. Qed.
  Lemma nt_ret : forall A (a : A), nt (ret a).
  Proof. intros A a g b w. discriminate. Qed.
  Lemma nt_with_env : forall A e (r : res A), nt r -> nt (with_env e r).
  Proof. intros. unfold with_env. apply nt_bind; [assumption | intros; apply nt_ret]. Qed.
  Lemma nt_access_all : forall path v, nt (access_all v path).
  Proof.
    induction path as [|p r IH]; intros v; cbn [access_all]; [apply nt_ret|]. apply nt_bind; [|intros; apply IH].
    intros g b w. destruct v; cbn; try discriminate. destruct p; [destruct (find_field l fields) | destruct (i <? 0); [|destruct (nth_error fields (Z.to_nat i)) as [[? ?]|]]]; discriminate.
  Qed.
  Lemma nt_do_match : forall c e p v, nt (do_match tf c e p v).
  Proof. intros c e p v g b w. unfold do_match. destruct (pmatch tf (c_tenv c) e [] p v); discriminate. Qed.

  Lemma terms_with_nt : forall (ev : term -> env -> value -> res (value * env)) ts,
    Forall (fun t => forall e v, nt (ev t e v)) ts -> forall e v, nt (terms_with ev ts e v).
  Proof.
    intros ev ts H. induction H as [|t r Ht _ IH]; intros e v; cbn [terms_with]; [apply nt_ret|].
    apply nt_bind; [apply Ht | intros x; apply nt_tick, IH].
  Qed.
  Lemma seq_with_nt : forall (ev : chain -> env -> value -> res (value * env)) cs,
    Forall (fun c => forall e v, nt (ev c e v)) cs -> forall e v, nt (seq_with ev cs e v).
  Proof.
    intros ev cs H. induction H as [|c r Hc _ IH]; intros e v; cbn [seq_with]; [apply nt_ret|].
    apply nt_bind; [apply Hc|]. intros x. destruct r; [apply nt_ret|]. destruct (is_nil (fst x)); [intros ? ? ?; discriminate | apply IH].
  Qed.
  Lemma fields_with_nt : forall (ev : chain -> env -> value -> res (value * env)) fs,
    Forall (fun f => match f with TupleField _ (FChain c) => forall e v, nt (ev c e v) | _ => True end) fs ->
    forall e v acc inh, nt (fields_with ev fs e v acc inh).
  Proof.
    intros ev fs H. induction H as [|[l [c|x]] r Hf _ IH]; intros e v acc inh; cbn [fields_with]; [apply nt_ret| |].
    - apply nt_bind; [apply Hf | intros; apply IH].
    - destruct (match x with Some x0 => lookup_var x0 e | None => Some v end) as [[| | | |]|]; try (intros ? ? ?; discriminate). apply IH.
  Qed.
  Lemma branches_with_nt : forall (ev : sequence -> env -> value -> res (value * env)) bs,
    Forall (fun br => match br with Branch c k => (forall e v, nt (ev c e v)) /\ Popt (fun s => forall e v, nt (ev s e v)) k end) bs ->
    forall e v, nt (branches_with ev bs e v).
  Proof.
    intros ev bs H. induction H as [|[c k] r [Hc Hk] _ IH]; intros e v; cbn [branches_with]; [apply nt_ret|].
    apply nt_bind; [apply Hc|]. intros x. destruct (is_nil (fst x)); [apply nt_tick, IH|].
    destruct k as [k|]; [|apply nt_ret]. apply nt_tick, nt_bind; [apply Hk | intros; apply nt_ret].
  Qed.

  Lemma compiled_no_tail :
    (forall t, compilable_t t -> forall ctx e v, nt (eval_term tf cf imf ctx t e v)) /\
    (forall ch, compilable_c ch -> forall ctx e v, nt (eval_chain tf cf imf ctx ch e v)) /\
    (forall s, compilable_s (seq_chains s) -> forall ctx e v, nt (eval_sequence tf cf imf ctx s e v)) /\
    (forall ex, compilable_b (match ex with Expression bs => bs end) -> forall ctx e v, nt (eval_expr tf cf imf ctx ex e v)).
  Proof.
    apply (ast_mutind
      (fun t => compilable_t t -> forall ctx e v, nt (eval_term tf cf imf ctx t e v))
      (fun f => match f with TupleField _ (FChain ch) => compilable_c ch -> forall ctx e v, nt (eval_chain tf cf imf ctx ch e v) | _ => True end)
      (fun _ => True)
      (fun ch => compilable_c ch -> forall ctx e v, nt (eval_chain tf cf imf ctx ch e v))
      (fun s => compilable_s (seq_chains s) -> forall ctx e v, nt (eval_sequence tf cf imf ctx s e v))
      (fun br => match br with Branch cd k =>
                   (compilable_s (seq_chains cd) -> forall ctx e v, nt (eval_sequence tf cf imf ctx cd e v)) /\
                   Popt (fun s => compilable_s (seq_chains s) -> forall ctx e v, nt (eval_sequence tf cf imf ctx s e v)) k end)
      (fun ex => compilable_b (match ex with Expression bs => bs end) -> forall ctx e v, nt (eval_expr tf cf imf ctx ex e v)));
      try (intros; exact I).
    - intros l _ ctx e v g b w. discriminate.
    - intros name fs Hfs (sc & c & sc' & Hc) ctx e v. rewrite compile_term_tuple in Hc. rewrite eval_term_tuple.
      apply nt_bind.
      + apply fields_with_nt.
        assert (Hcomp : Forall (fun f => match f with TupleField _ (FChain ch) => compilable_c ch | _ => True end) fs).
        { destruct name; try discriminate; destruct (fields_go fs 0 sc []) as [r|] eqn:Hg; try discriminate; eapply fields_go_compilable; exact Hg. }
        clear Hc. revert Hcomp. induction Hfs as [|[l [chn|x]] r Hf _ IH]; intros Hcomp; [constructor| |constructor; [exact I | inversion Hcomp; subst; apply IH; assumption]].
        inversion Hcomp; subst. constructor; [intros e0 v0; apply Hf; assumption | apply IH; assumption].
      + intros [[fs' inh] e']. destruct name; [apply nt_ret | apply nt_ret | destruct inh; [apply nt_ret | intros ? ? ?; discriminate]].
    - intros segs _ (sc & c & sc' & Hc). discriminate.
    - intros p _ ctx e v. rewrite eval_term_match. apply nt_do_match.
    - intros [bs] Hb (sc & c & sc' & Hc) ctx e v. rewrite eval_term_block. apply nt_with_env. apply Hb.
      rewrite compile_term_block in Hc. destruct (br_go (length sc) (sc ++ [None]) bs) as [cb|] eqn:Hbg; [|discriminate].
      exists (length sc), (sc ++ [None]), cb. exact Hbg.
    - intros tps pt rt body _ (sc & c & sc' & Hc). discriminate.
    - intros [src path] (sc & c & sc' & Hc) ctx e v. cbn [compile_term] in Hc. cbn [Lang.eval_term].
      destruct src as [[y| | |p| |b|[y|]|]|]; try discriminate.
      + destruct (lookup_var y e); [|intros ? ? ?; discriminate]. apply nt_with_env, nt_bind; [apply nt_access_all|].
        intros x. unfold apply_value. destruct (is_callable x); [intros ? ? ?; apply Hcf_nt | apply nt_ret].
      + apply nt_with_env, nt_access_all.
      + apply nt_with_env, nt_access_all.
    - intros t _ (sc & c & sc' & Hc). discriminate.
    - intros (sc & c & sc' & Hc). discriminate.
    - intros cs _ (sc & c & sc' & Hc). discriminate.
    - intros n (sc & c & sc' & Hc). discriminate.
    - intros a (sc & c & sc' & Hc). discriminate.
    - intros n chn H. exact H.
    - intros mp ts Hts (sc & c & sc' & Hc) ctx e v.
      destruct (fun_binding (Chain mp ts)) as [[[f pt] body]|] eqn:Hfb.
      { unfold fun_binding in Hfb. destruct mp as [[x|l| | | | | | | | |]|]; try discriminate.
        destruct ts as [|t [|t2 ts']]; try discriminate; destruct t; try discriminate;
          destruct parameter_type; try discriminate; destruct body0; try discriminate.
        all: try (rewrite eval_chain_some; cbn [terms_with Lang.eval_term bind ret tick fst snd]; apply nt_tick, nt_tick, nt_do_match). }
      rewrite (compile_chain_eq _ _ _ Hfb) in Hc. destruct (terms_go ts sc) as [r|] eqn:Hg; [|discriminate].
      pose proof (terms_go_compilable _ _ _ Hg) as Hcomp.
      assert (Hts' : forall e0 v0, nt (terms_with (eval_term tf cf imf ctx) ts e0 v0)).
      { apply terms_with_nt. clear Hc Hg Hfb. revert Hcomp. induction Hts as [|t r0 Ht _ IH]; intros Hcomp; [constructor|].
        constructor; [intros e0 v0; apply (Ht (Forall_inv Hcomp)) | apply IH; exact (Forall_inv_tail Hcomp)]. }
      destruct mp as [p|]; [rewrite eval_chain_some | rewrite eval_chain_none; apply Hts'].
      apply nt_bind; [apply Hts' | intros; apply nt_do_match].
    - intros cs Hcs (sc & c & sc' & Hc) ctx e v. cbn [seq_chains] in Hc. rewrite eval_sequence_eq. apply seq_with_nt.
      pose proof (seq_go_compilable _ _ _ Hc) as Hcomp. clear Hc. revert Hcomp.
      induction Hcs as [|chn r Hch _ IH]; intros Hcomp; [constructor|]. constructor; [intros e0 v0; apply (Hch (Forall_inv Hcomp)) | apply IH; exact (Forall_inv_tail Hcomp)].
    - intros cd k Hc Hk. split; [exact Hc | exact Hk].
    - intros bs Hbs (b & scb & cb & Hb) ctx e v. rewrite eval_expr_eq. apply branches_with_nt.
      pose proof (br_go_compilable _ _ _ _ Hb) as Hcomp. clear Hb. revert Hcomp.
      induction Hbs as [|br r Hbr _ IH]; intros Hcomp; [constructor|]. destruct br as [cd k]. destruct Hbr as [Hc Hk].
      pose proof (Forall_inv Hcomp) as [Hcc Hkk]. cbn beta iota in Hcc, Hkk.
      constructor; [|apply IH; exact (Forall_inv_tail Hcomp)]. split; [intros e0 v0; apply Hc; exact Hcc|].
      destruct k; cbn [Popt] in *; [intros e0 v0; apply Hk; exact Hkk | exact I].
  Qed.

  Lemma step_call : forall pc k fd ma stk locs,
    nth_error C pc = Some ICall -> nth_error (p_funcs P) k = Some fd ->
    step P (st pc (MFun k [] :: ma :: stk) locs) x0 =
    Next (mk_state (ma :: stk) (locs ++ []) (mk_frame k (length locs) 0 0 :: mk_frame fn base caps pc :: rest) pers).
  Proof. intros pc k fd ma stk locs H Hk. stepper H. cbn [Quiver.vm.Vm.stack]. rewrite Hk. reflexivity. Qed.

  Corollary compile_simulates :
    (forall t ctx sc c sc', compile_term pool shapes isfun fnum sc t = Some (c, sc') -> SIM (eval_term tf cf imf ctx t) c sc sc') /\
    (forall ch ctx sc c sc', compile_chain pool shapes isfun fnum sc ch = Some (c, sc') -> SIM (eval_chain tf cf imf ctx ch) c sc sc').
  Proof. destruct compile_simulates_all as (Ht & Hc & _). split; assumption. Qed.

  Corollary compile_seq_simulates : forall ctx cs sc c sc',
    compile_seq pool shapes isfun fnum sc cs = Some (c, sc') -> SIMseq (seq_with (eval_chain tf cf imf ctx) cs) c sc sc'.
  Proof.
    intros ctx cs sc c sc' Hc. destruct compile_simulates_all as (_ & _ & Hs & _).
    rewrite <- seq_go_eq in Hc. exact (Hs (Sequence cs) ctx sc c sc' Hc).
  Qed.

  (* a block as a term: its input goes to a fresh slot, the branches run, the slots are released *)
  Corollary compile_block_simulates : forall bs ctx sc c sc',
    compile_term pool shapes isfun fnum sc (Block (Expression bs)) = Some (c, sc') ->
    SIM (eval_term tf cf imf ctx (Block (Expression bs))) c sc sc'.
  Proof. intros. destruct compile_simulates_all as (Ht & _). apply Ht. assumption. Qed.
End Sim.

(* ------------------------------------------------------------------------------------------
   Calls: the evaluator's `call mods n` is simulated by Call / the callee's frame / the frame
   pop, for every fuel n (induction on n; at each level the simulation of the callee's body is
   `compile_simulates_all` instantiated at the callee's function). *)
Lemma apply_builtin_no_tail : forall b arg g x w, apply_builtin b arg <> TailC g x w.
Proof.
  intros b arg g x w. unfold apply_builtin, int2.
  repeat match goal with |- context [if b =? ?k then _ else _] => destruct (b =? k) end;
  destruct arg as [z|bs|n [|[l1 [z1|b1|n1 f1|? ? ? ?|?]] [|[l2 [z2|b2|n2 f2|? ? ? ?|?]] [|f3 r]]]|? ? ? ?|?];
  cbn; try discriminate;
  repeat match goal with |- context [if ?c then _ else _] => destruct c end; discriminate.
Qed.

Lemma call_no_tail : forall mods n f a acc g x w, call mods n f a acc <> TailC g x w.
Proof.
  intros mods. induction n as [|n IH]; intros f a acc g x w; [discriminate|]. rewrite call_S.
  destruct f as [z0|bs0|nm0 fs0|nl body cenv te|b]; try discriminate.
  - destruct body as [body|]; [|discriminate].
    destruct (eval_expr n (call mods n) (eval_import mods n) _ body cenv a); try discriminate. apply IH.
  - pose proof (apply_builtin_no_tail b a) as Hb. destruct (apply_builtin b a); cbn; try discriminate.
    exfalso. eapply Hb. reflexivity.
Qed.

Section Program.
  Variable P : mprogram.
  Variable pool : list Z.
  Variable shapes : list shape.
  Variable isfun : atom -> bool.
  Variable fnum : expression -> option nat.
  Hypothesis Hpool : forall z k, const_index pool z = Some k -> nth_error (p_consts P) k = Some (CInt z).
  Hypothesis Hshapes : forall sh t, shape_index shapes sh = Some t -> nth_error (p_tuples P) t = Some (length (snd sh)).
  Hypothesis Hsh0 : exists r, shapes = nil_shape :: ok_shape :: r.
  Hypothesis Hfuns : forall body k, fnum body = Some k ->
    exists code, function_code pool shapes isfun fnum body = Some code /\ nth_error (p_funcs P) k = Some (mk_func code 0).
  Variable mods : list (list atom * program).

  (* the statement `Hcf` of the simulation, for one fuel level and EVERY caller frame *)
  Definition call_simulated (n : nat) : Prop :=
    forall fn C caps base rest pers, nth_error (p_funcs P) fn = Some (mk_func C caps) ->
    forall body cenv te k a acc r w ma pc stk locs,
      fnum body = Some k -> call mods n (VClos false (Some body) cenv te) a acc = Ret r w -> vrel shapes a ma ->
      nth_error C pc = Some ICall ->
      exists mr, star P (st fn caps base rest pers pc (MFun k [] :: ma :: stk) locs)
                        (st fn caps base rest pers (S pc) (mr :: stk) locs) /\ vrel shapes r mr.

  Theorem call_simulates : forall n, call_simulated n.
  Proof.
    induction n as [|n IH]; intros fn C caps base rest pers Hfn body cenv te k a acc r w ma pc stk locs Hk Hcall Hva Hpc;
      [discriminate|].
    rewrite call_S in Hcall.
    destruct (Hfuns _ _ Hk) as (code & Hcode & Hfk).
    unfold function_code in Hcode.
    destruct (compile_term pool shapes isfun fnum [] (Block body)) as [[c sc']|] eqn:Hcb; [|discriminate]. inversion Hcode; subst code. clear Hcode.
    (* the body never makes a tail call, so the call returns the body's value *)
    destruct body as [bs].
    assert (Hnt : nt (eval_expr n (call mods n) (eval_import mods n) (mkCtx a (Some (VClos false (Some (Expression bs)) cenv te)) te) (Expression bs) cenv a)).
    { destruct (compiled_no_tail pool shapes isfun fnum n (call mods n) (eval_import mods n) (call_no_tail mods n)) as (_ & _ & _ & He).
      apply He. rewrite compile_term_block in Hcb. destruct (br_go pool shapes isfun fnum (length (@nil (option atom))) ([] ++ [None]) bs) as [cb|] eqn:Hb; [|discriminate].
      exists (length (@nil (option atom))), ([] ++ [None]), cb. exact Hb. }
    destruct (eval_expr n (call mods n) (eval_import mods n) _ (Expression bs) cenv a) as [r' w'|g x w0| |] eqn:Hbody; try discriminate;
      [|exfalso; eapply Hnt; reflexivity].
    inversion Hcall; subst r'. clear Hcall.
    (* the machine: Call pushes the callee's frame ... *)
    set (callee_rest := mk_frame fn base caps pc :: rest).
    assert (Hterm : eval_term n (call mods n) (eval_import mods n) (mkCtx a (Some (VClos false (Some (Expression bs)) cenv te)) te)
                              (Block (Expression bs)) cenv a = Ret (r, cenv) (st_add w' st0)).
    { rewrite eval_term_block. unfold with_env. rewrite Hbody. reflexivity. }
    assert (Hat : code_at c 0 c). { exists [], []. rewrite app_nil_r. split; reflexivity. }
    destruct (compile_block_simulates P k c 0 Hfk pool shapes Hpool Hshapes Hsh0 isfun fnum Hfuns (length locs) callee_rest pers
                n (call mods n) (eval_import mods n)
                (fun body0 cenv0 te0 k0 a0 acc0 r0 w0 ma0 pc0 stk0 locs0 => IH k c 0%nat (length locs) callee_rest pers Hfk body0 cenv0 te0 k0 a0 acc0 r0 w0 ma0 pc0 stk0 locs0)
                bs _ [] c sc' Hcb cenv a r cenv _ 0%nat stk [] ma locs Hterm Hat (erel_nil shapes isfun fnum cenv) Hva eq_refl)
      as (mr & ls' & Hst & Hvr & Her & _).
    assert (Hsc : sc' = []).
    { rewrite compile_term_block in Hcb.
      destruct (br_go pool shapes isfun fnum (length (@nil (option atom))) ([] ++ [None]) bs); [|discriminate]. inversion Hcb; reflexivity. }
    subst sc'. pose proof (erel_length _ _ _ _ _ _ Her) as Hl.
    destruct ls'; [|discriminate]. clear Hl.
    exists mr. split; [|exact Hvr].
    eapply star_step. { apply (step_call P fn C caps Hfn base rest pers pc k _ ma stk locs Hpc Hfk). }
    rewrite !app_nil_r in *. eapply star_trans; [exact Hst|].
    (* ... and the exhausted frame is popped: the caller continues after the Call *)
    eapply star_step with (x := x0); [|constructor].
    unfold st, Quiver.vm.Vm.step. cbn [Quiver.vm.Vm.frames Quiver.vm.Vm.fr_fn Quiver.vm.Vm.fr_pc].
    unfold Quiver.vm.Vm.code_of. rewrite Hfk. cbn [option_map Quiver.vm.Bytecode.f_code].
    rewrite (proj2 (nth_error_None c (0 + length c))) by lia. unfold callee_rest. cbn.
    rewrite Bool.andb_false_r. rewrite firstn_all. reflexivity.
  Qed.

  (* Whole programs of the fragment: the VM started on the compiled entry function (as
     `spawn_process` starts it: the nil argument on the stack, no locals) reaches the end of the
     code with the evaluator's value on the stack, pops the frame and finishes with that value. *)
  Theorem compile_program_correct :
    forall (fn : nat) (p : program) (code : list instr) (pers : bool),
      compile_program pool shapes isfun fnum p = Some code ->
      nth_error (p_funcs P) fn = Some (mk_func code 0) ->
      forall n v w, eval_program mods n p = Ret v w ->
      exists mv ls,
        vrel shapes v mv /\
        star P (Quiver.vm.Vm.init_state fn [] mnil pers) (st fn 0 0 [] pers (length code) [mv] ls) /\
        (forall x, step P (st fn 0 0 [] pers (length code) [mv] ls) x =
                   Next (mk_state [mv] (if pers then ls else []) [] pers)) /\
        (forall x, step P (mk_state [mv] (if pers then ls else []) [] pers) x =
                   Quiver.vm.Vm.Finished mv (mk_state [] (if pers then ls else []) [] pers)).
  Proof.
    intros fn [ss] code pers Hc Hfn n v w Hev.
    destruct n as [|n]; [discriminate|]. unfold eval_program, run_program in Hev.
    unfold compile_program in Hc. destruct (collect_aliases ss) eqn:Hal; [|discriminate].
    destruct (compile_seq pool shapes isfun fnum [None] (collect_chains ss)) as [[c sc']|] eqn:Hcs; [|discriminate].
    inversion Hc; subst code. clear Hc.
    destruct (seq_with (eval_chain n (call mods n) (eval_import mods n) (mkCtx vnil None [])) (collect_chains ss) [] vnil)
      as [[v' e'] w'| | |] eqn:Hs; try discriminate.
    cbn in Hev. inversion Hev; subst v'. clear Hev.
    set (C := IStore :: ILoad 0 :: c) in *.
    assert (Hat : code_at C 2 c). { exists [IStore; ILoad 0], []. rewrite app_nil_r. split; reflexivity. }
    destruct (compile_seq_simulates P fn C 0 Hfn pool shapes Hpool Hshapes Hsh0 isfun fnum Hfuns 0%nat [] pers n (call mods n) (eval_import mods n)
                (fun body0 cenv0 te0 k0 a0 acc0 r0 w0 ma0 pc0 stk0 locs0 => call_simulates n fn C 0%nat 0%nat [] pers Hfn body0 cenv0 te0 k0 a0 acc0 r0 w0 ma0 pc0 stk0 locs0)
                (mkCtx vnil None []) (collect_chains ss) [None] c sc' Hcs [] vnil v e' w' 2%nat [] [mnil] mnil []
                Hs Hat (erel_param shapes isfun fnum [] mnil) (vrel_nil P pool shapes Hshapes Hsh0 isfun fnum Hfuns) eq_refl)
      as (mv & ls & sc'' & Hst & Hv & Her & _ & _).
    exists mv, ls. split; [exact Hv|]. split; [|split].
    - eapply star_step with (x := x0).
      { change (Quiver.vm.Vm.init_state fn [] mnil pers) with (st fn 0 0 [] pers 0 [mnil] []).
        apply (step_store P fn C 0 Hfn 0 [] pers 0 mnil [] []). reflexivity. }
      eapply star_step with (x := x0).
      { apply (step_load P fn C 0 Hfn 0 [] pers 1 0 mnil [] [mnil]); reflexivity. }
      cbn [app] in Hst. exact Hst.
    - intros x. unfold st, Quiver.vm.Vm.step. cbn [Quiver.vm.Vm.frames Quiver.vm.Vm.fr_fn Quiver.vm.Vm.fr_pc].
      unfold Quiver.vm.Vm.code_of. rewrite Hfn. cbn [option_map Quiver.vm.Bytecode.f_code].
      rewrite (proj2 (nth_error_None C (length C))) by lia. cbn. destruct pers; reflexivity.
    - intros x. reflexivity.
  Qed.
End Program.

(* non-vacuity: `x = 5, [x, A[l: 2, ~]] .1` compiles (33 instructions, the ones the real compiler
   emits) and evaluates to A[l: 2, Ok] *)
Definition ex_slice_prog : program :=
  Program [StmtExpression (Sequence
    [Chain (Some (MIdentifier 100)) [Literal (LInteger 5)];
     Chain None [Tuple Anonymous
                   [TupleField None (FChain (Chain None [Access (mkAccess (Some (Identifier 100)) [])]));
                    TupleField None (FChain (Chain None
                      [Tuple (Named 200) [TupleField (Some 101) (FChain (Chain None [Literal (LInteger 2)]));
                                          TupleField None (FChain (Chain None [Access (mkAccess (Some Ripple) [])]))]]))];
                 Access (mkAccess None [Index 1])]])].
Example ex_slice :
  exists code, compile_program [5; 2] [nil_shape; ok_shape; (Some 200, [Some 101; None]); (None, [None; None])] (fun _ => false) (fun _ => None) ex_slice_prog = Some code /\
               length code = 33%nat /\
  exists w, eval_program [] 3 ex_slice_prog = Ret (VTuple (Some 200) [(Some 101, VInt 2); (None, vok)]) w.
Proof. eexists. split; [vm_compute; reflexivity|]. split; [reflexivity|]. eexists. vm_compute. reflexivity. Qed.

(* non-vacuity for blocks: `5 { | =6 => 1 | =x, [x, x] }` (a literal condition with a consequence
   that falls through, then a binder condition with the reset of its slot) compiles to 64
   instructions, evaluates to [5, 5]; `7 { y = ~, [y] }` (single branch: store, load, reset 2, reset 1) *)
Definition ex_block_prog : program :=
  Program [StmtExpression (Sequence
    [Chain None [Literal (LInteger 5);
                 Block (Expression
                   [Branch (Sequence [Chain None [Match (MLiteral (LInteger 6))]]) (Some (Sequence [Chain None [Literal (LInteger 1)]]));
                    Branch (Sequence [Chain None [Match (MIdentifier 100)];
                                      Chain None [Tuple Anonymous [TupleField None (FChain (Chain None [Access (mkAccess (Some (Identifier 100)) [])]));
                                                                   TupleField None (FChain (Chain None [Access (mkAccess (Some (Identifier 100)) [])]))]]]) None])]])].
Definition ex_block1_prog : program :=
  Program [StmtExpression (Sequence
    [Chain None [Literal (LInteger 7);
                 Block (Expression
                   [Branch (Sequence [Chain (Some (MIdentifier 101)) [Access (mkAccess (Some Ripple) [])];
                                      Chain None [Tuple Anonymous [TupleField None (FChain (Chain None [Access (mkAccess (Some (Identifier 101)) [])]))]]]) None])]])].
Example ex_blocks :
  (exists code, compile_program [5; 6; 1] [nil_shape; ok_shape; (None, [None; None])] (fun _ => false) (fun _ => None) ex_block_prog = Some code /\
                In (IEqual 2) code /\ In (IReset 2) code /\ In (IReset 1) code) /\
  (exists w, eval_program [] 3 ex_block_prog = Ret (VTuple None [(None, VInt 5); (None, VInt 5)]) w /\ n_fallthrough w = 1) /\
  (exists code, compile_program [7] [nil_shape; ok_shape; (None, [None])] (fun _ => false) (fun _ => None) ex_block1_prog = Some code /\
                skipn (length code - 2) code = [IReset 2; IReset 1]) /\
  (exists w, eval_program [] 3 ex_block1_prog = Ret (VTuple None [(None, VInt 7)]) w).
Proof.
  split; [eexists; split; [vm_compute; reflexivity | cbn; intuition]|].
  split; [eexists; vm_compute; split; reflexivity|].
  split; [eexists; split; [vm_compute; reflexivity | reflexivity]|].
  eexists. vm_compute. reflexivity.
Qed.

(* non-vacuity for calls: `f = #'int { [~, ~] }, 5 f` — the function literal (function 0 of the
   table: store; load 0; pick 0; pick 1; tuple; rotate 2; pop; reset 0), the binder, `load 1; call` *)
Definition ex_call_prog : program :=
  Program [StmtExpression (Sequence
    [Chain (Some (MIdentifier 102))
       [Function [] (Some (TPrimitive PInt)) None
          (Some (Expression [Branch (Sequence [Chain None [Tuple Anonymous [TupleField None (FChain (Chain None [Access (mkAccess (Some Ripple) [])]));
                                                                            TupleField None (FChain (Chain None [Access (mkAccess (Some Ripple) [])]))]]]) None]))];
     Chain None [Literal (LInteger 5); Access (mkAccess (Some (Identifier 102)) [])]])].
Example ex_call :
  (exists code, compile_program [5] [nil_shape; ok_shape; (None, [None; None])] (fun x => x =? 102) (fun _ => Some 0%nat) ex_call_prog = Some code /\
                In (IFunction 0) code /\ skipn (length code - 2) code = [ILoad 1; ICall]) /\
  (exists fc, function_code [5] [nil_shape; ok_shape; (None, [None; None])] (fun x => x =? 102) (fun _ => Some 0%nat)
                (Expression [Branch (Sequence [Chain None [Tuple Anonymous [TupleField None (FChain (Chain None [Access (mkAccess (Some Ripple) [])]));
                                                                            TupleField None (FChain (Chain None [Access (mkAccess (Some Ripple) [])]))]]]) None]) = Some fc /\
              fc = [IStore; ILoad 0; IPick 0; IPick 1; ITuple 2; IRotate 2; IPop; IReset 0]) /\
  (exists w, eval_program [] 3 ex_call_prog = Ret (VTuple None [(None, VInt 5); (None, VInt 5)]) w /\ n_closure_call w = 1).
Proof.
  split; [eexists; split; [vm_compute; reflexivity | split; [cbn; intuition | reflexivity]]|].
  split; [eexists; split; [vm_compute; reflexivity | reflexivity]|].
  eexists. vm_compute. split; reflexivity.
Qed.

(* ... and, composed with C02_normalize_preserves_value: what the compiler does — normalise the
   blocks, then generate code — computes the value the reference evaluator assigns to the ORIGINAL
   program (for results without function values, which is all the fragment has) *)
Theorem normalize_then_compile_correct :
  forall (P : mprogram) (pool : list Z) (shapes : list shape) (isfun : atom -> bool) (fnum : expression -> option nat),
    (forall z k, const_index pool z = Some k -> nth_error (p_consts P) k = Some (CInt z)) ->
    (forall sh t, shape_index shapes sh = Some t -> nth_error (p_tuples P) t = Some (length (snd sh))) ->
    (exists r, shapes = nil_shape :: ok_shape :: r) ->
    (forall body k, fnum body = Some k ->
       exists code, function_code pool shapes isfun fnum body = Some code /\ nth_error (p_funcs P) k = Some (mk_func code 0)) ->
    forall (fn : nat) (p : program) (code : list instr) (pers : bool),
    compile_program pool shapes isfun fnum (normalize p) = Some code ->
    nth_error (p_funcs P) fn = Some (mk_func code 0) ->
    forall mods n v w, eval_program mods n p = Ret v w -> closure_free v ->
    exists mv ls,
      vrel shapes v mv /\
      star P (Quiver.vm.Vm.init_state fn [] mnil pers) (st fn 0 0 [] pers (length code) [mv] ls) /\
      (forall x, step P (st fn 0 0 [] pers (length code) [mv] ls) x =
                 Next (mk_state [mv] (if pers then ls else []) [] pers)) /\
      (forall x, step P (mk_state [mv] (if pers then ls else []) [] pers) x =
                 Quiver.vm.Vm.Finished mv (mk_state [] (if pers then ls else []) [] pers)).
Proof.
  intros P pool shapes isfun fnum Hpool Hshapes Hsh0 Hfuns fn p code pers Hc Hfn mods n v w Hev Hcf.
  destruct (normalize_preserves_value mods n p v w Hev Hcf) as [w' Hn].
  exact (compile_program_correct P pool shapes isfun fnum Hpool Hshapes Hsh0 Hfuns (nmods mods) fn (normalize p) code pers Hc Hfn n v w' Hn).
Qed.
