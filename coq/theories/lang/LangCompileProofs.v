(* LangCompileProofs.v — a compiler-correctness slice: for the fragment of lang/LangCompile.v the
   code the mirror emits, run on the VM model vm/Vm.v (shared with C07), SIMULATES the reference
   evaluator: whenever the evaluator yields a value and a scope, the machine started on the
   compiled code with a related flowing value on its stack and related locals reaches the end of
   that code with the related value on the stack (everything below it untouched) and locals
   related to the new scope. *)
From Coq Require Import ZArith List Bool Lia.
From Quiver Require Import lang.Lang lang.LangProofs lang.LangCompile lang.LangSimplify lang.LangSimplifyProofs.
From Quiver Require vm.Vm.
Import ListNotations.
Open Scope Z_scope.

Notation mvalue := Quiver.vm.Bytecode.value.
Notation MInt := Quiver.vm.Bytecode.VInt.
Notation MTuple := Quiver.vm.Bytecode.VTuple.
Notation mis_nil := Quiver.vm.Bytecode.is_nil.
Notation mnil := Quiver.vm.Bytecode.vnil.
Notation mok := Quiver.vm.Bytecode.vok.
Notation mprogram := Quiver.vm.Bytecode.program.
Notation p_consts := Quiver.vm.Bytecode.p_consts.
Notation p_funcs := Quiver.vm.Bytecode.p_funcs.
Notation p_tuples := Quiver.vm.Bytecode.p_tuples.
Notation CInt := Quiver.vm.Bytecode.CInt.
Notation mk_func := Quiver.vm.Bytecode.Build_func.
Notation state := Quiver.vm.Vm.state.
Notation mk_state := Quiver.vm.Vm.Build_state.
Notation mk_frame := Quiver.vm.Vm.Build_frame.
Notation step := Quiver.vm.Vm.step.
Notation Next := Quiver.vm.Vm.Next.
Notation ext := Quiver.vm.Vm.ext.

Definition code_at (C : list instr) (pc : nat) (c : list instr) : Prop :=
  exists pre post, C = pre ++ c ++ post /\ length pre = pc.

Lemma code_at_head : forall C pc i c, code_at C pc (i :: c) -> nth_error C pc = Some i /\ code_at C (S pc) c.
Proof.
  intros C pc i c (pre & post & -> & <-). split.
  - rewrite nth_error_app2 by lia. rewrite Nat.sub_diag. reflexivity.
  - exists (pre ++ [i]), post. split; [rewrite <- app_assoc; reflexivity | rewrite app_length; cbn; lia].
Qed.
Lemma code_at_app : forall C pc c1 c2,
  code_at C pc (c1 ++ c2) -> code_at C pc c1 /\ code_at C (pc + length c1) c2.
Proof.
  intros C pc c1 c2 (pre & post & -> & <-). split.
  - exists pre, (c2 ++ post). rewrite <- app_assoc. auto.
  - exists (pre ++ c1), post. split; [rewrite <- !app_assoc; reflexivity | rewrite app_length; reflexivity].
Qed.

Lemma F2_length : forall A B (R : A -> B -> Prop) a b, Forall2 R a b -> length a = length b.
Proof. induction 1; cbn; congruence. Qed.

Section Sim.
  Variable P : mprogram.
  Variable fn : nat.
  Variable C : list instr.
  Variable caps : nat.
  Hypothesis Hfn : nth_error (p_funcs P) fn = Some (mk_func C caps).
  Variable pool : list Z.
  Variable shapes : list shape.
  (* the tables of the VM program resolve the indices the mirror emits *)
  Hypothesis Hpool : forall z k, const_index pool z = Some k -> nth_error (p_consts P) k = Some (CInt z).
  Hypothesis Hshapes : forall sh t, shape_index shapes sh = Some t -> nth_error (p_tuples P) t = Some (length (snd sh)).
  Hypothesis Hshapes0 : exists r, shapes = nil_shape :: ok_shape :: r.
  Variable base : nat.
  Variable rest : list Quiver.vm.Vm.frame.
  Variable pers : bool.

  (* the machine inside the function `fn`, at `pc` *)
  Definition st (pc : nat) (stk ls : list mvalue) : state :=
    mk_state stk ls (mk_frame fn base caps pc :: rest) pers.

  Inductive star : state -> state -> Prop :=
  | star_refl : forall s, star s s
  | star_step : forall s x s' s'', step P s x = Next s' -> star s' s'' -> star s s''.
  Lemma star_trans : forall a b c, star a b -> star b c -> star a c.
  Proof. intros a b c H. induction H; intros; [assumption|]. econstructor; eauto. Qed.
  Lemma star_one : forall s x s', step P s x = Next s' -> star s s'.
  Proof. intros. econstructor; [eassumption | constructor]. Qed.

  Definition x0 : ext := Quiver.vm.Vm.Build_ext None false.

  Ltac stepper H :=
    unfold st, Quiver.vm.Vm.step; cbn [Quiver.vm.Vm.frames Quiver.vm.Vm.fr_fn Quiver.vm.Vm.fr_pc];
    unfold Quiver.vm.Vm.code_of; rewrite Hfn; cbn [option_map Quiver.vm.Bytecode.f_code]; rewrite H.

  Lemma step_pop : forall pc v stk ls, nth_error C pc = Some IPop ->
    step P (st pc (v :: stk) ls) x0 = Next (st (S pc) stk ls).
  Proof. intros pc v stk ls H. stepper H. reflexivity. Qed.
  Lemma step_const : forall pc z k stk ls, nth_error C pc = Some (IConstant k) -> const_index pool z = Some k ->
    step P (st pc stk ls) x0 = Next (st (S pc) (MInt z :: stk) ls).
  Proof. intros pc z k stk ls H Hk. stepper H. rewrite (Hpool _ _ Hk). reflexivity. Qed.
  Lemma step_dup : forall pc v stk ls, nth_error C pc = Some IDuplicate ->
    step P (st pc (v :: stk) ls) x0 = Next (st (S pc) (v :: v :: stk) ls).
  Proof. intros pc v stk ls H. stepper H. reflexivity. Qed.
  Lemma step_pick : forall pc n v stk ls, nth_error C pc = Some (IPick n) -> nth_error stk n = Some v ->
    step P (st pc stk ls) x0 = Next (st (S pc) (v :: stk) ls).
  Proof. intros pc n v stk ls H Hn. stepper H. cbn [Quiver.vm.Vm.stack]. rewrite Hn. reflexivity. Qed.
  Lemma step_load : forall pc i v stk ls, nth_error C pc = Some (ILoad i) -> nth_error ls (base + i) = Some v ->
    step P (st pc stk ls) x0 = Next (st (S pc) (v :: stk) ls).
  Proof. intros pc i v stk ls H Hn. stepper H. cbn [Quiver.vm.Vm.locals Quiver.vm.Vm.fr_base]. rewrite Hn. reflexivity. Qed.
  Lemma step_store : forall pc v stk ls, nth_error C pc = Some IStore ->
    step P (st pc (v :: stk) ls) x0 = Next (st (S pc) stk (ls ++ [v])).
  Proof. intros pc v stk ls H. stepper H. reflexivity. Qed.
  Lemma step_get : forall pc i t fs v stk ls, nth_error C pc = Some (IGet i) -> nth_error fs i = Some v ->
    step P (st pc (MTuple t fs :: stk) ls) x0 = Next (st (S pc) (v :: stk) ls).
  Proof. intros pc i t fs v stk ls H Hn. stepper H. cbn [Quiver.vm.Vm.stack]. rewrite Hn. reflexivity. Qed.
  Lemma step_not : forall pc v stk ls, nth_error C pc = Some INot ->
    step P (st pc (v :: stk) ls) x0 = Next (st (S pc) ((if mis_nil v then mok else mnil) :: stk) ls).
  Proof. intros pc v stk ls H. stepper H. reflexivity. Qed.
  Lemma step_tuple : forall pc t arity vals stk ls,
    nth_error C pc = Some (ITuple t) -> nth_error (p_tuples P) t = Some arity -> length vals = arity ->
    step P (st pc (rev vals ++ stk) ls) x0 = Next (st (S pc) (MTuple t vals :: stk) ls).
  Proof.
    intros pc t arity vals stk ls H Ht Hl. stepper H. rewrite Ht. cbn [Quiver.vm.Vm.stack].
    assert (Hp : forall vs acc, Quiver.vm.Vm.popn (length vs) (rev vs ++ stk) acc = Some (vs ++ acc, stk)).
    { induction vs as [|a vs IH] using rev_ind; intros acc; [reflexivity|].
      rewrite rev_app_distr, app_length. cbn [rev app length]. rewrite Nat.add_1_r. cbn [Quiver.vm.Vm.popn].
      rewrite IH. rewrite <- app_assoc. reflexivity. }
    subst arity. rewrite Hp, app_nil_r. reflexivity.
  Qed.
  Lemma step_rot2 : forall pc a b stk ls, nth_error C pc = Some (IRotate 2) ->
    step P (st pc (a :: b :: stk) ls) x0 = Next (st (S pc) (b :: a :: stk) ls).
  Proof. intros pc a b stk ls H. stepper H. reflexivity. Qed.
  Lemma step_jump : forall pc off stk ls, nth_error C pc = Some (IJump off) ->
    (0 <= Z.of_nat pc + off + 1 <= Z.of_nat (length C)) ->
    step P (st pc stk ls) x0 = Next (st (Z.to_nat (Z.of_nat pc + off + 1)) stk ls).
  Proof.
    intros pc off stk ls H Hr. stepper H. unfold Quiver.vm.Vm.jump_target.
    destruct ((Z.of_nat pc + off + 1 <? 0) || (Z.of_nat (length C) <? Z.of_nat pc + off + 1)) eqn:Hb.
    - apply orb_true_iff in Hb. destruct Hb as [Hb | Hb]; apply Z.ltb_lt in Hb; lia.
    - reflexivity.
  Qed.
  Lemma step_jumpif_fall : forall pc off v stk ls, nth_error C pc = Some (IJumpIf off) -> mis_nil v = true ->
    step P (st pc (v :: stk) ls) x0 = Next (st (S pc) stk ls).
  Proof. intros pc off v stk ls H Hn. stepper H. cbn [Quiver.vm.Vm.stack]. rewrite Hn. reflexivity. Qed.
  Lemma step_jumpif_take : forall pc off v stk ls, nth_error C pc = Some (IJumpIf off) -> mis_nil v = false ->
    (0 <= Z.of_nat pc + off + 1 <= Z.of_nat (length C)) ->
    step P (st pc (v :: stk) ls) x0 = Next (st (Z.to_nat (Z.of_nat pc + off + 1)) stk ls).
  Proof.
    intros pc off v stk ls H Hn Hr. stepper H. cbn [Quiver.vm.Vm.stack]. rewrite Hn. unfold Quiver.vm.Vm.jump_target.
    destruct ((Z.of_nat pc + off + 1 <? 0) || (Z.of_nat (length C) <? Z.of_nat pc + off + 1)) eqn:Hb.
    - apply orb_true_iff in Hb. destruct Hb as [Hb | Hb]; apply Z.ltb_lt in Hb; lia.
    - reflexivity.
  Qed.

  (* ---------------------------------------------------------------------------------------
     values and scopes of the two worlds *)
  Inductive vrel : value -> mvalue -> Prop :=
  | vr_int : forall z, vrel (VInt z) (MInt z)
  | vr_tup : forall name fs t mfs,
      shape_index shapes (name, map fst fs) = Some t ->
      Forall2 (fun f m => vrel (snd f) m) fs mfs ->
      vrel (VTuple name fs) (MTuple t mfs).

  Lemma shape_index_nil : shape_index shapes nil_shape = Some Quiver.vm.Bytecode.NIL.
  Proof. destruct Hshapes0 as [r ->]. reflexivity. Qed.
  Lemma shape_index_ok : shape_index shapes ok_shape = Some Quiver.vm.Bytecode.OK.
  Proof. destruct Hshapes0 as [r ->]. reflexivity. Qed.
  Lemma vrel_nil : vrel vnil mnil.
  Proof. apply vr_tup; [apply shape_index_nil | constructor]. Qed.
  Lemma vrel_ok : vrel vok mok.
  Proof. apply vr_tup; [apply shape_index_ok | constructor]. Qed.

  Lemma vrel_is_nil : forall v mv, vrel v mv -> mis_nil mv = is_nil v.
  Proof.
    intros v mv H. inversion H as [z|name fs t mfs Hs Hf]; subst; [reflexivity|].
    destruct Hf as [|[l x] m fs' mfs' Hx Hr]; [|destruct name; reflexivity].
    cbn [map] in Hs. destruct Hshapes0 as [r Hsh]. rewrite Hsh in Hs. unfold shape_index in Hs. cbn [index_from] in Hs.
    destruct name as [a|].
    - cbn in Hs. destruct (shape_eqb (Some a, []) ok_shape).
      + inversion Hs; reflexivity.
      + cbn [is_nil Quiver.vm.Bytecode.is_nil].
        assert (Ht : (2 <= t)%nat).
        { clear - Hs. revert Hs. generalize 2%nat. induction r as [|y r IH]; intros n Hs; [discriminate|].
          cbn [index_from] in Hs. destruct (shape_eqb (Some a, []) y); [inversion Hs; lia | apply IH in Hs; lia]. }
        destruct t as [|[|t]]; try lia. reflexivity.
    - cbn in Hs. inversion Hs. reflexivity.
  Qed.

  Lemma vrel_not_callable : forall v mv, vrel v mv -> is_callable v = false.
  Proof. intros v mv H. inversion H; reflexivity. Qed.

  (* locals of the frame (from its base) against the scope: one slot per binding, oldest first *)
  Inductive erel : scope -> env -> list mvalue -> Prop :=
  | erel_param : forall mv, erel [None] [] [mv]
  | erel_push : forall sc e ls x v mv,
      erel sc e ls -> vrel v mv -> x <> a_star -> erel (sc ++ [Some x]) ((x, v) :: e) (ls ++ [mv]).

  Lemma erel_length : forall sc e ls, erel sc e ls -> length ls = length sc.
  Proof. induction 1; [reflexivity|]. rewrite !app_length. cbn. lia. Qed.

  Lemma scope_lookup_from_app : forall sc i x y,
    scope_lookup_from i (sc ++ [Some y]) x =
    if x =? y then Some (i + length sc)%nat else scope_lookup_from i sc x.
  Proof.
    induction sc as [|s r IH]; intros i x y; cbn [app scope_lookup_from length].
    - destruct (x =? y); [f_equal; lia | reflexivity].
    - rewrite IH. destruct (x =? y); [f_equal; lia | reflexivity].
  Qed.

  Lemma erel_no_star : forall sc e ls, erel sc e ls -> lookup a_star e = None.
  Proof.
    induction 1; [reflexivity|]. cbn [lookup]. destruct (a_star =? x) eqn:Hx; [apply Z.eqb_eq in Hx; congruence | assumption].
  Qed.

  Lemma erel_lookup : forall sc e ls, erel sc e ls -> forall x v,
    lookup_var x e = Some v ->
    exists i mv, scope_lookup sc x = Some i /\ nth_error ls i = Some mv /\ vrel v mv.
  Proof.
    intros sc e ls H x v Hl. unfold lookup_var in Hl. rewrite (erel_no_star _ _ _ H) in Hl.
    destruct (lookup x e) as [v0|] eqn:Hx; [|discriminate]. inversion Hl; subst v0. clear Hl.
    induction H as [mv|sc e ls y w mv H IH Hv Hy]; [discriminate|].
    unfold scope_lookup. rewrite scope_lookup_from_app. cbn [lookup] in Hx.
    destruct (x =? y).
    - inversion Hx; subst w. exists (length sc), mv. repeat split; [|assumption].
      rewrite <- (erel_length _ _ _ H). rewrite nth_error_app2 by lia. rewrite Nat.sub_diag. reflexivity.
    - destruct (IH Hx) as (i & mv0 & Hi & Hn & Hr). exists i, mv0. repeat split; try assumption.
      rewrite nth_error_app1; [assumption|]. apply nth_error_Some. congruence.
  Qed.

  (* ---------------------------------------------------------------------------------------
     code segments *)
  Lemma code_at_bound : forall pc c, code_at C pc c -> (pc + length c <= length C)%nat.
  Proof. intros pc c (pre & post & -> & <-). rewrite !app_length. lia. Qed.

  Lemma gets_exec : forall path c, gets path = Some c ->
    forall v v' w mv pc stk ls, access_all v path = Ret v' w -> vrel v mv -> code_at C pc c ->
    exists mv', star (st pc (mv :: stk) ls) (st (pc + length c) (mv' :: stk) ls) /\ vrel v' mv'.
  Proof.
    induction path as [|p r IH]; intros c Hc v v' w mv pc stk ls Ha Hv Hat; cbn [gets] in Hc.
    - inversion Hc; subst c. cbn in Ha. inversion Ha; subst. exists mv. rewrite Nat.add_0_r. split; [constructor | assumption].
    - destruct p as [l|i]; [discriminate|]. destruct (i <? 0) eqn:Hi; [discriminate|].
      destruct (gets r) as [cr|] eqn:Hr; [|discriminate]. inversion Hc; subst c. clear Hc.
      cbn [access_all] in Ha. destruct (access_one v (Index i)) as [x wx| | |] eqn:H1; try discriminate.
      cbn [bind] in Ha. destruct (access_all x r) as [y wy| | |] eqn:H2; try discriminate. cbn in Ha. inversion Ha; subst y.
      inversion Hv as [z|name fs t mfs Hs Hf]; subst; [discriminate|]. cbn [access_one] in H1. rewrite Hi in H1.
      destruct (nth_error fs (Z.to_nat i)) as [[lf xf]|] eqn:Hn; [|discriminate]. inversion H1; subst xf.
      assert (Hm : exists mx, nth_error mfs (Z.to_nat i) = Some mx /\ vrel x mx).
      { clear - Hf Hn. revert Hn. generalize (Z.to_nat i). induction Hf as [|f m fs' mfs' Hfm _ IHf]; intros n Hn; destruct n; try discriminate.
        - cbn in Hn. inversion Hn; subst f. exists m. split; [reflexivity | exact Hfm].
        - apply IHf. exact Hn. }
      destruct Hm as (mx & Hmx & Hvx).
      destruct (code_at_head _ _ _ _ Hat) as [Hi0 Hat'].
      destruct (IH cr eq_refl x v' wy mx (S pc) stk ls H2 Hvx Hat') as (mv' & Hst & Hv').
      exists mv'. split; [|assumption]. cbn [length]. replace (pc + S (length cr))%nat with (S pc + length cr)%nat by lia.
      eapply star_step; [eapply step_get; eassumption | exact Hst].
  Qed.

  Lemma binder_exec : forall pc mv stk ls, code_at C pc binder_code ->
    star (st pc (mv :: stk) ls) (st (pc + length binder_code) (mok :: stk) (ls ++ [mv])).
  Proof.
    intros pc mv stk ls Hat. pose proof (code_at_bound _ _ Hat) as Hb. cbn [binder_code length] in Hb.
    unfold binder_code in Hat.
    destruct (code_at_head _ _ _ _ Hat) as [H0 Hat1]. destruct (code_at_head _ _ _ _ Hat1) as [H1 Hat2].
    destruct (code_at_head _ _ _ _ Hat2) as [H2 Hat3]. destruct (code_at_head _ _ _ _ Hat3) as [H3 Hat4].
    destruct (code_at_head _ _ _ _ Hat4) as [H4 Hat5]. destruct (code_at_head _ _ _ _ Hat5) as [H5 Hat6].
    destruct (code_at_head _ _ _ _ Hat6) as [H6 _].
    eapply star_step. { apply step_jump; [exact H0 | lia]. }
    replace (Z.to_nat (Z.of_nat pc + 1 + 1)) with (S (S pc)) by lia.
    eapply star_step. { apply step_dup; exact H2. }
    eapply star_step. { apply step_store; exact H3. }
    eapply star_step. { apply step_pop; exact H4. }
    eapply star_step.
    { apply (step_tuple (S (S (S (S (S pc))))) Quiver.vm.Bytecode.OK 0%nat [] stk); [exact H5 | | reflexivity].
      exact (Hshapes _ _ shape_index_ok). }
    eapply star_step. { apply step_jump; [exact H6 | lia]. }
    cbn [length]. replace (Z.to_nat (Z.of_nat (S (S (S (S (S (S pc)))))) + 4 + 1)) with (pc + 11)%nat by lia.
    constructor.
  Qed.

  (* the inner loops of the mirror, named, and the unfolding equations (by conversion) *)
  Fixpoint fields_go (fs : list tuple_field) (i : nat) (sc : scope) (labels : list (option atom)) {struct fs}
    : option (list instr * scope * list (option atom)) :=
    match fs with
    | [] => Some ([], sc, labels)
    | TupleField l (FChain c) :: r =>
        if (match l with Some _ => existsb (oatom_eqb l) labels | None => false end) then None
        else
        match compile_chain pool shapes sc c with
        | Some (cc, sc1) =>
            match fields_go r (S i) sc1 (labels ++ [l]) with
            | Some (cr, sc2, ls) => Some (IPick i :: cc ++ cr, sc2, ls)
            | None => None
            end
        | None => None
        end
    | TupleField _ (FSpread _) :: _ => None
    end.
  Fixpoint terms_go (ts : list term) (sc : scope) {struct ts} : option (list instr * scope) :=
    match ts with
    | [] => Some ([], sc)
    | t :: r =>
        match compile_term pool shapes sc t with
        | Some (ct, sc1) =>
            match terms_go r sc1 with
            | Some (cr, sc2) => Some (ct ++ cr, sc2)
            | None => None
            end
        | None => None
        end
    end.
  Lemma compile_term_tuple : forall sc name fs,
    compile_term pool shapes sc (Tuple name fs) =
    match name with
    | Inherit => None
    | _ => match fields_go fs O sc [] with
           | Some (cf, sc', labels) =>
               match shape_index shapes (match name with Named a => Some a | _ => None end, labels) with
               | Some t => Some (cf ++ [ITuple t; IRotate 2; IPop], sc')
               | None => None
               end
           | None => None
           end
    end.
  Proof. reflexivity. Qed.
  Lemma compile_chain_eq : forall sc mp ts,
    compile_chain pool shapes sc (Chain mp ts) =
    match terms_go ts sc with
    | Some (ct, sc1) =>
        match mp with
        | None => Some (ct, sc1)
        | Some (MIdentifier x) => if x =? a_star then None else Some (ct ++ binder_code, sc1 ++ [Some x])
        | Some _ => None
        end
    | None => None
    end.
  Proof. reflexivity. Qed.

  (* ---------------------------------------------------------------------------------------
     the simulation *)
  Variable tf : nat.
  Variable cf : value -> value -> stats -> res value.
  Variable imf : list atom -> res value.

  (* `ev` (a judgement of the evaluator) is simulated by the code `c`, which turns scope sc into sc' *)
  Definition SIM (ev : env -> value -> res (value * env)) (c : list instr) (sc sc' : scope) : Prop :=
    forall e v v' e' w pc stk ls mv L,
      ev e v = Ret (v', e') w -> code_at C pc c -> erel sc e ls -> vrel v mv -> length L = base ->
      exists mv' ls',
        star (st pc (mv :: stk) (L ++ ls)) (st (pc + length c) (mv' :: stk) (L ++ ls')) /\
        vrel v' mv' /\ erel sc' e' ls'.

  Lemma add_field_fresh : forall acc l w,
    (match l with Some _ => existsb (oatom_eqb l) (map fst acc) | None => false end) = false ->
    add_field acc l w = acc ++ [(l, w)].
  Proof.
    intros acc [x|] w H; [|reflexivity]. unfold add_field.
    assert (Hr : replace_field x w acc = None).
    { induction acc as [|[[k|] v] r IH]; [reflexivity| |].
      - cbn [map fst existsb oatom_eqb] in H. apply orb_false_iff in H. destruct H as [Hk Hr].
        cbn [replace_field]. rewrite Hk. rewrite (IH Hr). reflexivity.
      - cbn [map fst existsb oatom_eqb] in H. cbn [replace_field]. rewrite (IH H). reflexivity. }
    rewrite Hr. reflexivity.
  Qed.

  Lemma binder_sim : forall x, (x =? a_star) = false ->
    forall sc, SIM (fun e v => do_match tf (mkCtx vnil None []) e (MIdentifier x) v) binder_code sc (sc ++ [Some x]).
  Proof.
    intros x Hx sc e v v' e' w pc stk ls mv L Hev Hat Her Hv HL.
    cbn in Hev. inversion Hev; subst. exists mok, (ls ++ [mv]). split; [|split].
    - rewrite app_assoc. apply binder_exec. exact Hat.
    - apply vrel_ok.
    - constructor; try assumption. intros ->. cbn in Hx. discriminate.
  Qed.

  Lemma do_match_bare : forall c e x v, do_match tf c e (MIdentifier x) v = Ret (vok, (x, v) :: e) st0.
  Proof. reflexivity. Qed.

  Theorem compile_simulates :
    (forall t ctx sc c sc', compile_term pool shapes sc t = Some (c, sc') ->
                            SIM (eval_term tf cf imf ctx t) c sc sc') /\
    (forall ch ctx sc c sc', compile_chain pool shapes sc ch = Some (c, sc') ->
                             SIM (eval_chain tf cf imf ctx ch) c sc sc').
  Proof.
    assert (H : (forall t ctx sc c sc', compile_term pool shapes sc t = Some (c, sc') -> SIM (eval_term tf cf imf ctx t) c sc sc') /\
                (forall ch ctx sc c sc', compile_chain pool shapes sc ch = Some (c, sc') -> SIM (eval_chain tf cf imf ctx ch) c sc sc') /\
                (forall s : sequence, True) /\ (forall b : expression, True)).
    { apply (ast_mutind
        (fun t => forall ctx sc c sc', compile_term pool shapes sc t = Some (c, sc') -> SIM (eval_term tf cf imf ctx t) c sc sc')
        (fun f => match f with
                  | TupleField _ (FChain ch) => forall ctx sc c sc', compile_chain pool shapes sc ch = Some (c, sc') -> SIM (eval_chain tf cf imf ctx ch) c sc sc'
                  | _ => True
                  end)
        (fun _ => True)
        (fun ch => forall ctx sc c sc', compile_chain pool shapes sc ch = Some (c, sc') -> SIM (eval_chain tf cf imf ctx ch) c sc sc')
        (fun _ => True) (fun _ => True) (fun _ => True)); try (intros; exact I); try (intros; discriminate).
      - (* Literal *)
        intros [z|bs] ctx sc c sc' Hc; [|discriminate]. cbn [compile_term] in Hc.
        destruct (const_index pool z) as [k|] eqn:Hk; [|discriminate]. inversion Hc; subst c sc'. clear Hc.
        intros e v v' e' w pc stk ls mv L Hev Hat Her Hv HL. cbn in Hev. inversion Hev; subst.
        destruct (code_at_head _ _ _ _ Hat) as [H0 Hat1]. destruct (code_at_head _ _ _ _ Hat1) as [H1 _].
        exists (MInt z), ls. split; [|split; [constructor | assumption]].
        eapply star_step; [apply step_pop; exact H0|]. eapply star_step; [eapply step_const; eassumption|].
        cbn [length]. replace (pc + 2)%nat with (S (S pc)) by lia. constructor.
      - (* Tuple *)
        intros name fs Hfs ctx sc c sc' Hc. rewrite compile_term_tuple in Hc.
        pose (go := fields_go).
        assert (Hgo : forall fs, Forall (fun f => match f with
                                                  | TupleField _ (FChain ch) => forall ctx sc c sc', compile_chain pool shapes sc ch = Some (c, sc') -> SIM (eval_chain tf cf imf ctx ch) c sc sc'
                                                  | _ => True
                                                  end) fs ->
                  forall i sc labels cfs sc' labels', go fs i sc labels = Some (cfs, sc', labels') ->
                  forall e v acc inh r inh' e' w pc stk ls mvals mv L,
                    fields_with (eval_chain tf cf imf ctx) fs e v acc inh = Ret (r, inh', e') w ->
                    code_at C pc cfs -> erel sc e ls -> vrel v mv -> length L = base ->
                    length mvals = i -> Forall2 (fun f m => vrel (snd f) m) acc mvals -> map fst acc = labels ->
                    exists mvals' ls',
                      star (st pc (rev mvals ++ mv :: stk) (L ++ ls)) (st (pc + length cfs) (rev mvals' ++ mv :: stk) (L ++ ls')) /\
                      Forall2 (fun f m => vrel (snd f) m) r mvals' /\ map fst r = labels' /\ erel sc' e' ls').
        { clear Hc. intros fs0 HF. induction HF as [|[l [ch|src]] r0 Hf _ IH];
            intros i sc0 labels cfs sc0' labels' Hg e v acc inh r inh' e' w pc stk ls mvals mv L Hev Hat Her Hv HL Hlen Hacc Hlab.
          - cbn in Hg. inversion Hg; subst. cbn in Hev. inversion Hev; subst.
            exists mvals, ls. rewrite Nat.add_0_r. repeat split; try assumption. constructor.
          - unfold go in *. cbn [fields_go] in Hg.
            destruct (match l with Some _ => existsb (oatom_eqb l) labels | None => false end) eqn:Hfresh; [discriminate|].
            destruct (compile_chain pool shapes sc0 ch) as [[cc sc1]|] eqn:Hcc; [|discriminate].
            destruct (fields_go r0 (S i) sc1 (labels ++ [l])) as [[[cr sc2] ls2]|] eqn:Hgr; [|discriminate].
            inversion Hg; subst cfs sc0' labels'. clear Hg.
            cbn [fields_with] in Hev.
            destruct (eval_chain tf cf imf ctx ch e v) as [[x e1] w1| | |] eqn:Hch; try discriminate. cbn [bind fst snd] in Hev.
            destruct (fields_with (eval_chain tf cf imf ctx) r0 e1 v (add_field acc l x) inh) as [[[r1 inh1] e2] w2| | |] eqn:Hr; try discriminate.
            cbn in Hev. inversion Hev; subst r1 inh1 e2. clear Hev.
            destruct (code_at_head _ _ _ _ Hat) as [Hpick Hat1]. destruct (code_at_app _ _ _ _ Hat1) as [Hatc Hatr].
            destruct (Hf ctx sc0 cc sc1 Hcc e v x e1 w1 (S pc) (rev mvals ++ mv :: stk) ls mv L Hch Hatc Her Hv HL) as (mx & ls1 & Hst1 & Hvx & Her1).
            rewrite <- Hlab in Hfresh. rewrite (add_field_fresh acc l x Hfresh) in Hr.
            destruct (IH (S i) sc1 (labels ++ [l]) cr sc2 ls2 Hgr e1 v (acc ++ [(l, x)]) inh r inh' e' w2 (S pc + length cc)%nat stk ls1 (mvals ++ [mx]) mv L Hr Hatr Her1 Hv HL)
              as (mvals' & ls' & Hst2 & Hr' & Hlab' & Her').
            { rewrite app_length. cbn. lia. }
            { apply Forall2_app; [assumption | constructor; [exact Hvx | constructor]]. }
            { rewrite map_app, Hlab. reflexivity. }
            exists mvals', ls'. repeat split; try assumption.
            eapply star_step.
            { apply (step_pick pc i mv); [exact Hpick|]. rewrite nth_error_app2 by (rewrite rev_length; lia).
              rewrite rev_length, Hlen, Nat.sub_diag. reflexivity. }
            eapply star_trans; [exact Hst1|].
            cbn [length]. rewrite app_length.
            replace (pc + S (length cc + length cr))%nat with (S pc + length cc + length cr)%nat by lia.
            rewrite rev_app_distr in Hst2. cbn [rev app] in Hst2. exact Hst2.
          - unfold go in *. cbn [fields_go] in Hg. discriminate. }
        destruct name as [|a|]; [| |discriminate]; unfold go in *.
        + destruct (fields_go fs 0%nat sc []) as [[[cfs sc1] labels]|] eqn:Hg; [|discriminate].
          destruct (shape_index shapes (None, labels)) as [t|] eqn:Ht; [|discriminate]. inversion Hc; subst c sc'. clear Hc.
          intros e v v' e' w pc stk ls mv L Hev Hat Her Hv HL. rewrite eval_term_tuple in Hev.
          destruct (fields_with (eval_chain tf cf imf ctx) fs e v [] None) as [[[r inh] e1] w1| | |] eqn:Hf; try discriminate.
          cbn in Hev. inversion Hev; subst v' e'. clear Hev.
          destruct (code_at_app _ _ _ _ Hat) as [Hatf Hatt].
          destruct (Hgo fs Hfs 0%nat sc [] cfs sc1 labels Hg e v [] None r inh e1 w1 pc stk ls [] mv L Hf Hatf Her Hv HL eq_refl (Forall2_nil _) eq_refl)
            as (mvals & ls' & Hst & Hr & Hlab & Her').
          destruct (code_at_head _ _ _ _ Hatt) as [Ht0 Hatt1]. destruct (code_at_head _ _ _ _ Hatt1) as [Ht1 Hatt2].
          destruct (code_at_head _ _ _ _ Hatt2) as [Ht2 _].
          exists (MTuple t mvals), ls'. split; [|split; [|assumption]].
          * eapply star_trans; [exact Hst|].
            eapply star_step.
            { apply (step_tuple (pc + length cfs) t (length labels) mvals (mv :: stk)); [exact Ht0 | exact (Hshapes _ _ Ht) |].
              rewrite <- Hlab, map_length. symmetry. eapply F2_length. exact Hr. }
            eapply star_step; [apply step_rot2; exact Ht1|]. eapply star_step; [apply step_pop; exact Ht2|].
            rewrite app_length. cbn [length]. replace (pc + (length cfs + 3))%nat with (S (S (S (pc + length cfs)))) by lia. constructor.
          * apply vr_tup; [rewrite Hlab; exact Ht | exact Hr].
        + destruct (fields_go fs 0%nat sc []) as [[[cfs sc1] labels]|] eqn:Hg; [|discriminate].
          destruct (shape_index shapes (Some a, labels)) as [t|] eqn:Ht; [|discriminate]. inversion Hc; subst c sc'. clear Hc.
          intros e v v' e' w pc stk ls mv L Hev Hat Her Hv HL. rewrite eval_term_tuple in Hev.
          destruct (fields_with (eval_chain tf cf imf ctx) fs e v [] None) as [[[r inh] e1] w1| | |] eqn:Hf; try discriminate.
          cbn in Hev. inversion Hev; subst v' e'. clear Hev.
          destruct (code_at_app _ _ _ _ Hat) as [Hatf Hatt].
          destruct (Hgo fs Hfs 0%nat sc [] cfs sc1 labels Hg e v [] None r inh e1 w1 pc stk ls [] mv L Hf Hatf Her Hv HL eq_refl (Forall2_nil _) eq_refl)
            as (mvals & ls' & Hst & Hr & Hlab & Her').
          destruct (code_at_head _ _ _ _ Hatt) as [Ht0 Hatt1]. destruct (code_at_head _ _ _ _ Hatt1) as [Ht1 Hatt2].
          destruct (code_at_head _ _ _ _ Hatt2) as [Ht2 _].
          exists (MTuple t mvals), ls'. split; [|split; [|assumption]].
          * eapply star_trans; [exact Hst|].
            eapply star_step.
            { apply (step_tuple (pc + length cfs) t (length labels) mvals (mv :: stk)); [exact Ht0 | exact (Hshapes _ _ Ht) |].
              rewrite <- Hlab, map_length. symmetry. eapply F2_length. exact Hr. }
            eapply star_step; [apply step_rot2; exact Ht1|]. eapply star_step; [apply step_pop; exact Ht2|].
            rewrite app_length. cbn [length]. replace (pc + (length cfs + 3))%nat with (S (S (S (pc + length cfs)))) by lia. constructor.
          * apply vr_tup; [rewrite Hlab; exact Ht | exact Hr].
      - (* Match *)
        intros p ctx sc c sc' Hc. destruct p; try discriminate. cbn [compile_term] in Hc.
        destruct (x =? a_star) eqn:Hx; [discriminate|]. inversion Hc; subst c sc'. clear Hc.
        intros e v v' e' w pc stk ls mv L Hev Hat Her Hv HL. rewrite eval_term_match, do_match_bare in Hev.
        inversion Hev; subst. exists mok, (ls ++ [mv]). split; [|split].
        + rewrite app_assoc. apply binder_exec. exact Hat.
        + apply vrel_ok.
        + constructor; try assumption. intros ->. cbn in Hx. discriminate.
      - (* Access *)
        intros [src path] ctx sc c sc' Hc. cbn [compile_term] in Hc.
        destruct src as [[y| | |p| |b|[y|]|]|]; try discriminate.
        + (* identifier *)
          destruct (scope_lookup sc y) as [i|] eqn:Hi; [|discriminate].
          destruct (gets path) as [cg|] eqn:Hg; [|discriminate]. inversion Hc; subst c sc'. clear Hc.
          intros e v v' e' w pc stk ls mv L Hev Hat Her Hv HL. cbn [Lang.eval_term] in Hev.
          destruct (lookup_var y e) as [bv|] eqn:Hl; [|discriminate].
          destruct (erel_lookup _ _ _ Her _ _ Hl) as (i' & mb & Hi' & Hn & Hvb). rewrite Hi in Hi'. inversion Hi'; subst i'.
          unfold with_env in Hev. destruct (access_all bv path) as [x wx| | |] eqn:Ha; try discriminate.
          destruct (code_at_head _ _ _ _ Hat) as [H0 Hat1]. destruct (code_at_head _ _ _ _ Hat1) as [H1 Hat2].
          destruct (gets_exec path cg Hg bv x wx mb (S (S pc)) stk (L ++ ls) Ha Hvb Hat2) as (mx & Hst & Hvx).
          cbn [bind] in Hev. unfold apply_value in Hev. rewrite (vrel_not_callable _ _ Hvx) in Hev. cbn in Hev.
          inversion Hev; subst v' e'. exists mx, ls. split; [|split; assumption].
          eapply star_step; [apply step_pop; exact H0|].
          eapply star_step. { apply (step_load (S pc) i mb); [exact H1|]. rewrite nth_error_app2 by lia. rewrite HL, Nat.add_comm, Nat.add_sub. exact Hn. }
          cbn [length]. replace (pc + S (S (length cg)))%nat with (S (S pc) + length cg)%nat by lia. exact Hst.
        + (* ripple *)
          destruct (gets path) as [cg|] eqn:Hg; [|discriminate]. inversion Hc; subst c sc'. clear Hc.
          intros e v v' e' w pc stk ls mv L Hev Hat Her Hv HL. cbn [Lang.eval_term] in Hev.
          unfold with_env in Hev. destruct (access_all v path) as [x wx| | |] eqn:Ha; try discriminate.
          cbn in Hev. inversion Hev; subst v' e'.
          destruct (gets_exec path cg Hg v x wx mv pc stk (L ++ ls) Ha Hv Hat) as (mx & Hst & Hvx).
          exists mx, ls. split; [exact Hst | split; assumption].
        + (* postfix *)
          destruct (gets path) as [cg|] eqn:Hg; [|discriminate]. inversion Hc; subst c sc'. clear Hc.
          intros e v v' e' w pc stk ls mv L Hev Hat Her Hv HL. cbn [Lang.eval_term] in Hev.
          unfold with_env in Hev. destruct (access_all v path) as [x wx| | |] eqn:Ha; try discriminate.
          cbn in Hev. inversion Hev; subst v' e'.
          destruct (gets_exec path cg Hg v x wx mv pc stk (L ++ ls) Ha Hv Hat) as (mx & Hst & Hvx).
          exists mx, ls. split; [exact Hst | split; assumption].
      - (* field: chain *) intros n ch Hch. exact Hch.
      - (* Chain *)
        intros mp ts Hts ctx sc c sc' Hc. rewrite compile_chain_eq in Hc.
        pose (go := terms_go).
        assert (Hgo : forall ts0, Forall (fun t => forall ctx sc c sc', compile_term pool shapes sc t = Some (c, sc') -> SIM (eval_term tf cf imf ctx t) c sc sc') ts0 ->
                  forall sc0 c0 sc0', go ts0 sc0 = Some (c0, sc0') ->
                  SIM (terms_with (eval_term tf cf imf ctx) ts0) c0 sc0 sc0').
        { clear Hc. intros ts0 HF. induction HF as [|t r Ht _ IH]; intros sc0 c0 sc0' Hg e v v' e' w pc stk ls mv L Hev Hat Her Hv HL.
          - cbn in Hg. inversion Hg; subst. cbn in Hev. inversion Hev; subst. exists mv, ls. rewrite Nat.add_0_r.
            split; [constructor | split; assumption].
          - unfold go in *. cbn [terms_go] in Hg. destruct (compile_term pool shapes sc0 t) as [[ct sc1]|] eqn:Hct; [|discriminate].
            destruct (terms_go r sc1) as [[cr sc2]|] eqn:Hgr; [|discriminate]. inversion Hg; subst c0 sc0'. clear Hg.
            cbn [terms_with] in Hev. destruct (eval_term tf cf imf ctx t e v) as [[x e1] w1| | |] eqn:Het; try discriminate.
            cbn [bind fst snd] in Hev.
            destruct (terms_with (eval_term tf cf imf ctx) r e1 x) as [[y e2] w2| | |] eqn:Her2; try discriminate.
            cbn in Hev. inversion Hev; subst y e2. clear Hev.
            destruct (code_at_app _ _ _ _ Hat) as [Hat1 Hat2].
            destruct (Ht ctx sc0 ct sc1 Hct e v x e1 w1 pc stk ls mv L Het Hat1 Her Hv HL) as (mx & ls1 & Hst1 & Hvx & Her1).
            destruct (IH sc1 cr sc2 Hgr e1 x v' e' w2 (pc + length ct)%nat stk ls1 mx L Her2 Hat2 Her1 Hvx HL) as (my & ls2 & Hst2 & Hvy & Her2').
            exists my, ls2. split; [|split; assumption]. rewrite app_length, Nat.add_assoc.
            eapply star_trans; eassumption. }
        unfold go in *. destruct (terms_go ts sc) as [[ct sc1]|] eqn:Hg; [|discriminate].
        destruct mp as [p|].
        + destruct p; try discriminate. destruct (x =? a_star) eqn:Hx; [discriminate|]. inversion Hc; subst c sc'. clear Hc.
          intros e v v' e' w pc stk ls mv L Hev Hat Her Hv HL. rewrite eval_chain_some in Hev.
          destruct (terms_with (eval_term tf cf imf ctx) ts e v) as [[y e1] w1| | |] eqn:Hts'; try discriminate.
          cbn [bind fst snd] in Hev. rewrite do_match_bare in Hev. cbn in Hev. inversion Hev; subst v' e'. clear Hev.
          destruct (code_at_app _ _ _ _ Hat) as [Hat1 Hat2].
          destruct (Hgo ts Hts sc ct sc1 Hg e v y e1 w1 pc stk ls mv L Hts' Hat1 Her Hv HL) as (my & ls1 & Hst1 & Hvy & Her1).
          exists mok, (ls1 ++ [my]). split; [|split].
          * eapply star_trans; [exact Hst1|]. rewrite app_length, Nat.add_assoc, app_assoc. apply binder_exec. exact Hat2.
          * apply vrel_ok.
          * constructor; try assumption. intros ->. cbn in Hx. discriminate.
        + inversion Hc; subst c sc'. clear Hc.
          intros e v v' e' w pc stk ls mv L Hev Hat Her Hv HL. rewrite eval_chain_none in Hev.
          exact (Hgo ts Hts sc ct sc1 Hg e v v' e' w pc stk ls mv L Hev Hat Her Hv HL). }
    tauto.
  Qed.

  (* sequences: after a short-circuit the later binders do not exist, so the final scope is only
     known to be SOME scope of the locals *)
  Definition SIMseq (ev : env -> value -> res (value * env)) (c : list instr) (sc : scope) : Prop :=
    forall e v v' e' w pc stk ls mv L,
      ev e v = Ret (v', e') w -> code_at C pc c -> erel sc e ls -> vrel v mv -> length L = base ->
      exists mv' ls' sc'',
        star (st pc (mv :: stk) (L ++ ls)) (st (pc + length c) (mv' :: stk) (L ++ ls')) /\
        vrel v' mv' /\ erel sc'' e' ls'.

  Lemma compile_seq_cons2 : forall sc c1 c2 r,
    compile_seq pool shapes sc (c1 :: c2 :: r) =
    if ends_in_nil_literal c1 then None else
    match compile_chain pool shapes sc c1 with
    | Some (cc, sc1) =>
        match compile_seq pool shapes sc1 (c2 :: r) with
        | Some (cr, sc2) => Some (cc ++ [IDuplicate; INot; IJumpIf (Z.of_nat (length cr))] ++ cr, sc2)
        | None => None
        end
    | None => None
    end.
  Proof. reflexivity. Qed.

  Lemma seq_with_cons2 : forall ev c1 c2 r e v,
    seq_with ev (c1 :: c2 :: r) e v =
    (do x <- ev c1 e v ;; if is_nil (fst x) then Ret (vnil, snd x) ev_short else seq_with ev (c2 :: r) (snd x) (fst x)).
  Proof. reflexivity. Qed.

  Theorem compile_seq_simulates : forall ctx cs sc c sc',
    compile_seq pool shapes sc cs = Some (c, sc') -> SIMseq (seq_with (eval_chain tf cf imf ctx) cs) c sc.
  Proof.
    intros ctx cs. induction cs as [|chn r IH]; intros sc c sc' Hc; [discriminate|].
    destruct compile_simulates as [_ Hchain].
    destruct r as [|c2 r'].
    - cbn [compile_seq] in Hc. intros e v v' e' w pc stk ls mv L Hev Hat Her Hv HL. cbn [seq_with] in Hev.
      destruct (eval_chain tf cf imf ctx chn e v) as [[x e1] w1| | |] eqn:Hch; try discriminate. cbn in Hev. inversion Hev; subst v' e'.
      destruct (Hchain chn ctx sc c sc' Hc e v x e1 w1 pc stk ls mv L Hch Hat Her Hv HL) as (mx & ls1 & Hst & Hvx & Her1).
      exists mx, ls1, sc'. auto.
    - rewrite compile_seq_cons2 in Hc. destruct (ends_in_nil_literal chn); [discriminate|].
      destruct (compile_chain pool shapes sc chn) as [[cc sc1]|] eqn:Hcc; [|discriminate].
      destruct (compile_seq pool shapes sc1 (c2 :: r')) as [[cr sc2]|] eqn:Hcr; [|discriminate].
      inversion Hc; subst c sc'. clear Hc.
      intros e v v' e' w pc stk ls mv L Hev Hat Her Hv HL. rewrite seq_with_cons2 in Hev.
      destruct (eval_chain tf cf imf ctx chn e v) as [[x e1] w1| | |] eqn:Hch; try discriminate. cbn [bind fst snd] in Hev.
      destruct (code_at_app _ _ _ _ Hat) as [Hat1 Hat2].
      destruct (Hchain chn ctx sc cc sc1 Hcc e v x e1 w1 pc stk ls mv L Hch Hat1 Her Hv HL) as (mx & ls1 & Hst1 & Hvx & Her1).
      pose proof (code_at_bound _ _ Hat) as Hbound. rewrite !app_length in Hbound. cbn [length] in Hbound.
      destruct (code_at_head _ _ _ _ Hat2) as [Hd Hat3]. destruct (code_at_head _ _ _ _ Hat3) as [Hn Hat4].
      destruct (code_at_head _ _ _ _ Hat4) as [Hj Hat5].
      assert (Hprefix : star (st pc (mv :: stk) (L ++ ls))
                             (st (S (S (pc + length cc))) ((if mis_nil mx then mok else mnil) :: mx :: stk) (L ++ ls1))).
      { eapply star_trans; [exact Hst1|]. eapply star_step; [apply step_dup; exact Hd|].
        eapply star_step; [apply step_not; exact Hn|]. constructor. }
      rewrite (vrel_is_nil _ _ Hvx) in Hprefix.
      destruct (is_nil x) eqn:Hnil.
      + (* short-circuit: the jump is taken *)
        cbn in Hev. inversion Hev; subst v' e'. apply is_nil_true in Hnil. subst x.
        exists mx, ls1, sc1. split; [|split; assumption].
        eapply star_trans; [exact Hprefix|]. eapply star_step.
        { apply step_jumpif_take; [exact Hj | reflexivity | lia]. }
        rewrite !app_length. cbn [length].
        replace (Z.to_nat (Z.of_nat (S (S (pc + length cc))) + Z.of_nat (length cr) + 1)) with (pc + (length cc + S (S (S (length cr)))))%nat by lia.
        constructor.
      + (* the next step starts from the value *)
        destruct (seq_with (eval_chain tf cf imf ctx) (c2 :: r') e1 x) as [[y e2] w2| | |] eqn:Hr2; try discriminate.
        cbn in Hev. inversion Hev; subst y e2. clear Hev.
        destruct (IH sc1 cr sc2 Hcr e1 x v' e' w2 (S (S (S (pc + length cc)))) stk ls1 mx L Hr2 Hat5 Her1 Hvx HL) as (my & ls2 & sc'' & Hst2 & Hvy & Her2).
        exists my, ls2, sc''. split; [|split; assumption].
        eapply star_trans; [exact Hprefix|]. eapply star_step.
        { eapply step_jumpif_fall; [exact Hj | reflexivity]. }
        rewrite !app_length. cbn [length].
        replace (pc + (length cc + S (S (S (length cr)))))%nat with (S (S (S (pc + length cc))) + length cr)%nat by lia.
        exact Hst2.
  Qed.
End Sim.

(* ------------------------------------------------------------------------------------------
   Whole programs of the fragment: the VM started on the compiled entry function (as
   `spawn_process` starts it: the nil argument on the stack, no locals) reaches the end of the code
   with the evaluator's value on the stack, pops the frame and finishes with that value. *)
Theorem compile_program_correct :
  forall (P : mprogram) (fn : nat) (pool : list Z) (shapes : list shape) (p : program) (code : list instr) (pers : bool),
    compile_program pool shapes p = Some code ->
    nth_error (p_funcs P) fn = Some (mk_func code 0) ->
    (forall z k, const_index pool z = Some k -> nth_error (p_consts P) k = Some (CInt z)) ->
    (forall sh t, shape_index shapes sh = Some t -> nth_error (p_tuples P) t = Some (length (snd sh))) ->
    (exists r, shapes = nil_shape :: ok_shape :: r) ->
    forall mods n v w, eval_program mods n p = Ret v w ->
    exists mv ls,
      vrel shapes v mv /\
      star P (Quiver.vm.Vm.init_state fn [] mnil pers) (st fn 0 0 [] pers (length code) [mv] ls) /\
      (forall x, step P (st fn 0 0 [] pers (length code) [mv] ls) x =
                 Next (mk_state [mv] (if pers then ls else []) [] pers)) /\
      (forall x, step P (mk_state [mv] (if pers then ls else []) [] pers) x =
                 Quiver.vm.Vm.Finished mv (mk_state [] (if pers then ls else []) [] pers)).
Proof.
  intros P fn pool shapes [ss] code pers Hc Hfn Hpool Hshapes Hsh0 mods n v w Hev.
  destruct n as [|n]; [discriminate|]. unfold eval_program, run_program in Hev.
  unfold compile_program in Hc. destruct (collect_aliases ss) eqn:Hal; [|discriminate].
  destruct (compile_seq pool shapes [None] (collect_chains ss)) as [[c sc']|] eqn:Hcs; [|discriminate].
  inversion Hc; subst code. clear Hc.
  destruct (seq_with (eval_chain n (call mods n) (eval_import mods n) (mkCtx vnil None [])) (collect_chains ss) [] vnil)
    as [[v' e'] w'| | |] eqn:Hs; try discriminate.
  cbn in Hev. inversion Hev; subst v'. clear Hev.
  set (C := IStore :: ILoad 0 :: c) in *.
  assert (Hat : code_at C 2 c). { exists [IStore; ILoad 0], []. rewrite app_nil_r. split; reflexivity. }
  destruct (compile_seq_simulates P fn C 0 Hfn pool shapes Hpool Hshapes Hsh0 0%nat [] pers n (call mods n) (eval_import mods n)
              (mkCtx vnil None []) (collect_chains ss) [None] c sc' Hcs [] vnil v e' w' 2%nat [] [mnil] mnil []
              Hs Hat (erel_param shapes mnil) (vrel_nil P shapes Hshapes Hsh0) eq_refl)
    as (mv & ls & sc'' & Hst & Hv & Her).
  exists mv, ls. split; [exact Hv|]. split; [|split].
  - eapply star_step with (x := x0).
    { change (Quiver.vm.Vm.init_state fn [] mnil pers) with (st fn 0 0 [] pers 0 [mnil] []).
      apply (step_store P fn C 0 Hfn 0 [] pers 0 mnil [] []). reflexivity. }
    eapply star_step with (x := x0).
    { apply (step_load P fn C 0 Hfn 0 [] pers 1 0 mnil [] [mnil]); reflexivity. }
    cbn [app] in Hst. exact Hst.
  - intros x. unfold st, Quiver.vm.Vm.step. cbn [Quiver.vm.Vm.frames Quiver.vm.Vm.fr_fn Quiver.vm.Vm.fr_pc].
    unfold Quiver.vm.Vm.code_of. rewrite Hfn. cbn [option_map Quiver.vm.Bytecode.f_code].
    rewrite (proj2 (nth_error_None C (length C))) by lia. cbn. destruct pers; reflexivity.
  - intros x. reflexivity.
Qed.

(* non-vacuity: `x = 5, [x, A[l: 2, ~]] .1` compiles (33 instructions, the ones the real compiler
   emits) and evaluates to A[l: 2, Ok] *)
Definition ex_slice_prog : program :=
  Program [StmtExpression (Sequence
    [Chain (Some (MIdentifier 100)) [Literal (LInteger 5)];
     Chain None [Tuple Anonymous
                   [TupleField None (FChain (Chain None [Access (mkAccess (Some (Identifier 100)) [])]));
                    TupleField None (FChain (Chain None
                      [Tuple (Named 200) [TupleField (Some 101) (FChain (Chain None [Literal (LInteger 2)]));
                                          TupleField None (FChain (Chain None [Access (mkAccess (Some Ripple) [])]))]]))];
                 Access (mkAccess None [Index 1])]])].
Example ex_slice :
  exists code, compile_program [5; 2] [nil_shape; ok_shape; (Some 200, [Some 101; None]); (None, [None; None])] ex_slice_prog = Some code /\
               length code = 33%nat /\
  exists w, eval_program [] 3 ex_slice_prog = Ret (VTuple (Some 200) [(Some 101, VInt 2); (None, vok)]) w.
Proof. eexists. split; [vm_compute; reflexivity|]. split; [reflexivity|]. eexists. vm_compute. reflexivity. Qed.

(* ... and, composed with C02_normalize_preserves_value: what the compiler does — normalise the
   blocks, then generate code — computes the value the reference evaluator assigns to the ORIGINAL
   program (for results without function values, which is all the fragment has) *)
Theorem normalize_then_compile_correct :
  forall (P : mprogram) (fn : nat) (pool : list Z) (shapes : list shape) (p : program) (code : list instr) (pers : bool),
    compile_program pool shapes (normalize p) = Some code ->
    nth_error (p_funcs P) fn = Some (mk_func code 0) ->
    (forall z k, const_index pool z = Some k -> nth_error (p_consts P) k = Some (CInt z)) ->
    (forall sh t, shape_index shapes sh = Some t -> nth_error (p_tuples P) t = Some (length (snd sh))) ->
    (exists r, shapes = nil_shape :: ok_shape :: r) ->
    forall mods n v w, eval_program mods n p = Ret v w -> closure_free v ->
    exists mv ls,
      vrel shapes v mv /\
      star P (Quiver.vm.Vm.init_state fn [] mnil pers) (st fn 0 0 [] pers (length code) [mv] ls) /\
      (forall x, step P (st fn 0 0 [] pers (length code) [mv] ls) x =
                 Next (mk_state [mv] (if pers then ls else []) [] pers)) /\
      (forall x, step P (mk_state [mv] (if pers then ls else []) [] pers) x =
                 Quiver.vm.Vm.Finished mv (mk_state [] (if pers then ls else []) [] pers)).
Proof.
  intros P fn pool shapes p code pers Hc Hfn Hpool Hshapes Hsh0 mods n v w Hev Hcf.
  destruct (normalize_preserves_value mods n p v w Hev Hcf) as [w' Hn].
  exact (compile_program_correct P fn pool shapes (normalize p) code pers Hc Hfn Hpool Hshapes Hsh0 (nmods mods) n v w' Hn).
Qed.
