(* LangCompile.v — a mirror of the code generation of quiver-compiler/src/compiler.rs for a small
   fragment of the core language, targeting the instruction set of vm/Bytecode.v (the VM model
   shared with C07).  Definitions only.

   (Two side conditions are refused rather than mirrored: a tuple literal that repeats a label,
   and the reserved atom `a_star` as a binder name; the parser produces neither.  One thing the
   real compiler does and the mirror does not: after a step whose STATIC type is nil it drops the
   remaining steps of the sequence; a non-final step that is the nil literal is refused, and the
   fragment's generator produces no other statically-nil value.)

   Fragment (everything else compiles to None): integer literals; tuple literals without spreads
   (named or not, labelled or not; every field a chain of the fragment); positional field access
   on the flowing value (`.0`, `~.1`, bare `~`) and on an identifier (`x`, `x.0`); the bare
   binder, as a binding step (`x = chain`) or in a chain (`chain =x`); integer-literal matches
   (`=5`); chains; sequences with their nil short-circuit; blocks with any number of branches,
   each a condition sequence with or without a `=>` consequence (refused: a `=>` branch whose
   condition binds — the compiler then emits an out-of-line failure handler); non-capturing
   functions with a non-nil parameter, bound by `f = #T { body }` and called `arg f`.  What the compiler
   emits for these (observed on `qv_compile` dumps and compared on every run by the check,
   `qv_ast --code` vs the extracted `compile_program (normalize p)`):

     literal           pop; const k                      (a literal replaces the flowing value)
     tuple f0..fn-1    (pick i; <field i>)*; tuple t; rotate 2; pop
                                                          (each field starts from a copy of the flow)
     .i / ~.i          get i            bare ~: nothing
     x / x.i           pop; load slot(x); get i..
     =x                jump 1; jump 5; dup; store; pop; tuple OK; jump 4; tuple NIL; store; pop; tuple NIL
                                                          (success path, then the nil-filling failure
                                                           path that a bare binder never takes)
     =z                jump 1; jump 8; dup; const k; equal 2; not; jumpif -6; pop; tuple OK; jump 2;
                       pop; tuple NIL                     (a mismatch jumps back to the second
                                                           instruction, which jumps to the nil path)
     step, rest        <step>; dup; not; jumpif |rest|; <rest>
     { branches }      store; load b; <branches>; reset b          (b = the next free slot)
       cond (not last)       <cond>; [reset b+1 if it bound]; dup; jumpif 2+|rest|; pop; load b; <rest>
       cond => k (not last)  <cond>; dup; not; jumpif 3+|k'|; pop; load b; <k'>; jump 2+|rest|; pop; load b; <rest>
       cond => k (last)      <cond>; dup; not; jumpif 2+|k'|; pop; load b; <k'>
       cond (last)           <cond>; [reset b+1 if it bound]        (k' = <k>; [reset b+1 if it bound])
     f = #T { body }   pop; function k; <=f>              (k: the function `store; load 0; <branches of
                                                           body>; reset 0`, no captures)
     arg f             <arg>; load slot(f); call
     program           store; load 0; <sequence>          (slot 0 holds the parameter)

   Constants and tuple ids are resolved through tables the caller supplies (`pool`, `shapes`): the
   real compiler's numbering depends on its type registry; the check compares the code after
   resolving both sides' indices to the constant value / the (name, labels) shape. *)
From Coq Require Import ZArith List Bool.
From Quiver Require Import lang.Lang.
From Quiver Require vm.Bytecode.
Import ListNotations.
Open Scope Z_scope.

(* (no `Import`: Bytecode.v has its own `value`, `VInt`, `program`, ...) *)
Notation instr := Quiver.vm.Bytecode.instr.
Notation IConstant := Quiver.vm.Bytecode.IConstant.
Notation IPop := Quiver.vm.Bytecode.IPop.
Notation IDuplicate := Quiver.vm.Bytecode.IDuplicate.
Notation IPick := Quiver.vm.Bytecode.IPick.
Notation IRotate := Quiver.vm.Bytecode.IRotate.
Notation ILoad := Quiver.vm.Bytecode.ILoad.
Notation IStore := Quiver.vm.Bytecode.IStore.
Notation ITuple := Quiver.vm.Bytecode.ITuple.
Notation IGet := Quiver.vm.Bytecode.IGet.
Notation IJump := Quiver.vm.Bytecode.IJump.
Notation IJumpIf := Quiver.vm.Bytecode.IJumpIf.
Notation INot := Quiver.vm.Bytecode.INot.
Notation IReset := Quiver.vm.Bytecode.IReset.
Notation IEqual := Quiver.vm.Bytecode.IEqual.
Notation IFunction := Quiver.vm.Bytecode.IFunction.
Notation ICall := Quiver.vm.Bytecode.ICall.
Notation NIL := Quiver.vm.Bytecode.NIL.
Notation OK := Quiver.vm.Bytecode.OK.

(* compile-time scope: one entry per local slot, oldest first; None = the parameter slot *)
Definition scope := list (option atom).
(* the slot of the NEWEST binding of x *)
Fixpoint scope_lookup_from (i : nat) (sc : scope) (x : atom) : option nat :=
  match sc with
  | [] => None
  | s :: r =>
      match scope_lookup_from (S i) r x with
      | Some j => Some j
      | None => match s with Some y => if x =? y then Some i else None | None => None end
      end
  end.
Definition scope_lookup (sc : scope) (x : atom) : option nat := scope_lookup_from 0 sc x.

(* a tuple shape: name and labels *)
Definition shape := (option atom * list (option atom))%type.
Fixpoint labels_eqb (a b : list (option atom)) : bool :=
  match a, b with
  | [], [] => true
  | x :: a', y :: b' => oatom_eqb x y && labels_eqb a' b'
  | _, _ => false
  end.
Definition shape_eqb (a b : shape) : bool := oatom_eqb (fst a) (fst b) && labels_eqb (snd a) (snd b).
Fixpoint index_from {A} (eqb : A -> A -> bool) (i : nat) (l : list A) (x : A) : option nat :=
  match l with
  | [] => None
  | y :: r => if eqb x y then Some i else index_from eqb (S i) r x
  end.
Definition shape_index (shapes : list shape) (s : shape) : option nat := index_from shape_eqb 0 shapes s.
Definition const_index (pool : list Z) (z : Z) : option nat := index_from Z.eqb 0 pool z.

Definition nil_shape : shape := (None, []).
Definition ok_shape : shape := (Some a_Ok, []).

Definition binder_code : list instr :=
  [IJump 1; IJump 5; IDuplicate; IStore; IPop; ITuple OK; IJump 4;
   ITuple NIL; IStore; IPop; ITuple NIL].

(* `=z` for an integer literal: compare a copy with the constant; on a mismatch the failure path
   (reached through the jump back to the second instruction) yields nil, otherwise Ok *)
Definition literal_match_code (k : nat) : list instr :=
  [IJump 1; IJump 8; IDuplicate; IConstant k; IEqual 2; INot; IJumpIf (-6); IPop; ITuple OK; IJump 2;
   IPop; ITuple NIL].

Fixpoint gets (path : list access_path) : option (list instr) :=
  match path with
  | [] => Some []
  | Index i :: r => if i <? 0 then None
                    else match gets r with Some c => Some (IGet (Z.to_nat i) :: c) | None => None end
  | Field _ :: _ => None          (* a label is resolved through the static type: not in the fragment *)
  end.

Section Compile.
  Variable pool : list Z.
  Variable shapes : list shape.
  (* functions (non-capturing, with a non-nil parameter): a function literal is only accepted as the
     whole value of a binding step `f = #T { body }`; `isfun` says which names are bound that way
     (such a name is never bound to anything else, and only ever CALLED: `arg f`), `fnum` gives the
     index of the function compiled from a body in the program's function table.  Both are
     supplied by the caller, like `pool` and `shapes`. *)
  Variable isfun : atom -> bool.
  Variable fnum : expression -> option nat.

  (* could the parameter type be nil (then the function would be nilary and ignore the flow)?
     conservative: the nil type itself, or a type name (which an alias could define as nil) *)
  Definition nil_param (pt : ty) : bool :=
    match pt with TTuple None false [] => true | TIdentifier _ _ => true | _ => false end.

  (* a step that is the nil literal: its static type is nil and the real compiler drops the steps
     after it (not mirrored: refused) *)
  Definition ends_in_nil_literal (c : chain) : bool :=
    match c with
    | Chain None ts => match last ts (Literal (LInteger 0)) with Tuple Anonymous [] => true | _ => false end
    | _ => false
    end.

  Fixpoint compile_term (sc : scope) (t : term) {struct t} : option (list instr * scope) :=
    match t with
    | Literal (LInteger z) =>
        match const_index pool z with
        | Some k => Some ([IPop; IConstant k], sc)
        | None => None
        end
    | Tuple name fields =>
        match name with
        | Inherit => None
        | _ =>
            match (fix go (fs : list tuple_field) (i : nat) (sc : scope) (labels : list (option atom))
                     : option (list instr * scope * list (option atom)) :=
                     match fs with
                     | [] => Some ([], sc, labels)
                     | TupleField l (FChain c) :: r =>
                         if (match l with Some _ => existsb (oatom_eqb l) labels | None => false end) then None
                         else
                         match compile_chain sc c with
                         | Some (cc, sc1) =>
                             match go r (S i) sc1 (labels ++ [l]) with
                             | Some (cr, sc2, ls) => Some (IPick i :: cc ++ cr, sc2, ls)
                             | None => None
                             end
                         | None => None
                         end
                     | TupleField _ (FSpread _) :: _ => None
                     end) fields O sc [] with
            | Some (cf, sc', labels) =>
                match shape_index shapes (match name with Named a => Some a | _ => None end, labels) with
                | Some t => Some (cf ++ [ITuple t; IRotate 2; IPop], sc')
                | None => None
                end
            | None => None
            end
        end
    | Access (mkAccess None path) | Access (mkAccess (Some Ripple) path) =>
        match gets path with Some c => Some (c, sc) | None => None end
    | Access (mkAccess (Some (Identifier x)) path) =>
        if isfun x then
          (* a function variable is called with the flowing value *)
          match scope_lookup sc x, path with
          | Some i, [] => Some ([ILoad i; ICall], sc)
          | _, _ => None
          end
        else
        match scope_lookup sc x, gets path with
        | Some i, Some c => Some (IPop :: ILoad i :: c, sc)
        | _, _ => None
        end
    | Match (MIdentifier x) => if (x =? a_star) || isfun x then None else Some (binder_code, sc ++ [Some x])
    | Match (MLiteral (LInteger z)) =>
        match const_index pool z with
        | Some k => Some (literal_match_code k, sc)
        | None => None
        end
    (* a block: its input is stored in the next slot `b` and every branch starts from it; a branch
       that bound locals resets to b+1; the block ends with a reset to b.  Refused: a branch with a
       consequence whose CONDITION binds (the compiler then emits an out-of-line failure handler). *)
    | Block (Expression bs) =>
        let b := length sc in
        let scb := sc ++ [None] in
        let seq_go :=
          fix seq_go (cs : list chain) (sc : scope) {struct cs} : option (list instr * scope) :=
            match cs with
            | [] => None
            | c :: r =>
                match r with
                | [] => compile_chain sc c
                | _ :: _ =>
                    if ends_in_nil_literal c then None else
                    match compile_chain sc c with
                    | Some (cc, sc1) =>
                        match seq_go r sc1 with
                        | Some (cr, sc2) =>
                            Some (cc ++ [IDuplicate; INot; IJumpIf (Z.of_nat (length cr))] ++ cr, sc2)
                        | None => None
                        end
                    | None => None
                    end
                end
            end in
        match (fix br_go (bs : list branch) {struct bs} : option (list instr) :=
                 match bs with
                 | [] => None
                 | Branch (Sequence cs) k :: r =>
                     match seq_go cs scb with
                     | None => None
                     | Some (cc, sc1) =>
                         let bound := Nat.ltb (S b) (length sc1) in
                         match k with
                         | None =>
                             let body := cc ++ (if bound then [IReset (S b)] else []) in
                             match r with
                             | [] => Some body
                             | _ :: _ =>
                                 match br_go r with
                                 | Some cr =>
                                     Some (body ++ [IDuplicate; IJumpIf (Z.of_nat (2 + length cr)); IPop; ILoad b] ++ cr)
                                 | None => None
                                 end
                             end
                         | Some (Sequence ks) =>
                             if bound then None else
                             match seq_go ks scb with
                             | None => None
                             | Some (ck, sc2) =>
                                 let kb := ck ++ (if Nat.ltb (S b) (length sc2) then [IReset (S b)] else []) in
                                 match r with
                                 | [] =>
                                     Some (cc ++ [IDuplicate; INot; IJumpIf (Z.of_nat (2 + length kb)); IPop; ILoad b] ++ kb)
                                 | _ :: _ =>
                                     match br_go r with
                                     | Some cr =>
                                         Some (cc ++ [IDuplicate; INot; IJumpIf (Z.of_nat (3 + length kb)); IPop; ILoad b] ++ kb
                                                  ++ [IJump (Z.of_nat (2 + length cr)); IPop; ILoad b] ++ cr)
                                     | None => None
                                     end
                                 end
                             end
                         end
                     end
                 end) bs with
        | Some cb => Some (IStore :: ILoad b :: cb ++ [IReset b], sc)
        | None => None
        end
    | _ => None
    end
  with compile_chain (sc : scope) (c : chain) {struct c} : option (list instr * scope) :=
    match c with
    | Chain (Some (MIdentifier f)) [Function _ (Some pt) _ (Some body)] =>
        (* `f = #T { body }`: the function value, then the binder *)
        if isfun f && negb (f =? a_star) && negb (nil_param pt) then
          match fnum body with
          | Some k => Some ([IPop; IFunction k] ++ binder_code, sc ++ [Some f])
          | None => None
          end
        else None
    | Chain mp ts =>
        match (fix go (ts : list term) (sc : scope) : option (list instr * scope) :=
                 match ts with
                 | [] => Some ([], sc)
                 | t :: r =>
                     match compile_term sc t with
                     | Some (ct, sc1) =>
                         match go r sc1 with
                         | Some (cr, sc2) => Some (ct ++ cr, sc2)
                         | None => None
                         end
                     | None => None
                     end
                 end) ts sc with
        | Some (ct, sc1) =>
            match mp with
            | None => Some (ct, sc1)
            | Some (MIdentifier x) => if (x =? a_star) || isfun x then None else Some (ct ++ binder_code, sc1 ++ [Some x])
            | Some _ => None
            end
        | None => None
        end
    end.

  Fixpoint compile_seq (sc : scope) (cs : list chain) : option (list instr * scope) :=
    match cs with
    | [] => None
    | [c] => compile_chain sc c
    | c :: r =>
        if ends_in_nil_literal c then None else
        match compile_chain sc c with
        | Some (cc, sc1) =>
            match compile_seq sc1 r with
            | Some (cr, sc2) =>
                Some (cc ++ [IDuplicate; INot; IJumpIf (Z.of_nat (length cr))] ++ cr, sc2)
            | None => None
            end
        | None => None
        end
    end.

  (* the code of the function compiled from a body: a block at the empty scope — the parameter in
     slot 0, the branches, reset 0 *)
  Definition function_code (body : expression) : option (list instr) :=
    match compile_term [] (Block body) with
    | Some (c, _) => Some c
    | None => None
    end.

  (* compiler.rs: the entry function stores its parameter in slot 0 and starts from it *)
  Definition compile_program (p : program) : option (list instr) :=
    match p with
    | Program ss =>
        match collect_aliases ss with
        | [] => match compile_seq [None] (collect_chains ss) with
                | Some (c, _) => Some (IStore :: ILoad 0 :: c)
                | None => None
                end
        | _ :: _ => None
        end
    end.
End Compile.
