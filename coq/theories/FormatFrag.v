(* FormatFrag.v — a model of the formatter's Doc construction (format.rs) AND of the parser (parser.rs) on the
   ''data literal'' fragment of the language: integer literals, identifiers, single-line text-only strings,
   anonymous / named tuples with unnamed / labelled fields, arbitrarily nested, and chains (space-joined terms,
   broken with `~>` after a call-ending term). No comments, no bindings, no blocks.
   Definitions only; executable; the round-trip theorems are in FormatFragProofs.v.
   Printer side mirrors: format_program (format.rs:36), sequence_doc (l.161, one chain), chain_doc (l.396),
   chain_terms_doc (l.445), break_if_wider_than (l.470), is_breakable_container (l.480), term_doc (l.492),
   single_line_string_doc (l.547), tuple_doc (l.597), field_doc (l.690), bracketed (l.712), render_literal,
   render_access, and pretty.rs flatten (l.191) / flat_width (l.213), which Pretty.v did not model yet.
   Parser side mirrors: program (parser.rs:2357), sequence/chain/chain_inner (l.2244-2321), primary (l.2210),
   tuple_term / tuple_field / tuple_field_list (l.1698-1791), identifier / tuple_name (l.379, 398),
   integer_literal (l.410), string_segments (l.499, through Escape.scan_single), ws / hspace. *)
From Quiver Require Import Base Escape Pretty.
From Coq Require Import Decimal DecimalZ.

(* ------------------------------------------------------------------------------------------ *)
(* the fragment                                                                                *)
Inductive fterm :=
| FInt (z : Z)                                   (* Term::Literal(Literal::Integer) *)
| FIdent (n : list Z)                            (* Term::Access{source: Identifier n, accessors: []} *)
| FStr (s : list Z)                              (* Term::String(Single, [Text s]) (or [] when s = []) *)
| FTuple (name : option (list Z)) (fields : list ffield)   (* Term::Tuple, Anonymous / Named *)
with ffield :=
| FField (label : option (list Z)) (value : list fterm).   (* TupleField{name, value: Chain{terms}} *)

(* a statement: one chain of terms *)
Definition fchain := list fterm.

(* ------------------------------------------------------------------------------------------ *)
(* characters                                                                                  *)
Definition is_lower (c : Z) : bool := (97 <=? c) && (c <=? 122).
Definition is_upper (c : Z) : bool := (65 <=? c) && (c <=? 90).
Definition is_digit (c : Z) : bool := (48 <=? c) && (c <=? 57).
Definition is_word (c : Z) : bool := is_lower c || is_upper c || is_digit c || (c =? 95).
Definition is_hsp (c : Z) : bool := (c =? 32) || (c =? 9).                 (* nom space1 *)
Definition is_msp (c : Z) : bool := is_hsp c || (c =? 10) || (c =? 13).    (* nom multispace *)

(* ------------------------------------------------------------------------------------------ *)
(* printer                                                                                     *)

(* BigInt::to_string through Coq's decimal numerals *)
Fixpoint chars_of_uint (u : Decimal.uint) : list Z :=
  match u with
  | Nil => []
  | D0 r => 48 :: chars_of_uint r | D1 r => 49 :: chars_of_uint r | D2 r => 50 :: chars_of_uint r
  | D3 r => 51 :: chars_of_uint r | D4 r => 52 :: chars_of_uint r | D5 r => 53 :: chars_of_uint r
  | D6 r => 54 :: chars_of_uint r | D7 r => 55 :: chars_of_uint r | D8 r => 56 :: chars_of_uint r
  | D9 r => 57 :: chars_of_uint r
  end.
Definition int_text (z : Z) : list Z :=
  match Z.to_int z with
  | Decimal.Pos u => chars_of_uint u
  | Decimal.Neg u => 45 :: chars_of_uint u
  end.

(* pretty.rs:191 flatten (before its final strip_trailing_whitespace) *)
Fixpoint flatten_raw (d : doc) : list Z :=
  match d with
  | DNil | DSoftLine | DBreakParent => []
  | DText s => s
  | DLine => [32]
  | DHardLine => [10]
  | DConcat ds => (fix go (l : list doc) : list Z := match l with [] => [] | x :: r => flatten_raw x ++ go r end) ds
  | DNest _ inner | DGroup inner _ | DLineSuffix inner => flatten_raw inner
  | DIfBreak _ flat => flatten_raw flat
  end.
Definition flatten (d : doc) : list Z := strip_trailing_whitespace (flatten_raw d).

(* pretty.rs:213 flat_width: None = contains a HardLine/BreakParent, or wider than `max` (the Rust exits early;
   widths only grow, so that is the same as comparing the total) *)
Fixpoint flat_total (d : doc) : option nat :=
  match d with
  | DNil | DSoftLine | DLineSuffix _ => Some O
  | DText s => Some (length s)
  | DLine => Some 1%nat
  | DHardLine | DBreakParent => None
  | DConcat ds => (fix go (l : list doc) : option nat :=
                     match l with
                     | [] => Some O
                     | x :: r => match flat_total x, go r with Some a, Some b => Some (a + b)%nat | _, _ => None end
                     end) ds
  | DNest _ inner | DGroup inner _ => flat_total inner
  | DIfBreak _ flat => flat_total flat
  end.
Definition flat_width (d : doc) (max : nat) : option nat :=
  match flat_total d with Some w => if (max <? w)%nat then None else Some w | None => None end.

(* pretty.rs:89 join *)
Fixpoint join_docs (sep : doc) (ds : list doc) : list doc :=
  match ds with
  | [] => []
  | d :: r => match r with [] => [d] | _ :: _ => d :: sep :: join_docs sep r end
  end.

(* format.rs:470 break_if_wider_than *)
Definition break_if_wider_than (inner : doc) (threshold : nat) : doc :=
  match flat_width inner threshold with
  | Some _ => inner
  | None => DConcat [inner; DBreakParent]
  end.

(* format.rs:712 bracketed(open, close, items, trailing = true) *)
Definition bracketed (open close : list Z) (items : list doc) : doc :=
  group (DConcat [DText open;
                  DNest 2 (DConcat [DSoftLine;
                                    DConcat (join_docs (DConcat [DText [44]; DLine]) items);
                                    DIfBreak (DText [44]) DNil]);
                  DSoftLine;
                  DText close]).

(* format.rs:480 is_breakable_container / l.463 is_call_ender on the fragment *)
Definition is_breakable_container (t : fterm) : bool :=
  match t with FTuple _ (_ :: _) => true | _ => false end.
Definition is_call_ender (t : fterm) : bool :=
  match t with FIdent _ => true | _ => false end.

Definition CHAIN_SOFT_WIDTH : nat := 50.
Definition WIDTH : nat := 100.

(* all but the last element, and the last element, of a non-empty list *)
Fixpoint split_last {A} (l : list A) : option (list A * A) :=
  match l with
  | [] => None
  | x :: r => match split_last r with
              | None => Some ([], x)
              | Some (h, t) => Some (x :: h, t)
              end
  end.

(* format.rs:445 chain_terms_doc over (term, already rendered doc) pairs: a break point (`line` + `~> ` when broken)
   after a call-ending term, a plain space otherwise (term_gap is always '' '' on the fragment) *)
Fixpoint chain_terms_parts (prev : option fterm) (items : list (fterm * doc)) : list doc :=
  match items with
  | [] => []
  | (t, d) :: r =>
      (match prev with
       | None => []
       | Some p => if is_call_ender p then [DLine; DIfBreak (DText [126; 62; 32]) DNil] else [DText [32]]
       end) ++ d :: chain_terms_parts (Some t) r
  end.
Definition chain_terms_doc (items : list (fterm * doc)) : doc := DConcat (chain_terms_parts None items).

(* format.rs:396 chain_doc for a chain without a binding, over (term, doc) pairs *)
Definition chain_doc_of (items : list (fterm * doc)) : doc :=
  let default := DConcat [DNil; group (break_if_wider_than (chain_terms_doc items) CHAIN_SOFT_WIDTH)] in
  match split_last items with
  | Some (head, (tl, tl_doc)) =>
      if (1 <? length items)%nat && is_breakable_container tl && negb (existsb (fun td => forces_break (snd td)) head)
      then DConcat [DNil;
                    DText (flat_map (fun td => flatten (snd td) ++ [32]) head);
                    tl_doc]
      else default
  | None => default
  end.

(* format.rs:492 term_doc, l.597 tuple_doc, l.690 field_doc (trivia docs are DNil: the fragment has no comments
   or blank lines) *)
Fixpoint term_doc (t : fterm) : doc :=
  match t with
  | FInt z => DText (int_text z)
  | FIdent n => DText n
  | FStr s => DText (34 :: escape_single s ++ [34])
  | FTuple name fields =>
      match fields with
      | [] => match name with Some n => DText n | None => DText [91; 93] end
      | _ :: _ =>
          let open := match name with Some n => n ++ [91] | None => [91] end in
          bracketed open [93]
            ((fix fields_docs (fs : list ffield) : list doc :=
                match fs with
                | [] => []
                | FField label value :: r =>
                    let chain :=
                      chain_doc_of ((fix items (ts : list fterm) : list (fterm * doc) :=
                                       match ts with [] => [] | x :: r' => (x, term_doc x) :: items r' end) value) in
                    DConcat [DNil;
                             match label with
                             | Some n => DConcat [DText (n ++ [58; 32]); chain]
                             | None => chain
                             end;
                             DNil] :: fields_docs r
                end) fields)
      end
  end.

Definition chain_items (c : fchain) : list (fterm * doc) := map (fun t => (t, term_doc t)) c.
Definition chain_doc (c : fchain) : doc := chain_doc_of (chain_items c).

(* format.rs:161 sequence_doc for a one-chain sequence, l.80 statement_doc, l.36 format_program (one statement):
   group(concat[item, nest(0, concat[])]), item = concat[leading, body, trailing]; join(hardline, [doc]) *)
Definition program_doc (c : fchain) : doc :=
  DConcat [group (DConcat [DConcat [DNil; chain_doc c; DNil]; DNest 0 (DConcat [])])].

(* format_program: print at `width` (the code uses WIDTH = 100), then collapse_blanks, which on a text without blank
   lines only guarantees the single final newline *)
Definition format_frag (c : fchain) (width : nat) : option (list Z) :=
  match Pretty.print (program_doc c) width with
  | Some s => Some (s ++ [10])
  | None => None
  end.

(* ------------------------------------------------------------------------------------------ *)
(* parser                                                                                      *)
Fixpoint take_while (p : Z -> bool) (s : list Z) : list Z * list Z :=
  match s with
  | c :: r => if p c then let (a, b) := take_while p r in (c :: a, b) else ([], s)
  | [] => ([], [])
  end.
Definition skip_ws (s : list Z) : list Z := snd (take_while is_msp s).
Definition opt_char (c : Z) (s : list Z) : list Z * list Z :=
  match s with x :: r => if x =? c then ([c], r) else ([], s) | [] => ([], s) end.

(* parser.rs:379 identifier: [a-z][a-zA-Z0-9_]*[?]?[!]? *)
Definition p_identifier (s : list Z) : option (list Z * list Z) :=
  match s with
  | c :: r => if is_lower c then
                let (body, r1) := take_while is_word r in
                let (q, r2) := opt_char 63 r1 in
                let (b, r3) := opt_char 33 r2 in
                Some (c :: body ++ q ++ b, r3)
              else None
  | [] => None
  end.
(* parser.rs:398 tuple_name: [A-Z][a-zA-Z0-9_]* *)
Definition p_tuple_name (s : list Z) : option (list Z * list Z) :=
  match s with
  | c :: r => if is_upper c then let (body, r1) := take_while is_word r in Some (c :: body, r1) else None
  | [] => None
  end.

(* digits -> Decimal.uint -> Z (BigInt::parse) *)
Fixpoint uint_of_digits (ds : list Z) : Decimal.uint :=
  match ds with
  | [] => Nil
  | c :: r => let u := uint_of_digits r in
              if c =? 48 then D0 u else if c =? 49 then D1 u else if c =? 50 then D2 u else if c =? 51 then D3 u
              else if c =? 52 then D4 u else if c =? 53 then D5 u else if c =? 54 then D6 u else if c =? 55 then D7 u
              else if c =? 56 then D8 u else D9 u
  end.

Definition starts_digit (s : list Z) : bool := match s with c :: _ => is_digit c | [] => false end.

(* parser.rs:410 integer_literal, as reached through `primary`: the alternatives tried before it — decimal_term
   (digits '.' digits), fraction_term (digits '/' digits) and the binary literal (`0x…`) — are outside the
   fragment: None *)
Definition p_integer (s : list Z) : option (Z * list Z) :=
  let (sign, r0) := opt_char 45 s in
  let (ds, r1) := take_while is_digit r0 in
  match ds with
  | [] => None
  | _ :: _ =>
      let outside :=
        match r1 with
        | c :: r2 => ((c =? 46) || (c =? 47)) && starts_digit r2
        | [] => false
        end
        || match s with a :: b :: _ => (a =? 48) && (b =? 120) | _ => false end in
      if outside then None
      else let v := Z.of_uint (uint_of_digits ds) in
           Some (match sign with [] => v | _ :: _ => - v end, r1)
  end.

(* the separator of chain_inner (parser.rs:2288): alt((ws1 ''~>'' ws1), hspace1); returns the rest after it *)
Definition p_chain_sep (s : list Z) : option (list Z) :=
  let (w1, r1) := take_while is_msp s in
  let arrow :=
    match w1, r1 with
    | _ :: _, a :: b :: r2 =>
        if (a =? 126) && (b =? 62) then
          let (w2, r3) := take_while is_msp r2 in
          match w2 with _ :: _ => Some r3 | [] => None end
        else None
    | _, _ => None
    end in
  match arrow with
  | Some r => Some r
  | None => let (h, r) := take_while is_hsp s in match h with _ :: _ => Some r | [] => None end
  end.

Section WithTerm.
  (* the parser of a term one nesting level down *)
  Variable p_term : list Z -> option (fterm * list Z).

  (* chain_inner: separated_list1(sep, primary): after a term, a separator followed by a term continues the chain;
     a separator not followed by a term is not consumed. `n` bounds the number of terms. *)
  Fixpoint p_chain_rest (n : nat) (s : list Z) : list fterm * list Z :=
    match n with
    | O => ([], s)
    | S n' =>
        match p_chain_sep s with
        | Some r => match p_term r with
                    | Some (t, r') => let (ts, r'') := p_chain_rest n' r' in (t :: ts, r'')
                    | None => ([], s)
                    end
        | None => ([], s)
        end
    end.
  Definition p_chain (s : list Z) : option (list fterm * list Z) :=
    match p_term s with
    | Some (t, r) => let (ts, r') := p_chain_rest (length r) r in Some (t :: ts, r')
    | None => None
    end.

  (* parser.rs:1698 tuple_field: alt((identifier ':' ws1 chain), …, chain) *)
  Definition p_field (s : list Z) : option (ffield * list Z) :=
    let labelled :=
      match p_identifier s with
      | Some (n, c :: r) =>
          if c =? 58 then
            let (w, r') := take_while is_msp r in
            match w with
            | _ :: _ => match p_chain r' with Some (ts, r'') => Some (FField (Some n) ts, r'') | None => None end
            | [] => None
            end
          else None
      | _ => None
      end in
    match labelled with
    | Some x => Some x
    | None => match p_chain s with Some (ts, r) => Some (FField None ts, r) | None => None end
    end.

  (* the `wsc ',' wsc` separator of tuple_field_list (comments are outside the fragment) *)
  Definition p_comma (s : list Z) : option (list Z) :=
    match skip_ws s with c :: r => if c =? 44 then Some (skip_ws r) else None | [] => None end.

  (* parser.rs:1738 tuple_field_list: separated_list0(wsc ',' wsc, field) then opt(wsc ',') *)
  Fixpoint p_fields_rest (n : nat) (s : list Z) : list ffield * list Z :=
    match n with
    | O => ([], s)
    | S n' =>
        match p_comma s with
        | Some r => match p_field r with
                    | Some (f, r') => let (fs, r'') := p_fields_rest n' r' in (f :: fs, r'')
                    | None => ([], s)
                    end
        | None => ([], s)
        end
    end.
  Definition p_fields (s : list Z) : list ffield * list Z :=
    let (fs, r) :=
      match p_field s with
      | Some (f, r) => let (fs, r') := p_fields_rest (length r) r in (f :: fs, r')
      | None => ([], s)
      end in
    match p_comma r with
    | Some _ => (* opt(pair(wsc, ',')): only the comma is consumed *)
        (fs, match skip_ws r with _ :: r' => r' | [] => r end)
    | None => (fs, r)
    end.

  (* `[` wsc fields wsc `]`, after the `[` *)
  Definition p_bracket_body (s : list Z) : option (list ffield * list Z) :=
    let (fs, r) := p_fields (skip_ws s) in
    match skip_ws r with c :: r' => if c =? 93 then Some (fs, r') else None | [] => None end.
End WithTerm.

(* parser.rs:2210 primary on the fragment; `fuel` bounds the nesting depth *)
Fixpoint p_term (fuel : nat) (s : list Z) : option (fterm * list Z) :=
  match fuel with
  | O => None
  | S f =>
      match s with
      | [] => None
      | c :: r =>
          if c =? 34 then
            (* string_term: a `''''''` opens a multi-line string (outside the fragment) *)
            match r with
            | a :: b :: _ => if (a =? 34) && (b =? 34) then None
                             else match scan_single r with ScanText t rest => Some (FStr t, rest) | _ => None end
            | _ => match scan_single r with ScanText t rest => Some (FStr t, rest) | _ => None end
            end
          else if is_digit c || (c =? 45) then
            match p_integer s with Some (z, rest) => Some (FInt z, rest) | None => None end
          else if is_upper c then
            (* tuple_term: Name[...] | Name (not followed by ws0 '(') *)
            match p_tuple_name s with
            | Some (n, x :: r') =>
                if x =? 91 then
                  match p_bracket_body (p_term f) r' with Some (fs, rest) => Some (FTuple (Some n) fs, rest) | None => None end
                else match skip_ws (x :: r') with
                     | y :: _ => if y =? 40 then None else Some (FTuple (Some n) [], x :: r')
                     | [] => Some (FTuple (Some n) [], x :: r')
                     end
            | Some (n, []) => Some (FTuple (Some n) [], [])
            | None => None
            end
          else if c =? 91 then
            match p_bracket_body (p_term f) r with Some (fs, rest) => Some (FTuple None fs, rest) | None => None end
          else if is_lower c then
            (* access: identifier; an adjacent `[` (spread update) or `.` accessor is outside the fragment *)
            match p_identifier s with
            | Some (n, x :: r') => if (x =? 91) || (x =? 46) then None else Some (FIdent n, x :: r')
            | Some (n, []) => Some (FIdent n, [])
            | None => None
            end
          else None
      end
  end.

(* parser.rs:2357 program, for a program that is one chain: ws, chain, ws, eof *)
Definition parse_frag (s : list Z) : option fchain :=
  let s' := skip_ws s in
  match p_chain (p_term (length s')) s' with
  | Some (ts, r) => match skip_ws r with [] => Some ts | _ :: _ => None end
  | None => None
  end.

(* well-formed names: what the lexical grammar can produce *)
Definition wf_ident (n : list Z) : bool :=
  match p_identifier n with Some (m, []) => true | _ => false end.
Definition wf_tuple_name (n : list Z) : bool :=
  match p_tuple_name n with Some (m, []) => true | _ => false end.
Fixpoint wf_term (t : fterm) : bool :=
  match t with
  | FInt _ | FStr _ => true
  | FIdent n => wf_ident n
  | FTuple name fields =>
      match name with Some n => wf_tuple_name n | None => true end &&
      (fix wf_fields (fs : list ffield) : bool :=
         match fs with
         | [] => true
         | FField label value :: r =>
             match label with Some n => wf_ident n | None => true end &&
             negb (match value with [] => true | _ => false end) &&
             (fix wf_terms (ts : list fterm) : bool :=
                match ts with [] => true | x :: r' => wf_term x && wf_terms r' end) value &&
             wf_fields r
         end) fields
  end.
Definition wf_chain (c : fchain) : bool :=
  negb (match c with [] => true | _ => false end) && forallb wf_term c.
