(* OverlapPartial.v — overlap_complete on the cycle-free fragment WITH partial types (and callables,
   processes), for the model variants that contain the F25p repair (7ba69a0: ANY mode answers
   (Partial, Tuple) by the swapped call and treats a label only the pattern partial names as
   compatible) and the F25 repair (dea0269).  A `false` of types_overlap is a proof of disjointness
   over all values whose tuples carry each label at most once (`wfv`).  The premise on the VALUES is
   necessary: `overlap_partial_needs_distinct_labels` below is a value with a repeated label that
   belongs to two partial types the checker (rightly, for real tuples) calls disjoint. *)
From Quiver Require Import Base Types Rel Sem SemProofs RelProofs OverlapProofs.
From Coq Require Import Arith Lia.
Close Scope Z_scope.
Open Scope nat_scope.

(* every tuple inside the value carries each label at most once *)
Inductive wfv : value -> Prop :=
| wfv_int : forall z, wfv (VInt z)
| wfv_bin : forall b, wfv (VBin b)
| wfv_ref : forall r, wfv (VRef r)
| wfv_res : forall r, wfv (VRes r)
| wfv_fun : forall c, wfv (VFun c)
| wfv_proc : forall c, wfv (VProc c)
| wfv_tup : forall name fs,
    (forall l v1 v2, In (Some l, v1) fs -> In (Some l, v2) fs -> v1 = v2) ->
    (forall f, In f fs -> wfv (snd f)) ->
    wfv (VTup name fs).

Lemma opt_eqb_refl o : opt_eqb o o = true.
Proof. destruct o; cbn; [apply Nat.eqb_refl|reflexivity]. Qed.

Lemma Forall2_In_r {A B} (R : A -> B -> Prop) : forall l1 l2, Forall2 R l1 l2 ->
  forall b, In b l2 -> exists a, In a l1 /\ R a b.
Proof.
  induction 1 as [|a b0 l1 l2 Hab HF IH]; intros b Hb; [destruct Hb|].
  destruct Hb as [<-|Hb].
  - exists a. split; [left; reflexivity|exact Hab].
  - destruct (IH b Hb) as [a' [Ha' HR]]. exists a'. split; [right; exact Ha'|exact HR].
Qed.

Section OverlapP.
  Variable cfg : rel_cfg.
  Variable P : registry.

  Inductive FOp : nat -> Prop :=
  | FOp_int : forall t, lookup_type P t = Some TInteger -> FOp t
  | FOp_bin : forall t, lookup_type P t = Some TBinary -> FOp t
  | FOp_ref : forall t, lookup_type P t = Some TReference -> FOp t
  | FOp_res : forall t r, lookup_type P t = Some (TResource r) -> FOp t
  | FOp_union : forall t vs, lookup_type P t = Some (TUnion vs) -> (forall u, In u vs -> FOp u) -> FOp t
  | FOp_tuple : forall t tid info, lookup_type P t = Some (TTuple tid) -> lookup_tuple P tid = Some info ->
      (forall f, In f (tfields info) -> FOp (snd f)) -> FOp t
  | FOp_callable : forall t p r rc, lookup_type P t = Some (TCallable p r rc) -> FOp t
  | FOp_process : forall t s r, lookup_type P t = Some (TProcess s r) -> FOp t
  | FOp_partial : forall t pn pfs, lookup_type P t = Some (TPartial pn pfs) ->
      (forall f, In f pfs -> FOp (snd f)) -> FOp t.

  Hypothesis Hany : cfg_any_callable cfg = true.
  Hypothesis Hpa : cfg_partial_any cfg = true.

  Definition disjoint_p (s p : nat) : Prop :=
    forall n E1 E2 v, wfv v -> inhab P n E1 v s -> inhab P n E2 v p -> False.

  Lemma disjoint_p_sym s p : disjoint_p s p -> disjoint_p p s.
  Proof. intros H n E1 E2 v Hw H1 H2. exact (H n E2 E1 v Hw H2 H1). Qed.

  Ltac inv H := inversion H; subst; clear H.
  Ltac lk := match goal with
             | H1 : lookup_type P ?t = Some _, H2 : lookup_type P ?t = Some _ |- _ =>
               rewrite H1 in H2; inv H2
             | H1 : lookup_tuple P ?t = Some _, H2 : lookup_tuple P ?t = Some _ |- _ =>
               rewrite H1 in H2; inv H2
             end.
  (* two memberships of one value whose head constructors / lookups cannot both hold *)
  Ltac clash := let n := fresh "n" in let Hw := fresh "Hw" in let H1 := fresh "H1" in let H2 := fresh "H2" in
    intros n ? ? ? Hw H1 H2; destruct n; [contradiction|]; cbn [inhab] in H1, H2;
    inversion H1; subst; repeat lk; inversion H2; subst; repeat lk.

  Lemma disjoint_union_left_p s vs p :
    lookup_type P s = Some (TUnion vs) -> (forall v, In v vs -> disjoint_p v p) -> disjoint_p s p.
  Proof.
    intros Hs Hall n E1 E2 v Hw H1 H2. destruct n; [contradiction|]. cbn [inhab] in H1. inv H1; repeat lk.
    eapply (Hall u) with (n := S n); [assumption|exact Hw|cbn [inhab]; eassumption|exact H2].
  Qed.

  Lemma disjoint_union_right_p s vs p :
    lookup_type P p = Some (TUnion vs) -> (forall v, In v vs -> disjoint_p s v) -> disjoint_p s p.
  Proof.
    intros Hp Hall n E1 E2 v Hw H1 H2. destruct n; [contradiction|]. cbn [inhab] in H2. inv H2; repeat lk.
    eapply (Hall u) with (n := S n); [assumption|exact Hw|exact H1|cbn [inhab]; eassumption].
  Qed.

  Definition fields_disjoint_p (f1 f2 : list (option nat * nat)) : Prop :=
    forall m E1 E2 vs, (forall fv, In fv vs -> wfv (snd fv)) ->
      Forall2 (field_ok (inhab P m E1)) f1 vs -> Forall2 (field_ok (inhab P m E2)) f2 vs -> False.

  Lemma disjoint_tuple_p s p id1 id2 i1 i2 :
    lookup_type P s = Some (TTuple id1) -> lookup_type P p = Some (TTuple id2) ->
    lookup_tuple P id1 = Some i1 -> lookup_tuple P id2 = Some i2 ->
    (tname i1 <> tname i2 \/ length (tfields i1) <> length (tfields i2) \/ fields_disjoint_p (tfields i1) (tfields i2)) ->
    disjoint_p s p.
  Proof.
    intros Hs Hp H1 H2 Hd. clash.
    destruct Hd as [Hn|[Hl|Hf]].
    - congruence.
    - repeat match goal with Ha : Forall2 _ _ _ |- _ => apply Forall2_len in Ha end. apply Hl. congruence.
    - inversion Hw as [| | | | | |? ? _ Hsub]; subst. eapply Hf; [exact Hsub|eassumption|eassumption].
  Qed.

  (* concrete tuple vs partial: the names clash, or one label of the partial is carried by the tuple
     only with types disjoint from the partial's (possibly by no field at all) *)
  Lemma disjoint_tuple_partial_p s p tid info pn pfs :
    lookup_type P s = Some (TTuple tid) -> lookup_tuple P tid = Some info ->
    lookup_type P p = Some (TPartial pn pfs) ->
    ((exists nm, pn = Some nm /\ tname info <> Some nm) \/
     (exists l pt, In (l, pt) pfs /\ forall ct, In (Some l, ct) (tfields info) -> disjoint_p ct pt)) ->
    disjoint_p s p.
  Proof.
    intros Hs Ht Hp Hd. clash.
    match goal with Hnm : _ = None \/ _ = _ |- _ => rename Hnm into Hname end.
    match goal with Hf : forall l ft, In (l, ft) _ -> _ |- _ => rename Hf into Hfields end.
    match goal with Hf : Forall2 _ (tfields _) _ |- _ => rename Hf into HF end.
    destruct Hd as [[nm [Hpn Hne]]|[l [pt [Hin Hdis]]]].
    - destruct Hname as [Hname|Hname]; [congruence|]. apply Hne. congruence.
    - destruct (Hfields l pt Hin) as [fv [Hfv Hmem]].
      destruct (Forall2_In_r _ _ _ HF _ Hfv) as [[cl ct] [Hc [Hlab Hcm]]]. cbn in Hlab, Hcm. subst cl.
      inversion Hw as [| | | | | |? ? _ Hsub]; subst.
      eapply (Hdis ct Hc); [exact (Hsub _ Hfv)|exact Hcm|exact Hmem].
  Qed.

  (* partial vs partial: two different names, or a common label with disjoint types *)
  Lemma disjoint_partial_partial_p s p pn1 f1 pn2 f2 :
    lookup_type P s = Some (TPartial pn1 f1) -> lookup_type P p = Some (TPartial pn2 f2) ->
    ((exists n1 n2, pn1 = Some n1 /\ pn2 = Some n2 /\ n1 <> n2) \/
     (exists l t1 t2, In (l, t1) f1 /\ In (l, t2) f2 /\ disjoint_p t1 t2)) ->
    disjoint_p s p.
  Proof.
    intros Hs Hp Hd. clash.
    destruct Hd as [[n1 [n2 [H1n [H2n Hne]]]]|[l [t1 [t2 [Hi1 [Hi2 Hdis]]]]]].
    - repeat match goal with Hnm : _ = None \/ _ = _ |- _ => destruct Hnm as [Hnm|Hnm]; [congruence|] end.
      congruence.
    - match goal with Ha : forall l ft, In (l, ft) _ -> _ |- _ => destruct (Ha _ _ Hi1) as [v1 [Hv1 Hm1]] end.
      match goal with Hb : forall l ft, In (l, ft) _ -> _ |- _ => destruct (Hb _ _ Hi2) as [v2 [Hv2 Hm2]] end.
      inversion Hw as [| | | | | |? ? Hfun Hsub]; subst.
      assert (v1 = v2) by (eapply Hfun; eassumption). subst v2.
      eapply Hdis; [exact (Hsub _ Hv1)|exact Hm1|exact Hm2].
  Qed.

  Section Iter.
    Variable rec : assumptions -> list nat -> list nat -> nat -> nat -> res.
    Hypothesis HRD : forall A ss ps s p A1, FOp s -> FOp p -> rec A ss ps s p = Some (false, A1) -> disjoint_p s p.

    Lemma any_left_false_p p : FOp p -> forall vs A ss ps A1,
      (forall v, In v vs -> FOp v) -> any_left rec A ss ps vs p = Some (false, A1) ->
      forall v, In v vs -> disjoint_p v p.
    Proof.
      intros Hp. induction vs as [|v vs IH]; intros A ss ps A1 Hvs H u Hu; [destruct Hu|]. cbn in H.
      destruct (rec A ss ps v p) as [[b' A']|] eqn:Hrec; [|discriminate].
      destruct b'; [discriminate|].
      destruct Hu as [<-|Hu].
      - eapply HRD; [apply Hvs; left; reflexivity|exact Hp|exact Hrec].
      - eapply IH; [intros w Hw; apply Hvs; right; exact Hw|exact H|exact Hu].
    Qed.

    Lemma any_right_false_p s : FOp s -> forall vs A ss ps A1,
      (forall v, In v vs -> FOp v) -> any_right rec A ss ps s vs = Some (false, A1) ->
      forall v, In v vs -> disjoint_p s v.
    Proof.
      intros Hs. induction vs as [|v vs IH]; intros A ss ps A1 Hvs H u Hu; [destruct Hu|]. cbn in H.
      destruct (rec A ss ps s v) as [[b' A']|] eqn:Hrec; [|discriminate].
      destruct b'; [discriminate|].
      destruct Hu as [<-|Hu].
      - eapply HRD; [exact Hs|apply Hvs; left; reflexivity|exact Hrec].
      - eapply IH; [intros w Hw; apply Hvs; right; exact Hw|exact H|exact Hu].
    Qed.

    Lemma tuple_fields_false_p : forall f1 f2 A ss ps A1,
      (forall a, In a f1 -> FOp (snd a)) -> (forall a, In a f2 -> FOp (snd a)) ->
      tuple_fields rec A ss ps f1 f2 = Some (false, A1) -> fields_disjoint_p f1 f2.
    Proof.
      induction f1 as [|[n1 t1] f1 IH]; intros [|[n2 t2] f2] A ss ps A1 H1 H2 H; cbn in H; try discriminate.
      intros m E1 E2 vs Hsub Ha Hb. inv Ha. inv Hb.
      repeat match goal with Hok : field_ok _ _ _ |- _ => destruct Hok as [? ?] end. cbn in *.
      destruct (opt_eqb n1 n2) eqn:Hn.
      - destruct (rec A ss ps t1 t2) as [[b' A']|] eqn:Hrec; [|discriminate].
        destruct b'.
        + eapply (IH f2 A' ss ps A1); [intros a Hin; apply H1; right; exact Hin|intros a Hin; apply H2; right; exact Hin
                                        |exact H|intros fv Hfv; apply Hsub; right; exact Hfv|eassumption|eassumption].
        + eapply (HRD _ _ _ _ _ _ (H1 (n1, t1) (or_introl eq_refl)) (H2 (n2, t2) (or_introl eq_refl)) Hrec);
            [apply (Hsub _ (or_introl eq_refl))|eassumption|eassumption].
      - assert (Hnn : n1 = n2) by congruence. rewrite Hnn in Hn. rewrite opt_eqb_refl in Hn. discriminate.
    Qed.

    Lemma any_concrete_field_false_p pn pt : FOp pt -> forall cfields A ss ps A1,
      (forall a, In a cfields -> FOp (snd a)) ->
      any_concrete_field rec A ss ps cfields pn pt = Some (false, A1) ->
      forall ct, In (Some pn, ct) cfields -> disjoint_p ct pt.
    Proof.
      intros Hpt. induction cfields as [|[cn ct0] cfields IH]; intros A ss ps A1 Hc H ct Hin; [destruct Hin|].
      cbn in H. destruct (opt_eqb cn (Some pn)) eqn:Hn.
      - destruct (rec A ss ps ct0 pt) as [[b' A']|] eqn:Hrec; [|discriminate].
        destruct b'; [discriminate|].
        destruct Hin as [Heq|Hin].
        + inversion Heq; subst. eapply HRD; [exact (Hc (Some pn, ct) (or_introl eq_refl))|exact Hpt|exact Hrec].
        + eapply IH; [intros a Ha; apply Hc; right; exact Ha|exact H|exact Hin].
      - destruct Hin as [Heq|Hin].
        + inversion Heq; subst. rewrite opt_eqb_refl in Hn. discriminate.
        + eapply IH; [intros a Ha; apply Hc; right; exact Ha|exact H|exact Hin].
    Qed.

    Lemma all_partial_fields_false_p cfields : (forall a, In a cfields -> FOp (snd a)) ->
      forall pfields A ss ps A1, (forall a, In a pfields -> FOp (snd a)) ->
      all_partial_fields rec A ss ps cfields pfields = Some (false, A1) ->
      exists l pt, In (l, pt) pfields /\ forall ct, In (Some l, ct) cfields -> disjoint_p ct pt.
    Proof.
      intros Hc. induction pfields as [|[pn pt] pfields IH]; intros A ss ps A1 Hp H; cbn in H; [discriminate|].
      destruct (any_concrete_field rec A ss ps cfields pn pt) as [[b' A']|] eqn:Hac; [|discriminate].
      destruct b'.
      - destruct (IH A' ss ps A1 (fun a Ha => Hp a (or_intror Ha)) H) as [l [pt' [Hin Hd]]].
        exists l, pt'. split; [right; exact Hin|exact Hd].
      - exists pn, pt. split; [left; reflexivity|].
        eapply any_concrete_field_false_p; [exact (Hp (pn, pt) (or_introl eq_refl))|exact Hc|exact Hac].
    Qed.

    Lemma any_partial_field_false_p fn2 ft2 : FOp ft2 -> forall fields1 A ss ps A1,
      (forall a, In a fields1 -> FOp (snd a)) ->
      any_partial_field rec A ss ps fields1 fn2 ft2 = Some (false, A1) ->
      forall ft1, In (fn2, ft1) fields1 -> disjoint_p ft1 ft2.
    Proof.
      intros Hpt. induction fields1 as [|[fn1 ft0] fields1 IH]; intros A ss ps A1 Hc H ft1 Hin; [destruct Hin|].
      cbn in H. destruct (Nat.eqb fn1 fn2) eqn:Hn.
      - destruct (rec A ss ps ft0 ft2) as [[b' A']|] eqn:Hrec; [|discriminate].
        destruct b'; [discriminate|].
        destruct Hin as [Heq|Hin].
        + inversion Heq; subst. eapply HRD; [exact (Hc (fn2, ft1) (or_introl eq_refl))|exact Hpt|exact Hrec].
        + eapply IH; [intros a Ha; apply Hc; right; exact Ha|exact H|exact Hin].
      - destruct Hin as [Heq|Hin].
        + inversion Heq; subst. rewrite Nat.eqb_refl in Hn. discriminate.
        + eapply IH; [intros a Ha; apply Hc; right; exact Ha|exact H|exact Hin].
    Qed.

    Lemma all_partial_partial_false_p fields1 : (forall a, In a fields1 -> FOp (snd a)) ->
      forall fields2 A ss ps A1, (forall a, In a fields2 -> FOp (snd a)) ->
      all_partial_partial cfg Any rec A ss ps fields1 fields2 = Some (false, A1) ->
      exists l t1 t2, In (l, t1) fields1 /\ In (l, t2) fields2 /\ disjoint_p t1 t2.
    Proof.
      intros Hc. induction fields2 as [|[fn2 ft2] fields2 IH]; intros A ss ps A1 Hp H; cbn in H; [discriminate|].
      rewrite Hpa in H. cbn in H.
      destruct (existsb (fun f => Nat.eqb (fst f) fn2) fields1) eqn:Hex; cbn in H.
      - destruct (any_partial_field rec A ss ps fields1 fn2 ft2) as [[b' A']|] eqn:Hap; [|discriminate].
        destruct b'.
        + destruct (IH A' ss ps A1 (fun a Ha => Hp a (or_intror Ha)) H) as [l [t1 [t2 [Hi1 [Hi2 Hd]]]]].
          exists l, t1, t2. split; [exact Hi1|split; [right; exact Hi2|exact Hd]].
        + apply existsb_exists in Hex. destruct Hex as [[fn1 ft1] [Hin Hfn]]. cbn in Hfn.
          apply Nat.eqb_eq in Hfn. subst fn1.
          exists fn2, ft1, ft2. split; [exact Hin|split; [left; reflexivity|]].
          eapply any_partial_field_false_p; [exact (Hp (fn2, ft2) (or_introl eq_refl))|exact Hc|exact Hap|exact Hin].
      - destruct (IH A ss ps A1 (fun a Ha => Hp a (or_intror Ha)) H) as [l [t1 [t2 [Hi1 [Hi2 Hd]]]]].
        exists l, t1, t2. split; [exact Hi1|split; [right; exact Hi2|exact Hd]].
    Qed.
  End Iter.

  Lemma retract_false_p mark r A1 : retract cfg mark r = Some (false, A1) -> exists A2, r = Some (false, A2).
  Proof.
    unfold retract. destruct r as [[b A2]|]; [|discriminate]. destruct b; [discriminate|]. intros _. eauto.
  Qed.

  Lemma overlap_false_disjoint_p : forall fuel A ss ps s p A1,
    FOp s -> FOp p -> check_rel cfg P Any fuel A ss ps s p = Some (false, A1) -> disjoint_p s p.
  Proof.
    induction fuel as [|f IH]; intros A ss ps s p A1 Hs Hp H; [discriminate|].
    cbn [check_rel] in H. unfold step in H.
    destruct (Nat.eqb s p) eqn:Heq; [discriminate|].
    destruct (assumed A (s, p)) eqn:Has; [discriminate|].
    inversion Hs as [? Hls|? Hls|? Hls|? ? Hls|? vs Hls Hvs|? tid1 info1 Hls Hlt1 Hfs1|? cp1 cr1 cc1 Hls|? ps1 pr1 Hls
                     |? pn1 pf1 Hls Hpf1]; subst;
    inversion Hp as [? Hlp|? Hlp|? Hlp|? ? Hlp|? ws Hlp Hws|? tid2 info2 Hlp Hlt2 Hfs2|? cp2 cr2 cc2 Hlp|? ps2 pr2 Hlp
                     |? pn2 pf2 Hlp Hpf2]; subst;
    rewrite Hls, Hlp in H; cbn in H; rewrite ?Hany, ?Hpa in H; cbn in H;
    try (destruct vs as [|v0 vs]; cbn in H);
    try discriminate;
    try (clash; fail).
    (* resource / resource with different names *)
    all: try (match goal with Hr : Some (?r =? ?r0, _) = Some _ |- _ =>
                destruct (r =? r0) eqn:Hrr; [discriminate|]; apply Nat.eqb_neq in Hrr; clash; congruence end; fail).
    (* empty union on the left *)
    all: try (eapply disjoint_union_left_p; [exact Hls|intros ? []]; fail).
    (* union on the left *)
    all: try (apply retract_false_p in H; destruct H as [A2 H];
              eapply disjoint_union_left_p; [exact Hls|];
              eapply (any_left_false_p (check_rel cfg P Any f) IH p Hp (v0 :: vs)); [exact Hvs|exact H]; fail).
    (* union on the right *)
    all: try (apply retract_false_p in H; destruct H as [A2 H];
              eapply disjoint_union_right_p; [exact Hlp|];
              eapply (any_right_false_p (check_rel cfg P Any f) IH s Hs ws); [exact Hws|exact H]; fail).
    - (* tuple / tuple *)
      destruct (tid1 =? tid2) eqn:Ht; [discriminate|].
      rewrite Hlt1, Hlt2 in H.
      destruct (opt_eqb (tname info1) (tname info2)) eqn:Hn; cbn in H.
      + destruct (length (tfields info1) =? length (tfields info2)) eqn:Hlen.
        * eapply disjoint_tuple_p; [exact Hls|exact Hlp|exact Hlt1|exact Hlt2|right; right].
          eapply (tuple_fields_false_p (check_rel cfg P Any f) IH); [exact Hfs1|exact Hfs2|exact H].
        * apply Nat.eqb_neq in Hlen. eapply disjoint_tuple_p; [exact Hls|exact Hlp|exact Hlt1|exact Hlt2|right; left; exact Hlen].
      + eapply disjoint_tuple_p; [exact Hls|exact Hlp|exact Hlt1|exact Hlt2|left].
        intros Heqn. rewrite Heqn in Hn. rewrite opt_eqb_refl in Hn. discriminate.
    - (* tuple / partial *)
      rewrite Hlt1 in H.
      eapply disjoint_tuple_partial_p; [exact Hls|exact Hlt1|exact Hlp|].
      destruct pn2 as [nm|].
      + destruct (opt_eqb (tname info1) (Some nm)) eqn:Hn.
        * right. eapply (all_partial_fields_false_p (check_rel cfg P Any f) IH); [exact Hfs1|exact Hpf2|exact H].
        * left. exists nm. split; [reflexivity|]. intros Heqn. rewrite Heqn in Hn. rewrite opt_eqb_refl in Hn. discriminate.
      + right. eapply (all_partial_fields_false_p (check_rel cfg P Any f) IH); [exact Hfs1|exact Hpf2|exact H].
    - (* partial / tuple: the swapped call *)
      apply disjoint_p_sym. eapply IH; [exact Hp|exact Hs|exact H].
    - (* partial / partial *)
      eapply disjoint_partial_partial_p; [exact Hls|exact Hlp|].
      rewrite ?andb_false_r in H. cbn in H.
      destruct pn1 as [n1|]; destruct pn2 as [n2|]; cbn in H;
        try (right; eapply (all_partial_partial_false_p (check_rel cfg P Any f) IH); [exact Hpf1|exact Hpf2|exact H]).
      destruct (Nat.eqb n1 n2) eqn:Hn; cbn in H.
      + right. eapply (all_partial_partial_false_p (check_rel cfg P Any f) IH); [exact Hpf1|exact Hpf2|exact H].
      + left. exists n1, n2. split; [reflexivity|split; [reflexivity|]]. apply Nat.eqb_neq. exact Hn.
  Qed.
End OverlapP.

Fixpoint fopb (P : registry) (k : nat) (t : nat) : bool :=
  match k with
  | 0 => false
  | S k' =>
    match lookup_type P t with
    | Some TInteger | Some TBinary | Some TReference | Some (TResource _) => true
    | Some (TCallable _ _ _) | Some (TProcess _ _) => true
    | Some (TUnion vs) => forallb (fopb P k') vs
    | Some (TTuple tid) =>
      match lookup_tuple P tid with
      | Some info => forallb (fun f => fopb P k' (snd f)) (tfields info)
      | None => false
      end
    | Some (TPartial _ pfs) => forallb (fun f => fopb P k' (snd f)) pfs
    | _ => false
    end
  end.

Lemma fopb_FOp P : forall k t, fopb P k t = true -> FOp P t.
Proof.
  induction k as [|k IH]; intros t H; [discriminate|]. cbn in H.
  destruct (lookup_type P t) as [ty|] eqn:Hl; [|discriminate].
  destruct ty as [| | |tid|pn fs|p r rc|d|vs|s r|r|v]; try discriminate.
  - eapply FOp_int; eassumption.
  - eapply FOp_bin; eassumption.
  - eapply FOp_ref; eassumption.
  - destruct (lookup_tuple P tid) as [info|] eqn:Ht; [|discriminate].
    eapply FOp_tuple; [eassumption|eassumption|]. rewrite forallb_forall in H. intros f Hf. apply IH. apply H. exact Hf.
  - eapply FOp_partial; [eassumption|]. rewrite forallb_forall in H. intros f Hf. apply IH. apply H. exact Hf.
  - eapply FOp_callable; eassumption.
  - eapply FOp_union; [eassumption|]. rewrite forallb_forall in H. intros u Hu. apply IH. apply H. exact Hu.
  - eapply FOp_process; eassumption.
  - eapply FOp_res; eassumption.
Qed.

(* cycle-free types built from ints, bins, refs, resources, tuples, PARTIALS, unions, callables,
   processes (components of callables / processes unconstrained) *)
Definition fop_domain (P : registry) (t : nat) : bool := fopb P (S (length (types P))) t.

Theorem overlap_complete_fop : forall cfg P fuel a b r,
  cfg_any_callable cfg = true -> cfg_partial_any cfg = true ->
  fop_domain P a = true -> fop_domain P b = true ->
  types_overlap_with cfg fuel P a b = Some r ->
  (exists n v, wfv v /\ inhab P n [] v a /\ inhab P n [] v b) -> r = true.
Proof.
  intros cfg P fuel a b r Hany Hpa Ha Hb Hr [n [v [Hw [Hva Hvb]]]].
  destruct r; [reflexivity|exfalso].
  unfold types_overlap_with in Hr.
  destruct (check_rel cfg P Any fuel [] [] [] a b) as [[r A1]|] eqn:Hc; [|discriminate]. cbn in Hr. inversion Hr; subst r.
  eapply (overlap_false_disjoint_p cfg P Hany Hpa fuel [] [] [] a b A1 (fopb_FOp _ _ _ Ha) (fopb_FOp _ _ _ Hb) Hc); eassumption.
Qed.
