(* TypedProofs.v — C01: proofs about the definitions of Typed.v.
     get_typed               a well-typed tuple's field inhabits its field type
     inhabv_sound_fo         the oracle's decision procedure implies Sem.inhab on first-order values
     istype_refines          an accepted run-time type test gives membership (relative to C08's table
                             statement and C09's compat_sound on its proved fragment)
     data_moves_origin /     every instruction other than Tuple/Function only moves or drops values:
     data_moves_preserve     each value of the next state is a value or direct component of the
                             previous state, an outside input, or an atom the machine makes itself
     monitor_sound           obligations O1-O4 at every step of a finished run: no VM-level type
                             failure, every held value stays well-typed, the result inhabits the
                             entry function's declared result type *)
From Quiver Require Import Base Types Sem Rel RelProofs Builtins.
From Quiver Require vm.Vm.
From Quiver Require Import typed.Typed.
From Coq Require Import Arith Lia.
Close Scope Z_scope.
Open Scope nat_scope.

(* ================================================================== get_typed *)
Section GetTyped.
  Variable P : tprog.

  Lemma Forall2_nth {A B} (Q : A -> B -> Prop) l1 l2 i x :
    Forall2 Q l1 l2 -> nth_error l1 i = Some x -> exists y, nth_error l2 i = Some y /\ Q x y.
  Proof.
    intros HF. revert i. induction HF as [|a b l1' l2' Hab HF IH]; intros i Hi.
    - destruct i; discriminate.
    - destruct i as [|i]; cbn in *.
      + inversion Hi; subst. exists b. split; [reflexivity|exact Hab].
      + apply IH. exact Hi.
  Qed.

  Lemma wt_all_Forall (l : list Bytecode.value) :
    (fix all (l : list Bytecode.value) : Prop :=
       match l with [] => True | x :: l' => wt_value P x /\ all l' end) l <-> Forall (wt_value P) l.
  Proof.
    induction l as [|x l IH]; split; intros H.
    - constructor.
    - exact I.
    - destruct H as [Hx Hl]. constructor; [exact Hx|apply IH; exact Hl].
    - inversion H; subst. split; [assumption|apply IH; assumption].
  Qed.

  Lemma wt_tuple t fs :
    wt_value P (Bytecode.VTuple t fs) <->
    (exists info, lookup_tuple (tp_reg P) t = Some info /\
                  Forall2 (fun x (f : option nat * nat) => vinhab P x (snd f)) fs (tfields info))
    /\ Forall (wt_value P) fs.
  Proof. cbn [wt_value]. rewrite wt_all_Forall. reflexivity. Qed.

  Lemma wt_fun f caps :
    wt_value P (Bytecode.VFun f caps) <->
    nth_error (tp_fn_caps P) f = Some (List.length caps) /\ f < List.length (tp_fn_type P) /\ Forall (wt_value P) caps.
  Proof. cbn [wt_value]. rewrite wt_all_Forall. reflexivity. Qed.

  (* executor.rs handle_get: the field read from a well-typed tuple inhabits the field type its
     tuple type declares at that position, and is itself well-typed *)
  Theorem get_typed : forall t fs i v,
    wt_value P (Bytecode.VTuple t fs) -> nth_error fs i = Some v ->
    wt_value P v /\
    exists info f, lookup_tuple (tp_reg P) t = Some info /\ nth_error (tfields info) i = Some f /\
                   vinhab P v (snd f).
  Proof.
    intros t fs i v Hwt Hi. apply wt_tuple in Hwt. destruct Hwt as [[info [Hinfo HF]] Hall].
    split.
    - rewrite Forall_forall in Hall. apply Hall. eapply nth_error_In. exact Hi.
    - destruct (Forall2_nth _ _ _ _ _ HF Hi) as [f [Hf Hv]]. exists info, f. auto.
  Qed.
End GetTyped.

(* ================================================================== inhabv_sound_fo *)
Section Sound.
  Variable Q : registry.
  Variables k cap nf : nat.

  Lemma opt_eqb_eq' o1 o2 : opt_eqb o1 o2 = true -> o1 = o2.
  Proof.
    destruct o1, o2; cbn; intros H; try discriminate; try reflexivity.
    apply Nat.eqb_eq in H. subst. reflexivity.
  Qed.

  Lemma first_orderb_fields name fs :
    first_orderb (VTup name fs) = true -> forall f, In f fs -> first_orderb (snd f) = true.
  Proof.
    induction fs as [|x fs IH]; intros H f Hin; [destruct Hin|].
    cbn in H. apply andb_true_iff in H. destruct H as [Hx Hr].
    destruct Hin as [<-|Hin]; [exact Hx|apply IH; assumption].
  Qed.

  (* one level: if membership one level down (ih) is sound for the first-order components, the
     walk through unions / cycles / tuples / partials is sound *)
  Lemma walk_inh_sound (en : env -> nat -> list value) (ih : env -> value -> nat -> bool)
        (R : env -> value -> nat -> Prop) :
    (forall E v t, first_orderb v = true -> ih E v t = true -> R E v t) ->
    forall fuel E v t, first_orderb v = true -> walk_inh Q en ih fuel E v t = true -> Inh Q R E v t.
  Proof.
    intros Hih fuel. induction fuel as [|fuel IH]; intros E v t Hfo H; [discriminate|].
    cbn [walk_inh] in H.
    destruct (lookup_type Q t) as [ty|] eqn:Ht; [|discriminate].
    destruct ty as [| | |tid|pname pfields|p r rc|d|vs|s r|rn|vn].
    - destruct v; try discriminate. apply Inh_int. exact Ht.
    - destruct v; try discriminate. apply Inh_bin. exact Ht.
    - destruct v; try discriminate. apply Inh_ref. exact Ht.
    - (* tuple *)
      destruct (lookup_tuple Q tid) as [info|] eqn:Hinfo; [|discriminate].
      destruct v as [| | |name fs| | |]; try discriminate.
      apply andb_true_iff in H. destruct H as [Hname Hfs].
      apply opt_eqb_eq' in Hname. subst name.
      eapply Inh_tuple; [exact Ht|exact Hinfo|].
      pose proof (first_orderb_fields _ _ Hfo) as Hfof.
      clear Hfo Hinfo. revert fs Hfs Hfof. generalize (tfields info) as tys.
      induction tys as [|[l ft] tys IHt]; intros [|[l' fv] fs] Hfs Hfof; cbn in Hfs; try discriminate.
      + constructor.
      + apply andb_true_iff in Hfs. destruct Hfs as [Hh Hrest]. apply andb_true_iff in Hh. destruct Hh as [Hl Hv].
        constructor.
        * split; cbn; [apply opt_eqb_eq'; exact Hl|]. apply Hih; [apply (Hfof (l', fv)); left; reflexivity|exact Hv].
        * apply IHt; [exact Hrest|]. intros f Hin. apply Hfof. right. exact Hin.
    - (* partial *)
      destruct v as [| | |name fs| | |]; try discriminate.
      apply andb_true_iff in H. destruct H as [Hname Hfs].
      eapply Inh_partial; [exact Ht| |].
      + destruct pname as [pn|]; [right; apply opt_eqb_eq'; exact Hname|left; reflexivity].
      + intros l ft Hin. rewrite forallb_forall in Hfs. specialize (Hfs (l, ft) Hin).
        unfold has_field in Hfs. apply existsb_exists in Hfs. destruct Hfs as [[l' fv] [Hinv Hc]].
        cbn in Hc. apply andb_true_iff in Hc. destruct Hc as [Hl Hv]. apply opt_eqb_eq' in Hl. cbn in Hl. subst l'.
        exists fv. split; [exact Hinv|]. apply Hih; [apply (first_orderb_fields _ _ Hfo (Some l, fv)); exact Hinv|exact Hv].
    - (* callable: not first-order *)
      destruct v; try discriminate.
    - (* cycle *)
      destruct d as [|d].
      + eapply Inh_dangling; [exact Ht|reflexivity].
      + destruct (nth_error E d) as [s|] eqn:Hs.
        * eapply Inh_cycle; [exact Ht|exact Hs|]. apply IH; assumption.
        * eapply Inh_dangling; [exact Ht|]. cbn. exact Hs.
    - (* union *)
      apply existsb_exists in H. destruct H as [u [Hu Hw]].
      eapply Inh_union; [exact Ht|exact Hu|]. apply IH; assumption.
    - (* process: not first-order *)
      destruct v; try discriminate.
    - destruct v; try discriminate. apply Nat.eqb_eq in H. subst. apply Inh_res. exact Ht.
    - discriminate.
  Qed.

  (* THE soundness of the judgement ./check C01 applies, on the fragment where it is exact:
     for a value holding no function / process, acceptance implies membership (Sem.inhab) *)
  Theorem inhabv_sound_fo : forall n E v t,
    first_orderb v = true -> inhabv k cap nf Q n E v t = true -> inhab Q n E v t.
  Proof.
    induction n as [|m IH]; intros E v t Hfo H; [discriminate|].
    cbn [inhabv] in H. cbn [inhab].
    eapply walk_inh_sound; [|exact Hfo|exact H].
    intros E' v' t' Hfo' H'. apply IH; assumption.
  Qed.
End Sound.

(* ================================================================== istype_refines *)
Section IsType.
  Variable R : registry.
  Variable cfg : rel_cfg.
  (* the run-time table consulted by `IsType t` (executor.rs handle_is_type): pattern type id ->
     the type id describing the value's concrete type -> accepted? *)
  Variable table : nat -> nat -> bool.
  (* C08's statement `table_is_relation` (one direction): the table is the relation is_compatible *)
  Hypothesis table_is_relation :
    forall t tag, table t tag = true -> exists fuel, is_compatible_with cfg fuel R tag t = Some true.

  Theorem istype_refines :
    cfg_retract cfg = true ->
    forall t tag n e,
      cf_domain cfg R tag = true -> cf_domain cfg R t = true ->
      table t tag = true -> inhab R n [] e tag -> inhab R n [] e t.
  Proof.
    intros Hret t tag n e Htag Ht Hacc Hv.
    destruct (table_is_relation t tag Hacc) as [fuel Hc].
    exact (compat_sound_cf cfg R fuel tag t Hret Htag Ht Hc n e Hv).
  Qed.
End IsType.

(* ================================================================== data moves *)
Section Moves.
  Import Quiver.vm.Vm.
  Variable Pvm : program.

  (* v is w itself or an immediate component of w *)
  Definition direct_part (v w : value) : Prop :=
    v = w \/ match w with VTuple _ fs => In v fs | VFun _ caps => In v caps | _ => False end.

  (* what the machine makes itself without a Tuple/Function instruction *)
  Definition atom (v : value) : Prop :=
    match v with
    | VInt _ | VBuiltin _ | VProc _ _ => True
    | VTuple t [] => t = NIL \/ t = OK
    | _ => False
    end.

  Definition origin (s : state) (x : ext) (v : value) : Prop :=
    (exists w, (In w (stack s) \/ In w (locals s)) /\ direct_part v w) \/ x_value x = Some v \/ atom v.

  Definition held (s : state) (v : value) : Prop := In v (stack s) \/ In v (locals s).

  (* the instruction about to run is not one of the two value constructors *)
  Definition not_constructor (s : state) : Prop :=
    forall fr code i, frames s = fr :: (tl (frames s)) -> code_of Pvm (fr_fn fr) = Some code ->
      nth_error code (fr_pc fr) = Some i ->
      (forall t, i <> ITuple t) /\ (forall f, i <> IFunction f).

  Lemma In_firstn' {A} (x : A) n l : In x (firstn n l) -> In x l.
  Proof. revert l; induction n as [|n IH]; intros [|a l] H; cbn in *; try contradiction. destruct H as [->|H]; auto. Qed.
  Lemma In_skipn' {A} (x : A) n l : In x (skipn n l) -> In x l.
  Proof. revert l; induction n as [|n IH]; intros [|a l] H; cbn in *; try contradiction; auto. Qed.

  Lemma popn_rest n : forall st acc vs st', popn n st acc = Some (vs, st') -> forall v, In v st' -> In v st.
  Proof.
    induction n as [|n IH]; intros st acc vs st' H v Hv; cbn in H.
    - inversion H; subst. exact Hv.
    - destruct st as [|a t]; [discriminate|]. right. eapply IH; eassumption.
  Qed.

  Section Step.
    Variables (s : state) (x : ext).

    Lemma origin_stack v : In v (stack s) -> origin s x v.
    Proof. intros H. left. exists v. split; [left; exact H|left; reflexivity]. Qed.
    Lemma origin_locals v : In v (locals s) -> origin s x v.
    Proof. intros H. left. exists v. split; [right; exact H|left; reflexivity]. Qed.
    Lemma origin_field v t fs : In (VTuple t fs) (stack s) -> In v fs -> origin s x v.
    Proof. intros H Hv. left. exists (VTuple t fs). split; [left; exact H|right; exact Hv]. Qed.
    Lemma origin_caps v f caps : In (VFun f caps) (stack s) -> In v caps -> origin s x v.
    Proof. intros H Hv. left. exists (VFun f caps). split; [left; exact H|right; exact Hv]. Qed.
    Lemma origin_ext v : x_value x = Some v -> origin s x v.
    Proof. intros H. right. left. exact H. Qed.
    Lemma origin_atom v : atom v -> origin s x v.
    Proof. intros H. right. right. exact H. Qed.
  End Step.

  Ltac stk :=
    repeat match goal with
           | E : stack ?s = _ |- context [stack ?s] => rewrite E
           end.

  Ltac leaf :=
    first
      [ apply origin_atom; cbn; auto; fail
      | apply origin_ext; assumption
      | apply origin_stack; stk; cbn; auto 10; fail
      | apply origin_locals; assumption
      | apply origin_stack; assumption
      | apply origin_stack; eapply nth_error_In; eassumption
      | apply origin_locals; eapply nth_error_In; eassumption
      | eapply origin_field; [stk; left; reflexivity|first [assumption | eapply nth_error_In; eassumption]]
      | eapply origin_caps; [stk; left; reflexivity|assumption] ].

  Ltac inv_in H :=
    match type of H with
    | False => destruct H
    | _ = _ \/ _ => let H' := fresh "Hin" in destruct H as [<-|H']; [|inv_in H']
    | In _ [] => destruct H
    | In _ (_ :: _) => let H' := fresh "Hin" in destruct H as [<-|H']; [|inv_in H']
    | In _ (_ ++ _) => let H' := fresh "Hin" in apply in_app_or in H; destruct H as [H'|H']; [inv_in H'|inv_in H']
    | In _ (firstn _ _) => apply In_firstn' in H; inv_in H
    | In _ (skipn _ _) => apply In_skipn' in H; inv_in H
    | _ => idtac
    end.

  (* executor.rs: every handler other than handle_tuple / handle_function only moves, copies or
     drops values: each value held after the step was held before (or is an immediate component of
     a held tuple / function: Get, Call), came from outside, or is an atom *)
  Theorem data_moves_origin : forall s x s',
    not_constructor s -> step Pvm s x = Next s' -> forall v, held s' v -> origin s x v.
  Proof.
    intros s x s' Hnc H v Hheld. unfold held in Hheld. unfold step in H. unfold not_constructor in Hnc.
    destruct (frames s) as [|fr rest] eqn:Hfr.
    { destruct (stack s); discriminate. }
    destruct (code_of Pvm (fr_fn fr)) as [code|] eqn:Hcode; [|discriminate].
    specialize (Hnc fr code).
    destruct (nth_error code (fr_pc fr)) as [i|] eqn:Hi.
    2:{ (* frame exit *)
      inversion H; subst s'; clear H. unfold bump in Hheld. cbn in Hheld.
      destruct rest as [|fr2 rest2]; cbn in Hheld;
        destruct (persistent s); cbn in Hheld; destruct Hheld as [Hin|Hin];
          first [apply origin_stack; exact Hin | apply origin_locals; exact Hin
                | apply In_firstn' in Hin; apply origin_locals; exact Hin]. }
    specialize (Hnc i eq_refl Hcode eq_refl). destruct Hnc as [Hnt Hnf].
    destruct i; try (exfalso; eapply Hnt; reflexivity); try (exfalso; eapply Hnf; reflexivity);
      repeat match type of H with
             | context [match ?e with _ => _ end] => destruct e eqn:?; try discriminate
             | context [if ?e then _ else _] => destruct e eqn:?; try discriminate
             end;
      inversion H; subst s'; clear H;
      unfold bump, with_stack, with_locals, with_frames in Hheld; cbn in Hheld;
      repeat match goal with E : frames _ = _ |- _ => rewrite E in Hheld; cbn in Hheld end;
      destruct Hheld as [Hin|Hin]; inv_in Hin; try leaf.
    all: try (apply origin_stack; eapply popn_rest; eassumption).
    all: try (destruct (stack s) as [|a0 st0] eqn:Est; [destruct Hin|]; apply In_skipn' in Hin;
              apply origin_stack; rewrite Est; right; exact Hin).
  Qed.

  (* consequence: any predicate that holds of the atoms, is inherited by immediate components, and
     holds of what the process held and of the outside inputs, holds of everything held after a
     step that is not a Tuple/Function construction *)
  Theorem data_moves_preserve : forall (Qv : value -> Prop),
    (forall v, atom v -> Qv v) ->
    (forall t fs, Qv (VTuple t fs) -> Forall Qv fs) ->
    (forall f caps, Qv (VFun f caps) -> Forall Qv caps) ->
    forall s x s',
      not_constructor s -> step Pvm s x = Next s' ->
      (forall v, held s v -> Qv v) -> (forall v, x_value x = Some v -> Qv v) ->
      forall v, held s' v -> Qv v.
  Proof.
    intros Qv Hatom Htup Hfun s x s' Hnc Hstep Hs Hx v Hv.
    destruct (data_moves_origin s x s' Hnc Hstep v Hv) as [[w [Hw Hpart]]|[He|Ha]].
    - destruct Hpart as [->|Hpart]; [apply Hs; exact Hw|].
      destruct w; try contradiction.
      + specialize (Htup _ _ (Hs _ Hw)). rewrite Forall_forall in Htup. apply Htup. exact Hpart.
      + specialize (Hfun _ _ (Hs _ Hw)). rewrite Forall_forall in Hfun. apply Hfun. exact Hpart.
    - apply Hx. exact He.
    - apply Hatom. exact Ha.
  Qed.
End Moves.

(* ================================================================== monitor_sound *)
Section MonitorSound.
  Import Quiver.vm.Vm.
  Variable Pvm : program.
  Variable P : tprog.
  Variable r0 : nat.           (* the entry function's declared result type *)

  (* monitor invariant: one promised result type per frame, the outermost promise is r0; once the
     last frame has returned, the value left on the stack inhabits r0 *)
  Definition MI (s : state) (m : list nat) : Prop :=
    List.length m = List.length (frames s) /\ last m r0 = r0 /\
    (frames s = [] -> exists v st, stack s = v :: st /\ vinhab P v r0).

  Lemma MI_same s s' m :
    MI s m -> frames s <> [] -> List.length (frames s') = List.length (frames s) -> MI s' m.
  Proof.
    intros [Hl [Hlast _]] Hne Hlen. split; [congruence|]. split; [exact Hlast|].
    intros He. rewrite He in Hlen. destruct (frames s); [contradiction|discriminate].
  Qed.

  Lemma MI_push s s' m r fr :
    MI s m -> frames s <> [] -> frames s' = fr :: frames s -> MI s' (r :: m).
  Proof.
    intros [Hl [Hlast _]] Hne Hfr. split; [rewrite Hfr; cbn; congruence|]. split.
    - destruct m as [|a m']; [destruct (frames s); [contradiction|discriminate]|exact Hlast].
    - intros He. rewrite Hfr in He. discriminate.
  Qed.

  Lemma MI_step s m x s' :
    MI s m -> obligations Pvm P s m x -> step Pvm s x = Next s' -> MI s' (mon_step Pvm P s m).
  Proof.
    intros HMI [_ [_ [Ho3 _]]] H. unfold step in H.
    destruct (frames s) as [|fr rest] eqn:Hfr.
    { destruct (stack s); discriminate. }
    destruct (code_of Pvm (fr_fn fr)) as [code|] eqn:Hcode; [|discriminate].
    assert (Hne : frames s <> []) by (rewrite Hfr; discriminate).
    destruct (nth_error code (fr_pc fr)) as [i|] eqn:Hi.
    2:{ (* frame exit *)
      assert (Hcur : cur_instr Pvm s = Some (fr, None)).
      { unfold cur_instr. rewrite Hfr, Hcode, Hi. reflexivity. }
      unfold mon_step. rewrite Hcur. specialize (Ho3 fr Hcur).
      inversion H; subst s'; clear H.
      destruct HMI as [Hl [Hlast _]]. rewrite Hfr in Hl.
      destruct m as [|r m']; [discriminate|]. cbn in Hl. injection Hl as Hl. cbn [tl].
      destruct rest as [|fr2 rest2].
      - destruct m'; [|discriminate]. cbn in Hlast. subst r.
        split; [reflexivity|]. split; [reflexivity|]. intros _.
        unfold bump; cbn. destruct (stack s) as [|v st]; [contradiction|]. exists v, st. split; [reflexivity|exact Ho3].
      - split; [unfold bump; cbn; exact Hl|]. split.
        + destruct m' as [|a m'']; [discriminate|exact Hlast].
        + unfold bump; cbn. discriminate. }
    assert (Hcur : cur_instr Pvm s = Some (fr, Some i)).
    { unfold cur_instr. rewrite Hfr, Hcode, Hi. reflexivity. }
    unfold mon_step. rewrite Hcur.
    destruct i;
      repeat match type of H with
             | context [match ?e with _ => _ end] => destruct e eqn:?; try discriminate
             | context [if ?e then _ else _] => destruct e eqn:?; try discriminate
             end;
      inversion H; subst s'; clear H;
      try (destruct (fn_sig P _) as [[[? ?] ?]|]);
      first
        [ eapply MI_same; [exact HMI|exact Hne|
            unfold bump, with_stack, with_locals, with_frames; cbn; rewrite ?Hfr; cbn; rewrite ?Hfr; reflexivity]
        | eapply MI_push; [exact HMI|exact Hne|cbn; rewrite ?Hfr; reflexivity] ].
  Qed.

  Lemma run_sound : forall xs s m,
    MI s m -> run_ok Pvm P s m xs ->
    match run_res Pvm s xs with
    | Some (Fault f) => type_fault f = false
    | Some (Finished v _) => result_inhabits P v r0
    | _ => True
    end.
  Proof.
    induction xs as [|x xs IH]; intros s m HMI Hok; [exact I|].
    cbn [run_ok] in Hok. destruct Hok as [Hob Hnext]. cbn [run_res].
    destruct (step Pvm s x) as [s'|v s'|f] eqn:Hstep.
    - apply (IH s' (mon_step Pvm P s m)); [eapply MI_step; eassumption|exact Hnext].
    - (* Finished: only from a state without frames *)
      unfold step in Hstep. destruct (frames s) as [|fr rest] eqn:Hfr.
      + destruct HMI as [_ [_ Hres]]. destruct (Hres Hfr) as [v' [st [Hst Hv]]].
        rewrite Hst in Hstep. inversion Hstep; subst. exact Hv.
      + exfalso. destruct (code_of Pvm (fr_fn fr)); [|discriminate].
        destruct (nth_error l (fr_pc fr)) as [i|]; [|discriminate].
        destruct i;
          repeat match type of Hstep with
                 | context [match ?e with _ => _ end] => destruct e eqn:?; try discriminate
                 | context [if ?e then _ else _] => destruct e eqn:?; try discriminate
                 end; try discriminate.
    - destruct Hob as [_ [_ [_ [Ho4 _]]]]. unfold O4 in Ho4. rewrite Hstep in Ho4. exact Ho4.
  Qed.

  (* THE monitor theorem: if the obligations O1-O4 (and the typing of outside inputs) hold at
     every step of a run of the entry function, the run does not end in a VM-level type failure,
     and a finished run's result inhabits the entry function's declared result type *)
  Theorem monitor_sound : forall entry arg xs,
    run_ok Pvm P (init_state entry [] arg false) [r0] xs ->
    match run_res Pvm (init_state entry [] arg false) xs with
    | Some (Fault f) => type_fault f = false
    | Some (Finished v _) => result_inhabits P v r0
    | _ => True
    end.
  Proof.
    intros entry arg xs Hok. eapply run_sound; [|exact Hok].
    split; [reflexivity|]. split; [reflexivity|]. cbn. discriminate.
  Qed.
End MonitorSound.
