(* Typed.v — C01: the semantic typing discipline of Quiver programs as Coq DEFINITIONS
   (executable where the check needs them; proofs are in TypedProofs.v / BuiltinTyped.v).

   What a type MEANS is Sem.v (`inhab`, C09's yardstick).  This file adds
     1. the registered TypeSpec signatures of the pure builtins (mirror of the `register_builtin!`
        table of quiver-core/src/builtins/mod.rs:263-427) and membership of a builtin-level value
        in a TypeSpec (`bspec_inhabb`);
     2. typed programs (`tprog`: the tables of program.rs `Program`/`Bytecode` that carry types),
        the erasure of a run-time value (value.rs `Value`: tuples carry tuple ids, functions carry
        function ids) to the structural value of Sem.v, `wt_value` and its decision procedure,
        the judgement `judge` used by ./check C01 on the REAL compiler's result value and inferred
        result type, and the enumerator of inputs of an inferred parameter type;
     3. the run-time OBLIGATIONS O1-O4 a sound compiler's output must meet, as predicates on a
        step of the machine of vm/Vm.v, and the typed monitor (`run_ok`). *)
From Quiver Require Import Base Types Sem Builtins.
From Quiver Require vm.Vm.
From Coq Require Import Arith String Ascii.
Close Scope Z_scope.
Close Scope string_scope.
Open Scope nat_scope.

(* ================================================================== 1. builtin signatures *)

(* builtins/mod.rs `enum TypeSpec` restricted to what the pure builtins use: tuple names and
   field labels are all `None` in the table below, so they are not represented *)
Inductive tspec :=
| SInt
| SBin
| STuple (fields : list tspec)
| SUnion (variants : list tspec).

Definition s_nil : tspec := STuple [].
Definition s_int_int := STuple [SInt; SInt].
Definition s_bin_int := STuple [SBin; SInt].
Definition s_bin_bin := STuple [SBin; SBin].
Definition s_bin_int_int := STuple [SBin; SInt; SInt].
Definition s_bin_int_int_int := STuple [SBin; SInt; SInt; SInt].
Definition s_bin_int_int_int_int := STuple [SBin; SInt; SInt; SInt; SInt].
Definition s_bin_bin_int := STuple [SBin; SBin; SInt].
Definition s_bin_int_bin := STuple [SBin; SInt; SBin].
Definition s_bin_or_nil := SUnion [SBin; s_nil].
Definition s_int_or_nil := SUnion [SInt; s_nil].

(* membership of a builtin-level value (Builtins.v `bval`: tuple ids are invisible to builtins)
   in a TypeSpec.  A union is the union of its variants; a tuple spec fixes the arity. *)
Fixpoint bspec_inhabb (s : tspec) (v : bval) {struct s} : bool :=
  match s with
  | SInt => match v with BInt _ => true | _ => false end
  | SBin => match v with BBin _ => true | _ => false end
  | STuple ss =>
      match v with
      | BTup vs =>
          (fix go (ss : list tspec) (vs : list bval) {struct ss} : bool :=
             match ss, vs with
             | [], [] => true
             | s' :: ss', v' :: vs' => bspec_inhabb s' v' && go ss' vs'
             | _, _ => false
             end) ss vs
      | _ => false
      end
  | SUnion ss =>
      (fix any (ss : list tspec) : bool :=
         match ss with [] => false | s' :: ss' => bspec_inhabb s' v || any ss' end) ss
  end.

Definition bspec_inhab (s : tspec) (v : bval) : Prop := bspec_inhabb s v = true.

(* one row of the table: registered name, implementation model (Builtins.v), parameter spec,
   result spec *)
Record bsig := mk_bsig {
  bs_name : string; bs_impl : bval -> outcome bval; bs_param : tspec; bs_result : tspec }.

Local Open Scope string_scope.
(* builtins/mod.rs:263-427, every pure builtin that Builtins.v models (all registered integer_*,
   binary_*, vector_* except integer_sin / integer_cos, which C12 treats by totality only) *)
Definition builtin_sigs : list bsig :=
  [ mk_bsig "binary_new" impl_binary_new SInt SBin;
    mk_bsig "binary_length" impl_binary_length SBin SInt;
    mk_bsig "binary_concat" impl_binary_concat s_bin_bin SBin;
    mk_bsig "binary_repeat" impl_binary_repeat s_bin_int SBin;
    mk_bsig "binary_and" impl_binary_and s_bin_bin SBin;
    mk_bsig "binary_or" impl_binary_or s_bin_bin SBin;
    mk_bsig "binary_xor" impl_binary_xor s_bin_bin SBin;
    mk_bsig "binary_not" impl_binary_not SBin SBin;
    mk_bsig "binary_shift" impl_binary_shift s_bin_int SBin;
    mk_bsig "binary_popcount" impl_binary_popcount SBin SInt;
    mk_bsig "binary_get" impl_binary_get s_bin_int_int_int SInt;
    mk_bsig "binary_set" impl_binary_set s_bin_int_int_int_int SBin;
    mk_bsig "binary_slice" impl_binary_slice s_bin_int_int SBin;
    mk_bsig "binary_index" impl_binary_index s_bin_int_int s_int_or_nil;
    mk_bsig "binary_hash32" impl_binary_hash32 SBin SInt;
    mk_bsig "binary_hash64" impl_binary_hash64 SBin SInt;
    mk_bsig "binary_append" impl_binary_append s_bin_int_int SBin;
    mk_bsig "integer_abs" impl_integer_abs SInt SInt;
    mk_bsig "integer_sqrt" impl_integer_sqrt SInt SInt;
    mk_bsig "integer_add" impl_integer_add s_int_int SInt;
    mk_bsig "integer_subtract" impl_integer_subtract s_int_int SInt;
    mk_bsig "integer_multiply" impl_integer_multiply s_int_int SInt;
    mk_bsig "integer_divide" impl_integer_divide s_int_int SInt;
    mk_bsig "integer_modulo" impl_integer_modulo s_int_int SInt;
    mk_bsig "integer_gcd" impl_integer_gcd s_int_int SInt;
    mk_bsig "integer_compare" impl_integer_compare s_int_int SInt;
    mk_bsig "integer_and" impl_integer_and s_int_int SInt;
    mk_bsig "integer_or" impl_integer_or s_int_int SInt;
    mk_bsig "integer_xor" impl_integer_xor s_int_int SInt;
    mk_bsig "integer_not" impl_integer_not SInt SInt;
    mk_bsig "integer_shift" impl_integer_shift s_int_int SInt;
    mk_bsig "integer_popcount" impl_integer_popcount SInt SInt;
    mk_bsig "vector_add" impl_vector_add s_bin_bin_int s_bin_or_nil;
    mk_bsig "vector_subtract" impl_vector_subtract s_bin_bin_int s_bin_or_nil;
    mk_bsig "vector_multiply" impl_vector_multiply s_bin_bin_int s_bin_or_nil;
    mk_bsig "vector_less_than" impl_vector_less_than s_bin_bin_int s_bin_or_nil;
    mk_bsig "vector_equal" impl_vector_equal s_bin_bin_int s_bin_or_nil;
    mk_bsig "vector_greater_than" impl_vector_greater_than s_bin_bin_int s_bin_or_nil;
    mk_bsig "vector_dot" impl_vector_dot s_bin_bin_int s_int_or_nil;
    mk_bsig "vector_take" impl_vector_take s_bin_int_bin s_bin_or_nil;
    mk_bsig "vector_get" impl_vector_get s_bin_int_int s_int_or_nil;
    mk_bsig "vector_push" impl_vector_push s_bin_int_int s_bin_or_nil;
    mk_bsig "vector_sum" impl_vector_sum s_bin_int s_int_or_nil ].
Local Close Scope string_scope.

(* the statement `builtin_result_typed` is about one row: on EVERY argument a value outcome
   inhabits the registered result spec; on an argument that inhabits the registered parameter
   spec (and whose binaries are well-formed ropes, C12's standing invariant) the builtin neither
   panics nor reports anything but the documented value-domain error InvalidArgument *)
Definition result_typed (b : bsig) : Prop :=
  forall a v, bs_impl b a = Val v -> bspec_inhab (bs_result b) v.
Definition only_domain_errors (wf_arg : bval -> Prop) (b : bsig) : Prop :=
  forall a, wf_arg a -> bspec_inhab (bs_param b) a ->
    match bs_impl b a with Val _ => True | Err e => e = InvalidArgument | Panic _ => False end.

(* for the correspondence check (compared with the real registry via `qv_builtin --names`):
   names as character codes — extraction keeps `string` out of the driver *)
Definition codes (s : string) : list nat := map nat_of_ascii (list_ascii_of_string s).
Definition sig_table : list (list nat * tspec * tspec) :=
  map (fun b => (codes (bs_name b), bs_param b, bs_result b)) builtin_sigs.

(* ================================================================== 2. typed programs, values *)

(* the type-carrying tables of a program (program.rs:13-19 `Program`, bytecode.rs:36-50) *)
Record tprog := mk_tprog {
  tp_reg : registry;          (* tuples (name, labelled field types) and types, by id *)
  tp_fn_type : list nat;      (* bytecode.rs:29 Function::type_id — the declared callable type *)
  tp_fn_proc : list nat;      (* id of `Process{send: receive, receive: result}` of that callable
                                 (compatibility.rs:223 derives the same pair for ConcreteType::Process) *)
  tp_fn_caps : list nat;      (* Function::captures *)
  tp_bi_type : list nat;      (* id of Callable{param_type, result_type, _} of BuiltinInfo *)
  tp_res : list nat;          (* resource type id -> code of its name (Bytecode::resources) *)
}.

(* type variables read as TOP: a value built inside a generic function carries the tuple id of
   the generic tuple type (`Cons['t, ^]`), whose field types mention `'t`; which instance the
   caller chose is not recorded at run time.  `TCycle 0` is unconstrained in Sem.v
   (Inh_dangling with resolve_binder _ 0 = None). *)
Definition open_ty (t : ty) : ty := match t with TVariable _ => TCycle 0 | _ => t end.
Definition open_reg (R : registry) : registry := mk_reg (tuples R) (map open_ty (types R)).

(* no type variable reachable from id t (fuel k) *)
Fixpoint var_freeb (R : registry) (k : nat) (t : nat) : bool :=
  match k with
  | 0 => false
  | S k' =>
    match lookup_type R t with
    | None => false
    | Some (TVariable _) => false
    | Some (TUnion vs) => forallb (var_freeb R k') vs
    | Some (TTuple tid) =>
      match lookup_tuple R tid with
      | None => false
      | Some info => forallb (fun f => var_freeb R k' (snd f)) (tfields info)
      end
    | Some (TPartial _ pfields) => forallb (fun f => var_freeb R k' (snd f)) pfields
    | Some (TCallable p r rc) => var_freeb R k' p && var_freeb R k' r && var_freeb R k' rc
    | Some (TProcess s r) =>
      match s with Some s0 => var_freeb R k' s0 | None => true end
      && match r with Some r0 => var_freeb R k' r0 | None => true end
    | Some _ => true
    end
  end.

Section Typed.
  Variable P : tprog.
  Let R := tp_reg P.
  Let Ro := open_reg (tp_reg P).

  (* value.rs `Value` (as vm/Bytecode.v models it) -> the structural value of Sem.v: a tuple id
     becomes (name, labels) of the tuple table; a function / builtin / process becomes its
     DECLARED type id.  None: an id outside the tables, or a tuple whose field count differs from
     its tuple type's (executor.rs handle_tuple always builds `arity` fields). *)
  Fixpoint erase (v : Bytecode.value) : option value :=
    match v with
    | Bytecode.VInt z => Some (VInt z)
    | Bytecode.VBin _ => Some (VBin [])
    | Bytecode.VRef r => Some (VRef r)
    | Bytecode.VTuple t fs =>
        match lookup_tuple R t with
        | None => None
        | Some info =>
            match (fix go (fs : list Bytecode.value) (ls : list (option nat * nat))
                     : option (list (option nat * value)) :=
                     match fs, ls with
                     | [], [] => Some []
                     | x :: fs', l :: ls' =>
                         match erase x, go fs' ls' with
                         | Some e, Some r => Some ((fst l, e) :: r)
                         | _, _ => None
                         end
                     | _, _ => None
                     end) fs (tfields info) with
            | Some efs => Some (VTup (tname info) efs)
            | None => None
            end
        end
    | Bytecode.VFun f _ => option_map VFun (nth_error (tp_fn_type P) f)
    | Bytecode.VBuiltin b => option_map VFun (nth_error (tp_bi_type P) b)
    | Bytecode.VProc _ f => option_map VProc (nth_error (tp_fn_proc P) f)
    | Bytecode.VRes _ ty => option_map VRes (nth_error (tp_res P) ty)
    end.

  (* "v inhabits type id t" for a run-time value: its erasure inhabits t (Sem.inhab) at some
     depth, type variables read as top *)
  Definition vinhab (v : Bytecode.value) (t : nat) : Prop :=
    exists n e, erase v = Some e /\ inhab Ro n [] e t.

  (* well-typed run-time value: every tuple has its tuple type's arity and each field inhabits
     its field type; a function carries exactly its captures; ids are in range *)
  Fixpoint wt_value (v : Bytecode.value) : Prop :=
    match v with
    | Bytecode.VTuple t fs =>
        (exists info, lookup_tuple R t = Some info /\
                      Forall2 (fun x (f : option nat * nat) => vinhab x (snd f)) fs (tfields info))
        /\ (fix all (l : list Bytecode.value) : Prop :=
              match l with [] => True | x :: l' => wt_value x /\ all l' end) fs
    | Bytecode.VFun f caps =>
        nth_error (tp_fn_caps P) f = Some (List.length caps) /\ f < List.length (tp_fn_type P)
        /\ (fix all (l : list Bytecode.value) : Prop :=
              match l with [] => True | x :: l' => wt_value x /\ all l' end) caps
    | Bytecode.VBuiltin b => b < List.length (tp_bi_type P)
    | Bytecode.VProc _ f => f < List.length (tp_fn_proc P)
    | Bytecode.VRes _ ty => ty < List.length (tp_res P)
    | _ => True
    end.

  (* the result of a run inhabits the type the compiler inferred for it *)
  Definition result_inhabits (v : Bytecode.value) (t : nat) : Prop := vinhab v t.

  (* ---------------------------------------------------------------- decision procedures *)
  Variables k cap nf : nat.   (* walk fuel, enumeration cap, depth of signature enumeration *)

  (* no function / process inside *)
  Fixpoint first_orderb (e : value) : bool :=
    match e with
    | VTup _ fs => (fix all (l : list (option nat * value)) : bool :=
                      match l with [] => true | x :: l' => first_orderb (snd x) && all l' end) fs
    | VFun _ | VProc _ => false
    | _ => true
    end.

  (* Sem.walk_inh with the witnesses used for function/process SIGNATURE containment restricted to
     first-order values of depth <= nf.  (Sem.inhabb enumerates at the value's own depth —
     exponential for a function under a deep list — and `inhab n (VFun c) t` is not monotone in n:
     at small n the containments are vacuous, so higher-order witnesses enumerated at one depth
     and tested at another give spurious answers.  First-order membership is monotone.)  On
     first-order values the enumeration is never consulted. *)
  Fixpoint inhabv (Q : registry) (n : nat) : env -> value -> nat -> bool :=
    match n with
    | 0 => fun _ _ _ => false
    | S m => walk_inh Q (fun E t => filter first_orderb (enum_inhab Q k cap (Nat.min nf m) E t))
                      (inhabv Q m) k
    end.

  Fixpoint vdepth (e : value) : nat :=
    match e with
    | VTup _ fs => S ((fix mx (l : list (option nat * value)) : nat :=
                         match l with [] => 0 | x :: l' => Nat.max (vdepth (snd x)) (mx l') end) fs)
    | _ => 1
    end.

  (* a function / process sub-value whose declared type mentions a type variable: comparing a
     generic signature with an instance needs unification, outside the judgement *)
  Fixpoint generic_fun (e : value) : bool :=
    match e with
    | VFun c | VProc c => negb (var_freeb R k c)
    | VTup _ fs => (fix any (l : list (option nat * value)) : bool :=
                      match l with [] => false | x :: l' => generic_fun (snd x) || any l' end) fs
    | _ => false
    end.

  Definition memb (e : value) (t : nat) : bool := inhabv Ro (vdepth e + nf) [] e t.

  Fixpoint wt_valueb (v : Bytecode.value) : bool :=
    match v with
    | Bytecode.VTuple t fs =>
        match lookup_tuple R t with
        | None => false
        | Some info =>
            (fix go (fs : list Bytecode.value) (ls : list (option nat * nat)) : bool :=
               match fs, ls with
               | [], [] => true
               | x :: fs', l :: ls' =>
                   wt_valueb x
                   && match erase x with
                      | Some e => generic_fun e || memb e (snd l)
                      | None => false
                      end
                   && go fs' ls'
               | _, _ => false
               end) fs (tfields info)
        end
    | Bytecode.VFun f caps =>
        match nth_error (tp_fn_caps P) f with
        | Some c => Nat.eqb c (List.length caps)
        | None => false
        end
        && (f <? List.length (tp_fn_type P))
        && (fix all (l : list Bytecode.value) : bool :=
              match l with [] => true | x :: l' => wt_valueb x && all l' end) caps
    | Bytecode.VBuiltin b => b <? List.length (tp_bi_type P)
    | Bytecode.VProc _ f => f <? List.length (tp_fn_proc P)
    | Bytecode.VRes _ ty => ty <? List.length (tp_res P)
    | _ => true
    end.

  Inductive verdict := Accept | Reject | Undecided | IllFormed.

  (* THE judgement of ./check C01: does the real result value inhabit the real inferred type? *)
  Definition judge (v : Bytecode.value) (t : nat) : verdict :=
    match erase v with
    | None => IllFormed
    | Some e => if generic_fun e then Undecided else if memb e t then Accept else Reject
    end.

  (* the inputs a function is applied to: inhabitants of its inferred parameter type *)
  Definition enum_inputs (n : nat) (t : nat) : list value := enum_inhab Ro k cap n [] t.
End Typed.

(* ================================================================== 3. obligations, monitor *)

Section Monitor.
  Variable Pvm : Bytecode.program.     (* what the executor keeps (vm/Bytecode.v) *)
  Variable P : tprog.                  (* the same program's typed tables *)

  (* the two views describe one program *)
  Definition consistent : Prop :=
    map Bytecode.f_caps (Bytecode.p_funcs Pvm) = tp_fn_caps P /\
    List.length (tp_fn_type P) = List.length (tp_fn_caps P) /\
    List.length (tp_fn_proc P) = List.length (tp_fn_caps P) /\
    Bytecode.p_tuples Pvm = map (fun i => List.length (tfields i)) (tuples (tp_reg P)) /\
    Bytecode.p_nbuiltins Pvm = List.length (tp_bi_type P).

  (* declared signature of function f: (parameter, result, receive) of its callable type *)
  Definition fn_sig (f : nat) : option (nat * nat * nat) :=
    match nth_error (tp_fn_type P) f with
    | Some c => match lookup_type (tp_reg P) c with
                | Some (TCallable p r rc) => Some (p, r, rc)
                | _ => None
                end
    | None => None
    end.
  Definition bi_sig (b : nat) : option (nat * nat * nat) :=
    match nth_error (tp_bi_type P) b with
    | Some c => match lookup_type (tp_reg P) c with
                | Some (TCallable p r rc) => Some (p, r, rc)
                | _ => None
                end
    | None => None
    end.

  Definition cur_instr (s : Vm.state) : option (Vm.frame * option Bytecode.instr) :=
    match Vm.frames s with
    | [] => None
    | fr :: _ =>
        match Vm.code_of Pvm (Vm.fr_fn fr) with
        | None => None
        | Some code => Some (fr, nth_error code (Vm.fr_pc fr))
        end
    end.

  (* VM-level type failures (error.rs TypeMismatch / FieldAccessInvalid / CallInvalid as Vm.v
     classes them; the structural ones are excluded by C07's verifier) *)
  Definition type_fault (f : Vm.fault) : bool :=
    match f with
    | Vm.FTypeMismatch | Vm.FFieldAccessInvalid | Vm.FCallInvalid => true
    | _ => false
    end.

  (* O1: `Tuple(tid)` — the operands inhabit tid's field types *)
  Definition O1 (s : Vm.state) : Prop :=
    forall fr t arity fs st,
      cur_instr s = Some (fr, Some (Bytecode.ITuple t)) ->
      nth_error (Bytecode.p_tuples Pvm) t = Some arity ->
      Vm.popn arity (Vm.stack s) [] = Some (fs, st) ->
      exists info, lookup_tuple (tp_reg P) t = Some info /\
                   Forall2 (fun x (f : option nat * nat) => vinhab P x (snd f)) fs (tfields info).

  (* O2: Call / TailCall / Spawn — the argument inhabits the callee's declared parameter type;
     Send — the message inhabits the receive type of the target's function *)
  Definition O2 (s : Vm.state) : Prop :=
    forall fr i, cur_instr s = Some (fr, Some i) ->
      match i, Vm.stack s with
      | Bytecode.ICall, Bytecode.VFun f _ :: arg :: _
      | Bytecode.ITailCall false, Bytecode.VFun f _ :: arg :: _
      | Bytecode.ISpawn, Bytecode.VFun f _ :: arg :: _ =>
          exists p r rc, fn_sig f = Some (p, r, rc) /\ vinhab P arg p
      | Bytecode.ICall, Bytecode.VBuiltin b :: arg :: _ =>
          exists p r rc, bi_sig b = Some (p, r, rc) /\ vinhab P arg p
      | Bytecode.ITailCall true, arg :: _ =>
          exists p r rc, fn_sig (Vm.fr_fn fr) = Some (p, r, rc) /\ vinhab P arg p
      | Bytecode.ISend, Bytecode.VProc _ f :: msg :: _ =>
          exists p r rc, fn_sig f = Some (p, r, rc) /\ vinhab P msg rc
      | _, _ => True
      end.

  (* the monitor's ghost state: per frame (innermost first) the result type its caller was
     promised — the declared result type of the function the frame was CALLED with; a tail call
     replaces the frame's function but not the promise *)
  Definition mon := list nat.
  Definition mon_step (s : Vm.state) (m : mon) : mon :=
    match cur_instr s with
    | Some (_, None) => tl m                                    (* frame exit *)
    | Some (_, Some Bytecode.ICall) =>
        match Vm.stack s with
        | Bytecode.VFun f _ :: _ =>
            match fn_sig f with Some (_, r, _) => r :: m | None => 0 :: m end
        | _ => m
        end
    | _ => m
    end.

  (* O3: frame exit — the returned value inhabits the promised result type *)
  Definition O3 (s : Vm.state) (m : mon) : Prop :=
    forall fr, cur_instr s = Some (fr, None) ->
      match Vm.stack s, m with
      | v :: _, r :: _ => vinhab P v r
      | _, _ => False
      end.

  (* O4: no VM-level type failure *)
  Definition O4 (s : Vm.state) (x : Vm.ext) : Prop :=
    match Vm.step Pvm s x with Vm.Fault f => type_fault f = false | _ => True end.

  (* values entering from outside the process (builtin results: `builtin_result_typed`; spawned
     pids; select results) are well-typed; a call's callee has a declared signature *)
  Definition Oext (s : Vm.state) (x : Vm.ext) : Prop :=
    (forall v, Vm.x_value x = Some v -> wt_value P v) /\
    (forall fr pid f, cur_instr s = Some (fr, Some (Bytecode.IProcess pid f)) -> f < List.length (tp_fn_proc P)) /\
    (forall fr, cur_instr s = Some (fr, Some Bytecode.ISelf) -> Vm.x_value x <> None).

  Definition obligations (s : Vm.state) (m : mon) (x : Vm.ext) : Prop :=
    O1 s /\ O2 s /\ O3 s m /\ O4 s x /\ Oext s x.

  (* the obligations hold at every step of the run driven by the inputs xs *)
  Fixpoint run_ok (s : Vm.state) (m : mon) (xs : list Vm.ext) : Prop :=
    match xs with
    | [] => True
    | x :: xs' =>
        obligations s m x /\
        match Vm.step Pvm s x with
        | Vm.Next s' => run_ok s' (mon_step s m) xs'
        | _ => True
        end
    end.

  (* where the run ends: None = the inputs ran out first (the run is not finished) *)
  Fixpoint run_res (s : Vm.state) (xs : list Vm.ext) : option Vm.sres :=
    match xs with
    | [] => None
    | x :: xs' =>
        match Vm.step Pvm s x with
        | Vm.Next s' => run_res s' xs'
        | r => Some r
        end
    end.

  (* every value the process holds is well-typed *)
  Definition state_wt (s : Vm.state) : Prop :=
    Forall (wt_value P) (Vm.stack s) /\ Forall (wt_value P) (Vm.locals s).
End Monitor.
