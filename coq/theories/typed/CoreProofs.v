(* CoreProofs.v — C01: soundness of the core typing judgement of Core.v.

     core_soundness : infer k G e = Some T -> env_ok rho G -> eval n rho e = Some v -> memb v T
   (a well-typed core expression that evaluates to a value yields a value of its type), and
     core_progress_free : the evaluator's stuck states (field access on a non-tuple, addition of a
   non-integer, ..) are exactly what `eval = None` with enough fuel means; soundness is stated
   for finished evaluations, as C01 is ("when it produces a value ...").
   Supporting lemmas: subty_sound, disj_sound (the two type relations the judgement uses are
   sound for [[.]]), split_sound (forward narrowing and complement narrowing of a decisive
   pattern partition the values of the scrutinee's type as the run-time match does). *)
From Quiver Require Import Base typed.Core.
From Coq Require Import Arith Lia.
Close Scope Z_scope.
Open Scope nat_scope.

(* ---------------------------------------------------------------- induction on types *)
Lemma cty_ind2 (P : cty -> Prop) :
  P TyInt -> P TyBin ->
  (forall n ts, Forall P ts -> P (TyTup n ts)) ->
  (forall ts, Forall P ts -> P (TyUnion ts)) ->
  forall t, P t.
Proof.
  intros HI HB HT HU.
  fix IH 1. intros [| |n ts|ts].
  - exact HI.
  - exact HB.
  - apply HT. induction ts as [|t ts IHts]; constructor; [apply IH|exact IHts].
  - apply HU. induction ts as [|t ts IHts]; constructor; [apply IH|exact IHts].
Qed.

Lemma olab_eqb_eq a b : olab_eqb a b = true -> a = b.
Proof.
  destruct a, b; cbn; intros H; try discriminate; try reflexivity.
  apply Nat.eqb_eq in H. subst. reflexivity.
Qed.

Lemma olab_eqb_refl a : olab_eqb a a = true.
Proof. destruct a; cbn; [apply Nat.eqb_refl|reflexivity]. Qed.

Lemma olabs_eqb_eq : forall l1 l2, olabs_eqb l1 l2 = true -> l1 = l2.
Proof.
  induction l1 as [|a l1 IH]; intros [|b l2] H; cbn in H; try discriminate; [reflexivity|].
  apply andb_true_iff in H. destruct H as [H1 H2]. apply olab_eqb_eq in H1. subst. f_equal. apply IH. exact H2.
Qed.

Lemma olabs_eqb_refl l : olabs_eqb l l = true.
Proof. induction l as [|a l IH]; cbn; [reflexivity|]. rewrite olab_eqb_refl, IH. reflexivity. Qed.

Lemma oname_eqb_eq a b : oname_eqb a b = true -> a = b.
Proof.
  destruct a as [n ls], b as [m ms]. unfold oname_eqb. cbn [fst snd]. intros H.
  apply andb_true_iff in H. destruct H as [H1 H2].
  apply olab_eqb_eq in H1. apply olabs_eqb_eq in H2. subst. reflexivity.
Qed.

Lemma oname_eqb_refl a : oname_eqb a a = true.
Proof. destruct a as [n ls]. unfold oname_eqb. cbn [fst snd]. rewrite olab_eqb_refl, olabs_eqb_refl. reflexivity. Qed.

Lemma all2b_Forall2 {A B} (f : A -> B -> bool) l1 l2 :
  all2b f l1 l2 = true <-> Forall2 (fun a b => f a b = true) l1 l2.
Proof.
  revert l2. induction l1 as [|a l1 IH]; intros [|b l2]; cbn [all2b].
  - split; [constructor|reflexivity].
  - split; [discriminate|intros H; inversion H].
  - split; [discriminate|intros H; inversion H].
  - rewrite andb_true_iff, IH. split.
    + intros [H1 H2]. constructor; assumption.
    + intros H. inversion H; subst. split; assumption.
Qed.

Lemma Forall2_length {A B} (R : A -> B -> Prop) l1 l2 : Forall2 R l1 l2 -> List.length l1 = List.length l2.
Proof. intros H. induction H; cbn; congruence. Qed.

(* ---------------------------------------------------------------- membership *)
Lemma memb_tup n ts m vs :
  memb (CTup m vs) (TyTup n ts) = true <->
  n = m /\ Forall2 (fun t v => memb v t = true) ts vs.
Proof.
  cbn [memb]. rewrite andb_true_iff, all2b_Forall2. split; intros [H1 H2]; split; auto.
  - apply oname_eqb_eq; exact H1.
  - subst. apply oname_eqb_refl.
Qed.

Lemma memb_union v ts : memb v (TyUnion ts) = true <-> exists t, In t ts /\ memb v t = true.
Proof. cbn [memb]. rewrite existsb_exists. reflexivity. Qed.

Lemma memb_variants v t : memb v t = true <-> exists u, In u (variants t) /\ memb v u = true.
Proof.
  destruct t; cbn [Core.variants]; try (split; [intros H; eexists; split; [left; reflexivity|exact H]
                                         |intros [u [[<-|[]] H]]; exact H]).
  apply memb_union.
Qed.

Lemma cty_eqb_eq : forall a b, cty_eqb a b = true -> a = b.
Proof.
  induction a as [| |n ts IH|ts IH] using cty_ind2; intros [| |m us|us] H; cbn [cty_eqb] in H; try discriminate; try reflexivity.
  - apply andb_true_iff in H. destruct H as [Hn Hall]. apply oname_eqb_eq in Hn. subst m. f_equal.
    apply all2b_Forall2 in Hall. revert us Hall. induction IH as [|t ts Ht _ IHts]; intros us Hall; inversion Hall; subst.
    + reflexivity.
    + f_equal; [apply Ht; assumption|apply IHts; assumption].
  - f_equal. apply all2b_Forall2 in H. revert us H. induction IH as [|t ts Ht _ IHts]; intros us Hall; inversion Hall; subst.
    + reflexivity.
    + f_equal; [apply Ht; assumption|apply IHts; assumption].
Qed.

Lemma dedup_In l : forall u, In u (dedup l) <-> In u l.
Proof.
  induction l as [|t l IH]; intros u; cbn [dedup]; [reflexivity|]. split.
  - intros [<-|H]; [left; reflexivity|]. apply filter_In in H. right. apply (proj1 (IH u)). apply H.
  - intros [<-|H]; [left; reflexivity|].
    destruct (cty_eqb t u) eqn:E.
    + left. apply cty_eqb_eq. exact E.
    + right. apply filter_In. split; [apply (proj2 (IH u)); exact H|rewrite E; reflexivity].
Qed.

Lemma memb_mk_union v ts :
  memb v (mk_union ts) = true <-> exists t, In t ts /\ memb v t = true.
Proof.
  unfold mk_union.
  assert (Hflat : (exists u, In u (dedup (flat_map Core.variants ts)) /\ memb v u = true) <->
                  (exists t, In t ts /\ memb v t = true)).
  { split.
    - intros [u [Hin Hu]]. apply (proj1 (dedup_In _ _)) in Hin. apply in_flat_map in Hin. destruct Hin as [t [Ht Hut]].
      exists t. split; [exact Ht|]. apply memb_variants. exists u. auto.
    - intros [t [Ht Hv]]. apply memb_variants in Hv. destruct Hv as [u [Hu Hm]].
      exists u. split; [|exact Hm]. apply (proj2 (dedup_In _ _)). apply in_flat_map. exists t. auto. }
  rewrite <- Hflat.
  destruct (dedup (flat_map Core.variants ts)) as [|u [|u2 l]].
  - rewrite memb_union. reflexivity.
  - split; [intros H; exists u; split; [left; reflexivity|exact H]|intros [u' [[<-|[]] H]]; exact H].
  - rewrite memb_union. reflexivity.
Qed.

(* ---------------------------------------------------------------- the two type relations *)
Lemma subty_sound : forall s t v, subty s t = true -> memb v s = true -> memb v t = true.
Proof.
  induction s as [| |n ss IH|ss IH] using cty_ind2; intros t v Hs Hv.
  - cbn [subty] in Hs. apply existsb_exists in Hs. destruct Hs as [u [Hu Hi]].
    destruct u; try discriminate. apply memb_variants. exists TyInt. auto.
  - cbn [subty] in Hs. apply existsb_exists in Hs. destruct Hs as [u [Hu Hi]].
    destruct u; try discriminate. apply memb_variants. exists TyBin. auto.
  - cbn [subty] in Hs. apply existsb_exists in Hs. destruct Hs as [u [Hu Hi]].
    destruct u as [| |m us|]; try discriminate.
    apply andb_true_iff in Hi. destruct Hi as [Hn Hall]. apply oname_eqb_eq in Hn. subst m.
    destruct v as [| |m vs]; try discriminate.
    apply memb_tup in Hv. destruct Hv as [<- Hvs].
    apply memb_variants. exists (TyTup n us). split; [exact Hu|]. apply memb_tup. split; [reflexivity|].
    apply all2b_Forall2 in Hall.
    clear Hu. revert us vs Hall Hvs. induction IH as [|s ss Hs' _ IHss]; intros us vs Hall Hvs.
    + inversion Hall; subst. inversion Hvs; subst. constructor.
    + inversion Hall; subst. inversion Hvs; subst. constructor.
      * eapply Hs'; eassumption.
      * eapply IHss; eassumption.
  - cbn [subty] in Hs. rewrite forallb_forall in Hs. apply memb_union in Hv. destruct Hv as [s [Hin Hm]].
    rewrite Forall_forall in IH. eapply IH; [exact Hin|apply Hs; exact Hin|exact Hm].
Qed.

Lemma memb_not_union_variant v t u :
  In u (variants t) -> memb v u = true -> memb v t = true.
Proof. intros Hin Hm. apply memb_variants. exists u. auto. Qed.

Lemma disj_sound : forall s t v, disj s t = true -> memb v s = true -> memb v t = false.
Proof.
  induction s as [| |n ss IH|ss IH] using cty_ind2; intros t v Hd Hv.
  - cbn [disj] in Hd. rewrite forallb_forall in Hd. destruct v; try discriminate.
    destruct (memb (CInt z) t) eqn:E; [|reflexivity]. exfalso.
    apply memb_variants in E. destruct E as [u [Hu Hm]]. specialize (Hd u Hu).
    destruct u; try discriminate.
  - cbn [disj] in Hd. rewrite forallb_forall in Hd. destruct v; try discriminate.
    destruct (memb (CBin len) t) eqn:E; [|reflexivity]. exfalso.
    apply memb_variants in E. destruct E as [u [Hu Hm]]. specialize (Hd u Hu).
    destruct u; try discriminate.
  - cbn [disj] in Hd. rewrite forallb_forall in Hd.
    destruct v as [| |m vs]; try discriminate. apply memb_tup in Hv. destruct Hv as [<- Hvs].
    destruct (memb (CTup n vs) t) eqn:E; [|reflexivity]. exfalso.
    apply memb_variants in E. destruct E as [u [Hu Hm]]. specialize (Hd u Hu).
    destruct u as [| |m us|]; try discriminate.
    apply memb_tup in Hm. destruct Hm as [-> Hus].
    rewrite oname_eqb_refl in Hd. cbn [negb orb] in Hd.
    assert (Hlen : List.length ss = List.length us).
    { rewrite (Forall2_length _ _ _ Hvs), (Forall2_length _ _ _ Hus). reflexivity. }
    rewrite Hlen, Nat.eqb_refl in Hd. cbn [negb orb] in Hd.
    clear Hu Hlen. revert us vs Hd Hvs Hus. induction IH as [|s ss Hs' _ IHss]; intros us vs Hd Hvs Hus.
    + cbn in Hd. discriminate.
    + inversion Hvs; subst. inversion Hus; subst. cbn [any2b] in Hd.
      apply orb_true_iff in Hd. destruct Hd as [Hd|Hd].
      * match goal with Hm1 : memb ?y s = true, Hm2 : memb ?y ?x = true |- _ =>
          rewrite (Hs' _ _ Hd Hm1) in Hm2; discriminate end.
      * eapply IHss; eassumption.
  - cbn [disj] in Hd. rewrite forallb_forall in Hd. apply memb_union in Hv. destruct Hv as [s [Hin Hm]].
    rewrite Forall_forall in IH. eapply IH; [exact Hin|apply Hd; exact Hin|exact Hm].
Qed.

(* ---------------------------------------------------------------- environments *)
Definition env_ok (rho : env) (G : tenv) : Prop :=
  forall x t, lookup x G = Some t -> exists v, lookup x rho = Some v /\ memb v t = true.

Lemma env_ok_cons rho G x v t : env_ok rho G -> memb v t = true -> env_ok ((x, v) :: rho) ((x, t) :: G).
Proof.
  intros H Hv y ty Hy. cbn [lookup] in *. destruct (Nat.eqb y x).
  - inversion Hy; subst. exists v. auto.
  - apply H. exact Hy.
Qed.

Lemma env_ok_narrow rho G x v t :
  env_ok rho G -> lookup x rho = Some v -> memb v t = true -> env_ok rho ((x, t) :: G).
Proof.
  intros H Hx Hv y ty Hy. cbn [lookup] in Hy. destruct (Nat.eqb y x) eqn:E.
  - inversion Hy; subst. apply Nat.eqb_eq in E. subst. exists v. auto.
  - apply H. exact Hy.
Qed.

(* ---------------------------------------------------------------- patterns *)
(* a decisive pattern partitions the values of the scrutinee's variants as the run-time match does *)
Lemma selects_true p u v rho :
  selects p u = Some true -> memb v u = true -> exists rho', pmatch p v rho = Some rho'.
Proof.
  destruct p as [t|n bs]; cbn [selects pmatch]; intros Hs Hv.
  - destruct (subty u t) eqn:E.
    + rewrite (subty_sound _ _ _ E Hv). eauto.
    + destruct (disj u t); discriminate.
  - destruct u as [| |m us|]; try discriminate.
    destruct v as [| |m' vs]; try discriminate. apply memb_tup in Hv. destruct Hv as [<- Hvs].
    inversion Hs as [Hs']. rewrite <- (Forall2_length _ _ _ Hvs). rewrite Hs'. eauto.
Qed.

Lemma selects_false p u v rho :
  selects p u = Some false -> memb v u = true -> pmatch p v rho = None.
Proof.
  destruct p as [t|n bs]; cbn [selects pmatch]; intros Hs Hv.
  - destruct (subty u t); [discriminate|]. destruct (disj u t) eqn:E; [|discriminate].
    rewrite (disj_sound _ _ _ E Hv). reflexivity.
  - destruct u as [| |m us|]; try discriminate.
    + destruct v; try discriminate. reflexivity.
    + destruct v; try discriminate. reflexivity.
    + destruct v as [| |m' vs]; try discriminate. apply memb_tup in Hv. destruct Hv as [<- Hvs].
      inversion Hs as [Hs']. rewrite <- (Forall2_length _ _ _ Hvs). rewrite Hs'. reflexivity.
Qed.

Lemma split_sound p : forall us m r v rho,
  split_variants p us = Some (m, r) ->
  (exists u, In u us /\ memb v u = true) ->
  match pmatch p v rho with
  | Some _ => exists u, In u m /\ memb v u = true
  | None => exists u, In u r /\ memb v u = true
  end.
Proof.
  induction us as [|u0 us IH]; intros m r v rho Hs [u [Hin Hv]]; [destruct Hin|].
  cbn [split_variants] in Hs.
  destruct (selects p u0) as [[|]|] eqn:Esel; try discriminate;
    destruct (split_variants p us) as [[m' r']|] eqn:Esp; try discriminate; inversion Hs; subst; clear Hs.
  - destruct Hin as [<-|Hin].
    + destruct (selects_true _ _ _ rho Esel Hv) as [rho' ->]. exists u0. split; [left; reflexivity|exact Hv].
    + specialize (IH m' r v rho eq_refl (ex_intro _ u (conj Hin Hv))).
      destruct (pmatch p v rho); destruct IH as [u' [Hu' Hm']]; exists u'; split; auto. right; exact Hu'.
  - destruct Hin as [<-|Hin].
    + rewrite (selects_false _ _ _ rho Esel Hv). exists u0. split; [left; reflexivity|exact Hv].
    + specialize (IH m r' v rho eq_refl (ex_intro _ u (conj Hin Hv))).
      destruct (pmatch p v rho); destruct IH as [u' [Hu' Hm']]; exists u'; split; auto. right; exact Hu'.
Qed.

(* what is selected by a variant pattern is a tuple type of the pattern's shape *)
Lemma split_matched_shape n bs : forall us m r,
  split_variants (PTup n bs) us = Some (m, r) ->
  forall u, In u m -> exists ts, u = TyTup n ts /\ List.length ts = List.length bs.
Proof.
  induction us as [|u0 us IH]; intros m r Hs u Hin; cbn [split_variants] in Hs.
  - inversion Hs; subst. destruct Hin.
  - destruct (selects (PTup n bs) u0) as [[|]|] eqn:Esel; try discriminate;
      destruct (split_variants (PTup n bs) us) as [[m' r']|] eqn:Esp; try discriminate;
      inversion Hs; subst; clear Hs.
    + destruct Hin as [<-|Hin]; [|eapply IH; [reflexivity|exact Hin]].
      cbn [selects] in Esel. destruct u0 as [| |k ts|]; try discriminate. inversion Esel as [E].
      apply andb_true_iff in E. destruct E as [E1 E2]. apply oname_eqb_eq in E1. apply Nat.eqb_eq in E2.
      subst. exists ts. auto.
    + eapply IH; [reflexivity|exact Hin].
Qed.

Lemma Forall2_nth_r' {A B} (R : A -> B -> Prop) l1 l2 : Forall2 R l1 l2 ->
  forall j b, nth_error l2 j = Some b -> exists a, nth_error l1 j = Some a /\ R a b.
Proof.
  intros HF. induction HF as [|a b l1' l2' Hab HF IH]; intros j y Hj.
  - destruct j; discriminate.
  - destruct j as [|j]; cbn in *.
    + inversion Hj; subst. exists a. auto.
    + apply IH. exact Hj.
Qed.

Lemma bind_ok ms : forall bs i vs rho G,
  List.length bs = List.length vs ->
  (forall j v, nth_error vs j = Some v -> memb v (mk_union (field_types ms (i + j))) = true) ->
  env_ok rho G -> env_ok (bind_all bs vs rho) (bind_types bs i ms G).
Proof.
  induction bs as [|b bs IH]; intros i vs rho G Hlen Hvs Hok.
  - destruct vs; [exact Hok|discriminate].
  - destruct vs as [|v vs]; [discriminate|]. cbn in Hlen. injection Hlen as Hlen.
    assert (Hrest : forall j w, nth_error vs j = Some w -> memb w (mk_union (field_types ms (S i + j))) = true).
    { intros j w Hj. replace (S i + j) with (i + S j) by lia. apply Hvs. exact Hj. }
    destruct b as [x|]; cbn [bind_all bind_types].
    + apply IH; [exact Hlen|exact Hrest|]. apply env_ok_cons; [exact Hok|].
      specialize (Hvs 0 v eq_refl). rewrite Nat.add_0_r in Hvs. exact Hvs.
    + apply IH; [exact Hlen|exact Hrest|exact Hok].
Qed.

Lemma pat_binds_ok p us m r v rho rho' G :
  split_variants p us = Some (m, r) ->
  (exists u, In u m /\ memb v u = true) ->
  pmatch p v rho = Some rho' -> env_ok rho G -> env_ok rho' (pat_binds p m G).
Proof.
  intros Hs [u [Hin Hv]] Hp Hok. destruct p as [t|n bs]; cbn [pmatch pat_binds] in *.
  - destruct (memb v t); inversion Hp; subst. exact Hok.
  - destruct v as [| |k vs]; try discriminate.
    destruct (oname_eqb n k && Nat.eqb (List.length bs) (List.length vs)) eqn:E; [|discriminate].
    inversion Hp; subst; clear Hp. apply andb_true_iff in E. destruct E as [_ El]. apply Nat.eqb_eq in El.
    destruct (split_matched_shape _ _ _ _ _ Hs u Hin) as [ts [-> Hts]].
    apply memb_tup in Hv. destruct Hv as [_ Hvs].
    apply bind_ok; [exact El| |exact Hok].
    intros j w Hj. cbn [Nat.add]. apply memb_mk_union.
    destruct (Forall2_nth_r' _ _ _ Hvs j w Hj) as [tj [Htj Hm]].
    exists tj. split; [|exact Hm]. unfold field_types. apply in_flat_map. exists (TyTup n ts).
    split; [exact Hin|]. rewrite Htj. left. reflexivity.
Qed.

(* ---------------------------------------------------------------- soundness *)
Section Soundness.
  Variable fns : list fdef.

  (* the statement for one (fuel, fuel) pair, used as induction hypothesis *)
  Definition sound_at (n k : nat) : Prop :=
    forall G e T rho v,
      infer fns k G e = Some T -> env_ok rho G -> eval fns n rho e = Some v -> memb v T = true.

  Lemma map_opt_sound n k G rho : sound_at n k -> env_ok rho G ->
    forall es ts vs,
      map_opt (infer fns k G) es = Some ts -> map_opt (eval fns n rho) es = Some vs ->
      Forall2 (fun t v => memb v t = true) ts vs.
  Proof.
    intros IH Hok. induction es as [|e es IHes]; intros ts vs Ht Hv; cbn [map_opt] in *.
    - inversion Ht; inversion Hv; subst. constructor.
    - destruct (infer fns k G e) as [t|] eqn:Et; [|discriminate].
      destruct (map_opt (infer fns k G) es) as [ts'|]; [|discriminate].
      destruct (eval fns n rho e) as [v|] eqn:Ev; [|discriminate].
      destruct (map_opt (eval fns n rho) es) as [vs'|]; [|discriminate].
      inversion Ht; inversion Hv; subst. constructor.
      + eapply IH; eassumption.
      + apply IHes; reflexivity.
  Qed.

  (* what has been collected from the branches so far stays inside the block's type *)
  Lemma infer_case_acc k x G d : forall brs rest acc T,
    infer_case (infer fns k) x G d brs rest acc = Some T ->
    forall w t, In t acc -> memb w t = true -> memb w T = true.
  Proof.
    induction brs as [|[p b] brs IHb]; intros rest acc T Hi w t Hin Hw; cbn [infer_case] in Hi.
    - destruct (infer fns k ((x, mk_union rest) :: G) d) as [td|]; [|discriminate].
      inversion Hi; subst. apply memb_mk_union. exists t. split; [apply in_or_app; left; exact Hin|exact Hw].
    - destruct (split_variants p rest) as [[m r]|]; [|discriminate].
      destruct m as [|m0 ms].
      + eapply IHb; eassumption.
      + destruct (infer fns k (pat_binds p (m0 :: ms) ((x, mk_union (m0 :: ms)) :: G)) b) as [tb|]; [|discriminate].
        eapply IHb; [exact Hi| |exact Hw]. apply in_or_app. left. exact Hin.
  Qed.

  (* the branch loop: the scrutinee's value lies in one of the variants `rest` still possible;
     the value the loop returns lies in the block's type *)
  Lemma case_sound n k x G d rho v : sound_at n k -> env_ok rho G -> lookup x rho = Some v ->
    forall brs rest acc T w,
      (exists u, In u rest /\ memb v u = true) ->
      infer_case (infer fns k) x G d brs rest acc = Some T ->
      eval_case (eval fns n) v rho d brs = Some w ->
      memb w T = true.
  Proof.
    intros IH Hok Hx. induction brs as [|[p b] brs IHb]; intros rest acc T w Hrest Hi He.
    - cbn [infer_case eval_case] in *.
      destruct (infer fns k ((x, mk_union rest) :: G) d) as [td|] eqn:Ed; [|discriminate].
      inversion Hi; subst. apply memb_mk_union. exists td. split; [apply in_or_app; right; left; reflexivity|].
      eapply IH; [exact Ed| |exact He].
      eapply env_ok_narrow; [exact Hok|exact Hx|]. apply memb_mk_union. exact Hrest.
    - cbn [infer_case eval_case] in *.
      destruct (split_variants p rest) as [[m r]|] eqn:Es; [|discriminate].
      pose proof (split_sound p rest m r v rho Es Hrest) as Hsp.
      destruct (pmatch p v rho) as [rho'|] eqn:Ep.
      + (* the branch is taken: something was matched *)
        destruct m as [|m0 ms]; [destruct Hsp as [u [[] _]]|].
        destruct (infer fns k (pat_binds p (m0 :: ms) ((x, mk_union (m0 :: ms)) :: G)) b) as [tb|] eqn:Eb; [|discriminate].
        assert (Hw : memb w tb = true).
        { eapply IH; [exact Eb| |exact He].
          eapply pat_binds_ok; [exact Es|exact Hsp|exact Ep|].
          eapply env_ok_narrow; [exact Hok|exact Hx|]. apply memb_mk_union. exact Hsp. }
        eapply infer_case_acc; [exact Hi| |exact Hw]. apply in_or_app. right. left. reflexivity.
      + (* the branch is not taken: the value is in the complement *)
        destruct m as [|m0 ms].
        * eapply IHb; [exact Hsp|exact Hi|exact He].
        * destruct (infer fns k (pat_binds p (m0 :: ms) ((x, mk_union (m0 :: ms)) :: G)) b) as [tb|]; [|discriminate].
          destruct r as [|r0 rs]; [destruct Hsp as [u [[] _]]|].
          eapply IHb; [exact Hsp|exact Hi|exact He].
  Qed.

  Lemma sound_step n k : sound_at n k -> sound_at (S n) (S k).
  Proof.
    intros IH G e T rho v Hi Hok He.
    destruct e as [z|l|nm es|x|e1 i|e1 lb|e1 e2|e1|x e1 e2|x t e1 e2|x brs d|f e1]; cbn [infer eval] in Hi, He.
    - inversion Hi; inversion He; subst. reflexivity.
    - inversion Hi; inversion He; subst. reflexivity.
    - destruct (map_opt (infer fns k G) es) as [ts|] eqn:Et; [|discriminate].
      destruct (map_opt (eval fns n rho) es) as [vs|] eqn:Ev; [|discriminate].
      inversion Hi; inversion He; subst. apply memb_tup. split; [reflexivity|].
      eapply map_opt_sound; eassumption.
    - destruct (Hok x T Hi) as [v' [Hv' Hm]]. rewrite Hv' in He. inversion He; subst. exact Hm.
    - destruct (infer fns k G e1) as [t1|] eqn:E1; [|discriminate].
      destruct t1 as [| |nm ts|]; try discriminate.
      destruct (eval fns n rho e1) as [v1|] eqn:V1; [|discriminate].
      pose proof (IH _ _ _ _ _ E1 Hok V1) as Hm.
      destruct v1 as [| |nm' vs]; try discriminate. apply memb_tup in Hm. destruct Hm as [_ Hvs].
      destruct (Forall2_nth_r' _ _ _ Hvs i v He) as [ti [Hti Hmi]]. rewrite Hti in Hi. inversion Hi; subst. exact Hmi.
    - destruct (infer fns k G e1) as [t1|] eqn:E1; [|discriminate].
      destruct t1 as [| |nm ts|]; try discriminate.
      destruct (eval fns n rho e1) as [v1|] eqn:V1; [|discriminate].
      pose proof (IH _ _ _ _ _ E1 Hok V1) as Hm.
      destruct v1 as [| |nm' vs]; try discriminate. apply memb_tup in Hm. destruct Hm as [<- Hvs].
      destruct (label_index lb (snd nm)) as [i|]; [|discriminate].
      destruct (Forall2_nth_r' _ _ _ Hvs i v He) as [ti [Hti Hmi]]. rewrite Hti in Hi. inversion Hi; subst. exact Hmi.
    - destruct (infer fns k G e1) as [[| | |]|]; try discriminate.
      destruct (infer fns k G e2) as [[| | |]|]; try discriminate.
      inversion Hi; subst.
      destruct (eval fns n rho e1) as [[| |]|]; try discriminate.
      destruct (eval fns n rho e2) as [[| |]|]; try discriminate.
      inversion He; subst. reflexivity.
    - destruct (infer fns k G e1) as [[| | |]|]; try discriminate. inversion Hi; subst.
      destruct (eval fns n rho e1) as [[| |]|]; try discriminate. inversion He; subst. reflexivity.
    - destruct (infer fns k G e1) as [t1|] eqn:E1; [|discriminate].
      destruct (eval fns n rho e1) as [v1|] eqn:V1; [|discriminate].
      eapply IH; [exact Hi| |exact He]. apply env_ok_cons; [exact Hok|]. eapply IH; eassumption.
    - destruct (infer fns k G e1) as [t1|] eqn:E1; [|discriminate].
      destruct (eval fns n rho e1) as [v1|] eqn:V1; [|discriminate].
      pose proof (IH _ _ _ _ _ E1 Hok V1) as Hm1.
      destruct (split_variants (PTy t) (Core.variants t1)) as [[m r]|] eqn:Es; [|discriminate].
      pose proof (split_sound (PTy t) _ m r v1 rho Es (proj1 (memb_variants v1 t1) Hm1)) as Hsp.
      cbn [pmatch] in Hsp.
      destruct (memb v1 t) eqn:Emt.
      + destruct m as [|m0 ms]; [destruct Hsp as [u [[] _]]|].
        destruct (infer fns k ((x, mk_union (m0 :: ms)) :: G) e2) as [t2|] eqn:E2; [|discriminate].
        assert (Hv : memb v t2 = true).
        { eapply IH; [exact E2| |exact He]. apply env_ok_cons; [exact Hok|]. apply memb_mk_union. exact Hsp. }
        destruct r; inversion Hi; subst; [exact Hv|].
        apply memb_mk_union. exists t2. split; [left; reflexivity|exact Hv].
      + inversion He; subst.
        destruct m as [|m0 ms].
        * inversion Hi; subst. reflexivity.
        * destruct (infer fns k ((x, mk_union (m0 :: ms)) :: G) e2) as [t2|]; [|discriminate].
          destruct r as [|r0 rs]; [destruct Hsp as [u [[] _]]|].
          inversion Hi; subst. apply memb_mk_union. exists ty_nil. split; [right; left; reflexivity|reflexivity].
    - destruct (lookup x G) as [tx|] eqn:Ex; [|discriminate].
      destruct (Hok x tx Ex) as [vx [Hvx Hmx]]. rewrite Hvx in He.
      eapply case_sound; [exact IH|exact Hok|exact Hvx| |exact Hi|exact He].
      apply memb_variants. exact Hmx.
    - destruct (nth_error fns f) as [[tp body]|]; [|discriminate].
      destruct (infer fns k G e1) as [ta|] eqn:Ea; [|discriminate].
      destruct (subty ta tp) eqn:Esub; [|discriminate].
      destruct (eval fns n rho e1) as [a|] eqn:Va; [|discriminate].
      eapply IH; [exact Hi| |exact He].
      intros y ty Hy. cbn [lookup] in *. destruct (Nat.eqb y 0); [|discriminate].
      inversion Hy; subst. exists a. split; [reflexivity|].
      eapply subty_sound; [exact Esub|]. eapply IH; eassumption.
  Qed.

  (* THE theorem: a core expression the judgement accepts at type T, evaluated in an environment
     that respects the typing environment, yields - when it yields a value - a value of T *)
  Theorem core_soundness : forall n k G e T rho v,
    infer fns k G e = Some T -> env_ok rho G -> eval fns n rho e = Some v -> memb v T = true.
  Proof.
    induction n as [|n IHn]; intros k G e T rho v Hi Hok He; [discriminate|].
    destruct k as [|k]; [discriminate|].
    eapply sound_step; [|exact Hi|exact Hok|exact He].
    intros G' e' T' rho' v'. apply IHn.
  Qed.

  (* ---------------------------------------------------------------- progress *)
  Lemma Forall2_nth_l' {A B} (R : A -> B -> Prop) l1 l2 : Forall2 R l1 l2 ->
    forall j a, nth_error l1 j = Some a -> exists b, nth_error l2 j = Some b /\ R a b.
  Proof.
    intros HF. induction HF as [|a b l1' l2' Hab HF IH]; intros j y Hj.
    - destruct j; discriminate.
    - destruct j as [|j]; cbn in *.
      + inversion Hj; subst. exists b. auto.
      + apply IH. exact Hj.
  Qed.

  Definition progress_at (k : nat) : Prop :=
    forall G e T rho, infer fns k G e = Some T -> env_ok rho G -> exists v, eval fns k rho e = Some v.

  Lemma map_opt_progress k G rho : progress_at k -> env_ok rho G ->
    forall es ts, map_opt (infer fns k G) es = Some ts -> exists vs, map_opt (eval fns k rho) es = Some vs.
  Proof.
    intros IH Hok. induction es as [|e es IHes]; intros ts Ht; cbn [map_opt] in *.
    - eauto.
    - destruct (infer fns k G e) as [t|] eqn:Et; [|discriminate].
      destruct (map_opt (infer fns k G) es) as [ts'|]; [|discriminate].
      destruct (IH _ _ _ _ Et Hok) as [v ->]. destruct (IHes _ eq_refl) as [vs ->]. eauto.
  Qed.

  Lemma case_progress k x G d rho v : progress_at k -> env_ok rho G -> lookup x rho = Some v ->
    forall brs rest acc T,
      (exists u, In u rest /\ memb v u = true) ->
      infer_case (infer fns k) x G d brs rest acc = Some T ->
      exists w, eval_case (eval fns k) v rho d brs = Some w.
  Proof.
    intros IH Hok Hx. induction brs as [|[p b] brs IHb]; intros rest acc T Hrest Hi; cbn [infer_case eval_case] in *.
    - destruct (infer fns k ((x, mk_union rest) :: G) d) as [td|] eqn:Ed; [|discriminate].
      eapply IH; [exact Ed|]. eapply env_ok_narrow; [exact Hok|exact Hx|]. apply memb_mk_union. exact Hrest.
    - destruct (split_variants p rest) as [[m r]|] eqn:Es; [|discriminate].
      pose proof (split_sound p rest m r v rho Es Hrest) as Hsp.
      destruct (pmatch p v rho) as [rho'|] eqn:Ep.
      + destruct m as [|m0 ms]; [destruct Hsp as [u [[] _]]|].
        destruct (infer fns k (pat_binds p (m0 :: ms) ((x, mk_union (m0 :: ms)) :: G)) b) as [tb|] eqn:Eb; [|discriminate].
        eapply IH; [exact Eb|].
        eapply pat_binds_ok; [exact Es|exact Hsp|exact Ep|].
        eapply env_ok_narrow; [exact Hok|exact Hx|]. apply memb_mk_union. exact Hsp.
      + destruct m as [|m0 ms].
        * eapply IHb; [exact Hsp|exact Hi].
        * destruct (infer fns k (pat_binds p (m0 :: ms) ((x, mk_union (m0 :: ms)) :: G)) b) as [tb|]; [|discriminate].
          destruct r as [|r0 rs]; [destruct Hsp as [u [[] _]]|].
          eapply IHb; [exact Hsp|exact Hi].
  Qed.

  Lemma progress_step k : progress_at k -> progress_at (S k).
  Proof.
    intros IH G e T rho Hi Hok.
    destruct e as [z|l|nm es|x|e1 i|e1 lb|e1 e2|e1|x e1 e2|x t e1 e2|x brs d|f e1]; cbn [infer eval] in *.
    - eauto.
    - eauto.
    - destruct (map_opt (infer fns k G) es) as [ts|] eqn:Et; [|discriminate].
      destruct (map_opt_progress k G rho IH Hok es ts Et) as [vs ->]. cbn. eauto.
    - destruct (Hok x T Hi) as [v [Hv _]]. eauto.
    - destruct (infer fns k G e1) as [t1|] eqn:E1; [|discriminate].
      destruct t1 as [| |nm ts|]; try discriminate.
      destruct (IH _ _ _ _ E1 Hok) as [v1 V1]. rewrite V1.
      pose proof (core_soundness _ _ _ _ _ _ _ E1 Hok V1) as Hm.
      destruct v1 as [| |nm' vs]; try discriminate. apply memb_tup in Hm. destruct Hm as [_ Hvs].
      destruct (Forall2_nth_l' _ _ _ Hvs i T Hi) as [vi [Hvi _]]. eauto.
    - destruct (infer fns k G e1) as [t1|] eqn:E1; [|discriminate].
      destruct t1 as [| |nm ts|]; try discriminate.
      destruct (IH _ _ _ _ E1 Hok) as [v1 V1]. rewrite V1.
      pose proof (core_soundness _ _ _ _ _ _ _ E1 Hok V1) as Hm.
      destruct v1 as [| |nm' vs]; try discriminate. apply memb_tup in Hm. destruct Hm as [<- Hvs].
      destruct (label_index lb (snd nm)) as [i|]; [|discriminate].
      destruct (Forall2_nth_l' _ _ _ Hvs i T Hi) as [vi [Hvi _]]. eauto.
    - destruct (infer fns k G e1) as [t1|] eqn:E1; [|discriminate].
      destruct t1; try discriminate.
      destruct (infer fns k G e2) as [t2|] eqn:E2; [|discriminate].
      destruct t2; try discriminate.
      destruct (IH _ _ _ _ E1 Hok) as [v1 V1]. destruct (IH _ _ _ _ E2 Hok) as [v2 V2]. rewrite V1, V2.
      pose proof (core_soundness _ _ _ _ _ _ _ E1 Hok V1) as H1.
      pose proof (core_soundness _ _ _ _ _ _ _ E2 Hok V2) as H2.
      destruct v1; try discriminate. destruct v2; try discriminate. eauto.
    - destruct (infer fns k G e1) as [t1|] eqn:E1; [|discriminate].
      destruct t1; try discriminate.
      destruct (IH _ _ _ _ E1 Hok) as [v1 V1]. rewrite V1.
      pose proof (core_soundness _ _ _ _ _ _ _ E1 Hok V1) as H1.
      destruct v1; try discriminate. eauto.
    - destruct (infer fns k G e1) as [t1|] eqn:E1; [|discriminate].
      destruct (IH _ _ _ _ E1 Hok) as [v1 V1]. rewrite V1.
      eapply IH; [exact Hi|]. apply env_ok_cons; [exact Hok|]. eapply core_soundness; eassumption.
    - destruct (infer fns k G e1) as [t1|] eqn:E1; [|discriminate].
      destruct (IH _ _ _ _ E1 Hok) as [v1 V1]. rewrite V1.
      pose proof (core_soundness _ _ _ _ _ _ _ E1 Hok V1) as Hm1.
      destruct (split_variants (PTy t) (Core.variants t1)) as [[m r]|] eqn:Es; [|discriminate].
      pose proof (split_sound (PTy t) _ m r v1 rho Es (proj1 (memb_variants v1 t1) Hm1)) as Hsp.
      cbn [pmatch] in Hsp.
      destruct (memb v1 t) eqn:Emt; [|eauto].
      destruct m as [|m0 ms]; [destruct Hsp as [u [[] _]]|].
      destruct (infer fns k ((x, mk_union (m0 :: ms)) :: G) e2) as [t2|] eqn:E2; [|discriminate].
      eapply IH; [exact E2|]. apply env_ok_cons; [exact Hok|]. apply memb_mk_union. exact Hsp.
    - destruct (lookup x G) as [tx|] eqn:Ex; [|discriminate].
      destruct (Hok x tx Ex) as [vx [Hvx Hmx]]. rewrite Hvx.
      eapply case_progress; [exact IH|exact Hok|exact Hvx| |exact Hi].
      apply memb_variants. exact Hmx.
    - destruct (nth_error fns f) as [[tp body]|]; [|discriminate].
      destruct (infer fns k G e1) as [ta|] eqn:Ea; [|discriminate].
      destruct (subty ta tp) eqn:Esub; [|discriminate].
      destruct (IH _ _ _ _ Ea Hok) as [a Va]. rewrite Va.
      eapply IH; [exact Hi|].
      intros y ty Hy. cbn [lookup] in *. destruct (Nat.eqb y 0); [|discriminate].
      inversion Hy; subst. exists a. split; [reflexivity|].
      eapply subty_sound; [exact Esub|]. eapply core_soundness; eassumption.
  Qed.

  (* no accepted core expression gets stuck: with the fuel the judgement itself used, evaluation
     finishes with a value (functions of the fragment are not recursive, so it also terminates) *)
  Theorem core_progress : forall k G e T rho,
    infer fns k G e = Some T -> env_ok rho G -> exists v, eval fns k rho e = Some v.
  Proof.
    induction k as [|k IHk]; intros G e T rho Hi Hok; [discriminate|].
    eapply progress_step; [|exact Hi|exact Hok]. exact IHk.
  Qed.

  (* type safety of the fragment *)
  Corollary core_type_safety : forall k e T,
    infer fns k [] e = Some T -> exists v, eval fns k [] e = Some v /\ memb v T = true.
  Proof.
    intros k e T Hi.
    assert (Hok : env_ok [] []) by (intros x t Hx; discriminate).
    destruct (core_progress k [] e T [] Hi Hok) as [v Hv].
    exists v. split; [exact Hv|]. eapply core_soundness; eassumption.
  Qed.

  (* whole programs: accepted => the main expression evaluates to a value of the inferred type *)
  Corollary core_program_safety : forall k e T,
    infer_prog fns k e = Some T -> exists v, eval fns k [] e = Some v /\ memb v T = true.
  Proof.
    intros k e T H. unfold infer_prog in H.
    destruct (forallb _ fns); [|discriminate]. apply core_type_safety. exact H.
  Qed.
End Soundness.
