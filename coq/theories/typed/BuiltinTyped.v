(* BuiltinTyped.v — C01, builtin rows: every modelled pure builtin (Typed.v `builtin_sigs`, the
   mirror of the `register_builtin!` table) respects its REGISTERED signature:
     * `builtin_result_typed_all`: on EVERY argument (well-typed or not, well-formed ropes or not) a
       value outcome inhabits the registered result TypeSpec — proved on the implementation models of
       Builtins.v directly (no `agrees`, no well-formedness hypothesis);
     * `builtin_only_domain_errors_all`: on an argument that inhabits the registered parameter
       TypeSpec and whose binaries are well-formed ropes, the builtin does not panic and the only
       error class it reports is InvalidArgument (never TypeMismatch) — binary_*/vector_* via their
       `agrees` theorems (BuiltinAll.v) and the shape of the reference specs, integer_* directly. *)
From Quiver Require Import Base Builtins BuiltinSpec BuiltinWf BuiltinProofs IntBitProofs
  BinaryProofs BinaryShiftProofs BinaryBitsProofs VectorProofs BuiltinAll.
From Quiver Require Import typed.Typed.
From Coq Require Import List.
Import ListNotations.

(* ================================================================== 1. result typing *)

(* a value outcome inhabits s (errors and panics carry no value) *)
Definition rt (s : tspec) (o : outcome bval) : Prop :=
  match o with Val v => bspec_inhab s v | _ => True end.

Lemma rt_bind {A} s (o : outcome A) (f : A -> outcome bval) :
  (forall x, rt s (f x)) -> rt s (obind o f).
Proof. intros Hf. destruct o as [x|e|n]; cbn [obind]; [apply Hf | exact I | exact I]. Qed.

(* the inversion form asked for by the statement of `result_typed` *)
Lemma obind_val_inv {A B} (o : outcome A) (f : A -> outcome B) v :
  obind o f = Val v -> exists x, o = Val x /\ f x = Val v.
Proof.
  destruct o as [x|e|n]; cbn [obind]; intros H; [exists x; split; [reflexivity | exact H] | discriminate H ..].
Qed.

Lemma alloc_val_inv r v : alloc r = Val v -> v = BBin r.
Proof.
  unfold alloc. destruct (Z.ltb MAX_BINARY_SIZE (rlen r)); intros H; [discriminate H|].
  injection H as <-. reflexivity.
Qed.

Lemma rt_alloc_bin r : rt SBin (alloc r).
Proof. unfold alloc. destruct (Z.ltb MAX_BINARY_SIZE (rlen r)); [exact I | reflexivity]. Qed.
Lemma rt_alloc_bn r : rt s_bin_or_nil (alloc r).
Proof. unfold alloc. destruct (Z.ltb MAX_BINARY_SIZE (rlen r)); [exact I | reflexivity]. Qed.
Lemma rt_alloc_bytes_bin bs : rt SBin (alloc_bytes bs).
Proof. apply rt_alloc_bin. Qed.
Lemma rt_alloc_bytes_bn bs : rt s_bin_or_nil (alloc_bytes bs).
Proof. apply rt_alloc_bn. Qed.

(* one step of the syntactic walk over an implementation model: the goal is `rt s e`; reduce the
   exposed redexes, then look at the head of e.  A bound sub-computation (argument narrowing, a
   loop) is never opened: only what is returned after it matters. *)
Ltac rt_step :=
  cbv beta iota zeta;
  lazymatch goal with
  | |- rt _ (Val _) => reflexivity
  | |- rt _ (Err _) => exact I
  | |- rt _ (Panic _) => exact I
  | |- rt _ (alloc _) => first [apply rt_alloc_bin | apply rt_alloc_bn]
  | |- rt _ (alloc_bytes _) => first [apply rt_alloc_bytes_bin | apply rt_alloc_bytes_bn]
  | |- rt _ (obind _ _) => apply rt_bind; intro
  | |- rt _ (if ?c then _ else _) => destruct c
  | |- rt _ (match ?x with _ => _ end) => destruct x
  end.
Ltac rt_walk := repeat rt_step.

(* ---------------------------------------------------------------- integer_* *)
Lemma rt_integer_abs a : rt SInt (impl_integer_abs a).
Proof. unfold impl_integer_abs. rt_walk. Qed.
Lemma rt_integer_sqrt a : rt SInt (impl_integer_sqrt a).
Proof. unfold impl_integer_sqrt. rt_walk. Qed.
Lemma rt_integer_add a : rt SInt (impl_integer_add a).
Proof. unfold impl_integer_add. rt_walk. Qed.
Lemma rt_integer_subtract a : rt SInt (impl_integer_subtract a).
Proof. unfold impl_integer_subtract. rt_walk. Qed.
Lemma rt_integer_multiply a : rt SInt (impl_integer_multiply a).
Proof. unfold impl_integer_multiply. rt_walk. Qed.
Lemma rt_integer_divide a : rt SInt (impl_integer_divide a).
Proof. unfold impl_integer_divide. rt_walk. Qed.
Lemma rt_integer_modulo a : rt SInt (impl_integer_modulo a).
Proof. unfold impl_integer_modulo. rt_walk. Qed.
Lemma rt_integer_gcd a : rt SInt (impl_integer_gcd a).
Proof. unfold impl_integer_gcd. rt_walk. Qed.
Lemma rt_integer_compare a : rt SInt (impl_integer_compare a).
Proof. unfold impl_integer_compare. rt_walk. Qed.
Lemma rt_integer_and a : rt SInt (impl_integer_and a).
Proof. unfold impl_integer_and. rt_walk. Qed.
Lemma rt_integer_or a : rt SInt (impl_integer_or a).
Proof. unfold impl_integer_or. rt_walk. Qed.
Lemma rt_integer_xor a : rt SInt (impl_integer_xor a).
Proof. unfold impl_integer_xor. rt_walk. Qed.
Lemma rt_integer_not a : rt SInt (impl_integer_not a).
Proof. unfold impl_integer_not. rt_walk. Qed.
Lemma rt_integer_shift a : rt SInt (impl_integer_shift a).
Proof. unfold impl_integer_shift. rt_walk. Qed.
Lemma rt_integer_popcount a : rt SInt (impl_integer_popcount a).
Proof. unfold impl_integer_popcount. rt_walk. Qed.

(* ---------------------------------------------------------------- binary_* *)
Lemma rt_binary_new a : rt SBin (impl_binary_new a).
Proof. unfold impl_binary_new. rt_walk. Qed.
Lemma rt_binary_length a : rt SInt (impl_binary_length a).
Proof. unfold impl_binary_length. rt_walk. Qed.
Lemma rt_binary_concat a : rt SBin (impl_binary_concat a).
Proof. unfold impl_binary_concat. rt_walk. Qed.
Lemma rt_binary_repeat a : rt SBin (impl_binary_repeat a).
Proof. unfold impl_binary_repeat. rt_walk. Qed.
Lemma rt_binary_and a : rt SBin (impl_binary_and a).
Proof. unfold impl_binary_and. rt_walk. Qed.
Lemma rt_padded_op op ra rb : rt SBin (padded_op op ra rb).
Proof. unfold padded_op. rt_walk. Qed.
Lemma rt_binary_or a : rt SBin (impl_binary_or a).
Proof. unfold impl_binary_or. rt_walk; apply rt_padded_op. Qed.
Lemma rt_binary_xor a : rt SBin (impl_binary_xor a).
Proof. unfold impl_binary_xor. rt_walk; apply rt_padded_op. Qed.
Lemma rt_binary_not a : rt SBin (impl_binary_not a).
Proof. unfold impl_binary_not. rt_walk. Qed.
Lemma rt_binary_shift a : rt SBin (impl_binary_shift a).
Proof. unfold impl_binary_shift. rt_walk. Qed.
Lemma rt_binary_popcount a : rt SInt (impl_binary_popcount a).
Proof. unfold impl_binary_popcount. rt_walk. Qed.
Lemma rt_binary_get a : rt SInt (impl_binary_get a).
Proof. unfold impl_binary_get. rt_walk. Qed.
Lemma rt_binary_set a : rt SBin (impl_binary_set a).
Proof. unfold impl_binary_set. rt_walk. Qed.
Lemma rt_binary_slice a : rt SBin (impl_binary_slice a).
Proof. unfold impl_binary_slice. rt_walk. Qed.
Lemma rt_binary_index a : rt s_int_or_nil (impl_binary_index a).
Proof. unfold impl_binary_index. rt_walk. Qed.
Lemma rt_binary_hash32 a : rt SInt (impl_binary_hash32 a).
Proof. unfold impl_binary_hash32. rt_walk. Qed.
Lemma rt_binary_hash64 a : rt SInt (impl_binary_hash64 a).
Proof. unfold impl_binary_hash64. rt_walk. Qed.
Lemma rt_binary_append a : rt SBin (impl_binary_append a).
Proof. unfold impl_binary_append. rt_walk. Qed.

(* ---------------------------------------------------------------- vector_* *)
(* the two shared kernels: whatever the loop computes, what is returned after it is an allocated
   binary or nil *)
Lemma rt_elementwise op a : rt s_bin_or_nil (elementwise op a).
Proof. unfold elementwise. rt_walk. Qed.
Lemma rt_compare_kernel pred a : rt s_bin_or_nil (compare_kernel pred a).
Proof. unfold compare_kernel. rt_walk. Qed.

Lemma rt_vector_add a : rt s_bin_or_nil (impl_vector_add a).
Proof. apply rt_elementwise. Qed.
Lemma rt_vector_subtract a : rt s_bin_or_nil (impl_vector_subtract a).
Proof. apply rt_elementwise. Qed.
Lemma rt_vector_multiply a : rt s_bin_or_nil (impl_vector_multiply a).
Proof. apply rt_elementwise. Qed.
Lemma rt_vector_less_than a : rt s_bin_or_nil (impl_vector_less_than a).
Proof. apply rt_compare_kernel. Qed.
Lemma rt_vector_equal a : rt s_bin_or_nil (impl_vector_equal a).
Proof. apply rt_compare_kernel. Qed.
Lemma rt_vector_greater_than a : rt s_bin_or_nil (impl_vector_greater_than a).
Proof. apply rt_compare_kernel. Qed.
Lemma rt_vector_dot a : rt s_int_or_nil (impl_vector_dot a).
Proof. unfold impl_vector_dot. rt_walk. Qed.
Lemma rt_vector_take a : rt s_bin_or_nil (impl_vector_take a).
Proof. unfold impl_vector_take. rt_walk. Qed.
Lemma rt_vector_get a : rt s_int_or_nil (impl_vector_get a).
Proof. unfold impl_vector_get. rt_walk. Qed.
Lemma rt_vector_push a : rt s_bin_or_nil (impl_vector_push a).
Proof. unfold impl_vector_push. rt_walk. Qed.
Lemma rt_vector_sum a : rt s_int_or_nil (impl_vector_sum a).
Proof. unfold impl_vector_sum. rt_walk. Qed.

Lemma rt_row n impl p s : (forall a, rt s (impl a)) -> result_typed (mk_bsig n impl p s).
Proof.
  intros Hrt a v Hval. cbn [bs_impl bs_result] in *. specialize (Hrt a). rewrite Hval in Hrt. exact Hrt.
Qed.

Theorem builtin_result_typed_all : Forall result_typed builtin_sigs.
Proof.
  unfold builtin_sigs.
  repeat (apply Forall_cons; [apply rt_row; first
    [ exact rt_binary_new | exact rt_binary_length | exact rt_binary_concat | exact rt_binary_repeat
    | exact rt_binary_and | exact rt_binary_or | exact rt_binary_xor | exact rt_binary_not
    | exact rt_binary_shift | exact rt_binary_popcount | exact rt_binary_get | exact rt_binary_set
    | exact rt_binary_slice | exact rt_binary_index | exact rt_binary_hash32 | exact rt_binary_hash64
    | exact rt_binary_append
    | exact rt_integer_abs | exact rt_integer_sqrt | exact rt_integer_add | exact rt_integer_subtract
    | exact rt_integer_multiply | exact rt_integer_divide | exact rt_integer_modulo
    | exact rt_integer_gcd | exact rt_integer_compare | exact rt_integer_and | exact rt_integer_or
    | exact rt_integer_xor | exact rt_integer_not | exact rt_integer_shift | exact rt_integer_popcount
    | exact rt_vector_add | exact rt_vector_subtract | exact rt_vector_multiply
    | exact rt_vector_less_than | exact rt_vector_equal | exact rt_vector_greater_than
    | exact rt_vector_dot | exact rt_vector_take | exact rt_vector_get | exact rt_vector_push
    | exact rt_vector_sum ] |]).
  apply Forall_nil.
Qed.

(* ================================================================== 2. only domain errors *)

(* no panic, and an error is InvalidArgument *)
Definition de {A} (o : outcome A) : Prop :=
  match o with Val _ => True | Err e => e = InvalidArgument | Panic _ => False end.

Lemma de_bind {A B} (o : outcome A) (f : A -> outcome B) :
  de o -> (forall x, de (f x)) -> de (obind o f).
Proof. intros Ho Hf. destruct o as [x|e|n]; cbn [obind de] in *; [apply Hf | exact Ho | exact Ho]. Qed.

(* a reference spec's outcome is not TypeMismatch (the specs never panic) *)
Definition es (o : outcome fval) : Prop :=
  match o with Err e => e = InvalidArgument | _ => True end.

Lemma de_of_agrees impl spec a :
  agrees impl spec -> wf_bval a -> es (spec (flatten a)) -> de (impl a).
Proof.
  intros Hag Hwf Hes. destruct (Hag a Hwf) as [Heq Hout]. rewrite <- Heq in Hes.
  destruct (impl a) as [v|e|n]; cbn [flatten_out es de wf_out] in *; [exact I | exact Hes | exact Hout].
Qed.

(* inversion of `bspec_inhab <registered parameter spec> a`: a becomes the tuple of that shape *)
Ltac inv_ty H :=
  unfold bspec_inhab in H;
  cbv [s_nil s_int_int s_bin_int s_bin_bin s_bin_int_int s_bin_int_int_int s_bin_int_int_int_int
       s_bin_bin_int s_bin_int_bin] in H;
  repeat (cbn [bspec_inhabb andb] in H;
          match type of H with
          | context [match ?x with _ => _ end] => is_var x; destruct x; try discriminate H
          end);
  clear H.

Ltac es_walk :=
  repeat match goal with |- es (if ?c then _ else _) => destruct c end;
  first [exact I | reflexivity].

(* binary_* / vector_*: `agrees` gives panic-freedom and transports the error class to the spec;
   on the flattened well-typed argument the spec's catch-all TypeMismatch arm is not taken *)
Ltac de_rope thm :=
  let a := fresh "a" in let Hwf := fresh "Hwf" in let Hty := fresh "Hty" in
  intros a Hwf Hty; apply (de_of_agrees _ _ a thm Hwf); clear Hwf; inv_ty Hty;
  cbn [flatten map];
  cbv [spec_binary_new spec_binary_length spec_binary_concat spec_binary_repeat spec_binary_and
       spec_binary_or spec_binary_xor spec_padded spec_binary_not spec_binary_index spec_binary_shift
       spec_binary_popcount spec_binary_get spec_binary_set spec_binary_slice spec_binary_hash32
       spec_binary_hash64 spec_binary_append
       spec_vector_add spec_vector_subtract spec_vector_multiply spec_elementwise
       spec_vector_less_than spec_vector_equal spec_vector_greater_than spec_compare
       spec_vector_take spec_vector_get spec_vector_push spec_vector_sum spec_vector_dot];
  es_walk.

Lemma de_binary_new : forall a, wf_bval a -> bspec_inhab SInt a -> de (impl_binary_new a).
Proof. de_rope binary_new_correct. Qed.
Lemma de_binary_length : forall a, wf_bval a -> bspec_inhab SBin a -> de (impl_binary_length a).
Proof. de_rope binary_length_correct. Qed.
Lemma de_binary_concat : forall a, wf_bval a -> bspec_inhab s_bin_bin a -> de (impl_binary_concat a).
Proof. de_rope binary_concat_correct. Qed.
Lemma de_binary_repeat : forall a, wf_bval a -> bspec_inhab s_bin_int a -> de (impl_binary_repeat a).
Proof. de_rope binary_repeat_correct. Qed.
Lemma de_binary_and : forall a, wf_bval a -> bspec_inhab s_bin_bin a -> de (impl_binary_and a).
Proof. de_rope binary_and_correct. Qed.
Lemma de_binary_or : forall a, wf_bval a -> bspec_inhab s_bin_bin a -> de (impl_binary_or a).
Proof. de_rope binary_or_correct. Qed.
Lemma de_binary_xor : forall a, wf_bval a -> bspec_inhab s_bin_bin a -> de (impl_binary_xor a).
Proof. de_rope binary_xor_correct. Qed.
Lemma de_binary_not : forall a, wf_bval a -> bspec_inhab SBin a -> de (impl_binary_not a).
Proof. de_rope binary_not_correct. Qed.
Lemma de_binary_shift : forall a, wf_bval a -> bspec_inhab s_bin_int a -> de (impl_binary_shift a).
Proof. de_rope binary_shift_correct. Qed.
Lemma de_binary_popcount : forall a, wf_bval a -> bspec_inhab SBin a -> de (impl_binary_popcount a).
Proof. de_rope binary_popcount_correct. Qed.
Lemma de_binary_get : forall a, wf_bval a -> bspec_inhab s_bin_int_int_int a -> de (impl_binary_get a).
Proof. de_rope binary_get_correct. Qed.
Lemma de_binary_set : forall a, wf_bval a -> bspec_inhab s_bin_int_int_int_int a -> de (impl_binary_set a).
Proof. de_rope binary_set_correct. Qed.
Lemma de_binary_slice : forall a, wf_bval a -> bspec_inhab s_bin_int_int a -> de (impl_binary_slice a).
Proof. de_rope binary_slice_correct. Qed.
Lemma de_binary_index : forall a, wf_bval a -> bspec_inhab s_bin_int_int a -> de (impl_binary_index a).
Proof. de_rope binary_index_correct. Qed.
Lemma de_binary_hash32 : forall a, wf_bval a -> bspec_inhab SBin a -> de (impl_binary_hash32 a).
Proof. de_rope binary_hash32_correct. Qed.
Lemma de_binary_hash64 : forall a, wf_bval a -> bspec_inhab SBin a -> de (impl_binary_hash64 a).
Proof. de_rope binary_hash64_correct. Qed.
Lemma de_binary_append : forall a, wf_bval a -> bspec_inhab s_bin_int_int a -> de (impl_binary_append a).
Proof. de_rope binary_append_correct. Qed.

Lemma de_vector_add : forall a, wf_bval a -> bspec_inhab s_bin_bin_int a -> de (impl_vector_add a).
Proof. de_rope vector_add_correct. Qed.
Lemma de_vector_subtract : forall a, wf_bval a -> bspec_inhab s_bin_bin_int a -> de (impl_vector_subtract a).
Proof. de_rope vector_subtract_correct. Qed.
Lemma de_vector_multiply : forall a, wf_bval a -> bspec_inhab s_bin_bin_int a -> de (impl_vector_multiply a).
Proof. de_rope vector_multiply_correct. Qed.
Lemma de_vector_less_than : forall a, wf_bval a -> bspec_inhab s_bin_bin_int a -> de (impl_vector_less_than a).
Proof. de_rope vector_less_than_correct. Qed.
Lemma de_vector_equal : forall a, wf_bval a -> bspec_inhab s_bin_bin_int a -> de (impl_vector_equal a).
Proof. de_rope vector_equal_correct. Qed.
Lemma de_vector_greater_than : forall a, wf_bval a -> bspec_inhab s_bin_bin_int a -> de (impl_vector_greater_than a).
Proof. de_rope vector_greater_than_correct. Qed.
Lemma de_vector_dot : forall a, wf_bval a -> bspec_inhab s_bin_bin_int a -> de (impl_vector_dot a).
Proof. de_rope vector_dot_correct. Qed.
Lemma de_vector_take : forall a, wf_bval a -> bspec_inhab s_bin_int_bin a -> de (impl_vector_take a).
Proof. de_rope vector_take_correct. Qed.
Lemma de_vector_get : forall a, wf_bval a -> bspec_inhab s_bin_int_int a -> de (impl_vector_get a).
Proof. de_rope vector_get_correct. Qed.
Lemma de_vector_push : forall a, wf_bval a -> bspec_inhab s_bin_int_int a -> de (impl_vector_push a).
Proof. de_rope vector_push_correct. Qed.
Lemma de_vector_sum : forall a, wf_bval a -> bspec_inhab s_bin_int a -> de (impl_vector_sum a).
Proof. de_rope vector_sum_correct. Qed.

(* integer_*: directly on the model (no binaries involved; the well-formedness hypothesis is unused) *)
Ltac de_step :=
  cbv beta iota zeta;
  lazymatch goal with
  | |- de (Val _) => exact I
  | |- de (Err _) => reflexivity
  | |- de (obind _ _) => apply de_bind; [|intro]
  | |- de (if ?c then _ else _) => destruct c
  | |- de (match ?x with _ => _ end) => destruct x
  end.

Ltac de_int :=
  let a := fresh "a" in let Hty := fresh "Hty" in
  intros a _ Hty; inv_ty Hty;
  cbv [impl_integer_abs impl_integer_sqrt impl_integer_add impl_integer_subtract impl_integer_multiply
       impl_integer_gcd impl_integer_divide impl_integer_modulo impl_integer_compare impl_integer_and
       impl_integer_or impl_integer_xor impl_integer_not impl_integer_shift impl_integer_popcount
       two_bigints two_i64 to_i64_checked];
  repeat de_step.

Lemma de_integer_abs : forall a, wf_bval a -> bspec_inhab SInt a -> de (impl_integer_abs a).
Proof. de_int. Qed.
Lemma de_integer_sqrt : forall a, wf_bval a -> bspec_inhab SInt a -> de (impl_integer_sqrt a).
Proof. de_int. Qed.
Lemma de_integer_add : forall a, wf_bval a -> bspec_inhab s_int_int a -> de (impl_integer_add a).
Proof. de_int. Qed.
Lemma de_integer_subtract : forall a, wf_bval a -> bspec_inhab s_int_int a -> de (impl_integer_subtract a).
Proof. de_int. Qed.
Lemma de_integer_multiply : forall a, wf_bval a -> bspec_inhab s_int_int a -> de (impl_integer_multiply a).
Proof. de_int. Qed.
Lemma de_integer_divide : forall a, wf_bval a -> bspec_inhab s_int_int a -> de (impl_integer_divide a).
Proof. de_int. Qed.
Lemma de_integer_modulo : forall a, wf_bval a -> bspec_inhab s_int_int a -> de (impl_integer_modulo a).
Proof. de_int. Qed.
Lemma de_integer_gcd : forall a, wf_bval a -> bspec_inhab s_int_int a -> de (impl_integer_gcd a).
Proof. de_int. Qed.
Lemma de_integer_compare : forall a, wf_bval a -> bspec_inhab s_int_int a -> de (impl_integer_compare a).
Proof. de_int. Qed.
Lemma de_integer_and : forall a, wf_bval a -> bspec_inhab s_int_int a -> de (impl_integer_and a).
Proof. de_int. Qed.
Lemma de_integer_or : forall a, wf_bval a -> bspec_inhab s_int_int a -> de (impl_integer_or a).
Proof. de_int. Qed.
Lemma de_integer_xor : forall a, wf_bval a -> bspec_inhab s_int_int a -> de (impl_integer_xor a).
Proof. de_int. Qed.
Lemma de_integer_not : forall a, wf_bval a -> bspec_inhab SInt a -> de (impl_integer_not a).
Proof. de_int. Qed.
Lemma de_integer_shift : forall a, wf_bval a -> bspec_inhab s_int_int a -> de (impl_integer_shift a).
Proof. de_int. Qed.
Lemma de_integer_popcount : forall a, wf_bval a -> bspec_inhab SInt a -> de (impl_integer_popcount a).
Proof. de_int. Qed.

Lemma de_row n impl p s :
  (forall a, wf_bval a -> bspec_inhab p a -> de (impl a)) -> only_domain_errors wf_bval (mk_bsig n impl p s).
Proof. intros Hde a Hwf Hty. cbn [bs_impl bs_param] in *. exact (Hde a Hwf Hty). Qed.

Theorem builtin_only_domain_errors_all : Forall (only_domain_errors wf_bval) builtin_sigs.
Proof.
  unfold builtin_sigs.
  repeat (apply Forall_cons; [apply de_row; first
    [ exact de_binary_new | exact de_binary_length | exact de_binary_concat | exact de_binary_repeat
    | exact de_binary_and | exact de_binary_or | exact de_binary_xor | exact de_binary_not
    | exact de_binary_shift | exact de_binary_popcount | exact de_binary_get | exact de_binary_set
    | exact de_binary_slice | exact de_binary_index | exact de_binary_hash32 | exact de_binary_hash64
    | exact de_binary_append
    | exact de_integer_abs | exact de_integer_sqrt | exact de_integer_add | exact de_integer_subtract
    | exact de_integer_multiply | exact de_integer_divide | exact de_integer_modulo
    | exact de_integer_gcd | exact de_integer_compare | exact de_integer_and | exact de_integer_or
    | exact de_integer_xor | exact de_integer_not | exact de_integer_shift | exact de_integer_popcount
    | exact de_vector_add | exact de_vector_subtract | exact de_vector_multiply
    | exact de_vector_less_than | exact de_vector_equal | exact de_vector_greater_than
    | exact de_vector_dot | exact de_vector_take | exact de_vector_get | exact de_vector_push
    | exact de_vector_sum ] |]).
  apply Forall_nil.
Qed.

(* ================================================================== 3. non-vacuity *)

Example builtin_sigs_length : List.length builtin_sigs = 43%nat.
Proof. reflexivity. Qed.

Local Open Scope Z_scope.

(* a well-typed, well-formed argument on which the documented domain error IS reported: the
   `Err` arm of `only_domain_errors` is inhabited *)
Example domain_error_witness :
  let a := BTup [BInt 1; BInt 0] in
  wf_bval a /\ bspec_inhab s_int_int a /\ impl_integer_divide a = Err InvalidArgument.
Proof. cbn zeta. split; [|split]; [cbn [wf_bval]; auto | reflexivity | reflexivity]. Qed.

(* a union-result builtin returns both variants of its registered result spec on well-typed,
   well-formed arguments: nil when the byte is absent, an integer when it is present *)
Example union_result_witness :
  let r := Owned [10; 20; 30] in
  let a_nil := BTup [BBin r; BInt 99; BInt 0] in
  let a_int := BTup [BBin r; BInt 20; BInt 0] in
  wf_bval a_nil /\ wf_bval a_int /\
  bspec_inhab s_bin_int_int a_nil /\ bspec_inhab s_bin_int_int a_int /\
  impl_binary_index a_nil = Val (BTup []) /\ impl_binary_index a_int = Val (BInt 1) /\
  impl_vector_get (BTup [BBin (Owned [1; 0; 0; 0; 2; 0; 0; 0]); BInt 4; BInt 1]) = Val (BInt 2) /\
  impl_vector_get (BTup [BBin (Owned [1; 0; 0; 0; 2; 0; 0; 0]); BInt 4; BInt 2]) = Val (BTup []).
Proof.
  cbn zeta.
  assert (Hwf : wf (Owned [10; 20; 30])).
  { cbn [wf length]. unfold bytes_ok, MAX_BINARY_SIZE. split; [repeat constructor; lia | cbn; lia]. }
  assert (Hwa : forall x y, wf_bval (BTup [BBin (Owned [10; 20; 30]); BInt x; BInt y])).
  { intros x y. cbn [wf_bval]. auto. }
  split; [apply Hwa|]. split; [apply Hwa|].
  repeat split; vm_compute; reflexivity.
Qed.

Print Assumptions builtin_result_typed_all.
Print Assumptions builtin_only_domain_errors_all.
