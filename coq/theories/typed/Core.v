(* Core.v — C01: a typing judgement for a CORE FRAGMENT of Quiver at the AST level, with the
   narrowing rules as the compiler implements them after the repairs F13 F53 F54 F59 F66 F74 F80 F86,
   and a big-step evaluator for the same fragment.  Definitions only (executable, extracted);
   the soundness theorem `wt e T -> eval e = v -> v in [[T]]` is in CoreProofs.v.

   The fragment (what ./check C01 generates as "core programs" and compares with the REAL compiler's
   inferred type and the REAL VM's value on every run):
     literals (integers, binaries), tuple construction (named / unnamed, labelled / unlabelled
     fields), variables, field access by position `e .i` and by label `e .l`, integer addition and binary length (the two
     builtins `__integer_add__`, `__binary_length__`),
     bindings  `x = e1, e2`          (a bare binder: binds any value, nil too)
               `e1 =(T)x, e2`        (type-ascribed binder: binds and narrows to T, or the whole
                                      sequence short-circuits to nil — nil-narrowing)
     blocks    `x { | =p1 => b1 | .. | =pn => bn | d }` on a variable: the branch that matches
               commits; inside `bi` the scrutinee is narrowed to what `pi` matches (forward
               narrowing), the following branches and the default see the COMPLEMENT
               (compiler/narrowing.rs compute_complement, on the variants of the union);
               patterns: `='T` type tests, `Name[x, _, ..]` variant patterns with binders
     calls of monomorphic top-level functions `e f` (argument checked against the declared
               parameter type, compiler.rs apply_value_to_type; the body is typed at the
               declared parameter type — functions here do not dispatch on their parameter, so
               no per-call-site case table applies).
   Not in the fragment: partial types, generics, recursive types, closures, tail calls,
   processes, strings, spreads, literal / pin / or-patterns, nested sub-patterns. *)
From Quiver Require Import Base.
From Coq Require Import Arith.
Close Scope Z_scope.
Open Scope nat_scope.

(* ---------------------------------------------------------------- types and values *)
(* the shape of a tuple: its name and the label of each field (types.rs TupleTypeInfo without the
   field types; an unlabelled field has label None) *)
Definition shape := (option nat * list (option nat))%type.

Inductive cty :=
| TyInt
| TyBin
| TyTup (name : shape) (fields : list cty)
| TyUnion (variants : list cty).

Inductive cval :=
| CInt (z : Z)
| CBin (len : nat)
| CTup (name : shape) (fields : list cval).

Definition ty_nil : cty := TyTup (None, []) [].
Definition v_nil : cval := CTup (None, []) [].

Definition olab_eqb (a b : option nat) : bool :=
  match a, b with
  | None, None => true
  | Some x, Some y => Nat.eqb x y
  | _, _ => false
  end.

Fixpoint olabs_eqb (l1 l2 : list (option nat)) : bool :=
  match l1, l2 with
  | [], [] => true
  | a :: l1', b :: l2' => olab_eqb a b && olabs_eqb l1' l2'
  | _, _ => false
  end.

(* equality of shapes: same name, same labels *)
Definition oname_eqb (a b : shape) : bool := olab_eqb (fst a) (fst b) && olabs_eqb (snd a) (snd b).

(* pointwise test of two lists of equal length (structural on the first) *)
Definition all2b {A B} (f : A -> B -> bool) : list A -> list B -> bool :=
  fix go (l1 : list A) (l2 : list B) {struct l1} : bool :=
    match l1, l2 with
    | [], [] => true
    | a :: l1', b :: l2' => f a b && go l1' l2'
    | _, _ => false
    end.

(* some position passes the test (structural on the first; stops at the shorter list) *)
Definition any2b {A B} (f : A -> B -> bool) : list A -> list B -> bool :=
  fix go (l1 : list A) (l2 : list B) {struct l1} : bool :=
    match l1, l2 with
    | a :: l1', b :: l2' => f a b || go l1' l2'
    | _, _ => false
    end.

(* [[T]] : structural membership *)
Fixpoint memb (v : cval) (t : cty) {struct t} : bool :=
  match t with
  | TyInt => match v with CInt _ => true | _ => false end
  | TyBin => match v with CBin _ => true | _ => false end
  | TyTup n ts =>
      match v with
      | CTup m vs => oname_eqb n m && all2b (fun t' v' => memb v' t') ts vs
      | _ => false
      end
  | TyUnion ts => existsb (fun t' => memb v t') ts
  end.

(* the variants of a type: a union's members (one level), else the type itself *)
Definition variants (t : cty) : list cty :=
  match t with TyUnion ts => ts | _ => [t] end.

(* structural equality *)
Fixpoint cty_eqb (a b : cty) {struct a} : bool :=
  match a, b with
  | TyInt, TyInt => true
  | TyBin, TyBin => true
  | TyTup n ts, TyTup m us => oname_eqb n m && all2b cty_eqb ts us
  | TyUnion ts, TyUnion us => all2b cty_eqb ts us
  | _, _ => false
  end.

(* drop later structural duplicates *)
Fixpoint dedup (l : list cty) : list cty :=
  match l with
  | [] => []
  | t :: l' => t :: filter (fun u => negb (cty_eqb t u)) (dedup l')
  end.

(* typing.rs union_type_ids: flatten one level, deduplicate; a single variant is that variant *)
Definition mk_union (ts : list cty) : cty :=
  match dedup (flat_map variants ts) with
  | [t] => t
  | l => TyUnion l
  end.

(* types.rs is_compatible (ALL mode) on this fragment: S assignable to T. Sound, not complete. *)
Fixpoint subty (s t : cty) {struct s} : bool :=
  match s with
  | TyUnion ss => forallb (fun s' => subty s' t) ss
  | TyInt => existsb (fun u => match u with TyInt => true | _ => false end) (variants t)
  | TyBin => existsb (fun u => match u with TyBin => true | _ => false end) (variants t)
  | TyTup n ss =>
      existsb (fun u => match u with
                        | TyTup m us => oname_eqb n m && all2b subty ss us
                        | _ => false
                        end) (variants t)
  end.

(* types.rs types_overlap, negated, on this fragment: no value inhabits both. Sound. *)
Fixpoint disj (s t : cty) {struct s} : bool :=
  match s with
  | TyUnion ss => forallb (fun s' => disj s' t) ss
  | TyInt => forallb (fun u => match u with TyInt | TyUnion _ => false | _ => true end) (variants t)
  | TyBin => forallb (fun u => match u with TyBin | TyUnion _ => false | _ => true end) (variants t)
  | TyTup n ss =>
      forallb (fun u => match u with
                        | TyTup m us =>
                            negb (oname_eqb n m) || negb (Nat.eqb (List.length ss) (List.length us))
                            || any2b disj ss us
                        | TyUnion _ => false
                        | _ => true
                        end) (variants t)
  end.

(* ---------------------------------------------------------------- patterns *)
Inductive pat :=
| PTy (t : cty)                                 (* `='T`   : type test *)
| PTup (name : shape) (bs : list (option nat)).  (* `Name[x, _, ..]` : binders / wildcards *)

Definition env := list (nat * cval).
Definition tenv := list (nat * cty).

Fixpoint lookup {A} (x : nat) (l : list (nat * A)) : option A :=
  match l with
  | [] => None
  | (y, a) :: l' => if Nat.eqb x y then Some a else lookup x l'
  end.

Fixpoint bind_all {A} (bs : list (option nat)) (xs : list A) (acc : list (nat * A)) : list (nat * A) :=
  match bs, xs with
  | Some x :: bs', a :: xs' => bind_all bs' xs' ((x, a) :: acc)
  | None :: bs', _ :: xs' => bind_all bs' xs' acc
  | _, _ => acc
  end.

(* run-time matching: Some (extended environment) when the pattern matches *)
Definition pmatch (p : pat) (v : cval) (rho : env) : option env :=
  match p with
  | PTy t => if memb v t then Some rho else None
  | PTup n bs =>
      match v with
      | CTup m vs =>
          if oname_eqb n m && Nat.eqb (List.length bs) (List.length vs)
          then Some (bind_all bs vs rho) else None
      | _ => None
      end
  end.

(* does the pattern select this variant? Some true / Some false when that is decided statically
   for every value of the variant, None when the variant straddles the test (outside the fragment) *)
Definition selects (p : pat) (u : cty) : option bool :=
  match p with
  | PTy t => if subty u t then Some true else if disj u t then Some false else None
  | PTup n bs =>
      match u with
      | TyTup m us => Some (oname_eqb n m && Nat.eqb (List.length bs) (List.length us))
      | TyUnion _ => None
      | _ => Some false
      end
  end.

(* split the variants of the scrutinee's type into (matched, complement); None: not decisive *)
Fixpoint split_variants (p : pat) (us : list cty) : option (list cty * list cty) :=
  match us with
  | [] => Some ([], [])
  | u :: us' =>
      match selects p u, split_variants p us' with
      | Some true, Some (m, r) => Some (u :: m, r)
      | Some false, Some (m, r) => Some (m, u :: r)
      | _, _ => None
      end
  end.

(* the i-th field type over the matched variants (a binder's type: the union over them) *)
Definition field_types (ms : list cty) (i : nat) : list cty :=
  flat_map (fun u => match u with
                     | TyTup _ us => match nth_error us i with Some t => [t] | None => [] end
                     | _ => []
                     end) ms.

Fixpoint bind_types (bs : list (option nat)) (i : nat) (ms : list cty) (acc : tenv) : tenv :=
  match bs with
  | [] => acc
  | Some x :: bs' => bind_types bs' (S i) ms ((x, mk_union (field_types ms i)) :: acc)
  | None :: bs' => bind_types bs' (S i) ms acc
  end.

Definition pat_binds (p : pat) (ms : list cty) (G : tenv) : tenv :=
  match p with
  | PTy _ => G
  | PTup _ bs => bind_types bs 0 ms G
  end.

(* ---------------------------------------------------------------- expressions *)
Inductive exp :=
| EInt (z : Z)
| EBinLit (len : nat)
| ETup (name : shape) (es : list exp)
| EVar (x : nat)
| EGet (e : exp) (i : nat)
| EGetL (e : exp) (l : nat)                 (* `e .label` *)
| EAdd (e1 e2 : exp)
| ELen (e : exp)
| ELet (x : nat) (e1 e2 : exp)
| ELetAs (x : nat) (t : cty) (e1 e2 : exp)
| ECase (x : nat) (brs : list (pat * exp)) (d : exp)
| ECall (f : nat) (e : exp).

(* position of a label among a tuple's labels (type_queries.rs get_field_from_source) *)
Fixpoint label_index (l : nat) (ls : list (option nat)) : option nat :=
  match ls with
  | [] => None
  | Some l' :: ls' => if Nat.eqb l l' then Some 0 else option_map S (label_index l ls')
  | None :: ls' => option_map S (label_index l ls')
  end.

(* a top-level monomorphic function: declared parameter type, body (the parameter is variable 0) *)
Definition fdef := (cty * exp)%type.

Section Core.
  Variable fns : list fdef.

  Fixpoint map_opt {A B} (f : A -> option B) (l : list A) : option (list B) :=
    match l with
    | [] => Some []
    | a :: l' => match f a, map_opt f l' with
                 | Some b, Some bs => Some (b :: bs)
                 | _, _ => None
                 end
    end.

  Definition contains_nil (t : cty) : bool := existsb (fun u => cty_eqb u ty_nil) (variants t).

  (* the branch loop of a block, over the recursive call `inf` (typing) / `ev` (evaluation) *)
  Fixpoint infer_case (inf : tenv -> exp -> option cty) (x : nat) (G : tenv) (d : exp)
           (brs : list (pat * exp)) (rest : list cty) (acc : list cty) {struct brs} : option cty :=
    match brs with
    | [] =>
        (* the default sees what the branches before it left over *)
        match inf ((x, mk_union rest) :: G) d with
        | Some td => Some (mk_union (acc ++ [td]))
        | None => None
        end
    | (p, b) :: brs' =>
        match split_variants p rest with
        | None => None
        | Some ([], r) => infer_case inf x G d brs' r acc   (* cannot match: contributes nothing (F86) *)
        | Some (m, r) =>
            (* the following branches see the complement - unless it is empty: the block is then
               exhaustive and nothing is narrowed any further (compiler.rs compile_block: a never
               complement sets is_exhaustive and is not accumulated) *)
            match inf (pat_binds p m ((x, mk_union m) :: G)) b with
            | Some tb => infer_case inf x G d brs' (match r with [] => rest | _ => r end) (acc ++ [tb])
            | None => None
            end
        end
    end.

  Fixpoint eval_case (ev : env -> exp -> option cval) (v : cval) (rho : env) (d : exp)
           (brs : list (pat * exp)) {struct brs} : option cval :=
    match brs with
    | [] => ev rho d
    | (p, b) :: brs' =>
        match pmatch p v rho with
        | Some rho' => ev rho' b
        | None => eval_case ev v rho d brs'
        end
    end.

  (* ---- the typing judgement, as an inference function (fuel k >= the expression's depth).
     `infer k G e = Some T` is the judgement `G |- e : T`. *)
  Fixpoint infer (k : nat) (G : tenv) (e : exp) {struct k} : option cty :=
    match k with
    | 0 => None
    | S k' =>
      match e with
      | EInt _ => Some TyInt
      | EBinLit _ => Some TyBin
      | ETup n es => option_map (TyTup n) (map_opt (infer k' G) es)
      | EVar x => lookup x G
      | EGet e1 i =>
          match infer k' G e1 with
          | Some (TyTup _ ts) => nth_error ts i
          | _ => None
          end
      | EGetL e1 l =>
          match infer k' G e1 with
          | Some (TyTup sh ts) =>
              match label_index l (snd sh) with Some i => nth_error ts i | None => None end
          | _ => None
          end
      | EAdd e1 e2 =>
          match infer k' G e1, infer k' G e2 with
          | Some TyInt, Some TyInt => Some TyInt
          | _, _ => None
          end
      | ELen e1 => match infer k' G e1 with Some TyBin => Some TyInt | _ => None end
      | ELet x e1 e2 =>
          (* a bare binder binds whatever e1 yields: x has e1's type, nil included *)
          match infer k' G e1 with
          | Some t1 => infer k' ((x, t1) :: G) e2
          | None => None
          end
      | ELetAs x t e1 e2 =>
          (* `e1 =(t)x, e2`: on the success path x : the part of e1's type inside t; when e1's
             type is not wholly inside t the match can fail and the sequence yields nil *)
          match infer k' G e1 with
          | Some t1 =>
              match split_variants (PTy t) (variants t1) with
              | Some (m :: ms, r) =>
                  match infer k' ((x, mk_union (m :: ms)) :: G) e2 with
                  | Some t2 => Some (match r with [] => t2 | _ => mk_union [t2; ty_nil] end)
                  | None => None
                  end
              | Some ([], _) => Some ty_nil          (* statically failing match: nil *)
              | None => None
              end
          | None => None
          end
      | ECase x brs d =>
          match lookup x G with
          | None => None
          | Some tx => infer_case (infer k') x G d brs (variants tx) []
          end
      | ECall f e1 =>
          match nth_error fns f, infer k' G e1 with
          | Some (tp, body), Some ta =>
              if subty ta tp then infer k' [(0, tp)] body else None
          | _, _ => None
          end
      end
    end.

  (* ---- the evaluator (fuel n bounds the depth of the evaluation) *)
  Fixpoint eval (n : nat) (rho : env) (e : exp) {struct n} : option cval :=
    match n with
    | 0 => None
    | S n' =>
      match e with
      | EInt z => Some (CInt z)
      | EBinLit l => Some (CBin l)
      | ETup nm es => option_map (CTup nm) (map_opt (eval n' rho) es)
      | EVar x => lookup x rho
      | EGet e1 i =>
          match eval n' rho e1 with
          | Some (CTup _ vs) => nth_error vs i
          | _ => None                               (* a VM-level type failure: stuck *)
          end
      | EGetL e1 l =>
          match eval n' rho e1 with
          | Some (CTup sh vs) =>
              match label_index l (snd sh) with Some i => nth_error vs i | None => None end
          | _ => None
          end
      | EAdd e1 e2 =>
          match eval n' rho e1, eval n' rho e2 with
          | Some (CInt a), Some (CInt b) => Some (CInt (a + b)%Z)
          | _, _ => None
          end
      | ELen e1 => match eval n' rho e1 with Some (CBin l) => Some (CInt (Z.of_nat l)) | _ => None end
      | ELet x e1 e2 =>
          match eval n' rho e1 with
          | Some v1 => eval n' ((x, v1) :: rho) e2
          | None => None
          end
      | ELetAs x t e1 e2 =>
          match eval n' rho e1 with
          | Some v1 => if memb v1 t then eval n' ((x, v1) :: rho) e2 else Some v_nil
          | None => None
          end
      | ECase x brs d =>
          match lookup x rho with
          | None => None
          | Some v => eval_case (eval n') v rho d brs
          end
      | ECall f e1 =>
          match nth_error fns f, eval n' rho e1 with
          | Some (_, body), Some a => eval n' [(0, a)] body
          | _, _ => None
          end
      end
    end.
  (* a whole core program: every function definition is typed at its declared parameter type - the
     compiler checks definitions whether or not they are called - and then the main expression *)
  Definition infer_prog (k : nat) (e : exp) : option cty :=
    if forallb (fun d : fdef => match infer k [(0, fst d)] (snd d) with Some _ => true | None => false end) fns
    then infer k [] e else None.
End Core.
