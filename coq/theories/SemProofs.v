(* SemProofs.v — facts about the specification Sem.v that the C09 proofs use: the cycle-free
   fragment (inductive characterisation CF), environment independence on it, and the semantic
   containment rules (one per type constructor). *)
From Quiver Require Import Base Types Sem.
From Coq Require Import Arith Lia.
Close Scope Z_scope.
Open Scope nat_scope.

Section SemFacts.
  Variable P : registry.

  (* named_ok = false: partial types must be unnamed (needed for soundness of the code as it is:
     an unnamed partial is accepted where a named one is expected) *)
  Variable named_ok : bool.

  (* cycle-free, variable-free, processes with both directions known *)
  Inductive CF : nat -> Prop :=
  | CF_int : forall t, lookup_type P t = Some TInteger -> CF t
  | CF_bin : forall t, lookup_type P t = Some TBinary -> CF t
  | CF_ref : forall t, lookup_type P t = Some TReference -> CF t
  | CF_res : forall t r, lookup_type P t = Some (TResource r) -> CF t
  | CF_union : forall t vs, lookup_type P t = Some (TUnion vs) -> (forall u, In u vs -> CF u) -> CF t
  | CF_tuple : forall t tid info, lookup_type P t = Some (TTuple tid) -> lookup_tuple P tid = Some info ->
      (forall f, In f (tfields info) -> CF (snd f)) -> CF t
  | CF_partial : forall t pname pfields, lookup_type P t = Some (TPartial pname pfields) ->
      (named_ok = true \/ pname = None) ->
      (forall f, In f pfields -> CF (snd f)) -> CF t
  | CF_callable : forall t p r rc, lookup_type P t = Some (TCallable p r rc) -> CF p -> CF r -> CF rc -> CF t
  | CF_process : forall t s r, lookup_type P t = Some (TProcess (Some s) (Some r)) -> CF s -> CF r -> CF t.

  Definition sub (s p : nat) : Prop := forall n E1 E2 v, inhab P n E1 v s -> inhab P n E2 v p.

  Ltac inv H := inversion H; subst; clear H.
  Ltac lk := match goal with
             | H1 : lookup_type P ?t = Some _, H2 : lookup_type P ?t = Some _ |- _ =>
               rewrite H1 in H2; inv H2
             | H1 : lookup_tuple P ?t = Some _, H2 : lookup_tuple P ?t = Some _ |- _ =>
               rewrite H1 in H2; inv H2
             end.

  Lemma Forall2_field_ok_impl (R1 R2 : value -> nat -> Prop) fs vs :
    (forall f fv, In f fs -> R1 fv (snd f) -> R2 fv (snd f)) ->
    Forall2 (field_ok R1) fs vs -> Forall2 (field_ok R2) fs vs.
  Proof.
    intros Himp HF. induction HF as [|f fv fs' vs' [Hl Hr] HF IH]; constructor.
    - split; [exact Hl|]. apply Himp; [left; reflexivity|exact Hr].
    - apply IH. intros f0 fv0 Hin. apply Himp. right; exact Hin.
  Qed.

  (* membership in a cycle-free type does not depend on the cycle environment *)
  Lemma env_indep : forall n t, CF t -> forall E1 E2 v, inhab P n E1 v t -> inhab P n E2 v t.
  Proof.
    induction n as [|m IHm]; [intros t _ E1 E2 v H; exact H|].
    intros t Hcf. induction Hcf as
      [t Hl|t Hl|t Hl|t r Hl|t vs Hl Hvs IHvs|t tid info Hl Hlt Hfs IHfs|t pname pfields Hl Hn Hfs IHfs
       |t p r rc Hl Hp IHp Hr IHr Hrc IHrc|t s r Hl Hs IHs Hr IHr];
      intros E1 E2 v H; cbn [inhab] in *; inv H; repeat lk; try (rewrite Hl in *; discriminate).
    - apply Inh_int; assumption.
    - apply Inh_bin; assumption.
    - apply Inh_ref; assumption.
    - apply Inh_res; assumption.
    - eapply Inh_union; [eassumption|eassumption|]. eapply IHvs; eassumption.
    - eapply Inh_tuple; [eassumption|eassumption|].
      eapply Forall2_field_ok_impl; [|eassumption].
      intros f fv Hin Hr. eapply IHm; [apply Hfs; exact Hin|exact Hr].
    - eapply Inh_partial; [eassumption|assumption|].
      intros l ft Hin. destruct (H2 l ft Hin) as [fv [Hinv Hr]].
      exists fv. split; [exact Hinv|]. eapply IHm; [apply (Hfs (l, ft)); exact Hin|exact Hr].
    - eapply Inh_fun; [eassumption|eassumption| | |].
      + intros w Hw. apply H2. eapply IHm; [exact Hp|exact Hw].
      + intros w Hw. eapply IHm; [exact Hr|]. apply H3. exact Hw.
      + intros w Hw. apply H4. eapply IHm; [exact Hrc|exact Hw].
    - eapply Inh_proc; [eassumption|eassumption| |].
      + intros s0 Hs0 w Hw. inv Hs0. eapply IHm; [exact Hs|]. eapply H2; [reflexivity|exact Hw].
      + intros r0 Hr0 w Hw. inv Hr0. eapply IHm; [exact Hr|]. eapply H3; [reflexivity|exact Hw].
  Qed.

  Lemma sub_refl : forall t, CF t -> sub t t.
  Proof. intros t Hcf n E1 E2 v H. eapply env_indep; eassumption. Qed.

  Lemma sub_trans : forall a b c, sub a b -> sub b c -> sub a c.
  Proof. intros a b c H1 H2 n E1 E2 v H. eapply H2 with (E1 := E1). eapply H1. exact H. Qed.

  Ltac inv_inh H := inversion H; subst; clear H; repeat lk.

  Lemma sub_empty_union s p : lookup_type P s = Some (TUnion []) -> sub s p.
  Proof.
    intros Hs n E1 E2 v H. destruct n; [contradiction|]. cbn [inhab] in H. inv_inh H.
    match goal with Hin : In _ [] |- _ => destruct Hin end.
  Qed.

  Lemma sub_union_left s vs p :
    lookup_type P s = Some (TUnion vs) -> (forall v, In v vs -> sub v p) -> sub s p.
  Proof.
    intros Hs Hall n E1 E2 v H. destruct n; [contradiction|]. cbn [inhab] in H. inv_inh H.
    eapply (Hall u) with (n := S n); [assumption|]. cbn [inhab]. eassumption.
  Qed.

  Lemma sub_union_right s vs p u :
    lookup_type P p = Some (TUnion vs) -> In u vs -> sub s u -> sub s p.
  Proof.
    intros Hp Hin Hsub n E1 E2 v H. destruct n; [contradiction|].
    cbn [inhab]. eapply Inh_union; [exact Hp|exact Hin|]. apply (Hsub (S n) E1 (p :: E2) v H).
  Qed.

  Lemma sub_int s p : lookup_type P s = Some TInteger -> lookup_type P p = Some TInteger -> sub s p.
  Proof.
    intros Hs Hp n E1 E2 v H. destruct n; [contradiction|]. cbn [inhab] in *. inv_inh H.
    apply Inh_int; exact Hp.
  Qed.
  Lemma sub_bin s p : lookup_type P s = Some TBinary -> lookup_type P p = Some TBinary -> sub s p.
  Proof.
    intros Hs Hp n E1 E2 v H. destruct n; [contradiction|]. cbn [inhab] in *. inv_inh H.
    apply Inh_bin; exact Hp.
  Qed.
  Lemma sub_ref s p : lookup_type P s = Some TReference -> lookup_type P p = Some TReference -> sub s p.
  Proof.
    intros Hs Hp n E1 E2 v H. destruct n; [contradiction|]. cbn [inhab] in *. inv_inh H.
    apply Inh_ref; exact Hp.
  Qed.
  Lemma sub_res s p r : lookup_type P s = Some (TResource r) -> lookup_type P p = Some (TResource r) -> sub s p.
  Proof.
    intros Hs Hp n E1 E2 v H. destruct n; [contradiction|]. cbn [inhab] in *. inv_inh H.
    apply Inh_res; exact Hp.
  Qed.

  Definition fields_sub (f1 f2 : option nat * nat) : Prop := fst f1 = fst f2 /\ sub (snd f1) (snd f2).

  Lemma fields_sub_transfer m E1 E2 fs1 fs2 vs :
    Forall2 fields_sub fs1 fs2 ->
    Forall2 (field_ok (inhab P m E1)) fs1 vs -> Forall2 (field_ok (inhab P m E2)) fs2 vs.
  Proof.
    intros H12. revert vs. induction H12 as [|f1 f2 fs1' fs2' [Hl Hs] H12 IH]; intros vs HF; inv HF.
    - constructor.
    - constructor; [|apply IH; assumption].
      match goal with Hok : field_ok _ _ _ |- _ => destruct Hok as [Hl' Hr'] end.
      split; [congruence|]. eapply Hs; exact Hr'.
  Qed.

  Lemma sub_tuple s p id1 id2 i1 i2 :
    lookup_type P s = Some (TTuple id1) -> lookup_type P p = Some (TTuple id2) ->
    lookup_tuple P id1 = Some i1 -> lookup_tuple P id2 = Some i2 ->
    tname i1 = tname i2 -> Forall2 fields_sub (tfields i1) (tfields i2) -> sub s p.
  Proof.
    intros Hs Hp H1 H2 Hn HF n E1 E2 v H. destruct n; [contradiction|]. cbn [inhab] in *. inv_inh H.
    rewrite Hn. eapply Inh_tuple; [exact Hp|exact H2|].
    eapply fields_sub_transfer; eassumption.
  Qed.

  Lemma Forall2_In_l {A B} (R : A -> B -> Prop) l1 l2 a :
    Forall2 R l1 l2 -> In a l1 -> exists b, In b l2 /\ R a b.
  Proof.
    induction 1 as [|x y l1' l2' Hxy HF IH]; intros Hin; [destruct Hin|].
    destruct Hin as [->|Hin]; [exists y; split; [left; reflexivity|assumption]|].
    destruct (IH Hin) as [b [Hb Hr]]. exists b. split; [right; assumption|assumption].
  Qed.

  Lemma sub_tuple_partial s p cid cinfo pname pfields :
    lookup_type P s = Some (TTuple cid) -> lookup_tuple P cid = Some cinfo ->
    lookup_type P p = Some (TPartial pname pfields) ->
    (pname = None \/ pname = tname cinfo) ->
    (forall l pt, In (l, pt) pfields -> exists ct, In (Some l, ct) (tfields cinfo) /\ sub ct pt) ->
    sub s p.
  Proof.
    intros Hs Hc Hp Hn Hf n E1 E2 v H. destruct n; [contradiction|]. cbn [inhab] in *. inv_inh H.
    eapply Inh_partial; [exact Hp|exact Hn|].
    intros l pt Hin. destruct (Hf l pt Hin) as [ct [Hct Hsub]].
    match goal with HF : Forall2 _ (tfields _) _ |- _ =>
      destruct (Forall2_In_l _ _ _ _ HF Hct) as [[l' fv] [Hfv [Hl Hr]]] end.
    cbn in Hl, Hr. subst l'. exists fv. split; [exact Hfv|]. eapply Hsub; exact Hr.
  Qed.

  Lemma sub_partial_partial s p n1 f1 n2 f2 :
    lookup_type P s = Some (TPartial n1 f1) -> lookup_type P p = Some (TPartial n2 f2) ->
    (n2 = None \/ n1 = n2) ->
    (forall l t2, In (l, t2) f2 -> exists t1, In (l, t1) f1 /\ sub t1 t2) ->
    sub s p.
  Proof.
    intros Hs Hp Hn Hf n E1 E2 v H. destruct n; [contradiction|]. cbn [inhab] in *. inv_inh H.
    eapply Inh_partial; [exact Hp| |].
    - destruct Hn as [->|<-]; [left; reflexivity|].
      match goal with Hor : _ \/ _ |- _ => destruct Hor as [->|Heq] end;
        [left; reflexivity|right; exact Heq].
    - intros l t2 Hin. destruct (Hf l t2 Hin) as [t1 [Hin1 Hsub]].
      match goal with Hall : forall l ft, In (l, ft) _ -> exists _, _ |- _ =>
        destruct (Hall l t1 Hin1) as [fv [Hfv Hr]] end.
      exists fv. split; [exact Hfv|]. eapply Hsub; exact Hr.
  Qed.

  Lemma sub_process s p s1 r1 s2 r2 :
    lookup_type P s = Some (TProcess (Some s1) (Some r1)) ->
    lookup_type P p = Some (TProcess (Some s2) (Some r2)) ->
    sub s1 s2 -> sub r1 r2 -> sub s p.
  Proof.
    intros Hs Hp Hss Hrr n E1 E2 v H. destruct n; [contradiction|]. cbn [inhab] in *. inv_inh H.
    eapply Inh_proc; [exact Hp|eassumption| |].
    - intros s0 Hs0 w Hw. inv Hs0. eapply Hss.
      match goal with Hx : forall s0, Some s1 = Some s0 -> _ |- _ => eapply (Hx s1 eq_refl) end. exact Hw.
    - intros r0 Hr0 w Hw. inv Hr0. eapply Hrr.
      match goal with Hx : forall r0, Some r1 = Some r0 -> _ |- _ => eapply (Hx r1 eq_refl) end. exact Hw.
  Qed.

  Lemma sub_callable s p p1 r1 c1 p2 r2 c2 :
    lookup_type P s = Some (TCallable p1 r1 c1) -> lookup_type P p = Some (TCallable p2 r2 c2) ->
    sub p2 p1 -> sub r1 r2 -> sub c2 c1 -> sub s p.
  Proof.
    intros Hs Hp Hpp Hrr Hcc n E1 E2 v H. destruct n; [contradiction|]. cbn [inhab] in *. inv_inh H.
    eapply Inh_fun; [exact Hp|eassumption| | |].
    - intros w Hw. match goal with Hx : forall w, _ -> inhab P n [c] w _ |- _ => apply Hx end.
      eapply Hpp; exact Hw.
    - intros w Hw. eapply Hrr. match goal with Hx : forall w, inhab P n [c] w _ -> _ |- _ => apply Hx end. exact Hw.
    - intros w Hw. match goal with Hx : forall w, _ -> inhab P n [c] w rc' |- _ => apply Hx end.
      eapply Hcc; exact Hw.
  Qed.
End SemFacts.
