(* Ast.v — the AST of quiver-compiler/src/ast.rs as far as simplify.rs touches it.
   Every enum variant that simplify.rs can see is mirrored by name. Spans are dropped, with one
   exception: `Chain.span` (its start offset), because the formatter's `keep` closure
   (format.rs:45 `keep: &|chain| trivia.has_trivia(chain.span)`) reads it.
   Names (identifiers, tuple names, labels) are never inspected by simplify.rs: they are
   `atom`s, interned to integers by the driver. `Match` (patterns) and `Type` are never
   inspected either (only `Term::Match(_)` / `match_pattern.is_some()` are): they are carried as an
   opaque s-expression payload `sx`, which the harness dumper prints variant-by-variant. *)
From Quiver Require Import Base.

Definition atom := Z.

(* opaque payload for ast.rs `Match` (l.275) and `Type` (l.319) *)
Inductive sx :=
| SxAtom (a : atom)
| SxList (l : list sx).

(* ast.rs:135 enum Literal *)
Inductive literal :=
| Integer (n : Z)
| Binary (bytes : list Z).

(* ast.rs:153 enum StringStyle *)
Inductive string_style := Single | Multi.

(* ast.rs:162 enum TupleName *)
Inductive tuple_name := Anonymous | Named (n : atom) | Inherit.

(* ast.rs:213 enum AccessSource (Parameter, Import are Coq keywords and Self_ clashes with Term::Self_: spelled ParameterSrc, ImportSrc, SelfSrc) *)
Inductive access_source :=
| Identifier (n : atom)
| ParameterSrc
| Ripple
| ImportSrc (path : list atom)
| SelfSrc
| Builtin (n : atom)
| TailCall (target : option atom)
| TailCallRipple.

(* ast.rs:252 enum AccessPath *)
Inductive access_path := Field (n : atom) | Index (i : Z).

(* ast.rs:237 struct Access (spans dropped) *)
Record access := mkAccess { source : option access_source; accessors : list access_path }.

(* ast.rs:203 struct Function without its body (which is the only part simplify.rs rewrites) *)
Record fn_sig := mkFnSig { type_parameters : list atom; parameter_type : option sx; return_type : option sx }.

(* ast.rs:81 enum Term, :173 Tuple, :191 TupleField, :184 FieldValue, :142 StrSegment,
   :69 Chain, :64 Sequence, :56 Branch, :51 Expression *)
Inductive term :=
| Literal (l : literal)
| Tuple (name : tuple_name) (fields : list tuple_field)
| String (style : string_style) (segments : list str_segment)
| Match (m : sx)
| Block (e : expression)
| Function (sig : fn_sig) (body : option expression)
| Access (a : access)
| Spawn (inner : term)
| Self_
| Select (sources : option (list chain))
| Process (n : Z)
| Reference (a : access)
with tuple_field :=
| TupleField (name : option atom) (value : field_value)
with field_value :=
| FChain (c : chain)
| FSpread (n : option atom)
with str_segment :=
| Text (bytes : list Z)
| Hole (e : expression)
with chain :=
| Chain (match_pattern : option sx) (span : option Z) (terms : list term)
with sequence :=
| Sequence (chains : list chain)
with branch :=
| Branch (condition : sequence) (consequence : option sequence)
with expression :=
| Expression (branches : list branch).

(* ast.rs:32 enum Statement, :27 struct Program *)
Inductive statement :=
| TypeAlias (name : option atom) (type_parameters : list atom) (type_definition : sx)
| StmtExpression (s : sequence).

Inductive program := Program (statements : list statement).

Definition chain_terms (c : chain) : list term := match c with Chain _ _ ts => ts end.
Definition chain_pattern (c : chain) : option sx := match c with Chain mp _ _ => mp end.
Definition chain_span (c : chain) : option Z := match c with Chain _ sp _ => sp end.
Definition seq_chains (s : sequence) : list chain := match s with Sequence cs => cs end.

(* ---------------------------------------------------------------------------------------
   Induction principle for the nested mutual AST (Coq's Scheme gives no hypotheses for the
   elements of the nested lists/options). *)
Section AstInd.
  Variables (Pt : term -> Prop) (Pf : tuple_field -> Prop) (Pv : field_value -> Prop)
            (Pg : str_segment -> Prop) (Pc : chain -> Prop) (Ps : sequence -> Prop)
            (Pb : branch -> Prop) (Pe : expression -> Prop).
  Definition Popt {A} (P : A -> Prop) (o : option A) : Prop := match o with Some a => P a | None => True end.
  Hypothesis HLiteral : forall l, Pt (Literal l).
  Hypothesis HTuple : forall n fs, Forall Pf fs -> Pt (Tuple n fs).
  Hypothesis HString : forall st segs, Forall Pg segs -> Pt (String st segs).
  Hypothesis HMatch : forall m, Pt (Match m).
  Hypothesis HBlock : forall e, Pe e -> Pt (Block e).
  Hypothesis HFunction : forall sg body, Popt Pe body -> Pt (Function sg body).
  Hypothesis HAccess : forall a, Pt (Access a).
  Hypothesis HSpawn : forall t, Pt t -> Pt (Spawn t).
  Hypothesis HSelf : Pt Self_.
  Hypothesis HSelectNone : Pt (Select None).
  Hypothesis HSelectSome : forall cs, Forall Pc cs -> Pt (Select (Some cs)).
  Hypothesis HProcess : forall n, Pt (Process n).
  Hypothesis HReference : forall a, Pt (Reference a).
  Hypothesis HField : forall n v, Pv v -> Pf (TupleField n v).
  Hypothesis HFChain : forall c, Pc c -> Pv (FChain c).
  Hypothesis HFSpread : forall n, Pv (FSpread n).
  Hypothesis HText : forall b, Pg (Text b).
  Hypothesis HHole : forall e, Pe e -> Pg (Hole e).
  Hypothesis HChain : forall mp sp ts, Forall Pt ts -> Pc (Chain mp sp ts).
  Hypothesis HSequence : forall cs, Forall Pc cs -> Ps (Sequence cs).
  Hypothesis HBranch : forall c k, Ps c -> Popt Ps k -> Pb (Branch c k).
  Hypothesis HExpression : forall bs, Forall Pb bs -> Pe (Expression bs).

  Fixpoint term_ind' (t : term) : Pt t :=
    match t with
    | Literal l => HLiteral l
    | Tuple n fs => HTuple n fs ((fix go (l : list tuple_field) : Forall Pf l :=
                      match l with [] => Forall_nil _ | x :: r => Forall_cons x (field_ind' x) (go r) end) fs)
    | String st segs => HString st segs ((fix go (l : list str_segment) : Forall Pg l :=
                      match l with [] => Forall_nil _ | x :: r => Forall_cons x (segment_ind' x) (go r) end) segs)
    | Match m => HMatch m
    | Block e => HBlock e (expression_ind' e)
    | Function sg body => HFunction sg body (match body with Some e => expression_ind' e | None => I end)
    | Access a => HAccess a
    | Spawn t' => HSpawn t' (term_ind' t')
    | Self_ => HSelf
    | Select None => HSelectNone
    | Select (Some cs) => HSelectSome cs ((fix go (l : list chain) : Forall Pc l :=
                      match l with [] => Forall_nil _ | x :: r => Forall_cons x (chain_ind' x) (go r) end) cs)
    | Process n => HProcess n
    | Reference a => HReference a
    end
  with field_ind' (f : tuple_field) : Pf f :=
    match f with TupleField n v => HField n v (value_ind' v) end
  with value_ind' (v : field_value) : Pv v :=
    match v with FChain c => HFChain c (chain_ind' c) | FSpread n => HFSpread n end
  with segment_ind' (g : str_segment) : Pg g :=
    match g with Text b => HText b | Hole e => HHole e (expression_ind' e) end
  with chain_ind' (c : chain) : Pc c :=
    match c with Chain mp sp ts => HChain mp sp ts ((fix go (l : list term) : Forall Pt l :=
                      match l with [] => Forall_nil _ | x :: r => Forall_cons x (term_ind' x) (go r) end) ts) end
  with sequence_ind' (s : sequence) : Ps s :=
    match s with Sequence cs => HSequence cs ((fix go (l : list chain) : Forall Pc l :=
                      match l with [] => Forall_nil _ | x :: r => Forall_cons x (chain_ind' x) (go r) end) cs) end
  with branch_ind' (b : branch) : Pb b :=
    match b with Branch c k => HBranch c k (sequence_ind' c)
                                 (match k with Some s => sequence_ind' s | None => I end) end
  with expression_ind' (e : expression) : Pe e :=
    match e with Expression bs => HExpression bs ((fix go (l : list branch) : Forall Pb l :=
                      match l with [] => Forall_nil _ | x :: r => Forall_cons x (branch_ind' x) (go r) end) bs) end.

  Lemma ast_mutind :
    (forall t, Pt t) /\ (forall f, Pf f) /\ (forall v, Pv v) /\ (forall g, Pg g) /\
    (forall c, Pc c) /\ (forall s, Ps s) /\ (forall b, Pb b) /\ (forall e, Pe e).
  Proof.
    repeat split; [apply term_ind' | apply field_ind' | apply value_ind' | apply segment_ind'
                  | apply chain_ind' | apply sequence_ind' | apply branch_ind' | apply expression_ind'].
  Qed.
End AstInd.
