(* Pretty.v — executable model of quiver-compiler/src/pretty.rs (the Wadler/Prettier-style document
   algebra and its layout machine).  Definitions only; proofs are in PrettyProofs.v.

   Text is `list Z` (Unicode code points); `chars().count()` is `length`.
   Vec-stacks are lists with the TOP OF THE STACK AT THE HEAD.
   The `suffixes` buffer is a list in push order (oldest first), so that
   `stack.extend(suffixes.drain(..).rev())` is `suffixes ++ stack`.
   NOTE: this file defines its own `mode := Flat | Break`, which shadows Base.mode (Debug|Release)
   for importers; qualify as Pretty.mode / Base.mode when both are needed. *)
From Quiver Require Import Base.

(* pretty.rs:15  pub enum Doc { Nil, Text(String), Line, SoftLine, HardLine, Concat(Vec<Doc>),
     Nest(usize, Box<Doc>), Group(Box<Doc>, bool), IfBreak(Box<Doc>, Box<Doc>),
     LineSuffix(Box<Doc>), BreakParent } *)
Inductive doc :=
| DNil
| DText (s : list Z)
| DLine
| DSoftLine
| DHardLine
| DConcat (ds : list doc)
| DNest (n : nat) (d : doc)
| DGroup (d : doc) (should_break : bool)
| DIfBreak (broken flat : doc)
| DLineSuffix (d : doc)
| DBreakParent.

(* pretty.rs:9  enum Mode { Flat, Break } *)
Inductive mode := Flat | Break.

(* pretty.rs:105  pub fn forces_break(doc: &Doc) -> bool *)
Fixpoint forces_break (d : doc) : bool :=
  match d with
  | DHardLine | DBreakParent => true
  | DConcat ds => existsb forces_break ds
  | DNest _ inner => forces_break inner
  | DGroup _ sb => sb
  | DIfBreak _ fl => forces_break fl
  | DNil | DText _ | DLine | DSoftLine | DLineSuffix _ => false
  end.

(* pretty.rs:43-86  the smart constructors nil/text/line/softline/hardline/concat/nest/if_break/
   line_suffix/break_parent are the bare constructors; only `group` computes something.
   pretty.rs:71  pub fn group(doc: Doc) -> Doc
     { let should_break = forces_break(&doc); Doc::Group(Box::new(doc), should_break) } *)
Definition group (d : doc) : doc := DGroup d (forces_break d).

(* pretty.rs:89  pub fn join(separator: Doc, docs: Vec<Doc>) -> Doc *)
Fixpoint join_docs (sep : doc) (ds : list doc) : list doc :=
  match ds with
  | [] => []
  | d :: t => match t with [] => [d] | _ :: _ => d :: sep :: join_docs sep t end
  end.
Definition join (sep : doc) (ds : list doc) : doc := DConcat (join_docs sep ds).

(* pretty.rs:118  type Frame<'a> = (usize, Mode, &'a Doc); *)
Definition frame := (nat * mode * doc)%type.

(* ---- termination weight (not in the Rust code: the explicit fuel of the loops) ---- *)

(* w(d) >= 1; every step of the print loop strictly decreases
   stack_weight stack + suffix_weight suffixes (see PrettyProofs.layout_fuel_total). *)
Fixpoint weight (d : doc) : nat :=
  match d with
  | DNil | DText _ | DLine | DSoftLine | DHardLine | DBreakParent => 1%nat
  | DConcat ds => S (list_sum (map weight ds))
  | DNest _ inner => S (weight inner)
  | DGroup inner _ => S (weight inner)
  | DIfBreak br fl => S (weight br + weight fl)
  | DLineSuffix inner => (2 * weight inner + 2)%nat
  end.

Definition stack_weight (st : list frame) : nat :=
  list_sum (map (fun fr : frame => weight (snd fr)) st).
Definition suffix_weight (sfx : list frame) : nat :=
  list_sum (map (fun fr : frame => (2 * weight (snd fr) + 1)%nat) sfx).

Definition enough_fuel (d : doc) : nat := S (weight d).

(* ---- fits ---- *)

(* pretty.rs:254-257
     let Some((indent, mode, doc)) = local.pop().or_else(|| {
         rest_top = rest_top.checked_sub(1)?; Some(rest[rest_top]) }) else { return true; };
   `rest` is the layout stack, read top first by index; here: head first. *)
Definition fits_pop (local rest : list frame) : option (frame * list frame * list frame) :=
  match local with
  | fr :: local' => Some (fr, local', rest)
  | [] => match rest with
          | [] => None
          | fr :: rest' => Some (fr, [], rest')
          end
  end.

(* pretty.rs:244-295  fn fits(remaining: usize, indent: usize, group_inner: &Doc, rest: &[Frame]) -> bool
   `remaining` is the isize of the Rust loop (Z here); None = out of fuel. *)
Fixpoint fits_fuel (fuel : nat) (remaining : Z) (local rest : list frame) {struct fuel}
  : option bool :=
  match fuel with
  | O => None
  | S f =>
    if remaining <? 0 then Some false else
    match fits_pop local rest with
    | None => Some true
    | Some ((indent, m, d), local', rest') =>
      match d with
      | DNil | DLineSuffix _ | DBreakParent => fits_fuel f remaining local' rest'
      | DText s => fits_fuel f (remaining - Z.of_nat (length s)) local' rest'
      | DConcat ds =>
          fits_fuel f remaining (map (fun c => (indent, m, c)) ds ++ local') rest'
      | DNest extra inner =>
          fits_fuel f remaining (((indent + extra)%nat, m, inner) :: local') rest'
      | DLine => match m with
                 | Flat => fits_fuel f (remaining - 1) local' rest'
                 | Break => Some true
                 end
      | DSoftLine => match m with
                     | Flat => fits_fuel f remaining local' rest'
                     | Break => Some true
                     end
      | DHardLine => Some true
      | DIfBreak br fl =>
          fits_fuel f remaining
            ((indent, m, match m with Break => br | Flat => fl end) :: local') rest'
      | DGroup inner sb =>
          fits_fuel f remaining
            ((indent, (if sb then Break else Flat), inner) :: local') rest'
      end
    end
  end.

(* pretty.rs:244  entry point: local = vec![(indent, Mode::Flat, group_inner)];
   remaining: usize is cast `as isize` (the wrap for values >= 2^63 is not modelled). *)
Definition fits (fuel : nat) (remaining : nat) (indent : nat) (inner : doc) (rest : list frame)
  : option bool :=
  fits_fuel fuel (Z.of_nat remaining) [(indent, Flat, inner)] rest.

(* ---- the print loop ---- *)

(* Output of the loop before it is turned into characters: `out.push_str(s)` = TText s,
   `out.push(' ')` = TSpace, `newline(&mut out, indent)` (pretty.rs:233) = TNewline indent. *)
Inductive token := TText (s : list Z) | TSpace | TNewline (indent : nat).

(* pretty.rs:122-184  the `loop` of pub fn print(doc: &Doc, width: usize) -> String.
   `out` is the token list in REVERSE order (accumulator); None = out of fuel.
   The fuel handed to `fits` is the loop's own remaining fuel (always sufficient, see
   PrettyProofs.layout_fuel_total). `width.saturating_sub(col)` is nat subtraction. *)
Fixpoint layout_fuel (fuel : nat) (width : nat) (stack sfx : list frame) (col : nat)
         (out : list token) {struct fuel} : option (list token) :=
  match fuel with
  | O => None
  | S f =>
    match stack with
    | [] =>
      (* l.129-136: stack empty: stop, or flush the buffered trailing comments *)
      match sfx with
      | [] => Some (rev out)
      | _ :: _ => layout_fuel f width sfx [] col out
      end
    | (indent, m, d) :: rest =>
      (* l.151-165: a real line break *)
      (* a thunk, so that the extracted (strict) OCaml evaluates only the branch taken *)
      let brk := fun (_ : unit) =>
        match sfx with
        | [] => layout_fuel f width rest [] indent (TNewline indent :: out)
        | _ :: _ => layout_fuel f width (sfx ++ (indent, m, d) :: rest) [] col out
        end in
      match d with
      | DNil | DBreakParent => layout_fuel f width rest sfx col out
      | DText s => layout_fuel f width rest sfx (col + length s)%nat (TText s :: out)
      | DConcat ds =>
          layout_fuel f width (map (fun c => (indent, m, c)) ds ++ rest) sfx col out
      | DNest extra inner =>
          layout_fuel f width (((indent + extra)%nat, m, inner) :: rest) sfx col out
      | DLineSuffix inner =>
          layout_fuel f width rest (sfx ++ [(indent, m, inner)]) col out
      | DLine =>
          match m with
          | Flat => layout_fuel f width rest sfx (col + 1)%nat (TSpace :: out)
          | Break => brk tt
          end
      | DSoftLine =>
          match m with
          | Flat => layout_fuel f width rest sfx col out
          | Break => brk tt
          end
      | DHardLine => brk tt
      | DIfBreak br fl =>
          layout_fuel f width
            ((indent, m, match m with Break => br | Flat => fl end) :: rest) sfx col out
      | DGroup inner sb =>
          (* l.173-180: should_break || !fits(width.saturating_sub(col), indent, inner, &stack) *)
          if sb then layout_fuel f width ((indent, Break, inner) :: rest) sfx col out
          else
            match fits fuel (width - col)%nat indent inner rest with
            | None => None
            | Some fb =>
                layout_fuel f width
                  ((indent, (if fb then Flat else Break), inner) :: rest) sfx col out
            end
      end
    end
  end.

(* pretty.rs:122-128  initial state: out = "", col = 0, stack = [(0, Break, doc)], suffixes = [] *)
Definition layout (d : doc) (width : nat) : option (list token) :=
  layout_fuel (enough_fuel d) width [(0%nat, Break, d)] [] 0%nat [].

(* pretty.rs:233  fn newline(out: &mut String, indent: usize) -> usize  (LF then `indent` spaces) *)
Fixpoint render (ts : list token) : list Z :=
  match ts with
  | [] => []
  | TText s :: t => s ++ render t
  | TSpace :: t => 32 :: render t
  | TNewline i :: t => 10 :: repeat 32 i ++ render t
  end.

(* ---- strip_trailing_whitespace ---- *)

(* char::is_whitespace (Unicode White_Space), used by str::trim_end *)
(* the characters stripped at the end of a line: pretty.rs:301 `line.trim_end_matches([' ', '\t'])` — only space
   and tab since the F18 repair (commit 868b2cc); before, `trim_end()` stripped all Unicode White_Space *)
Definition is_ws (c : Z) : bool := (c =? 32) || (c =? 9).

(* str::trim_end_matches([' ', '\t']) *)
Fixpoint trim_end (l : list Z) : list Z :=
  match l with
  | [] => []
  | c :: t =>
    match trim_end t with
    | [] => if is_ws c then [] else [c]
    | t' => c :: t'
    end
  end.

(* str::lines: LF is a line TERMINATOR (no final empty line; "" has no lines); a line that was terminated by LF
   additionally loses ONE trailing CR (`strip_suffix('\n')` then `strip_suffix('\r')`); an unterminated last line
   keeps it. `cur` is the current line, reversed. *)
Definition drop_cr (cur : list Z) : list Z :=
  match cur with c :: r => if c =? 13 then r else cur | [] => [] end.
Fixpoint split_lines_aux (cur : list Z) (s : list Z) : list (list Z) :=
  match s with
  | [] => match cur with [] => [] | _ :: _ => [rev cur] end
  | c :: t => if c =? 10 then rev (drop_cr cur) :: split_lines_aux [] t
              else split_lines_aux (c :: cur) t
  end.
Definition split_lines (s : list Z) : list (list Z) := split_lines_aux [] s.

(* [&str]::join("\n") *)
Fixpoint join_lf (ls : list (list Z)) : list Z :=
  match ls with
  | [] => []
  | l :: rest => match rest with [] => l | _ :: _ => l ++ 10 :: join_lf rest end
  end.

(* pretty.rs:297  fn strip_trailing_whitespace(s: &str) -> String
     s.lines().map(|line| line.trim_end_matches([' ', '\t'])).collect::<Vec<_>>().join("\n") *)
Definition strip_trailing_whitespace (s : list Z) : list Z :=
  join_lf (map trim_end (split_lines s)).

(* pretty.rs:122  pub fn print(doc: &Doc, width: usize) -> String *)
Definition print (d : doc) (width : nat) : option (list Z) :=
  option_map (fun ts => strip_trailing_whitespace (render ts)) (layout d width).

(* ---- helpers for the statements in PrettyProofs.v ---- *)

(* the Text payloads of a token stream, in order *)
Fixpoint texts (ts : list token) : list (list Z) :=
  match ts with
  | [] => []
  | TText s :: t => s :: texts t
  | _ :: t => texts t
  end.

(* no LineSuffix anywhere in the doc *)
Fixpoint suffix_free (d : doc) : bool :=
  match d with
  | DNil | DText _ | DLine | DSoftLine | DHardLine | DBreakParent => true
  | DConcat ds => forallb suffix_free ds
  | DNest _ inner => suffix_free inner
  | DGroup inner _ => suffix_free inner
  | DIfBreak br fl => suffix_free br && suffix_free fl
  | DLineSuffix _ => false
  end.
