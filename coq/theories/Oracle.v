(* Oracle.v — the four C09 statements as executable checks over the enumerated universe.
   Given a registry and an ANSWER (of the real functions), each returns the first counterexample
   value, if any.  Used by ./check C09 on the real functions' answers (semantic oracle). *)
From Quiver Require Import Base Types Sem.
From Coq Require Import Arith.
Close Scope Z_scope.
Open Scope nat_scope.

Section Oracle.
  Variable P : registry.
  Variables k cap n : nat.

  Definition en (t : nat) : list value := enum_inhab P k cap n [] t.
  Definition mem (v : value) (t : nat) : bool := inhabb P k cap n [] v t.

  (* is_compatible a b = true  must imply  every enumerated value of a is a value of b *)
  Definition cex_sound (a b : nat) : option value := find (fun v => negb (mem v b)) (en a).
  (* types_overlap a b = false  must imply  no enumerated value of either side is in the other *)
  Definition cex_disjoint (a b : nat) : option value :=
    match find (fun v => mem v b) (en a) with
    | Some v => Some v
    | None => find (fun v => mem v a) (en b)
    end.
  (* r = intersect_types a b  must keep every value that is in both *)
  Definition cex_intersect (a b r : nat) : option value :=
    find (fun v => mem v b && negb (mem v r)) (en a).
  (* r = compute_complement o nr  must keep every value of o that is not in nr *)
  Definition cex_complement (o nr r : nat) : option value :=
    find (fun v => negb (mem v nr) && negb (mem v r)) (en o).
  (* r = filter_variants_by_field parent idx must (after a runtime test of field idx against `must`
     succeeded) must keep every value of parent whose field idx is a value of `must` *)
  Definition cex_filter (parent idx must r : nat) : option value :=
    find (fun v => match v with
                   | VTup _ fs => match nth_error fs idx with
                                  | Some f => mem (snd f) must && negb (mem v r)
                                  | None => false
                                  end
                   | _ => false
                   end) (en parent).
  Definition count (t : nat) : nat := length (en t).
End Oracle.
