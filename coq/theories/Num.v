(* Num.v — executable model of /repo/std/num.qv (the `%num` module), clause by clause.

   Numbers are integers, rationals `Rational[n, d]` and single-radical surds `Surd[a, b, n]`
   (a + b·√n); nil (`[]`) is `None`.  Every function below quotes the num.qv lines it mirrors.

   Semantics used (docs/spec.md): a sequence short-circuits to nil when a step is nil; a block's
   branches are tried in order, a failing *condition* (left of `=>`) falls to the next branch, a
   consequence's value (even nil) ends the block; `=pattern` yields Ok / nil; a bare binder `=x`
   always succeeds; `^` is a self tail call.

   Builtins (quiver-core/src/builtins/integer.rs, proved against their specs in C12):
   add/subtract/multiply exact on Z; divide/modulo = Z.quot/Z.rem and **Err InvalidArgument** on a
   zero divisor (integer.rs:236-262); sqrt = Z.sqrt and Err InvalidArgument on a negative
   (integer.rs:129); gcd = Z.gcd (non-negative); compare ∈ {-1,0,1}; abs.  A builtin applied to a
   non-integer (nil) is Err TypeMismatch.  Hence every kernel function returns an `outcome`, and
   "never a runtime error" is a theorem (NumProofs.v), not an artefact of totality. *)
From Quiver Require Import Base.

(* ---------------------------------------------------------------- values *)
Inductive rat := Rat (n d : Z).                       (* 'rational = Rational['int,'int]  num.qv:23 *)
Inductive coeff := CInt (z : Z) | CRat (n d : Z).     (* 'coeff = 'int | 'rational       num.qv:24 *)
Inductive num := NC (c : coeff) | NSurd (a b : coeff) (n : Z).  (* ' = 'coeff | 'surd    num.qv:25-26 *)
Definition opt := option num.                         (* 'opt = ' | []                   num.qv:34 *)

Definition NInt (z : Z) : num := NC (CInt z).
Definition NRat (n d : Z) : num := NC (CRat n d).
Definition rat_coeff (r : rat) : coeff := let '(Rat n d) := r in CRat n d.

(* Result of an exported operation as a Quiver value: nil, a number, or the tuple `Ok`. *)
Inductive res := RNil | RNum (x : num) | ROk.
Definition res_of_opt (o : option num) : res := match o with Some x => RNum x | None => RNil end.
Definition res_of_optz (o : option Z) : res := match o with Some z => RNum (NInt z) | None => RNil end.

(* fuel exhaustion is reported as a Panic with this site; proved unreachable *)
Definition FUEL : nat := 900%nat.

(* ---------------------------------------------------------------- builtins *)
Definition bi_compare (a b : Z) : Z := match a ?= b with Lt => -1 | Eq => 0 | Gt => 1 end.
Definition bi_divide (a b : Z) : outcome Z := if b =? 0 then Err InvalidArgument else Val (Z.quot a b).
Definition bi_modulo (a b : Z) : outcome Z := if b =? 0 then Err InvalidArgument else Val (Z.rem a b).
Definition bi_sqrt (a : Z) : outcome Z := if a <? 0 then Err InvalidArgument else Val (Z.sqrt a).
Definition bi_gcd (a b : Z) : Z := Z.gcd a b.
Definition bi_abs (a : Z) : Z := Z.abs a.

(* ---------------------------------------------------------------- rational kernel *)

(* num.qv:39-50
   reduce = #'rational { =Rational[n, d]
     { | [d, 0] __integer_compare__ =-1 => { Rational[n*-1, d*-1] ^ }
       | { g = [n, d] __integer_gcd__, Rational[[n, g] __integer_divide__, [d, g] __integer_divide__] } } }
   The self tail call happens at most once; fuel 2 suffices (reduce_fuel_ok). *)
Fixpoint reduce_f (fuel : nat) (r : rat) : outcome rat :=
  match fuel with
  | O => Panic FUEL
  | S f =>
    let '(Rat n d) := r in
    if bi_compare d 0 =? -1 then reduce_f f (Rat (n * -1) (d * -1))
    else
      let g := bi_gcd n d in
      n' <- bi_divide n g ;; d' <- bi_divide d g ;; Val (Rat n' d')
  end.
Definition reduce (r : rat) : outcome rat := reduce_f 2 r.

(* num.qv:54  lower = #'coeff { =Rational[n, 1] => n | =x => x } *)
Definition lower (c : coeff) : coeff :=
  match c with
  | CRat n d => if d =? 1 then CInt n else c
  | x => x
  end.

(* num.qv:57-60  to_rational = #'coeff { | =Rational[n, d] => Rational[n, d] | =n => Rational[n, 1] } *)
Definition to_rational (c : coeff) : rat :=
  match c with
  | CRat n d => Rat n d
  | CInt n => Rat n 1
  end.

(* num.qv:63  rsign = #'rational { =Rational[n, _] => [n, 0] __integer_compare__ } *)
Definition rsign (r : rat) : Z := let '(Rat n _) := r in bi_compare n 0.

(* num.qv:66  rneg = #'rational { =Rational[n, d] => Rational[[n, -1] __integer_multiply__, d] reduce } *)
Definition rneg (r : rat) : outcome rat := let '(Rat n d) := r in reduce (Rat (n * -1) d).

(* num.qv:69-91 *)
Definition radd (x y : rat) : outcome rat :=
  let '(Rat a b) := x in let '(Rat c d) := y in reduce (Rat (a * d + c * b) (b * d)).
Definition rsub (x y : rat) : outcome rat :=
  let '(Rat a b) := x in let '(Rat c d) := y in reduce (Rat (a * d - c * b) (b * d)).
Definition rmul (x y : rat) : outcome rat :=
  let '(Rat a b) := x in let '(Rat c d) := y in reduce (Rat (a * c) (b * d)).
Definition rquot (x y : rat) : outcome rat :=
  let '(Rat a b) := x in let '(Rat c d) := y in reduce (Rat (a * d) (b * c)).

(* num.qv:95-98  rcompare: [[a, d] mul, [c, b] mul] __integer_compare__ *)
Definition rcompare (x y : rat) : Z :=
  let '(Rat a b) := x in let '(Rat c d) := y in bi_compare (a * d) (c * b).

(* ---------------------------------------------------------------- surd kernel *)

(* num.qv:104-119
   sqfree = #['int,'int,'int] { =[k, m, d]
     { | [[d, d] mul, m] compare ~> =1 => [k, m]
       | [m, [d, d] mul] modulo ~> =0 => { [[k, d] mul, [m, [d, d] mul] divide, d] ^ }
       | [k, m, [d, 1] add] ^ } }
   One clause evaluation = sqfree_step: either the result (inr) or the argument of the tail call
   (inl).  The loop is run with "power fuel": sqfree_pow n performs at most 2^n steps and stops at
   the first result, so the extracted model stays fast (sqfree_fuel_ok: the fuel passed by
   `sqfree` always suffices for m >= 0, d >= 2... see NumProofs). *)
Definition sqstate := (Z * Z * Z)%type.
Definition sqfree_step (s : sqstate) : sqstate + outcome (Z * Z) :=
  let '(k, m, d) := s in
  if bi_compare (d * d) m =? 1 then inr (Val (k, m))
  else
    match bi_modulo m (d * d) with
    | Val r =>
      if r =? 0 then
        match bi_divide m (d * d) with
        | Val q => inl (k * d, q, d)
        | Err e => inr (Err e)
        | Panic p => inr (Panic p)
        end
      else inl (k, m, d + 1)
    | Err e => inr (Err e)
    | Panic p => inr (Panic p)
    end.
Fixpoint sqfree_pow (n : nat) (s : sqstate) : sqstate + outcome (Z * Z) :=
  match n with
  | O => sqfree_step s
  | S n' =>
    match sqfree_pow n' s with
    | inl s' => sqfree_pow n' s'
    | inr r => inr r
    end
  end.
Definition sqfree_fuel (m : Z) : nat := S (S (Z.to_nat (Z.log2 m))).
Definition sqfree (k m d : Z) : outcome (Z * Z) :=
  match sqfree_pow (sqfree_fuel m) (k, m, d) with
  | inr r => r
  | inl _ => Panic FUEL
  end.

(* num.qv:123-126
   explode = #' { | =Surd[a, b, n] => [a to_rational, b to_rational, n]
                  | =r => [r to_rational, Rational[0, 1], 1] } *)
Definition explode (x : num) : rat * rat * Z :=
  match x with
  | NSurd a b n => (to_rational a, to_rational b, n)
  | NC r => (to_rational r, Rat 0 1, 1)
  end.

(* num.qv:130-138
   radical = #[...] { =[b1, n1, b2, n2]
     { | b1 rsign =0 => n2 | b2 rsign =0 => n1 | [n1, n2] compare =0 => n1 | [] } } *)
Definition radical (b1 : rat) (n1 : Z) (b2 : rat) (n2 : Z) : option Z :=
  if rsign b1 =? 0 then Some n2
  else if rsign b2 =? 0 then Some n1
  else if bi_compare n1 n2 =? 0 then Some n1
  else None.

(* num.qv:143-150
   build = #[...] { =[a, b, n]
     { | [n, 1] compare =0 => [a, b] radd lower | b rsign =0 => a lower | Surd[a lower, b lower, n] } } *)
Definition build (a b : rat) (n : Z) : outcome num :=
  if bi_compare n 1 =? 0 then r <- radd a b ;; Val (NC (lower (rat_coeff r)))
  else if rsign b =? 0 then Val (NC (lower (rat_coeff a)))
  else Val (NSurd (lower (rat_coeff a)) (lower (rat_coeff b)) n).

(* num.qv:154-176  ssign *)
Definition ssign (a b : rat) (n : Z) : outcome Z :=
  let sb := rsign b in
  if bi_compare sb 0 =? 0 then Val (rsign a)
  else
    a2 <- rmul a a ;;
    bb <- rmul b b ;;
    b2n <- rmul bb (Rat n 1) ;;
    let dsign := rcompare a2 b2n in
    let sa := rsign a in
    if bi_compare sb 0 =? 1 then
      (if bi_compare sa 0 =? -1 then Val (dsign * -1) else Val 1)
    else
      (if bi_compare sa 0 =? 1 then Val dsign else Val (-1)).

(* num.qv:180-236: the five surd-aware binary operations share their prologue
     =[x, y], x explode =[a1,b1,n1], y explode =[a2,b2,n2], [b1,n1,b2,n2] radical =('int)n
   (the type-ascribed binder fails on nil, which short-circuits the function to nil). *)
Definition with_radical {A} (x y : num)
    (k : rat -> rat -> rat -> rat -> Z -> outcome (option A)) : outcome (option A) :=
  let '(a1, b1, n1) := explode x in
  let '(a2, b2, n2) := explode y in
  match radical b1 n1 b2 n2 with
  | None => Val None
  | Some n => k a1 b1 a2 b2 n
  end.

Definition surd_add (x y : num) : outcome (option num) :=
  with_radical x y (fun a1 b1 a2 b2 n =>
    a <- radd a1 a2 ;; b <- radd b1 b2 ;; r <- build a b n ;; Val (Some r)).
Definition surd_sub (x y : num) : outcome (option num) :=
  with_radical x y (fun a1 b1 a2 b2 n =>
    a <- rsub a1 a2 ;; b <- rsub b1 b2 ;; r <- build a b n ;; Val (Some r)).
(* num.qv:195-205 *)
Definition surd_mul (x y : num) : outcome (option num) :=
  with_radical x y (fun a1 b1 a2 b2 n =>
    a1a2 <- rmul a1 a2 ;; b1b2 <- rmul b1 b2 ;; b1b2n <- rmul b1b2 (Rat n 1) ;;
    a <- radd a1a2 b1b2n ;;
    a1b2 <- rmul a1 b2 ;; a2b1 <- rmul a2 b1 ;;
    b <- radd a1b2 a2b1 ;;
    r <- build a b n ;; Val (Some r)).
(* num.qv:207-229 *)
Definition surd_div (x y : num) : outcome (option num) :=
  with_radical x y (fun a1 b1 a2 b2 n =>
    a2a2 <- rmul a2 a2 ;; b2b2 <- rmul b2 b2 ;; b2b2n <- rmul b2b2 (Rat n 1) ;;
    dd <- rsub a2a2 b2b2n ;;
    if rsign dd =? 0 then Val None
    else
      a1a2 <- rmul a1 a2 ;; b1b2 <- rmul b1 b2 ;; b1b2n <- rmul b1b2 (Rat n 1) ;;
      na <- rsub a1a2 b1b2n ;;
      a <- rquot na dd ;;
      b1a2 <- rmul b1 a2 ;; a1b2 <- rmul a1 b2 ;;
      nb <- rsub b1a2 a1b2 ;;
      b <- rquot nb dd ;;
      r <- build a b n ;; Val (Some r)).
(* num.qv:230-236 *)
Definition surd_compare (x y : num) : outcome (option Z) :=
  with_radical x y (fun a1 b1 a2 b2 n =>
    a <- rsub a1 a2 ;; b <- rsub b1 b2 ;; s <- ssign a b n ;; Val (Some s)).

(* num.qv:240-248  compare = #['opt,'opt] { | =[[], _] => [] | =[_, []] => [] | =[Surd..., y] => ...
     | =[x, Surd...] => ... | =[Rational[a,b], y] => [.., y to_rational] rcompare
     | =[x, Rational[c,d]] => [x to_rational, ..] rcompare | =[x, y] => [x, y] __integer_compare__ } *)
Definition compare (x y : opt) : outcome (option Z) :=
  match x, y with
  | None, _ => Val None
  | _, None => Val None
  | Some (NSurd a b n), Some y' => surd_compare (NSurd a b n) y'
  | Some x', Some (NSurd a b n) => surd_compare x' (NSurd a b n)
  | Some (NC (CRat a b)), Some (NC y') => Val (Some (rcompare (Rat a b) (to_rational y')))
  | Some (NC x'), Some (NC (CRat c d)) => Val (Some (rcompare (to_rational x') (Rat c d)))
  | Some (NC (CInt x')), Some (NC (CInt y')) => Val (Some (bi_compare x' y'))
  end.

(* num.qv:255-279  to_int *)
Definition to_int (x : opt) : outcome (option Z) :=
  match x with
  | Some (NSurd a b n) =>
    let ar := to_rational a in
    let br := to_rational b in
    sgn <- ssign ar br n ;;
    pr <- (if bi_compare sgn 0 =? -1
           then (ra <- rneg ar ;; rb <- rneg br ;; Val (ra, rb))
           else Val (ar, br)) ;;
    let '(Rat pa qa, Rat pb qb) := pr in
    let p := pa * qb in
    let q := pb * qa in
    let d := qa * qb in
    s <- bi_sqrt (q * q * n) ;;
    let nlo := if bi_compare q 0 =? 1 then p + s else p - (s + 1) in
    t <- bi_divide nlo d ;;
    Val (Some (sgn * t))
  | Some (NC c) =>
    let '(Rat m d) := to_rational c in
    t <- bi_divide m d ;; Val (Some t)
  | None => Val None      (* neither clause matches nil: the block evaluates to nil *)
  end.

Definition optz_num (t : option Z) : opt := option_map NInt t.
(* a builtin applied to [t, 1] where t is nil: TypeMismatch (integer.rs extract_two_bigints) *)
Definition need_int (t : option Z) (k : Z -> outcome (option Z)) : outcome (option Z) :=
  match t with Some z => k z | None => Err TypeMismatch end.

(* num.qv:282  sign = #'opt { [$, 0] compare } *)
Definition sign (x : opt) : outcome (option Z) := compare x (Some (NInt 0)).

(* num.qv:285-289
   min = #['opt,'opt] { | =([[], _] | [_, []]) => [] | compare =1 => $1 | $0 } *)
Definition min (x y : opt) : outcome opt :=
  match x, y with
  | None, _ => Val None
  | _, None => Val None
  | _, _ => c <- compare x y ;;
            match c with Some 1 => Val y | _ => Val x end
  end.
(* num.qv:290-294 *)
Definition max (x y : opt) : outcome opt :=
  match x, y with
  | None, _ => Val None
  | _, None => Val None
  | _, _ => c <- compare x y ;;
            match c with Some (-1) => Val y | _ => Val x end
  end.
(* num.qv:297-304 *)
Definition clamp (x lo hi : opt) : outcome opt :=
  match x, lo, hi with
  | None, _, _ => Val None
  | _, None, _ => Val None
  | _, _, None => Val None
  | _, _, _ =>
    c1 <- compare x lo ;;
    match c1 with
    | Some (-1) => Val lo
    | _ => c2 <- compare x hi ;;
           match c2 with Some 1 => Val hi | _ => Val x end
    end
  end.

(* F14 (known finding): `min`, `max`, `clamp` above mirror the code as written: when `compare` is
   nil (operands with different radicals) the guard `=1` fails and control falls to the default
   branch, so the FIRST operand is returned instead of nil.  The `_fixed` variants are the intended
   behaviour (nil whenever a needed comparison is nil); NumProofs proves the mixed-radical theorem
   for them and a `_refuted` witness for the coded ones.  The check uses whichever variant the real
   module currently implements (probe), and reports F14 while it is the coded one. *)
Definition min_fixed (x y : opt) : outcome opt :=
  match x, y with
  | None, _ => Val None
  | _, None => Val None
  | _, _ => c <- compare x y ;;
            match c with None => Val None | Some 1 => Val y | _ => Val x end
  end.
Definition max_fixed (x y : opt) : outcome opt :=
  match x, y with
  | None, _ => Val None
  | _, None => Val None
  | _, _ => c <- compare x y ;;
            match c with None => Val None | Some (-1) => Val y | _ => Val x end
  end.
Definition clamp_fixed (x lo hi : opt) : outcome opt :=
  match x, lo, hi with
  | None, _, _ => Val None
  | _, None, _ => Val None
  | _, _, None => Val None
  | _, _, _ =>
    c1 <- compare x lo ;;
    match c1 with
    | None => Val None
    | Some (-1) => Val lo
    | _ => c2 <- compare x hi ;;
           match c2 with None => Val None | Some 1 => Val hi | _ => Val x end
    end
  end.

(* num.qv:309-315  floor = #'opt { t = $ to_int, { | [$, t] compare =-1 => [t, 1] subtract | t } } *)
Definition floor (x : opt) : outcome (option Z) :=
  t <- to_int x ;;
  c <- compare x (optz_num t) ;;
  match c with
  | Some (-1) => need_int t (fun z => Val (Some (z - 1)))
  | _ => Val t
  end.
(* num.qv:316-322 *)
Definition ceil (x : opt) : outcome (option Z) :=
  t <- to_int x ;;
  c <- compare x (optz_num t) ;;
  match c with
  | Some 1 => need_int t (fun z => Val (Some (z + 1)))
  | _ => Val t
  end.

(* num.qv:327-338
   round = #'opt { | =[] => [] | floor =f => { mid = f [~,2] mul [~,1] add Rational[~, 2]
     { | [$, mid] compare =1 => [f,1] add | [$, mid] compare =-1 => f
       | [f, 0] __integer_compare__ =-1 => f | [f, 1] add } } } *)
Definition round (x : opt) : outcome (option Z) :=
  match x with
  | None => Val None
  | Some _ =>
    fo <- floor x ;;
    need_int fo (fun f =>
      let mid := Some (NRat (f * 2 + 1) 2) in
      c1 <- compare x mid ;;
      match c1 with
      | Some 1 => Val (Some (f + 1))
      | _ =>
        c2 <- compare x mid ;;
        match c2 with
        | Some (-1) => Val (Some f)
        | _ => if bi_compare f 0 =? -1 then Val (Some f) else Val (Some (f + 1))
        end
      end)
  end.

(* ---------------------------------------------------------------- the exported record  num.qv:340-454 *)

(* num.qv:341-345 *)
Definition numer (x : opt) : outcome (option Z) :=
  match x with
  | Some (NSurd _ _ _) => Val None
  | Some (NC (CRat n _)) => Val (Some n)
  | Some (NC (CInt z)) => Val (Some z)
  | None => Val None
  end.
(* num.qv:346-350 *)
Definition denom (x : opt) : outcome (option Z) :=
  match x with
  | Some (NSurd _ _ _) => Val None
  | Some (NC (CRat _ d)) => Val (Some d)
  | Some (NC (CInt _)) => Val (Some 1)
  | None => Val None
  end.

(* num.qv:354-367 *)
Definition sqrt (x : opt) : outcome opt :=
  match x with
  | Some (NSurd _ _ _) => Val None
  | Some (NC c) =>
    let '(Rat p q) := to_rational c in
    if bi_compare p 0 =? -1 then Val None
    else if bi_compare p 0 =? 0 then Val (Some (NInt 0))
    else
      km <- sqfree 1 (p * q) 2 ;;
      let '(k, m) := km in
      b <- reduce (Rat k q) ;;
      r <- build (Rat 0 1) b m ;;
      Val (Some r)
  | None => Val None
  end.

(* num.qv:372-395: add/sub/mul share the dispatch; `rop` is radd/rsub/rmul, `sop` the surd kernel
   entry, `iop` the integer builtin. *)
Definition arith (sop : num -> num -> outcome (option num)) (rop : rat -> rat -> outcome rat)
                 (iop : Z -> Z -> Z) (x y : opt) : outcome opt :=
  match x, y with
  | None, _ => Val None
  | _, None => Val None
  | Some (NSurd a b n), Some y' => sop (NSurd a b n) y'
  | Some x', Some (NSurd a b n) => sop x' (NSurd a b n)
  | Some (NC (CRat a b)), Some (NC y') => r <- rop (Rat a b) (to_rational y') ;; Val (Some (NC (rat_coeff r)))
  | Some (NC x'), Some (NC (CRat c d)) => r <- rop (to_rational x') (Rat c d) ;; Val (Some (NC (rat_coeff r)))
  | Some (NC (CInt a)), Some (NC (CInt b)) => Val (Some (NInt (iop a b)))
  end.
Definition add := arith surd_add radd Z.add.
Definition sub := arith surd_sub rsub Z.sub.
Definition mul := arith surd_mul rmul Z.mul.

(* num.qv:399-413 *)
Definition div (x y : opt) : outcome opt :=
  match x, y with
  | None, _ => Val None
  | _, None => Val None
  | Some (NSurd a b n), Some y' => surd_div (NSurd a b n) y'
  | Some x', Some (NSurd a b n) => surd_div x' (NSurd a b n)
  | Some (NC x'), Some (NC y') =>
    let '(Rat a b) := to_rational x' in
    let '(Rat c d) := to_rational y' in
    if c =? 0 then Val None
    else r <- reduce (Rat (a * d) (b * c)) ;; Val (Some (NC (rat_coeff r)))
  end.

(* num.qv:416-420 *)
Definition neg (x : opt) : outcome opt :=
  match x with
  | Some (NSurd a b n) =>
    ra <- rneg (to_rational a) ;; rb <- rneg (to_rational b) ;; r <- build ra rb n ;; Val (Some r)
  | Some (NC (CRat m d)) => r <- reduce (Rat (m * -1) d) ;; Val (Some (NC (rat_coeff r)))
  | Some (NC (CInt z)) => Val (Some (NInt (z * -1)))
  | None => Val None
  end.

(* num.qv:423-434 *)
Definition abs (x : opt) : outcome opt :=
  match x with
  | Some (NSurd a b n) =>
    let ar := to_rational a in
    let br := to_rational b in
    s <- ssign ar br n ;;
    if s =? -1 then ra <- rneg ar ;; rb <- rneg br ;; r <- build ra rb n ;; Val (Some r)
    else Val (Some (NSurd a b n))
  | Some (NC (CRat m d)) => Val (Some (NRat (bi_abs m) d))
  | Some (NC (CInt z)) => Val (Some (NInt (bi_abs z)))
  | None => Val None
  end.

(* num.qv:449-453  eq?: #['opt,'opt] { compare =0, Ok } etc.: Ok (true) or nil (false) *)
Definition pred (ok : Z -> bool) (x y : opt) : outcome bool :=
  c <- compare x y ;; match c with Some z => Val (ok z) | None => Val false end.
Definition eqp := pred (fun z => z =? 0).
Definition ltp := pred (fun z => z =? -1).
Definition lep := pred (fun z => (z =? -1) || (z =? 0)).
Definition gtp := pred (fun z => z =? 1).
Definition gep := pred (fun z => (z =? 0) || (z =? 1)).

(* ---------------------------------------------------------------- literal desugaring
   quiver-compiler/src/parser.rs:555-562 reduce_rational (denominator > 0 by construction):
     g = gcd(numer, denom); if g == 0 { (numer, denom) } else { (numer / g, denom / g) } *)
Definition lit_reduce (n d : Z) : rat :=
  let g := Z.gcd n d in
  if g =? 0 then Rat n d else Rat (Z.quot n g) (Z.quot d g).

(* ---------------------------------------------------------------- uniform entry point for the driver *)
Inductive opname :=
| OAdd | OSub | OMul | ODiv | ONeg | OAbs | OMin | OMax | OClamp | OSign | OSqrt | ONumer | ODenom
| OToInt | OFloor | OCeil | ORound | OEq | OLt | OLe | OGt | OGe
| OMinFixed | OMaxFixed | OClampFixed.

Definition arg (l : list opt) (i : nat) : opt := nth i l None.
Definition rb (o : outcome bool) : outcome res := b <- o ;; Val (if b then ROk else RNil).
Definition rn (o : outcome opt) : outcome res := r <- o ;; Val (res_of_opt r).
Definition rz (o : outcome (option Z)) : outcome res := r <- o ;; Val (res_of_optz r).

Definition run_op (o : opname) (l : list opt) : outcome res :=
  let x := arg l 0 in let y := arg l 1 in let z := arg l 2 in
  match o with
  | OAdd => rn (add x y) | OSub => rn (sub x y) | OMul => rn (mul x y) | ODiv => rn (div x y)
  | ONeg => rn (neg x) | OAbs => rn (abs x) | OMin => rn (min x y) | OMax => rn (max x y)
  | OClamp => rn (clamp x y z) | OSign => rz (sign x) | OSqrt => rn (sqrt x)
  | ONumer => rz (numer x) | ODenom => rz (denom x) | OToInt => rz (to_int x)
  | OFloor => rz (floor x) | OCeil => rz (ceil x) | ORound => rz (round x)
  | OMinFixed => rn (min_fixed x y) | OMaxFixed => rn (max_fixed x y) | OClampFixed => rn (clamp_fixed x y z)
  | OEq => rb (eqp x y) | OLt => rb (ltp x y) | OLe => rb (lep x y) | OGt => rb (gtp x y) | OGe => rb (gep x y)
  end.
